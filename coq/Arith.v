(* Semantics of the integer-operator arms of eval.rs (`eval_int_binop`,
   `eval_assign_update`).  WHICH Rust operation each arm uses is not written
   here: it comes from gen/Tables.v, regenerated from the Rust source by
   tools/gen_tables.py on every run.  This file gives each Rust operation its
   meaning (Rust reference semantics: modelled, not verified). *)
From Coq Require Import ZArith Bool List.
From Garden Require Import Base.Int64.
Import ListNotations.
Open Scope Z_scope.

(* The binary operator kinds that reach eval_int_binop. *)
Inductive int_op :=
| OAdd | OSub | OMul | ODiv | OMod | OPow | OBitAnd | OBitOr | OLt | OGt | OLe | OGe.

Inductive upd_op := UAdd | USub.

(* Guards: `if COND { return Err(..exception..) }` statements that precede the
   core computation of an arm, in source order. *)
Inductive guard :=
| GRhsZero            (* rhs_num == 0 *)
| GRhsNeg             (* rhs_num < 0 *)
| GRhsGtU32           (* rhs_num > u32::MAX as i64 *)
| GMinDivNegOne       (* lhs_num == i64::MIN && rhs_num == -1 *)
| GRhsGtU32BigBase    (* rhs_num > u32::MAX as i64 && lhs_num.unsigned_abs() > 1 *)
| GUnknown.           (* a guard the translator does not recognise *)

(* Core computations on (lhs_num, rhs_num). *)
Inductive core :=
| CWrapAdd | CWrapSub | CWrapMul            (* lhs.wrapping_op(rhs) *)
| CPlainAdd | CPlainSub | CPlainMul         (* lhs op rhs: overflow panics with overflow checks, wraps without *)
| CPlainDiv | CPlainRem                     (* lhs / rhs, lhs % rhs: panic on 0 and on MIN/-1 *)
| CCheckedAdd | CCheckedSub | CCheckedMul   (* checked_op: None -> exception *)
| CCheckedDiv | CCheckedRem | CCheckedRemEuclid
| CWrapDiv | CWrapRem | CWrapRemEuclid      (* wrapping_div etc.: panic on 0 only *)
| CCheckedPowU32                            (* lhs.checked_pow(rhs as u32) *)
| CCheckedPowParity                         (* lhs.checked_pow((if rhs > u32::MAX { 2 + rhs % 2 } else { rhs }) as u32) *)
| CBitAnd | CBitOr
| CLt | CGt | CLe | CGe
| CUnknown.

Record arm := { guards : list guard; body : core }.

Inductive res := Val (z : Z) | ValB (b : bool) | Exn | Panic.

Definition guard_fires (g : guard) (a b : Z) : option bool :=
  match g with
  | GRhsZero => Some (b =? 0)
  | GRhsNeg => Some (b <? 0)
  | GRhsGtU32 => Some (u32max <? b)
  | GMinDivNegOne => Some ((a =? min64) && (b =? -1))
  | GRhsGtU32BigBase => Some ((u32max <? b) && (1 <? Z.abs a))
  | GUnknown => None
  end.

Definition plain (oc : bool) (z : Z) : res :=
  if in64 z then Val z else if oc then Panic else Val (wrap64 z).

Definition checked (z : Z) : res := if in64 z then Val z else Exn.

Definition of_opt (o : option Z) : res := match o with Some z => Val z | None => Exn end.

Definition core_sem (oc : bool) (c : core) (a b : Z) : res :=
  match c with
  | CWrapAdd => Val (wrap64 (a + b))
  | CWrapSub => Val (wrap64 (a - b))
  | CWrapMul => Val (wrap64 (a * b))
  | CPlainAdd => plain oc (a + b)
  | CPlainSub => plain oc (a - b)
  | CPlainMul => plain oc (a * b)
  | CPlainDiv => if b =? 0 then Panic else if (a =? min64) && (b =? -1) then Panic else Val (Z.quot a b)
  | CPlainRem => if b =? 0 then Panic else if (a =? min64) && (b =? -1) then Panic else Val (Z.rem a b)
  | CCheckedAdd => checked (a + b)
  | CCheckedSub => checked (a - b)
  | CCheckedMul => checked (a * b)
  | CCheckedDiv => if b =? 0 then Exn else checked (Z.quot a b)
  | CCheckedRem => if b =? 0 then Exn else if (a =? min64) && (b =? -1) then Exn else Val (Z.rem a b)
  | CCheckedRemEuclid => if b =? 0 then Exn else if (a =? min64) && (b =? -1) then Exn else Val (rem_euclid a b)
  | CWrapDiv => if b =? 0 then Panic else Val (wrap64 (Z.quot a b))
  | CWrapRem => if b =? 0 then Panic else Val (Z.rem a b)
  | CWrapRemEuclid => if b =? 0 then Panic else Val (rem_euclid a b)
  | CCheckedPowU32 => of_opt (checked_pow a (b mod 2 ^ 32))
  | CCheckedPowParity => of_opt (checked_pow a ((if u32max <? b then 2 + Z.rem b 2 else b) mod 2 ^ 32))
  | CBitAnd => Val (Z.land a b)
  | CBitOr => Val (Z.lor a b)
  | CLt => ValB (a <? b)
  | CGt => ValB (b <? a)
  | CLe => ValB (a <=? b)
  | CGe => ValB (b <=? a)
  | CUnknown => Panic
  end.

Fixpoint run_guards (gs : list guard) (a b : Z) : option bool :=
  match gs with
  | [] => Some false
  | g :: gs' =>
      match guard_fires g a b with
      | None => None
      | Some true => Some true
      | Some false => run_guards gs' a b
      end
  end.

(* Result of one arm on Int operands lhs = a, rhs = b.
   An unrecognised guard makes the arm's behaviour unknown: Panic. *)
Definition arm_sem (oc : bool) (m : arm) (a b : Z) : res :=
  match run_guards (guards m) a b with
  | None => Panic
  | Some true => Exn
  | Some false => core_sem oc (body m) a b
  end.
