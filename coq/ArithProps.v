(* Proofs about the integer-operator semantics (C04, C02 arithmetic part). *)
From Coq Require Import ZArith Bool List Lia.
From Garden Require Import Base.Int64 Arith ArithSpec.
Import ListNotations.
Open Scope Z_scope.

Lemma in64_iff z : in64 z = true <-> min64 <= z <= max64.
Proof. unfold in64. rewrite andb_true_iff, !Z.leb_le. tauto. Qed.

Lemma in64_false z : in64 z = false <-> (z < min64 \/ max64 < z).
Proof. unfold in64. rewrite andb_false_iff, !Z.leb_gt. tauto. Qed.

Lemma min64_val : min64 = -9223372036854775808. Proof. reflexivity. Qed.
Lemma max64_val : max64 = 9223372036854775807. Proof. reflexivity. Qed.
Lemma u32max_val : u32max = 4294967295. Proof. reflexivity. Qed.

Lemma wrap64_in z : in64 (wrap64 z) = true.
Proof.
  apply in64_iff. unfold wrap64. rewrite min64_val, max64_val.
  change (2 ^ 63) with 9223372036854775808. change (2 ^ 64) with 18446744073709551616.
  pose proof (Z.mod_pos_bound (z + 9223372036854775808) 18446744073709551616 eq_refl). lia.
Qed.

Lemma wrap64_id z : in64 z = true -> wrap64 z = z.
Proof.
  intros H. apply in64_iff in H. rewrite min64_val, max64_val in H. unfold wrap64.
  change (2 ^ 63) with 9223372036854775808. change (2 ^ 64) with 18446744073709551616.
  rewrite Z.mod_small by lia. lia.
Qed.

(* wrap64 z is congruent to z modulo 2^64: with wrap64_in this characterises
   two's-complement wrap-around. *)
Lemma wrap64_congr z : exists k, wrap64 z = z + k * 2 ^ 64.
Proof.
  unfold wrap64. change (2 ^ 63) with 9223372036854775808. change (2 ^ 64) with 18446744073709551616.
  exists (- ((z + 9223372036854775808) / 18446744073709551616)).
  pose proof (Z.div_mod (z + 9223372036854775808) 18446744073709551616 ltac:(lia)). lia.
Qed.

(* ---- division ---- *)
Lemma quot_abs_le a b : b <> 0 -> Z.abs b * Z.abs (Z.quot a b) <= Z.abs a.
Proof.
  intros Hb. rewrite <- Z.quot_abs by exact Hb. apply Z.mul_quot_le; lia.
Qed.

Lemma quot_in64 a b : in64 a = true -> in64 b = true -> b <> 0 ->
  ~ (a = min64 /\ b = -1) -> in64 (Z.quot a b) = true.
Proof.
  intros Ha Hb Hb0 Hm. apply in64_iff in Ha. apply in64_iff in Hb. apply in64_iff.
  rewrite min64_val, max64_val in *.
  destruct (Z.eq_dec b (-1)) as [->|Hn1].
  - change (-1) with (- (1)). rewrite Z.quot_opp_r, Z.quot_1_r by lia. lia.
  - destruct (Z.eq_dec b 1) as [->|H1]. { rewrite Z.quot_1_r. lia. }
    pose proof (quot_abs_le a b Hb0). nia.
Qed.

Lemma quot_min_neg1 : in64 (Z.quot min64 (-1)) = false.
Proof. reflexivity. Qed.

(* ---- remainder ---- *)
Lemma rem_euclid_bound a b : b <> 0 -> 0 <= rem_euclid a b < Z.abs b.
Proof. intros H. unfold rem_euclid. apply Z.mod_pos_bound. lia. Qed.

Lemma rem_euclid_eq a b : b <> 0 -> exists q, a = b * q + rem_euclid a b.
Proof.
  intros H. unfold rem_euclid.
  pose proof (Z.div_mod a (Z.abs b) ltac:(lia)) as E.
  destruct (Z.abs_spec b) as [[_ Hb]|[_ Hb]]; rewrite Hb in *.
  - eexists; exact E.
  - exists (- (a / - b)). lia.
Qed.

Lemma rem_euclid_in64 a b : in64 b = true -> b <> 0 -> in64 (rem_euclid a b) = true.
Proof.
  intros Hb H0. apply in64_iff in Hb. apply in64_iff. rewrite min64_val, max64_val in *.
  pose proof (rem_euclid_bound a b H0). lia.
Qed.

(* ---- exponentiation ---- *)
Lemma big_pow_not_in64 a e : 2 <= Z.abs a -> 64 <= e -> in64 (a ^ e) = false.
Proof.
  intros Ha He. apply in64_false. rewrite min64_val, max64_val.
  assert (H : 2 ^ 64 <= Z.abs (a ^ e)).
  { rewrite Z.abs_pow. transitivity (2 ^ e).
    - apply Z.pow_le_mono_r; lia.
    - apply Z.pow_le_mono_l; lia. }
  change (2 ^ 64) with 18446744073709551616 in H. lia.
Qed.

Lemma pow_neg1 e : 0 <= e -> (-1) ^ e = if Z.even e then 1 else -1.
Proof.
  intros He. destruct (Z.even e) eqn:E.
  - apply Z.even_spec in E. change (-1) with (- (1)). rewrite Z.pow_opp_even by exact E.
    apply Z.pow_1_l; lia.
  - assert (O : Z.odd e = true) by (rewrite <- Z.negb_even, E; reflexivity).
    apply Z.odd_spec in O. change (-1) with (- (1)). rewrite Z.pow_opp_odd by exact O.
    rewrite Z.pow_1_l by lia. reflexivity.
Qed.

Lemma small_base a : Z.abs a <= 1 -> a = 0 \/ a = 1 \/ a = -1.
Proof. lia. Qed.

Lemma checked_pow_spec a e : 0 <= e ->
  of_opt (checked_pow a e) = if in64 (a ^ e) then Val (a ^ e) else Exn.
Proof.
  intros He. unfold checked_pow.
  destruct (Z.leb_spec (Z.abs a) 1) as [Hs|Hb].
  - destruct (small_base a Hs) as [->|[->| ->]]; cbn [of_opt].
    + change (0 =? 0) with true. cbv iota.
      destruct (Z.eqb_spec e 0) as [->|Hne]; [reflexivity|].
      rewrite Z.pow_0_l by lia. reflexivity.
    + change (1 =? 0) with false. change (1 =? 1) with true. cbv iota.
      rewrite Z.pow_1_l by lia. reflexivity.
    + change (-1 =? 0) with false. change (-1 =? 1) with false. cbv iota.
      rewrite pow_neg1 by lia. destruct (Z.even e); reflexivity.
  - destruct (Z.leb_spec 64 e) as [Hbig|Hsm].
    + rewrite big_pow_not_in64 by lia. reflexivity.
    + cbv zeta. destruct (in64 (a ^ e)); reflexivity.
Qed.

Lemma small_base_pow_parity a b : Z.abs a <= 1 -> 0 < b -> a ^ (2 + Z.rem b 2) = a ^ b.
Proof.
  intros Hs Hb.
  assert (Hr : Z.rem b 2 = b mod 2) by (apply Z.rem_mod_nonneg; lia).
  pose proof (Z.mod_pos_bound b 2 eq_refl) as Hm.
  destruct (small_base a Hs) as [->|[->| ->]].
  - rewrite !Z.pow_0_l by lia. reflexivity.
  - rewrite !Z.pow_1_l by lia. reflexivity.
  - rewrite !pow_neg1 by lia. rewrite Hr.
    replace (2 + b mod 2) with (b mod 2 + 2 * 1) by lia.
    rewrite Z.even_add_mul_2.
    rewrite (Z.div_mod b 2) at 2 by lia.
    rewrite (Z.add_comm (2 * (b / 2))), Z.even_add_mul_2. reflexivity.
Qed.

Lemma spec_exec_eq o a b : spec_exec o a b = spec o a b.
Proof.
  destruct o; try reflexivity. cbn [spec_exec spec].
  destruct (Z.ltb_spec b 0); [reflexivity|]. now apply checked_pow_spec.
Qed.

(* ---- every accepted arm shape implements the specification ---- *)
Ltac arm_unfold := unfold arm_sem, A; cbn [guards body run_guards guard_fires core_sem].

Lemma div_core a b : in64 a = true -> in64 b = true -> b <> 0 ->
  (if (a =? min64) && (b =? -1) then Exn else Val (Z.quot a b)) =
  (if in64 (Z.quot a b) then Val (Z.quot a b) else Exn).
Proof.
  intros Ha Hb Hb0.
  destruct (Z.eqb_spec a min64) as [->|Hm]; cbn [andb].
  - destruct (Z.eqb_spec b (-1)) as [->|Hn]; [rewrite quot_min_neg1; reflexivity|].
    rewrite quot_in64 by (auto; intros [_ ?]; contradiction). reflexivity.
  - rewrite quot_in64 by (auto; intros [? _]; contradiction). reflexivity.
Qed.

Lemma div_arm1 oc a b : in64 a = true -> in64 b = true ->
  arm_sem oc (A [GRhsZero; GMinDivNegOne] CPlainDiv) a b = spec ODiv a b.
Proof.
  intros Ha Hb. arm_unfold. cbn [spec].
  destruct (Z.eqb_spec b 0) as [->|Hb0]; [reflexivity|].
  rewrite <- div_core by assumption.
  destruct ((a =? min64) && (b =? -1)); reflexivity.
Qed.

Lemma div_arm2 oc a b : in64 a = true -> in64 b = true ->
  arm_sem oc (A [GMinDivNegOne; GRhsZero] CPlainDiv) a b = spec ODiv a b.
Proof.
  intros Ha Hb. arm_unfold. cbn [spec].
  destruct (Z.eqb_spec b 0) as [->|Hb0].
  - rewrite andb_false_r. reflexivity.
  - rewrite <- div_core by assumption.
    destruct ((a =? min64) && (b =? -1)); reflexivity.
Qed.

Lemma div_arm3 oc a b : arm_sem oc (A [GRhsZero] CCheckedDiv) a b = spec ODiv a b.
Proof. arm_unfold. cbn [spec]. destruct (b =? 0); reflexivity. Qed.

Lemma div_arm4 oc a b : arm_sem oc (A [] CCheckedDiv) a b = spec ODiv a b.
Proof. reflexivity. Qed.

Lemma mod_arm1 oc a b : arm_sem oc (A [GRhsZero] CWrapRemEuclid) a b = spec OMod a b.
Proof. arm_unfold. cbn [spec]. destruct (b =? 0); reflexivity. Qed.

Lemma pow_arm1 oc a b : in64 a = true -> in64 b = true ->
  arm_sem oc (A [GRhsNeg; GRhsGtU32BigBase] CCheckedPowParity) a b = spec OPow a b.
Proof.
  intros Ha Hb. arm_unfold. cbn [spec].
  destruct (Z.ltb_spec b 0) as [Hneg|Hnn]; [reflexivity|].
  destruct (Z.ltb_spec u32max b) as [Hbig|Hsm]; cbn [andb].
  - rewrite u32max_val in Hbig.
    destruct (Z.ltb_spec 1 (Z.abs a)) as [Hbase|Hbase].
    + rewrite big_pow_not_in64; [reflexivity|lia|lia].
    + assert (Hr : Z.rem b 2 = b mod 2) by (apply Z.rem_mod_nonneg; lia).
      pose proof (Z.mod_pos_bound b 2 eq_refl) as Hm.
      rewrite (Z.mod_small (2 + Z.rem b 2)) by (change (2 ^ 32) with 4294967296; lia).
      rewrite checked_pow_spec by lia.
      rewrite small_base_pow_parity by lia. reflexivity.
  - rewrite u32max_val in Hsm.
    rewrite Z.mod_small by (change (2 ^ 32) with 4294967296; lia).
    apply checked_pow_spec. lia.
Qed.

Lemma ok_arms_correct o m : In m (ok_arms o) ->
  forall oc a b, in64 a = true -> in64 b = true -> arm_sem oc m a b = spec o a b.
Proof.
  intros Hin oc a b Ha Hb.
  destruct o; cbn [ok_arms In] in Hin;
    repeat match goal with H : _ \/ _ |- _ => destruct H as [<-|H] end;
    try contradiction; try reflexivity;
    auto using div_arm1, div_arm2, div_arm3, div_arm4, mod_arm1, pow_arm1.
Qed.

Lemma ok_upd_arms_correct u m : In m (ok_upd_arms u) ->
  forall oc a b, arm_sem oc m a b = spec (upd_as_binop u) a b.
Proof.
  intros Hin oc a b. destruct u; cbn [ok_upd_arms In] in Hin;
    destruct Hin as [<-|[]]; reflexivity.
Qed.

Lemma arm_eqb_eq x y : arm_eqb x y = true -> x = y.
Proof.
  unfold arm_eqb. destruct x as [gx cx], y as [gy cy]; cbn [guards body].
  destruct (list_eq_dec guard_eq_dec gx gy) as [->|]; [|discriminate].
  cbn [andb]. intros H. apply internal_core_dec_bl in H. now subst.
Qed.

Lemma arm_in_In m l : arm_in m l = true -> In m l.
Proof.
  unfold arm_in. rewrite existsb_exists. intros [x [Hx He]].
  apply arm_eqb_eq in He. now subst.
Qed.

(* in64 z  <->  z >> 63 is 0 or -1; shifts distribute over land/lor. *)
Lemma in64_shift z : in64 z = true <-> (Z.shiftr z 63 = 0 \/ Z.shiftr z 63 = -1).
Proof.
  rewrite in64_iff, min64_val, max64_val, Z.shiftr_div_pow2 by lia.
  change (2 ^ 63) with 9223372036854775808.
  pose proof (Z.div_mod z 9223372036854775808 ltac:(lia)) as E.
  pose proof (Z.mod_pos_bound z 9223372036854775808 eq_refl) as B. lia.
Qed.

Lemma land_in64 a b : in64 a = true -> in64 b = true -> in64 (Z.land a b) = true.
Proof.
  rewrite !in64_shift, Z.shiftr_land. intros [->| ->] [->| ->]; cbn; auto.
Qed.

Lemma lor_in64 a b : in64 a = true -> in64 b = true -> in64 (Z.lor a b) = true.
Proof.
  rewrite !in64_shift, Z.shiftr_lor. intros [->| ->] [->| ->]; cbn; auto.
Qed.

(* The specification's results are themselves 64-bit values. *)
Lemma spec_in_range o a b z : in64 a = true -> in64 b = true -> spec o a b = Val z -> in64 z = true.
Proof.
  intros Ha Hb. destruct o; cbn [spec]; intros H;
    try (injection H as <-; apply wrap64_in); try discriminate.
  - destruct (b =? 0); [discriminate|]. destruct (in64 (Z.quot a b)) eqn:E; [|discriminate].
    injection H as <-. exact E.
  - destruct (Z.eqb_spec b 0); [discriminate|]. injection H as <-. now apply rem_euclid_in64.
  - destruct (b <? 0); [discriminate|]. destruct (in64 (a ^ b)) eqn:E; [|discriminate].
    injection H as <-. exact E.
  - injection H as <-. now apply land_in64.
  - injection H as <-. now apply lor_in64.
Qed.
