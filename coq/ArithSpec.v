(* What property C04 demands of each integer operator, as a function on Z. *)
From Coq Require Import ZArith Bool List.
From Garden Require Import Base.Int64 Arith.
Import ListNotations.
Open Scope Z_scope.

Definition spec (o : int_op) (a b : Z) : res :=
  match o with
  | OAdd => Val (wrap64 (a + b))
  | OSub => Val (wrap64 (a - b))
  | OMul => Val (wrap64 (a * b))
  | ODiv => if b =? 0 then Exn else if in64 (Z.quot a b) then Val (Z.quot a b) else Exn
  | OMod => if b =? 0 then Exn else Val (rem_euclid a b)
  | OPow => if b <? 0 then Exn else if in64 (a ^ b) then Val (a ^ b) else Exn
  | OBitAnd => Val (Z.land a b)
  | OBitOr => Val (Z.lor a b)
  | OLt => ValB (a <? b)
  | OGt => ValB (b <? a)
  | OLe => ValB (a <=? b)
  | OGe => ValB (b <=? a)
  end.

(* Executable form of [spec]: identical except that the power is computed
   without building astronomically large numbers (ArithProps.spec_exec_eq). *)
Definition spec_exec (o : int_op) (a b : Z) : res :=
  match o with
  | OPow => if b <? 0 then Exn else of_opt (checked_pow a b)
  | _ => spec o a b
  end.

Definition upd_as_binop (u : upd_op) : int_op := match u with UAdd => OAdd | USub => OSub end.

(* Arm shapes (as produced by the translator) that are proved to implement
   the specification.  A source edit that yields a shape outside this list
   breaks `tables_ok` in Properties/C04.v. *)
Definition A (gs : list guard) (c : core) : arm := {| guards := gs; body := c |}.

Definition ok_arms (o : int_op) : list arm :=
  match o with
  | OAdd => [A [] CWrapAdd]
  | OSub => [A [] CWrapSub]
  | OMul => [A [] CWrapMul]
  | ODiv => [A [GRhsZero; GMinDivNegOne] CPlainDiv; A [GMinDivNegOne; GRhsZero] CPlainDiv;
             A [GRhsZero] CCheckedDiv; A [] CCheckedDiv]
  | OMod => [A [GRhsZero] CWrapRemEuclid]
  | OPow => [A [GRhsNeg; GRhsGtU32BigBase] CCheckedPowParity]
  | OBitAnd => [A [] CBitAnd]
  | OBitOr => [A [] CBitOr]
  | OLt => [A [] CLt]
  | OGt => [A [] CGt]
  | OLe => [A [] CLe]
  | OGe => [A [] CGe]
  end.

Definition ok_upd_arms (u : upd_op) : list arm :=
  match u with
  | UAdd => [A [] CWrapAdd]
  | USub => [A [] CWrapSub]
  end.

Scheme Equality for guard.
Scheme Equality for core.

Definition arm_eqb (x y : arm) : bool :=
  (if list_eq_dec guard_eq_dec (guards x) (guards y) then true else false) && core_beq (body x) (body y).

Definition arm_in (m : arm) (l : list arm) : bool := existsb (arm_eqb m) l.
