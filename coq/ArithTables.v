(* Ties the generated tables (what eval.rs does today) to the proved arm
   shapes.  `tables_ok` is the obligation a source edit breaks. *)
From Coq Require Import ZArith Bool List Lia.
From Garden Require Import Base.Int64 Arith ArithSpec ArithProps gen.Tables.
Import ListNotations.
Open Scope Z_scope.

Lemma tables_ok_lemma : forall o, arm_in (int_arm o) (ok_arms o) = true.
Proof. intros o; destruct o; vm_compute; reflexivity. Qed.

Lemma upd_tables_ok_lemma : forall u, arm_in (upd_arm u) (ok_upd_arms u) = true.
Proof. intros u; destruct u; vm_compute; reflexivity. Qed.

Lemma operands_ok_lemma : int_operands_ok = true.
Proof. reflexivity. Qed.

Lemma int_binop_spec_lemma : forall oc o a b, in64 a = true -> in64 b = true ->
  arm_sem oc (int_arm o) a b = spec o a b.
Proof.
  intros oc o a b Ha Hb. apply ok_arms_correct; auto. apply arm_in_In, tables_ok_lemma.
Qed.

Lemma upd_spec_lemma : forall oc u a b, in64 a = true -> in64 b = true ->
  arm_sem oc (upd_arm u) a b = arm_sem oc (int_arm (upd_as_binop u)) a b.
Proof.
  intros oc u a b Ha Hb. rewrite int_binop_spec_lemma by assumption.
  apply ok_upd_arms_correct. apply arm_in_In, upd_tables_ok_lemma.
Qed.

Lemma no_panic_lemma : forall oc o a b, in64 a = true -> in64 b = true ->
  arm_sem oc (int_arm o) a b <> Panic.
Proof.
  intros oc o a b Ha Hb. rewrite int_binop_spec_lemma by assumption.
  destruct o; cbn [spec]; try discriminate.
  - destruct (b =? 0); [discriminate|]. destruct (in64 (Z.quot a b)); discriminate.
  - destruct (b =? 0); discriminate.
  - destruct (b <? 0); [discriminate|]. destruct (in64 (a ^ b)); discriminate.
Qed.

Lemma upd_no_panic_lemma : forall oc u a b, in64 a = true -> in64 b = true ->
  arm_sem oc (upd_arm u) a b <> Panic.
Proof.
  intros oc u a b Ha Hb. rewrite upd_spec_lemma by assumption. now apply no_panic_lemma.
Qed.

Lemma results_in_range_lemma : forall oc o a b z, in64 a = true -> in64 b = true ->
  arm_sem oc (int_arm o) a b = Val z -> in64 z = true.
Proof.
  intros oc o a b z Ha Hb. rewrite int_binop_spec_lemma by assumption. now apply spec_in_range.
Qed.
