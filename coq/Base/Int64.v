(* Two's-complement 64-bit integers as a subset of Z, and the Rust i64
   operations garden uses.  Model file: definitions only (proofs are in
   Int64Facts.v / ArithProps.v) so that it still builds and runs when a proof
   breaks. *)
From Coq Require Import ZArith Bool List.
Open Scope Z_scope.

Definition min64 : Z := - 2 ^ 63.
Definition max64 : Z := 2 ^ 63 - 1.
Definition u32max : Z := 2 ^ 32 - 1.

Definition in64 (z : Z) : bool := (min64 <=? z) && (z <=? max64).

(* the unique representative of z modulo 2^64 in [min64, max64] *)
Definition wrap64 (z : Z) : Z := (z + 2 ^ 63) mod 2 ^ 64 - 2 ^ 63.

(* Euclidean remainder: 0 <= r < |b|  and  a = b*q + r *)
Definition rem_euclid (a b : Z) : Z := a mod (Z.abs b).

(* i64::checked_pow(a, e) for 0 <= e: Some (a^e) when representable.
   Written so that it never builds a huge number: bases of magnitude <= 1 are
   answered directly and any other base overflows once e >= 64. *)
Definition checked_pow (a e : Z) : option Z :=
  if Z.abs a <=? 1 then
    Some (if a =? 0 then (if e =? 0 then 1 else 0)
          else if a =? 1 then 1
          else if Z.even e then 1 else -1)
  else if 64 <=? e then None
  else let r := a ^ e in if in64 r then Some r else None.
