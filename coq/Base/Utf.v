(* Utf -- MODEL of Rust `char` / `&str` byte arithmetic.

   Definitions only (proofs are in LexProps.v).

   A Rust `&str` is modelled as the list of its Unicode scalar values
   (`char`s), each an `N`.  Rust addresses a `&str` by BYTE offsets into its
   UTF-8 encoding; slicing `&s[a..b]` at an offset that is not a character
   boundary panics.  Nothing here requires the numbers to be valid scalar
   values: every definition is total on `N` (a value >= 0x10000 counts as a
   4-byte char), so theorems over `list N` cover every `&str`.

   Modelled, not verified: the semantics of the Rust std functions named in
   the comments (`char::len_utf8`, `char::len_utf16`, `char::is_whitespace`,
   `str::len`, `str::is_char_boundary`, slicing, `str::find`). *)
From Coq Require Import NArith Bool List.
Import ListNotations.
Open Scope N_scope.

Definition LF : N := 10.
Definition CR : N := 13.

(* Is c a Unicode scalar value (what a Rust `char` can hold)? *)
Definition is_scalar (c : N) : bool :=
  (c <? 55296) || ((57344 <=? c) && (c <? 1114112)).

(* char::len_utf8 / char::len_utf16 *)
Definition len_utf8 (c : N) : N :=
  if c <? 128 then 1 else if c <? 2048 then 2 else if c <? 65536 then 3 else 4.
Definition len_utf16 (c : N) : N := if c <? 65536 then 1 else 2.

(* char::is_whitespace = the Unicode White_Space property (25 code points):
   U+0009..U+000D, U+0020, U+0085, U+00A0, U+1680, U+2000..U+200A, U+2028,
   U+2029, U+202F, U+205F, U+3000. *)
Definition is_whitespace (c : N) : bool :=
  ((9 <=? c) && (c <=? 13))
  || (c =? 32) || (c =? 133) || (c =? 160) || (c =? 5760)
  || ((8192 <=? c) && (c <=? 8202))
  || (c =? 8232) || (c =? 8233) || (c =? 8239) || (c =? 8287) || (c =? 12288).

(* str::len (bytes) and encode_utf16().count() of a char list *)
Fixpoint blen (s : list N) : N :=
  match s with [] => 0 | c :: r => len_utf8 c + blen r end.
Fixpoint ulen (s : list N) : N :=
  match s with [] => 0 | c :: r => len_utf16 c + ulen r end.

(* Split at byte offset o: (s[..o], s[o..]).  None when o is past the end or
   not on a character boundary (where Rust's slicing panics). *)
Fixpoint split_bytes (s : list N) (o : N) {struct s} : option (list N * list N) :=
  if o =? 0 then Some ([], s) else
  match s with
  | [] => None
  | c :: r =>
    if o <? len_utf8 c then None else
    match split_bytes r (o - len_utf8 c) with
    | Some (p, q) => Some (c :: p, q)
    | None => None
    end
  end.

(* str::is_char_boundary, computed *)
Definition is_boundary (s : list N) (o : N) : bool :=
  match split_bytes s o with Some _ => true | None => false end.

(* "offset o is a char boundary of s", declaratively: o is the byte length of
   a prefix of s. *)
Definition boundary (s : list N) (o : N) : Prop :=
  exists p q, s = p ++ q /\ blen p = o.

(* &s[o..] and &s[0..o]; None = panic *)
Definition drop_bytes (s : list N) (o : N) : option (list N) :=
  match split_bytes s o with Some (_, q) => Some q | None => None end.
Definition take_bytes (s : list N) (o : N) : option (list N) :=
  match split_bytes s o with Some (p, _) => Some p | None => None end.

(* &s[a..b]; None = panic *)
Definition slice (s : list N) (a b : N) : option (list N) :=
  if b <? a then None else
  match drop_bytes s a with
  | None => None
  | Some r => take_bytes r (b - a)
  end.

(* s.find('\n'): byte index of the first `\n` *)
Fixpoint find_lf (s : list N) : option N :=
  match s with
  | [] => None
  | c :: r =>
    if c =? LF then Some 0 else
    match find_lf r with Some i => Some (len_utf8 c + i) | None => None end
  end.

(* number of `\n` in s *)
Fixpoint count_lf (s : list N) : N :=
  match s with [] => 0 | c :: r => (if c =? LF then 1 else 0) + count_lf r end.

(* the part of s after its last `\n` (all of s when it has none) *)
Fixpoint after_last_lf (s : list N) : list N :=
  match s with
  | [] => []
  | c :: r =>
    if 0 <? count_lf r then after_last_lf r
    else if c =? LF then r else c :: r
  end.
