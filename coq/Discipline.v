(* The evaluator keeps the value-stack / binding-block discipline of
   SessionProps.v (`stack_run`) on the structured fragment, and never crashes
   from a state that satisfies it: a case analysis over Machine.exec /
   Machine.step.  This discharges the hypothesis `evaluator_keeps_discipline`
   of SessionProps.handle_no_panic_partial_lemma for well-formed programs. *)
From Coq Require Import ZArith NArith Bool List Lia.
From Garden Require Import Base.Int64 Arith gen.Tables Machine MachineInv MachineSession MachineSessionProps Session SessionProps.
Import ListNotations.
Open Scope nat_scope.

(* ---- what a program has to satisfy --------------------------------------- *)
(* `globals_noint` (Session.v): no namespace value is an Int. *)
Definition prog_ok (p : prog) : Prop :=
  wf_prog p = true /\ globals_ok p = true /\ globals_noint p = true.

(* ---- arithmetic never panics (generated operator table) ------------------- *)
Lemma int_arm_no_panic io a b : arm_sem true (int_arm io) a b <> Panic.
Proof.
  destruct io; unfold arm_sem, int_arm; cbn [guards body run_guards guard_fires core_sem];
    unfold checked, of_opt;
    repeat match goal with
           | |- context [if ?c then _ else _] => destruct c eqn:?
           | |- context [match checked_pow ?x ?y with _ => _ end] => destruct (checked_pow x y)
           end; try discriminate; congruence.
Qed.

Lemma upd_arm_val u a b : exists z, arm_sem true (upd_arm u) a b = Val z.
Proof. destruct u; unfold arm_sem, upd_arm; cbn; eauto. Qed.

(* ---- wf: the nested fixpoints are the toplevel ones ------------------------ *)
Lemma wf_list m l : wf (EList m l) = wf_all_used l.
Proof. induction l as [|x l IH]; [reflexivity|]. cbn [wf_all_used]. rewrite <- IH. reflexivity. Qed.
Lemma wf_tuple m l : wf (ETuple m l) = wf_all_used l.
Proof. induction l as [|x l IH]; [reflexivity|]. cbn [wf_all_used]. rewrite <- IH. reflexivity. Qed.
Lemma wf_call m f args : wf (ECall m f args) = eused f && wf f && wf_all_used args.
Proof.
  rewrite <- (wf_list m args). reflexivity.
Qed.
Lemma wf_while m c b : wf (EWhile m c b) = eused c && wf c && wf_stmts false b.
Proof. reflexivity. Qed.

Lemma wf_if m c t el : wf (EIf m c t el) =
  eused c && wf c && wf_stmts (used m && is_some el) t && match el with Some b => wf_stmts (used m) b | None => true end.
Proof. destruct el; reflexivity. Qed.

Lemma wf_match m sc cases : wf (EMatch m sc cases) =
  eused sc && wf sc && forallb (fun c => wf_stmts (used m) (snd c)) cases.
Proof. reflexivity. Qed.

Lemma wf_return_some m x : wf (EReturn m (Some x)) = eused x && wf x.
Proof. reflexivity. Qed.

(* ---- sim ------------------------------------------------------------------- *)
Definition fresh_of (l : list expr) : list (estate * expr) := map (fun e => (SNot, e)) l.

Definition AU (l : list expr) : Prop := Forall (fun x => eused x = true /\ wf x = true) l.

Lemma wf_all_used_AU l : wf_all_used l = true -> AU l.
Proof.
  induction l as [|x l IH]; cbn [wf_all_used]; intros H; [constructor|].
  apply andb_prop in H. destruct H as [H H2]. apply andb_prop in H. destruct H as [U W].
  constructor; [auto|now apply IH].
Qed.

Lemma AU_wf l : AU l -> Forall (fun x : estate * expr => wf (snd x) = true) (fresh_of l).
Proof. induction 1 as [|x l [U W] _ IH]; cbn; constructor; auto. Qed.

Lemma sim_used l : forall T K, AU l -> sim (fresh_of l ++ T) K = sim T (K + length l).
Proof.
  induction l as [|x l IH]; intros T K H; cbn [fresh_of map app length].
  - now rewrite Nat.add_0_r.
  - inversion H as [|? ? [U W] H2]; subst. cbn [sim]. rewrite (eff_fresh _ W). cbn [Nat.leb].
    fold (fresh_of l). rewrite IH by assumption. f_equal. unfold uu. rewrite U. lia.
Qed.

Lemma wf_stmts_wf u body : wf_stmts u body = true -> Forall (fun x : estate * expr => wf (snd x) = true) (fresh_of body).
Proof.
  induction body as [|x body IH]; intros H; [constructor|].
  destruct body as [|y body].
  - cbn [wf_stmts] in H. apply andb_prop in H. destruct H as [_ W]. repeat constructor. exact W.
  - change (wf_stmts u (x :: y :: body)) with (negb (eused x) && wf x && wf_stmts u (y :: body)) in H.
    apply andb_prop in H. destruct H as [H H2]. apply andb_prop in H. destruct H as [_ W].
    constructor; [exact W|now apply IH].
Qed.

Lemma sim_stmts u body : forall T K, wf_stmts u body = true -> body <> [] ->
  sim (fresh_of body ++ T) K = sim T (K + binc u).
Proof.
  induction body as [|x body IH]; intros T K H NE; [contradiction|].
  destruct body as [|y body].
  - cbn [wf_stmts] in H. apply andb_prop in H. destruct H as [U W].
    cbn [fresh_of map app sim]. rewrite (eff_fresh _ W). cbn [Nat.leb]. f_equal.
    unfold uu, binc. apply eqb_prop in U. rewrite U. lia.
  - change (wf_stmts u (x :: y :: body)) with (negb (eused x) && wf x && wf_stmts u (y :: body)) in H.
    apply andb_prop in H. destruct H as [H H2]. apply andb_prop in H. destruct H as [U W].
    change (fresh_of (x :: y :: body) ++ T) with ((SNot, x) :: (fresh_of (y :: body) ++ T)).
    cbn [sim]. rewrite (eff_fresh _ W). cbn [Nat.leb].
    rewrite IH by (auto; discriminate). f_equal. unfold uu. apply negb_true_iff in U. rewrite U. lia.
Qed.

Lemma fold_push_eq items : forall f,
  fold_left (fun acc it => push_todo acc SNot it) items f = set_todo f (fresh_of (rev items) ++ todo f).
Proof.
  induction items as [|x items IH]; intros f; cbn [fold_left rev].
  - destruct f; reflexivity.
  - rewrite IH. unfold fresh_of. rewrite map_app, <- app_assoc. reflexivity.
Qed.

Lemma AU_rev l : AU l -> AU (rev l).
Proof. unfold AU. intros H. apply Forall_rev. exact H. Qed.

(* ---- closure-freeness ------------------------------------------------------ *)
Lemma cfv_list l : Forall cfv l -> cfv (VList l).
Proof. unfold cfv. induction 1 as [|x l H _ IH]; [reflexivity|]. cbn in *. now rewrite H, IH. Qed.
Lemma cfv_tuple l : Forall cfv l -> cfv (VTuple l).
Proof. unfold cfv. induction 1 as [|x l H _ IH]; [reflexivity|]. cbn in *. now rewrite H, IH. Qed.
Lemma cfv_bool b : cfv (vbool b).
Proof. destruct b; reflexivity. Qed.
Lemma cfv_unit : cfv vunit.
Proof. reflexivity. Qed.

Lemma assoc_cf x b v : cfb b -> assoc x b = Some v -> cfv v.
Proof.
  unfold cfb. induction 1 as [|[y w] b H _ IH]; cbn [assoc]; [discriminate|].
  destruct (N.eqb x y); [intros E; inversion E; subst; exact H|exact IH].
Qed.

Lemma lookup_cf x bs v : Forall cfb bs -> lookup_blocks x bs = Some v -> cfv v.
Proof.
  induction 1 as [|b bs H _ IH]; cbn [lookup_blocks]; [discriminate|].
  destruct (assoc x b) as [w|] eqn:E; [intros E2; inversion E2; subst; eapply assoc_cf; eassumption|exact IH].
Qed.

Lemma globals_cf p x v : globals_ok p = true -> assoc x (globals p) = Some v -> cfv v.
Proof.
  unfold globals_ok. intros G. apply (assoc_cf x (globals p)).
  unfold cfb. rewrite forallb_forall in G. apply Forall_forall. intros xv I. apply G. exact I.
Qed.

Lemma get_var_cf p f x v : globals_ok p = true -> Forall cfb (blocks f) -> get_var p f x = Some v -> cfv v.
Proof.
  unfold get_var. intros G B. destruct (lookup_blocks x (blocks f)) as [w|] eqn:E.
  - intros H; inversion H; subst. eapply lookup_cf; eassumption.
  - now apply globals_cf.
Qed.

Lemma add_new_cf x v bs : Forall cfb bs -> cfv v -> Forall cfb (add_new x v bs).
Proof.
  unfold add_new. intros B V. destruct (N.eqb x underscore); [exact B|].
  destruct bs as [|b bs]; [constructor|]. inversion B; subst. constructor; [|assumption].
  constructor; assumption.
Qed.

Lemma add_all_cf l : forall bs, Forall cfb bs -> cfb l -> Forall cfb (add_all bs l).
Proof.
  induction l as [|[x v] l IH]; intros bs B L; cbn [add_all]; [exact B|].
  inversion L; subst. apply IH; [|assumption]. now apply add_new_cf.
Qed.

Lemma set_assoc_cf x v b : cfb b -> cfv v -> cfb (set_assoc x v b).
Proof.
  unfold cfb. induction 1 as [|[y w] b H Hb IH]; intros V; cbn [set_assoc]; [constructor|].
  destruct (N.eqb x y); constructor; cbn; auto.
Qed.

Lemma set_existing_cf x v : forall bs bs', Forall cfb bs -> cfv v -> set_existing x v bs = Some bs' -> Forall cfb bs'.
Proof.
  induction bs as [|b bs IH]; intros bs' B V H; cbn [set_existing] in H; [discriminate|].
  inversion B; subst. destruct (assoc x b).
  - inversion H; subst. constructor; [now apply set_assoc_cf|assumption].
  - destruct (set_existing x v bs) as [r|] eqn:E; [|discriminate]. inversion H; subst.
    constructor; [assumption|]. eapply IH; eauto.
Qed.

Lemma set_existing_some x v : forall bs w, lookup_blocks x bs = Some w -> exists bs', set_existing x v bs = Some bs'.
Proof.
  induction bs as [|b bs IH]; intros w H; cbn [lookup_blocks set_existing] in *; [discriminate|].
  destruct (assoc x b); [eauto|]. destruct (IH _ H) as [r ->]. eauto.
Qed.

Lemma zip_params_cf ps : forall vs, Forall cfv vs -> cfb (zip_params ps vs).
Proof.
  induction ps as [|q ps IH]; intros vs V; cbn [zip_params]; [constructor|].
  destruct vs as [|v vs]; [constructor|]. inversion V; subst.
  destruct (N.eqb q underscore); [now apply IH|]. constructor; [assumption|now apply IH].
Qed.

Lemma param_block_cf ps vs : Forall cfv vs -> cfb (param_block ps vs).
Proof. intros V. unfold param_block, cfb. apply Forall_rev. now apply zip_params_cf. Qed.

Lemma pop_n_ok : forall n vs, n <= length vs ->
  exists l r, pop_n n vs = Some (l, r) /\ length l = n /\ vs = l ++ r.
Proof.
  induction n as [|n IH]; intros vs L; cbn [pop_n].
  - exists [], vs. auto.
  - destruct vs as [|v vs]; [cbn in L; lia|]. cbn in L.
    destruct (IH vs ltac:(lia)) as (l & r & -> & LL & ->). exists (v :: l), r. cbn. auto.
Qed.

(* ---- building the invariant of a result frame ------------------------------ *)
Definition WT (T : list (estate * expr)) : Prop := Forall (fun x : estate * expr => wf (snd x) = true) T.

Lemma ok_frame T VS BS NBk U n :
  WT T -> sim T (length VS) = Some n -> 1 <= n -> 1 + MachineInv.pending T <= length BS ->
  Forall cfv VS -> Forall cfb BS -> cfb NBk ->
  frame_ok false 0 (mkFrame T VS BS NBk U).
Proof.
  intros W S C B V BB NB. unfold frame_ok. cbn [todo vals blocks nextb].
  split; [exact W|]. split; [exists n; rewrite Nat.add_0_r; auto|]. auto.
Qed.

Lemma ok_push b v T VS BS NBk U n :
  cfv v -> WT T -> sim T (length VS + binc b) = Some n -> 1 <= n -> 1 + MachineInv.pending T <= length BS ->
  Forall cfv VS -> Forall cfb BS -> cfb NBk ->
  frame_ok false 0 (push_val_if b (mkFrame T VS BS NBk U) v) /\ uses (push_val_if b (mkFrame T VS BS NBk U) v) = U.
Proof.
  intros CV W HS C B V BB NB. destruct b; cbn [push_val_if push_val todo vals blocks nextb uses binc] in *.
  - split; [|reflexivity]. apply (ok_frame _ _ _ _ _ n); cbn [todo vals blocks nextb uses]; auto.
    replace (length (v :: VS)) with (length VS + 1) by (cbn; lia). exact HS.
  - split; [|reflexivity]. apply (ok_frame _ _ _ _ _ n); cbn [todo vals blocks nextb uses]; auto.
    rewrite Nat.add_0_r in HS. exact HS.
Qed.

Lemma ok_block u body T VS BS NBk U n :
  wf_stmts u body = true -> WT T -> sim T (length VS + binc u) = Some n -> 1 <= n ->
  MachineInv.pending T <= length BS -> Forall cfv VS -> Forall cfb BS -> cfb NBk ->
  frame_ok false 0 (eval_block (mkFrame T VS BS NBk U) u body) /\ uses (eval_block (mkFrame T VS BS NBk U) u body) = U.
Proof.
  intros WB W HS C B V BB NB. unfold eval_block. cbn [todo vals blocks nextb uses].
  assert (BL : Forall cfb (add_all ([] :: BS) NBk)).
  { apply add_all_cf; [constructor; [constructor|assumption]|assumption]. }
  assert (LL : length (add_all ([] :: BS) NBk) = S (length BS)) by (rewrite add_all_length; reflexivity).
  destruct body as [|x body].
  - cbn [map app]. apply (ok_push _ _ _ _ _ _ _ n); try assumption;
      try (rewrite LL; lia); try (constructor; fail); reflexivity.
  - split; [|reflexivity]. apply (ok_frame _ _ _ _ _ n); auto.
    + unfold WT. apply Forall_app. split; [now apply (wf_stmts_wf u)|exact W].
    + change (map (fun e => (SNot, e)) (x :: body)) with (fresh_of (x :: body)).
      rewrite (sim_stmts u) by (auto; discriminate). exact HS.
    + change (map (fun e => (SNot, e)) (x :: body)) with (fresh_of (x :: body)).
      rewrite pending_app. unfold fresh_of. rewrite pending_fresh. lia.
    + constructor.
Qed.

Definition xres_ok (f : frame) (r : xres) : Prop :=
  match r with
  | XOk f' _ => frame_ok false 0 f' /\ uses f' = uses f
  | XCall f' callee => frame_ok false (binc (uses callee)) f' /\ uses f' = uses f /\ frame_ok false 0 callee
  | XErr _ => True
  | XPanic => False
  | XUnsupported => True
  end.

Lemma uu_meta e : uu e = binc (used (emeta e)).
Proof. reflexivity. Qed.

Ltac norm := cbn [set_todo set_vals set_blocks set_nextb push_todo push_val todo vals blocks nextb uses] in *.

Lemma sim_cons s e T K c pr : eff s e = Some (c, pr) -> c <= K -> sim ((s, e) :: T) K = sim T (K - c + pr).
Proof. intros E L. cbn [sim]. rewrite E. apply Nat.leb_le in L. now rewrite L. Qed.

Lemma uu_one e : eused e = true -> uu e = 1.
Proof. unfold uu. now intros ->. Qed.

Lemma Forall_tl2 {A} (P : A -> Prop) a b l : Forall P (a :: b :: l) -> Forall P l.
Proof. intros H. inversion H as [|? ? _ H2]; subst. now inversion H2. Qed.

Ltac simgoal HS := rewrite <- HS; f_equal; cbn [length]; rewrite ?uu_meta; cbn [emeta binc]; lia.
Ltac blk B es := try (destruct es as [|[]|]); cbn [entry_pops] in B; lia.
Ltac andbs H := repeat match type of H with
  | (_ && _) = true => let H1 := fresh H in apply andb_prop in H; destruct H as [H H1]
  end.

Lemma assoc_in {A} x (l : list (ident * A)) v : assoc x l = Some v -> exists y, In (y, v) l.
Proof.
  induction l as [|[y w] l IH]; cbn [assoc]; [discriminate|].
  destruct (N.eqb x y); [intros H; inversion H; subst; exists y; left; reflexivity|].
  intros H. destruct (IH H) as [z I]. exists z. right. exact I.
Qed.

Lemma globals_noint_spec p x a : globals_noint p = true -> assoc x (globals p) = Some (VInt a) -> False.
Proof.
  unfold globals_noint. intros G H. destruct (assoc_in _ _ _ H) as [y I].
  rewrite forallb_forall in G. specialize (G _ I). discriminate.
Qed.

Lemma int_of_some v a : int_of v = Some a -> v = VInt a.
Proof. destruct v; cbn; intros H; inversion H; reflexivity. Qed.

Lemma callee_ok blk body u : wf_stmts true body = true -> cfb blk -> frame_ok false 0 (new_frame [blk] body u).
Proof.
  intros WB CB. unfold new_frame. destruct body as [|x body].
  - apply (ok_frame _ _ _ _ _ 1); cbn; auto; repeat constructor; assumption.
  - apply (ok_frame _ _ _ _ _ 2).
    + now apply (wf_stmts_wf true).
    + change (map (fun e => (SNot, e)) (x :: body)) with (fresh_of (x :: body)).
      rewrite <- (app_nil_r (fresh_of (x :: body))). rewrite (sim_stmts true) by (auto; discriminate). reflexivity.
    + lia.
    + rewrite pending_fresh. cbn. lia.
    + repeat constructor.
    + repeat constructor; assumption.
    + constructor.
Qed.

Lemma wf_prog_body p name fd : wf_prog p = true -> assoc name (funs p) = Some fd -> wf_stmts true (fbody fd) = true.
Proof.
  unfold wf_prog. intros WP H. destruct (assoc_in _ _ _ H) as [y I].
  rewrite forallb_forall in WP. exact (WP _ I).
Qed.

Lemma Forall_app_l {A} (P : A -> Prop) l r : Forall P (l ++ r) -> Forall P l.
Proof. intros H. apply Forall_app in H. tauto. Qed.
Lemma Forall_app_r {A} (P : A -> Prop) l r : Forall P (l ++ r) -> Forall P r.
Proof. intros H. apply Forall_app in H. tauto. Qed.

Lemma pending_fresh_of l : MachineInv.pending (fresh_of l) = 0.
Proof. apply pending_fresh. Qed.

(* pushing the items of a list / tuple literal or the arguments of a call *)
Lemma ok_items f t items (e : expr) n c pr :
  AU items -> wf e = true -> WT t -> eff SDone e = Some (c, pr) -> entry_pops SDone e = false ->
  c <= length (vals f) + length items ->
  sim t (length (vals f) + length items - c + pr) = Some n -> 1 <= n ->
  1 + MachineInv.pending t <= length (blocks f) -> Forall cfv (vals f) -> Forall cfb (blocks f) -> cfb (nextb f) ->
  xres_ok f (XOk (fold_left (fun acc it => push_todo acc SNot it) items (push_todo (set_todo f t) SDone e)) []).
Proof.
  intros A We Wt EF EP L HS Cn B V BB NB. rewrite fold_push_eq. unfold xres_ok. norm.
  split; [|reflexivity]. apply (ok_frame _ _ _ _ _ n); norm; try assumption.
  - apply Forall_app. split; [apply AU_wf; now apply AU_rev|constructor; assumption].
  - rewrite sim_used by now apply AU_rev. rewrite rev_length.
    erewrite sim_cons; [exact HS|exact EF|exact L].
  - rewrite pending_app, pending_fresh_of. change (MachineInv.pending ((SDone, e) :: t)) with (pops (SDone, e) + MachineInv.pending t).
    unfold pops. change (entry_pops (fst (SDone, e)) (snd (SDone, e))) with (entry_pops SDone e). rewrite EP. lia.
Qed.

(* `return`: the pending entries own at most the blocks above the frame's first *)
Lemma return_unwind_some t : forall bs, 1 + MachineInv.pending t <= length bs ->
  exists bs', return_unwind t bs = Some bs' /\ 1 <= length bs' /\ (forall P : block -> Prop, Forall P bs -> Forall P bs').
Proof.
  induction t as [|[s e] t IH]; intros bs L; cbn [return_unwind].
  - exists bs. split; [reflexivity|]. cbn in L. split; [lia|auto].
  - cbn [MachineInv.pending] in L. unfold pops in L. cbn [fst snd] in L.
    destruct (entry_pops s e).
    + destruct bs as [|b0 [|b1 bs]]; cbn [length] in L; try lia. cbn [pop_block_list].
      destruct (IH (b1 :: bs) ltac:(cbn [length]; lia)) as (bs' & R & L' & P'). exists bs'. split; [exact R|]. split; [exact L'|].
      intros P F. apply P'. now inversion F.
    + destruct (IH bs ltac:(lia)) as (bs' & R & L' & P'). eauto.
Qed.

Lemma match_cases_ok p f0 T VS BS NBk U um n spos ty idx payload : forall cases,
  forallb (fun c => wf_stmts um (snd c)) cases = true -> WT T -> sim T (length VS + binc um) = Some n -> 1 <= n ->
  MachineInv.pending T <= length BS -> Forall cfv VS -> Forall cfb BS -> cfb NBk ->
  match payload with Some pl => cfv pl | None => True end -> uses f0 = U ->
  xres_ok f0 (match_cases p (mkFrame T VS BS NBk U) um spos ty idx payload cases).
Proof.
  induction cases as [|[[[pat ppos] binder] body] cases IH]; intros WC W HS C B V BB NB PL UF; cbn [match_cases]; [exact Logic.I|].
  cbn [forallb snd] in WC. apply andb_prop in WC. destruct WC as [WB WC].
  specialize (IH WC W HS C B V BB NB PL UF).
  assert (BLK : forall nb, cfb nb -> xres_ok f0 (XOk (eval_block (mkFrame T VS BS nb U) um body) [])).
  { intros nb CN. unfold xres_ok. rewrite UF. apply (ok_block _ _ _ _ _ _ _ n); assumption. }
  destruct (N.eqb pat underscore); [apply BLK; exact NB|].
  destruct (get_var p (mkFrame T VS BS NBk U) pat) as [pv|]; [|exact Logic.I].
  assert (HIT : forall t i,
    xres_ok f0 (if N.eqb ty t && N.eqb idx i
                then match payload, binder with
                     | Some pl, Some x =>
                         XOk (eval_block (set_nextb (mkFrame T VS BS NBk U) (if N.eqb x underscore then [] else [(x, pl)])) um body) []
                     | None, None => XOk (eval_block (set_nextb (mkFrame T VS BS NBk U) []) um body) []
                     | _, _ => match_cases p (mkFrame T VS BS NBk U) um spos ty idx payload cases
                     end
                else match_cases p (mkFrame T VS BS NBk U) um spos ty idx payload cases)).
  { intros t i. destruct (N.eqb ty t && N.eqb idx i); [|exact IH].
    destruct payload as [pl|], binder as [x|]; try exact IH; unfold set_nextb; cbn [todo vals blocks nextb uses]; apply BLK.
    - destruct (N.eqb x underscore); [constructor|]. constructor; [exact PL|constructor].
    - constructor. }
  destruct pv; try exact Logic.I; apply HIT.
Qed.

Lemma exec_ok p f es e t : prog_ok p -> todo f = (es, e) :: t -> frame_ok false 0 f ->
  xres_ok f (exec p (set_todo f t) es e).
Proof.
  intros (WP & GO & GN) ET (W & (n & HS & Cn) & B & V & BB & NB).
  rewrite ET in *. inversion W as [|? ? We Wt]; subst. cbn [snd] in We. fold (WT t) in Wt.
  cbn [sim] in HS. destruct (eff es e) as [[c pr]|] eqn:EF; [|discriminate].
  rewrite Nat.add_0_r in HS.
  destruct (Nat.leb c (length (vals f))) eqn:L; [|discriminate]. apply Nat.leb_le in L.
  destruct Cn as [[? _]|Cn]; [discriminate|].
  cbn [MachineInv.pending] in B. unfold pops in B. cbn [fst snd] in B.
  destruct e; try discriminate We.
  - (* EInt *) cbn [exec]. unfold xres_ok. norm. cbn [eff] in EF. inversion EF; subst c pr.
    apply (ok_push _ _ _ _ _ _ _ n);
      [reflexivity|exact Wt| |exact Cn| |exact V|exact BB|exact NB].
    + rewrite <- HS. f_equal. rewrite uu_meta. cbn [emeta]. lia.
    + destruct es as [|[]|]; cbn [entry_pops] in B; lia.
  - (* EStr *) cbn [exec]. unfold xres_ok. norm. cbn [eff] in EF. inversion EF; subst c pr.
    apply (ok_push _ _ _ _ _ _ _ n);
      [reflexivity|exact Wt|simgoal HS|exact Cn|blk B es|exact V|exact BB|exact NB].
  - (* EVar *) cbn [exec]. cbn [eff] in EF. inversion EF; subst c pr.
    destruct (get_var p (set_todo f t) x) as [v|] eqn:G; [|exact Logic.I].
    unfold xres_ok. norm.
    apply (ok_push _ _ _ _ _ _ _ n);
      [eapply get_var_cf; [exact GO| |exact G]; exact BB|exact Wt|simgoal HS|exact Cn|blk B es|exact V|exact BB|exact NB].
  - (* EBin *)
    cbn [wf] in We. andbs We.
    destruct es as [|b|].
    + cbn [exec]. cbn [eff] in EF. inversion EF; subst c pr. unfold xres_ok. norm.
      split; [|reflexivity]. apply (ok_frame _ _ _ _ _ n); norm; try assumption.
      * repeat constructor; cbn [snd]; try assumption. cbn [wf]. now rewrite We, We2, We1, We0.
      * erewrite sim_cons; [|apply eff_fresh; assumption|lia].
        erewrite sim_cons; [|apply eff_fresh; assumption|lia].
        erewrite sim_cons; [|reflexivity|rewrite !uu_one by assumption; lia].
        rewrite !uu_one by assumption. simgoal HS.
    + cbn [exec]. cbn [eff] in EF. inversion EF; subst c pr. unfold xres_ok. norm.
      split; [|reflexivity]. apply (ok_frame _ _ _ _ _ n); norm; try assumption.
      * repeat constructor; cbn [snd]; try assumption. cbn [wf]. now rewrite We, We2, We1, We0.
      * erewrite sim_cons; [|apply eff_fresh; assumption|lia].
        erewrite sim_cons; [|apply eff_fresh; assumption|lia].
        erewrite sim_cons; [|reflexivity|rewrite !uu_one by assumption; lia].
        rewrite !uu_one by assumption. simgoal HS.
      * cbn [MachineInv.pending pops fst snd entry_pops] in *. destruct b; cbn [entry_pops] in B; lia.
    + cbn [exec]. cbn [eff] in EF. inversion EF; subst c pr.
      unfold eval_binop. norm.
      destruct (vals f) as [|rv [|lv vs]] eqn:EV; try (cbn in L; lia).
      assert (Vs : Forall cfv vs) by (eapply Forall_tl2; exact V).
      cbn [entry_pops] in B.
      assert (PUSH : forall v, cfv v ->
                xres_ok f (XOk (push_val_if (used m) {| todo := t; vals := vs; blocks := blocks f; nextb := nextb f; uses := uses f |} v) [])).
      { intros v CV. unfold xres_ok.
        apply (ok_push _ _ _ _ _ _ _ n); [exact CV|exact Wt|simgoal HS|exact Cn|lia|exact Vs|exact BB|exact NB]. }
      destruct o.
      * destruct (int_of lv); [|exact Logic.I]. destruct (int_of rv); [|exact Logic.I].
        pose proof (int_arm_no_panic o z z0) as NP.
        destruct (arm_sem true (int_arm o) z z0); try exact Logic.I; [apply PUSH; reflexivity|apply PUSH; apply cfv_bool|contradiction].
      * apply PUSH. apply cfv_bool.
      * apply PUSH. apply cfv_bool.
      * destruct (as_bool lv); [|exact Logic.I]. destruct (as_bool rv); [|exact Logic.I]. apply PUSH. apply cfv_bool.
      * destruct (as_bool lv); [|exact Logic.I]. destruct (as_bool rv); [|exact Logic.I]. apply PUSH. apply cfv_bool.
      * destruct (str_of lv); [|exact Logic.I]. destruct (str_of rv); [|exact Logic.I]. apply PUSH. reflexivity.
  - (* ELet *)
    cbn [wf] in We. andbs We.
    assert (PUSHES : forall es', (es' = SNot \/ exists b, es' = SPart b) -> es = es' ->
      xres_ok f (XOk (push_todo (push_todo (set_todo f t) SDone (ELet m x e)) SNot e) [])).
    { intros es' K ->. assert (EF' : (c, pr) = (0, uu (ELet m x e))) by (destruct K as [->|[b ->]]; cbn [eff] in EF; inversion EF; reflexivity).
      inversion EF'; subst c pr. unfold xres_ok. norm.
      split; [|reflexivity]. apply (ok_frame _ _ _ _ _ n); norm; try assumption.
      * repeat constructor; cbn [snd]; try assumption. cbn [wf]. now rewrite We, We0.
      * erewrite sim_cons; [|apply eff_fresh; assumption|lia].
        erewrite sim_cons; [|reflexivity|rewrite !uu_one by assumption; lia].
        rewrite !uu_one by assumption. simgoal HS.
      * cbn [MachineInv.pending pops fst snd entry_pops] in *. destruct K as [->|[b ->]]; cbn [entry_pops] in B; lia. }
    destruct es as [|b|]; cbn [exec]; [apply (PUSHES SNot); auto|apply (PUSHES (SPart b)); eauto|].
    cbn [eff] in EF. inversion EF; subst c pr. unfold pop_val. norm.
    destruct (vals f) as [|v vs] eqn:EV; [cbn in L; lia|]. norm. unfold xres_ok.
    inversion V as [|? ? Vv Vs]; subst.
    apply (ok_push _ _ _ _ _ _ _ n); norm;
      [reflexivity|exact Wt|simgoal HS|exact Cn|rewrite add_new_length; cbn [entry_pops] in B; lia|exact Vs|now apply add_new_cf|exact NB].
  - (* EAssign *)
    cbn [wf] in We. andbs We.
    assert (PUSHES : forall es', (es' = SNot \/ exists b, es' = SPart b) -> es = es' ->
      xres_ok f (XOk (push_todo (push_todo (set_todo f t) SDone (EAssign m x xpos e)) SNot e) [])).
    { intros es' K ->. assert (EF' : (c, pr) = (0, uu (EAssign m x xpos e))) by (destruct K as [->|[b ->]]; cbn [eff] in EF; inversion EF; reflexivity).
      inversion EF'; subst c pr. unfold xres_ok. norm.
      split; [|reflexivity]. apply (ok_frame _ _ _ _ _ n); norm; try assumption.
      * repeat constructor; cbn [snd]; try assumption. cbn [wf]. now rewrite We, We0.
      * erewrite sim_cons; [|apply eff_fresh; assumption|lia].
        erewrite sim_cons; [|reflexivity|rewrite !uu_one by assumption; lia].
        rewrite !uu_one by assumption. simgoal HS.
      * cbn [MachineInv.pending pops fst snd entry_pops] in *. destruct K as [->|[b ->]]; cbn [entry_pops] in B; lia. }
    destruct es as [|b|]; cbn [exec]; [apply (PUSHES SNot); auto|apply (PUSHES (SPart b)); eauto|].
    cbn [eff] in EF. inversion EF; subst c pr. norm.
    destruct (lookup_blocks x (blocks f)) as [w|] eqn:LK; [|exact Logic.I].
    unfold pop_val. norm.
    destruct (vals f) as [|v vs] eqn:EV; [cbn in L; lia|]. norm.
    inversion V as [|? ? Vv Vs]; subst.
    destruct (set_existing_some x v _ _ LK) as [bs' SE]. rewrite SE. unfold xres_ok.
    apply (ok_push _ _ _ _ _ _ _ n); norm;
      [reflexivity|exact Wt|simgoal HS|exact Cn|rewrite (set_existing_length _ _ _ _ SE); cbn [entry_pops] in B; lia|exact Vs|
       eapply set_existing_cf; [exact BB|exact Vv|exact SE]|exact NB].
  - (* EUpd *)
    cbn [wf] in We. andbs We.
    assert (PUSHES : forall es', (es' = SNot \/ exists b, es' = SPart b) -> es = es' ->
      xres_ok f (XOk (push_todo (push_todo (set_todo f t) SDone (EUpd m u x xpos e)) SNot e) [])).
    { intros es' K ->. assert (EF' : (c, pr) = (0, uu (EUpd m u x xpos e))) by (destruct K as [->|[b ->]]; cbn [eff] in EF; inversion EF; reflexivity).
      inversion EF'; subst c pr. unfold xres_ok. norm.
      split; [|reflexivity]. apply (ok_frame _ _ _ _ _ n); norm; try assumption.
      * repeat constructor; cbn [snd]; try assumption. cbn [wf]. now rewrite We, We0.
      * erewrite sim_cons; [|apply eff_fresh; assumption|lia].
        erewrite sim_cons; [|reflexivity|rewrite !uu_one by assumption; lia].
        rewrite !uu_one by assumption. simgoal HS.
      * cbn [MachineInv.pending pops fst snd entry_pops] in *. destruct K as [->|[b ->]]; cbn [entry_pops] in B; lia. }
    destruct es as [|b|]; cbn [exec]; [apply (PUSHES SNot); auto|apply (PUSHES (SPart b)); eauto|].
    cbn [eff] in EF. inversion EF; subst c pr.
    destruct (get_var p (set_todo f t) x) as [cur|] eqn:G; [|exact Logic.I].
    destruct (int_of cur) as [a|] eqn:IC; [|exact Logic.I]. apply int_of_some in IC. subst cur.
    unfold pop_val. norm.
    destruct (vals f) as [|rv vs] eqn:EV; [cbn in L; lia|]. norm.
    inversion V as [|? ? Vv Vs]; subst.
    destruct (int_of rv) as [b|]; [|exact Logic.I].
    destruct (upd_arm_val u a b) as [z ->].
    assert (LK : exists w, lookup_blocks x (blocks f) = Some w).
    { unfold get_var in G. norm. destruct (lookup_blocks x (blocks f)) as [w|]; [eauto|].
      exfalso. eapply globals_noint_spec; eassumption. }
    destruct LK as [w LK].
    destruct (set_existing_some x (VInt z) _ _ LK) as [bs' SE]. rewrite SE. unfold xres_ok.
    apply (ok_push _ _ _ _ _ _ _ n); norm;
      [reflexivity|exact Wt|simgoal HS|exact Cn|rewrite (set_existing_length _ _ _ _ SE); cbn [entry_pops] in B; lia|exact Vs|
       exact (set_existing_cf x (VInt z) _ _ BB eq_refl SE)|exact NB].
  - (* EIf *)
    rename e into c0. rename t0 into tb. rename e0 into el.
    rewrite wf_if in We.
    apply andb_prop in We; destruct We as [We Wel]; apply andb_prop in We; destruct We as [We Wth];
      apply andb_prop in We; destruct We as [Uc Wc].
    assert (Wif : wf (EIf m c0 tb el) = true).
    { rewrite wf_if. now rewrite Uc, Wc, Wth, Wel. }
    destruct es as [|b|]; cbn [exec].
    + cbn [eff] in EF. inversion EF; subst c pr. unfold xres_ok. norm.
      split; [|reflexivity]. apply (ok_frame _ _ _ _ _ n); norm; try assumption.
      * repeat constructor; cbn [snd]; assumption.
      * erewrite sim_cons; [|apply eff_fresh; assumption|lia].
        erewrite sim_cons; [|reflexivity|rewrite !uu_one by assumption; lia].
        rewrite !uu_one by assumption. simgoal HS.
    + cbn [eff] in EF. inversion EF; subst c pr. unfold pop_val. norm.
      destruct (vals f) as [|cv vs] eqn:EV; [cbn in L; lia|]. norm.
      inversion V as [|? ? Vv Vs]; subst.
      destruct (as_bool cv) as [bb|]; [|exact Logic.I].
      assert (PB : MachineInv.pending ((SDone, EIf m c0 tb el) :: t) <= length (blocks f)).
      { cbn [MachineInv.pending pops fst snd entry_pops] in *. destruct b; cbn [entry_pops] in B; lia. }
      assert (WT2 : WT ((SDone, EIf m c0 tb el) :: t)) by (constructor; assumption).
      assert (SIM : forall k, k = binc (used m && is_some el) ->
                sim ((SDone, EIf m c0 tb el) :: t) (length vs + k) = Some n).
      { intros k ->. erewrite sim_cons; [|reflexivity|lia]. rewrite <- HS. f_equal. cbn [length].
        rewrite uu_meta. cbn [emeta]. destruct (used m), el; cbn; lia. }
      destruct bb.
      * unfold xres_ok. apply (ok_block _ _ _ _ _ _ _ n); norm; auto.
      * destruct el as [eb|].
        -- unfold xres_ok. apply (ok_block _ _ _ _ _ _ _ n); norm; auto.
           rewrite andb_true_r in *. exact Wel.
        -- unfold xres_ok. norm. split; [|reflexivity]. apply (ok_frame _ _ _ _ _ n); norm; try assumption.
           ++ rewrite <- (SIM 0); [f_equal; lia|]. rewrite andb_false_r. reflexivity.
           ++ cbn [length]. lia.
           ++ constructor; [constructor|assumption].
    + cbn [eff] in EF. inversion EF; subst c pr. unfold pop_block. norm.
      cbn [entry_pops] in B.
      destruct (blocks f) as [|b0 [|b1 bs]] eqn:EB; try (cbn [length] in B; lia).
      unfold xres_ok. norm.
      apply (ok_push _ _ _ _ _ _ _ n); norm;
        [reflexivity|exact Wt| |exact Cn|cbn [length] in *; lia|exact V|now inversion BB|exact NB].
      rewrite <- HS. f_equal. destruct (used m), el; cbn; lia.
  - (* EWhile *)
    rename e into c0. rename b into body.
    rewrite wf_while in We.
    apply andb_prop in We; destruct We as [We Wb]; apply andb_prop in We; destruct We as [Uc Wc].
    assert (Wwh : wf (EWhile m c0 body) = true).
    { rewrite wf_while. now rewrite Uc, Wc, Wb. }
    assert (START : forall bs', 1 + MachineInv.pending t <= length bs' -> Forall cfb bs' ->
              sim t (length (vals f) + uu (EWhile m c0 body)) = Some n ->
              frame_ok false 0 {| todo := (SNot, c0) :: (SPart BWill, EWhile m c0 body) :: t; vals := vals f; blocks := bs';
                                  nextb := nextb f; uses := uses f |}).
    { intros bs' PB CB HS'. apply (ok_frame _ _ _ _ _ n); try assumption.
      * repeat constructor; cbn [snd]; assumption.
      * erewrite sim_cons; [|apply eff_fresh; assumption|lia].
        erewrite sim_cons; [|reflexivity|rewrite !uu_one by assumption; lia].
        rewrite !uu_one by assumption. rewrite <- HS'. f_equal. lia. }
    destruct es as [|[]|]; cbn [exec].
    + cbn [eff] in EF. inversion EF; subst c pr. unfold xres_ok. norm.
      split; [|reflexivity]. apply START; norm; [cbn [entry_pops] in B; lia|exact BB|].
      rewrite <- HS. f_equal. lia.
    + cbn [eff] in EF. inversion EF; subst c pr. unfold pop_val. norm.
      destruct (vals f) as [|cv vs] eqn:EV; [cbn in L; lia|]. norm.
      inversion V as [|? ? Vv Vs]; subst. cbn [entry_pops] in B.
      destruct (as_bool cv) as [[]|]; [| |exact Logic.I].
      * unfold xres_ok. norm. apply (ok_block _ _ _ _ _ _ _ n); norm; auto;
          try (constructor; assumption);
          try (erewrite sim_cons; [|reflexivity|lia]; simgoal HS);
          try (cbn [MachineInv.pending pops fst snd entry_pops]; lia).
      * unfold xres_ok. norm.
        apply (ok_push _ _ _ _ _ _ _ n); norm;
          [reflexivity|constructor; assumption| |exact Cn|cbn [MachineInv.pending pops fst snd entry_pops]; lia|exact Vs|exact BB|exact NB].
        erewrite sim_cons; [|reflexivity|lia]. simgoal HS.
    + cbn [eff] in EF. inversion EF; subst c pr. unfold pop_block. norm. cbn [entry_pops] in B.
      destruct (blocks f) as [|b0 [|b1 bs]] eqn:EB; try (cbn [length] in B; lia).
      unfold xres_ok. norm. split; [|reflexivity].
      apply START; norm; [cbn [length] in *; lia|now inversion BB|]. rewrite <- HS. f_equal. lia.
    + cbn [eff] in EF. discriminate.
    + cbn [eff] in EF. inversion EF; subst c pr. unfold xres_ok. norm.
      split; [|reflexivity]. apply (ok_frame _ _ _ _ _ n); norm; try assumption;
        try (rewrite <- HS; f_equal; lia); try (cbn [entry_pops] in B; lia).
  - (* EReturn *)
    rename e into oe.
    assert (Wr : wf (EReturn m oe) = true) by exact We.
    assert (PUSHES : forall es', (es' = SNot \/ exists b, es' = SPart b) -> es = es' ->
      xres_ok f (let f1 := push_todo (set_todo f t) SDone (EReturn m oe) in
                 match oe with Some x => XOk (push_todo f1 SNot x) [] | None => XOk (push_val f1 vunit) [] end)).
    { intros es' K ->. assert (EF' : (c, pr) = (0, uu (EReturn m oe))) by (destruct K as [->|[b ->]]; cbn [eff] in EF; inversion EF; reflexivity).
      inversion EF'; subst c pr.
      assert (PB : 1 + MachineInv.pending ((SDone, EReturn m oe) :: t) <= length (blocks f)).
      { cbn [MachineInv.pending pops fst snd entry_pops] in *. destruct K as [->|[b ->]]; cbn [entry_pops] in B; lia. }
      destruct oe as [x|]; cbn zeta.
      - rewrite wf_return_some in We. apply andb_prop in We. destruct We as [Ux Wx].
        unfold xres_ok. norm. split; [|reflexivity]. apply (ok_frame _ _ _ _ _ n); norm; try assumption.
        + repeat constructor; cbn [snd]; assumption.
        + erewrite sim_cons; [|apply eff_fresh; assumption|lia].
          erewrite sim_cons; [|reflexivity|rewrite !uu_one by assumption; lia].
          rewrite !uu_one by assumption. simgoal HS.
      - unfold xres_ok. norm. split; [|reflexivity]. apply (ok_frame _ _ _ _ _ n); norm; try assumption.
        + constructor; assumption.
        + constructor; [apply cfv_unit|assumption]. }
    destruct es as [|b|]; cbn [exec]; [apply (PUSHES SNot); auto|apply (PUSHES (SPart b)); eauto|].
    cbn [eff] in EF. inversion EF; subst c pr. norm. cbn [entry_pops] in B.
    destruct (return_unwind_some t (blocks f) ltac:(lia)) as (bs' & R & L' & P'). rewrite R.
    unfold xres_ok. norm. split; [|reflexivity].
    apply (ok_frame [] (vals f) bs' (nextb f) (uses f) (length (vals f)));
      [constructor|reflexivity|exact L|cbn [MachineInv.pending]; lia|exact V|apply P'; exact BB|exact NB].
  - (* EList *)
    rewrite wf_list in We. pose proof (wf_all_used_AU _ We) as A.
    assert (Wl : wf (EList m l) = true) by (now rewrite wf_list).
    assert (ITEMS : forall es', (es' = SNot \/ exists b, es' = SPart b) -> es = es' ->
      xres_ok f (XOk (fold_left (fun acc it => push_todo acc SNot it) l (push_todo (set_todo f t) SDone (EList m l))) [])).
    { intros es' K ->. assert (EF' : (c, pr) = (0, uu (EList m l))) by (destruct K as [->|[b ->]]; cbn [eff] in EF; inversion EF; reflexivity).
      inversion EF'; subst c pr.
      apply (ok_items f t l _ n (length l) (uu (EList m l))); try assumption; try reflexivity; try lia;
        try (rewrite <- HS; f_equal; lia); try (destruct K as [->|[b ->]]; cbn [entry_pops] in B; lia). }
    destruct es as [|b|]; cbn [exec]; [apply (ITEMS SNot); auto|apply (ITEMS (SPart b)); eauto|].
    cbn [eff] in EF. inversion EF; subst c pr. norm.
    destruct (pop_n_ok _ _ L) as (vl & r & -> & LL & EV). rewrite EV in *. unfold xres_ok. norm.
    apply (ok_push _ _ _ _ _ _ _ n); norm;
      [apply cfv_list; eapply Forall_app_l; exact V|exact Wt| |exact Cn|cbn [entry_pops] in B; lia|eapply Forall_app_r; exact V|exact BB|exact NB].
    rewrite <- HS. f_equal. rewrite app_length. rewrite uu_meta. cbn [emeta]. lia.
  - (* ETuple *)
    rewrite wf_tuple in We. pose proof (wf_all_used_AU _ We) as A.
    assert (Wl : wf (ETuple m l) = true) by (now rewrite wf_tuple).
    assert (ITEMS : forall es', (es' = SNot \/ exists b, es' = SPart b) -> es = es' ->
      xres_ok f (XOk (fold_left (fun acc it => push_todo acc SNot it) l (push_todo (set_todo f t) SDone (ETuple m l))) [])).
    { intros es' K ->. assert (EF' : (c, pr) = (0, uu (ETuple m l))) by (destruct K as [->|[b ->]]; cbn [eff] in EF; inversion EF; reflexivity).
      inversion EF'; subst c pr.
      apply (ok_items f t l _ n (length l) (uu (ETuple m l))); try assumption; try reflexivity; try lia;
        try (rewrite <- HS; f_equal; lia); try (destruct K as [->|[b ->]]; cbn [entry_pops] in B; lia). }
    destruct es as [|b|]; cbn [exec]; [apply (ITEMS SNot); auto|apply (ITEMS (SPart b)); eauto|].
    cbn [eff] in EF. inversion EF; subst c pr. norm.
    destruct (pop_n_ok _ _ L) as (vl & r & -> & LL & EV). rewrite EV in *. unfold xres_ok. norm.
    apply (ok_push _ _ _ _ _ _ _ n); norm;
      [apply cfv_tuple; eapply Forall_app_l; exact V|exact Wt| |exact Cn|cbn [entry_pops] in B; lia|eapply Forall_app_r; exact V|exact BB|exact NB].
    rewrite <- HS. f_equal. rewrite app_length. rewrite uu_meta. cbn [emeta]. lia.
  - (* ECall *)
    rename e into fe.
    rewrite wf_call in We.
    apply andb_prop in We; destruct We as [We Wa]; apply andb_prop in We; destruct We as [Uf Wf].
    pose proof (wf_all_used_AU _ Wa) as A.
    assert (Wc : wf (ECall m fe args) = true) by (rewrite wf_call; now rewrite Uf, Wf, Wa).
    destruct es as [|b|]; cbn [exec].
    + cbn [eff] in EF. inversion EF; subst c pr. unfold xres_ok. norm.
      split; [|reflexivity]. apply (ok_frame _ _ _ _ _ n); norm; try assumption.
      * repeat constructor; cbn [snd]; assumption.
      * erewrite sim_cons; [|apply eff_fresh; assumption|lia].
        erewrite sim_cons; [|reflexivity|rewrite !uu_one by assumption; lia].
        rewrite !uu_one by assumption. simgoal HS.
    + cbn [eff] in EF. inversion EF; subst c pr.
      apply (ok_items f t args _ n (S (length args)) (uu (ECall m fe args))); try assumption; try reflexivity; try lia;
        try (rewrite <- HS; f_equal; lia); try (destruct b; cbn [entry_pops] in B; lia).
    + cbn [eff] in EF. inversion EF; subst c pr. cbn [entry_pops] in B.
      unfold eval_call. norm.
      destruct (pop_n_ok (length args) (vals f) ltac:(lia)) as (argv & rest & -> & LL & EV).
      rewrite EV in *. rewrite app_length in L, HS.
      destruct rest as [|recv rest']; [cbn [length] in L; lia|]. norm.
      pose proof (Forall_app_l _ _ _ V) as Vargv. pose proof (Forall_app_r _ _ _ V) as Vr.
      inversion Vr as [|? ? Vrecv Vrest]; subst.
      assert (HS' : sim t (length rest' + binc (used m)) = Some n).
      { rewrite <- HS. f_equal. cbn [length]. rewrite uu_meta. cbn [emeta]. lia. }
      assert (PUSH : forall v out, cfv v ->
                xres_ok f (XOk (push_val_if (used m) {| todo := t; vals := rest'; blocks := blocks f; nextb := nextb f; uses := uses f |} v) out)).
      { intros v out CV. unfold xres_ok.
        apply (ok_push _ _ _ _ _ _ _ n); [exact CV|exact Wt|exact HS'|exact Cn|lia|exact Vrest|exact BB|exact NB]. }
      assert (ONE : Nat.eqb (length args) 1 = true -> exists a, argv = [a] /\ cfv a).
      { intros E. apply Nat.eqb_eq in E. rewrite E in LL. destruct argv as [|a [|a2 argv]]; try discriminate.
        exists a. split; [reflexivity|now inversion Vargv]. }
      assert (ARERR : forall k, xres_ok f (if Nat.ltb k (length args)
                                           then exn (nth_pos args k (pstart m, pend m)) else exn (pstart m, pend m))).
      { intros k. destruct (Nat.ltb k (length args)); exact Logic.I. }
      destruct recv; try exact Logic.I.
      * discriminate Vrecv.
      * destruct (assoc name (funs p)) as [fd|] eqn:AF; [|exact Logic.I].
        destruct (Nat.eqb (length (fparams fd)) (length args)); [|apply ARERR].
        unfold xres_ok. split; [|split; [reflexivity|]].
        -- unfold new_frame. cbn [uses]. unfold frame_ok. norm.
           split; [exact Wt|]. split; [exists n; split; [exact HS'|right; exact Cn]|].
           split; [lia|]. auto.
        -- apply callee_ok; [eapply wf_prog_body; eassumption|now apply param_block_cf].
      * destruct (Nat.eqb (length args) 1) eqn:E1; [|apply ARERR].
        destruct (ONE eq_refl) as (a & -> & Ca). apply PUSH. exact Ca.
      * destruct (Nat.eqb (length args) 1) eqn:E1; [|apply ARERR].
        destruct (ONE eq_refl) as (a & -> & Ca).
        destruct b; [destruct (str_of a); [apply PUSH; reflexivity|exact Logic.I]
                    |destruct (str_of a); [apply PUSH; reflexivity|exact Logic.I]
                    |apply PUSH; reflexivity].
  - (* EParen *)
    cbn [wf] in We. apply andb_prop in We. destruct We as [Ue Wi]. apply eqb_prop in Ue.
    cbn [exec]. cbn [eff] in EF. inversion EF; subst c pr. unfold xres_ok. norm.
    split; [|reflexivity]. apply (ok_frame _ _ _ _ _ n); norm; try assumption.
    + constructor; assumption.
    + erewrite sim_cons; [|apply eff_fresh; assumption|lia]. rewrite <- HS. f_equal.
      unfold uu. rewrite Ue. unfold eused. cbn [emeta]. lia.
    + cbn [MachineInv.pending pops fst snd entry_pops]. destruct es as [|[]|]; cbn [entry_pops] in B; lia.
  - (* EMatch *)
    rename e into sc.
    assert (Wm : wf (EMatch m sc cases) = true) by exact We.
    rewrite wf_match in We. apply andb_prop in We; destruct We as [We Wcs]; apply andb_prop in We; destruct We as [Us Ws].
    destruct es as [|b|]; cbn [exec].
    + cbn [eff] in EF. inversion EF; subst c pr. unfold xres_ok. norm.
      split; [|reflexivity]. apply (ok_frame _ _ _ _ _ n); norm; try assumption.
      * repeat constructor; cbn [snd]; assumption.
      * erewrite sim_cons; [|apply eff_fresh; assumption|lia].
        erewrite sim_cons; [|reflexivity|rewrite !uu_one by assumption; lia].
        rewrite !uu_one by assumption. simgoal HS.
    + cbn [eff] in EF. inversion EF; subst c pr. unfold pop_val. norm.
      destruct (vals f) as [|sv vs] eqn:EV; [cbn in L; lia|]. norm.
      inversion V as [|? ? Vv Vs]; subst.
      destruct sv; try exact Logic.I.
      apply (match_cases_ok p f ((SDone, EMatch m sc cases) :: t) vs (blocks f) (nextb f) (uses f) (used m) n); try assumption.
      * constructor; assumption.
      * erewrite sim_cons; [|reflexivity|lia]. rewrite <- HS. f_equal. cbn [length]. rewrite uu_meta. cbn [emeta]. lia.
      * cbn [MachineInv.pending pops fst snd entry_pops] in *. destruct b; cbn [entry_pops] in B; lia.
      * unfold cfv in Vv. cbn [closure_free] in Vv. destruct payload; [exact Vv|exact Logic.I].
      * reflexivity.
    + cbn [eff] in EF. inversion EF; subst c pr. unfold pop_block. norm. cbn [entry_pops] in B.
      destruct (blocks f) as [|b0 [|b1 bs]] eqn:EB; try (cbn [length] in B; lia).
      unfold xres_ok. norm. split; [|reflexivity]. apply (ok_frame _ _ _ _ _ n); norm; try assumption.
      * rewrite <- HS. f_equal. lia.
      * cbn [length] in *. lia.
      * now inversion BB.
Qed.

(* ---- one iteration of the eval loop ---------------------------------------- *)
Theorem evaluator_keeps_discipline_lemma p : prog_ok p -> evaluator_keeps_discipline p.
Proof.
  intros PO s R. unfold step.
  destruct (stack s) as [|f rest] eqn:ES; [exact R|].
  destruct R as [F C].
  destruct (todo f) as [|[es e] t] eqn:ET.
  - (* the frame is finished *)
    pose proof F as (W & (n & HS & Cn) & B & V & BB & NB).
    rewrite ET in HS. cbn [sim] in HS. inversion HS; subst n.
    destruct Cn as [[? _]|Cn]; [discriminate|].
    destruct (vals f) as [|v vs] eqn:EV; [cbn in Cn; lia|].
    inversion V as [|? ? Vv Vs]; subst.
    destruct rest as [|caller rest'].
    + cbn [with_stack stack stack_ok]. unfold frame_ok. cbn [set_vals todo vals blocks nextb].
      rewrite ET. split; [constructor|]. split; [exists (length vs + 0); cbn [sim]; auto|].
      rewrite ET in B. auto.
    + cbn [with_stack stack stack_run].
      destruct (callers_push (uses f) caller rest' v Vv C) as [F1 C1].
      split; [exact F1|]. rewrite push_val_if_uses. exact C1.
  - destruct (interrupted s); [exact Logic.I|].
    destruct (opt_le (tick_limit s) (ticks s + 1)); [exact Logic.I|].
    destruct (opt_lt (stack_limit s) (N.of_nat (length (f :: rest)))); [exact Logic.I|].
    pose proof (exec_ok p f es e t PO ET F) as X.
    destruct (exec p (set_todo f t) es e) as [f' pr|f' callee|er| |]; try exact Logic.I; try contradiction.
    + destruct X as [F' U]. cbn [with_stack stack stack_run]. split; [exact F'|]. rewrite U. exact C.
    + destruct X as (F' & U & FC). cbn [with_stack stack stack_run callers_ok].
      split; [exact FC|]. split; [exact F'|]. rewrite U. exact C.
Qed.

(* the evaluator never crashes from a state that satisfies the discipline *)
Theorem machine_no_crash_lemma p : prog_ok p -> forall s, stack_run (stack s) -> step p s <> Crashed.
Proof.
  intros PO s R H. pose proof (evaluator_keeps_discipline_lemma p PO s R) as K. rewrite H in K. exact K.
Qed.

(* ---- a whole run from the start of a program --------------------------------- *)
Lemma init_run exprs tl sl : wf_all_used exprs = true -> exprs <> [] -> stack_run (stack (init_state exprs tl sl)).
Proof.
  intros W NE. cbn [init_state stack stack_run toplevel_frame callers_ok]. split; [|exact Logic.I].
  apply (ok_frame _ _ _ _ _ (1 + length exprs)).
  - apply AU_wf. now apply wf_all_used_AU.
  - change (map (fun e => (SNot, e)) exprs) with (fresh_of exprs). rewrite <- (app_nil_r (fresh_of exprs)).
    rewrite sim_used by now apply wf_all_used_AU. reflexivity.
  - lia.
  - rewrite pending_fresh. cbn. lia.
  - repeat constructor.
  - repeat constructor.
  - constructor.
Qed.

Theorem run_no_crash_lemma p exprs : prog_ok p -> wf_all_used exprs = true ->
  forall n, run p n (init_state exprs None None) <> RCrashed.
Proof.
  intros PO W n.
  destruct exprs as [|e0 exprs].
  { (* nothing to evaluate: the toplevel frame returns its Unit *)
    destruct n as [|n]; cbn; discriminate. }
  assert (R : stack_run (stack (init_state (e0 :: exprs) None None))) by (apply init_run; [exact W|discriminate]).
  revert R. generalize (init_state (e0 :: exprs) None None). clear W.
  induction n as [|n IH]; intros s R; cbn [run]; [discriminate|].
  pose proof (evaluator_keeps_discipline_lemma p PO s R) as K.
  destruct (step p s) as [s'|v s'|er s'| |]; try discriminate; [|contradiction].
  apply IH. exact K.
Qed.
