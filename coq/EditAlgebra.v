(* EditAlgebra -- MODEL: byte-splice edits on sources, and a position-free view
   of garden's lexer (Lex.v) as a sequence of steps over the remaining text.

   Definitions only (proofs are in EditAlgebraProps.v).

   Sources are lists of chars (`list N`, Base/Utf.v); edit offsets are BYTE
   offsets as in src/format.rs (`SpanEdit { start_offset, end_offset,
   replacement }`, applied with `String::replace_range`, which panics off a
   char boundary: `None` here).

   `kstep s` is what one iteration of the lexer loop does when the remaining
   input is `s`, with all positions erased (EditAlgebraProps.kstep_agrees ties it
   to `Lex.lex_step` at every offset of every source).  `lex_items src` is the
   sequence of token texts and comment texts of `Lex.lex src`, in source order
   (a comment is listed before the token whose `preceding_comments` holds it;
   trailing comments come last).

   A "gap" is the text between two consecutive lexer tokens (or file start /
   end); the lexer consumes it in KSkip steps (one whitespace char each),
   KComment steps (`//` up to and including the line feed) and KErr steps.
   `gap_ok pre w rep post` is the decidable condition under which replacing the
   whitespace `w` by the whitespace `rep` between `pre` and `post` is proved to
   keep `lex_items` (EditAlgebraProps.splice_in_gap_preserves_tokens_lemma). *)
From Coq Require Import NArith Bool List.
From Garden Require Import Base.Utf Lex.
Import ListNotations.
Open Scope N_scope.

(* ------------------------------------------------------------------ *)
(* Edits *)

Record edit := mkedit { e_start : N; e_end : N; e_rep : list N }.

(* result.replace_range(start..end, &replacement); None = panic *)
Definition splice (s : list N) (e : edit) : option (list N) :=
  if e_end e <? e_start e then None else
  match split_bytes s (e_start e) with
  | None => None
  | Some (p, q) =>
    match split_bytes q (e_end e - e_start e) with
    | None => None
    | Some (_, r) => Some (p ++ e_rep e ++ r)
    end
  end.

(* for edit in span_edits.iter() { result.replace_range(..) }  (in list order) *)
Fixpoint apply_edits (s : list N) (es : list edit) : option (list N) :=
  match es with
  | [] => Some s
  | e :: r => match splice s e with Some s' => apply_edits s' r | None => None end
  end.

(* sorted by start_offset descending and non-overlapping: each edit ends at or
   before the start of the edit applied before it *)
Fixpoint desc_sorted (es : list edit) : bool :=
  match es with
  | e1 :: ((e2 :: _) as r) => (e_start e2 <=? e_end e2) && (e_end e2 <=? e_start e1) && desc_sorted r
  | _ => true
  end.

(* ------------------------------------------------------------------ *)
(* The lexer without positions *)

Inductive kind := KSkip | KComment | KToken | KErrToken | KErr.

(* text up to and including the first line feed (all of s when it has none) *)
Fixpoint upto_lf (s : list N) : list N :=
  match s with
  | [] => []
  | c :: r => if c =? LF then [LF] else c :: upto_lf r
  end.

(* one iteration on the remaining input s: what is consumed, and as what *)
Definition kstep (s : list N) : option (kind * list N) :=
  if starts_with2 SLASH SLASH s then Some (KComment, upto_lf s)
  else
  match s with
  | [] => None
  | c :: _ =>
    if is_whitespace c then Some (KSkip, [c])
    else if existsb (fun ab => starts_with2 (fst ab) (snd ab) s) two_char_tokens then
      match s with a :: b :: _ => Some (KToken, [a; b]) | _ => None end
    else
    match float_re s with
    | Some m => Some (KToken, m)
    | None =>
    match integer_re s with
    | Some m => Some (KToken, m)
    | None =>
    if existsb (N.eqb c) one_char_tokens then Some (KToken, [c])
    else
    match string_re true s with
    | Some text =>
      if ends_with_quote text then Some (KToken, text) else Some (KErrToken, before_lf text)
    | None =>
    match symbol_re s with
    | Some m => Some (KToken, m)
    | None => Some (KErr, [c])
    end end end end
  end.

Inductive item := ITok (t : list N) | ICom (t : list N).

Fixpoint klex (fuel : nat) (s : list N) : option (list item) :=
  match fuel with
  | O => None
  | S f =>
    match s with
    | [] => Some []
    | _ =>
      match kstep s with
      | None => None
      | Some (k, t) =>
        let r := skipn (length t) s in
        match k with
        | KSkip | KErr => klex f r
        | KComment => option_map (cons (ICom t)) (klex f r)
        | KToken | KErrToken => option_map (cons (ITok t)) (klex f r)
        end
      end
    end
  end.

(* the same sequence read off a result of Lex.lex *)
Definition com_item (c : comment) : item := ICom (snd c).
Definition tok_items (t : token) : list item := map com_item (tcomments t) ++ [ITok (ttext t)].
Definition items_of_result (r : lex_result) : option (list item) :=
  match r with
  | LexOk ts tr _ => Some (flat_map tok_items ts ++ map com_item tr)
  | _ => None
  end.
Definition lex_items (src : list N) : option (list item) := items_of_result (lex src).

(* ------------------------------------------------------------------ *)
(* Gap conditions *)

Definition all_ws (w : list N) : bool := forallb is_whitespace w.

(* second chars of the two-char tokens, and `/` (second char of a comment start) *)
Definition pair_second (c : N) : bool :=
  existsb (N.eqb c) [61; 38; 124; 42; 46; 62; 58; 47].

(* a char that cannot continue any token: every scanner stops in front of it *)
Definition stop (c : N) : bool := negb (is_sym_char c) && negb (c =? DOT) && negb (pair_second c).

(* the texts following the edited place before / after the edit *)
Definition tails_ok (A B : list N) : bool :=
  match A, B with
  | [], [] => true
  | [], b :: _ => stop b
  | a :: _, [] => stop a
  | a :: _, b :: _ => (stop a && stop b) || ((a =? SLASH) && (b =? SLASH))
  end.

(* a double-quoted string body that is closed by a real closing quote (not the
   lexer's end-of-text alternative): `string_body` stops exactly at its end
   whatever follows *)
Fixpoint closed_body_go (n : nat) (b : list N) {struct n} : bool :=
  match n with
  | O => false
  | S n' =>
    match b with
    | [] => false
    | c :: r =>
      if c =? QUOTE then match r with [] => true | _ => false end
      else if c =? BACKSLASH then
        match r with
        | d :: r' => if negb (d =? LF) then closed_body_go n' r' else closed_body_go n' r
        | [] => false
        end
      else closed_body_go n' r
    end
  end.
Definition closed_body (b : list N) : bool := closed_body_go (S (length b)) b.

Fixpoint ends_lf (t : list N) : bool :=
  match t with
  | [] => false
  | [c] => c =? LF
  | _ :: r => ends_lf r
  end.

(* steps the locality lemma covers: no unclosed string, comments terminated by
   a line feed, string tokens closed by their own quote *)
Definition step_ok_k (k : kind) (t : list N) : bool :=
  match k with
  | KErrToken => false
  | KComment => ends_lf t
  | KToken => match t with c :: b => if c =? QUOTE then closed_body b else true | [] => true end
  | _ => true
  end.

(* the steps that consume exactly u when followed by A (None: some step runs
   past the end of u, i.e. the end of u is inside a token or comment, or a step
   is not covered) *)
Fixpoint krun (fuel : nat) (u A : list N) : option (list (kind * list N)) :=
  match u with
  | [] => Some []
  | _ =>
    match fuel with
    | O => None
    | S f =>
      match kstep (u ++ A) with
      | None => None
      | Some (k, t) =>
        if Nat.leb (length t) (length u) && step_ok_k k t then
          option_map (cons (k, t)) (krun f (skipn (length t) u) A)
        else None
      end
    end
  end.

Definition list_eqb (a b : list N) : bool := if list_eq_dec N.eq_dec a b then true else false.

(* the file must not start with `#` (shebang line, skipped by `lex`) before or
   after the edit *)
Definition sheb_ok (pre post : list N) : bool :=
  match pre with
  | c :: _ => negb (c =? HASH)
  | [] => match post with c :: _ => negb (c =? HASH) | [] => true end
  end.

Definition kind_eqb (a b : kind) : bool :=
  match a, b with
  | KSkip, KSkip | KComment, KComment | KToken, KToken | KErrToken, KErrToken | KErr, KErr => true
  | _, _ => false
  end.
(* the step taken on tl ++ X consumes exactly tl, as a k *)
Definition same_step (k : kind) (tl X : list N) : bool :=
  match kstep (tl ++ X) with
  | Some (k', t') => list_eqb t' tl && kind_eqb k k'
  | None => false
  end.

(* (a) the lexer has a step boundary at the end of `pre` and the texts that
       follow it before/after the edit both start with a char no token can
       absorb; or
   (b) the same with the boundary moved in front of the last step before the
       edit, when that step (in practice a whitespace char or a `//` comment
       line) is taken identically before and after the edit *)
Definition gap_ok (pre w rep post : list N) : bool :=
  all_ws w && all_ws rep && sheb_ok pre post &&
  match krun (S (length pre)) pre (w ++ post) with
  | None => false
  | Some steps =>
    tails_ok (w ++ post) (rep ++ post) ||
    match rev steps with
    | [] => true
    | (k, tl) :: _ =>
      let pre0 := firstn (length pre - length tl) pre in
      list_eqb pre (pre0 ++ tl) &&
      match krun (S (length pre)) pre0 (tl ++ w ++ post) with Some _ => true | None => false end &&
      tails_ok (tl ++ w ++ post) (tl ++ rep ++ post) &&
      same_step k tl (w ++ post) && same_step k tl (rep ++ post)
    end
  end.

(* the same, for an edit given by byte offsets *)
Definition gap_edit_ok (src : list N) (e : edit) : bool :=
  if e_end e <? e_start e then false else
  match split_bytes src (e_start e) with
  | None => false
  | Some (pre, q) =>
    match split_bytes q (e_end e - e_start e) with
    | None => false
    | Some (w, post) => gap_ok pre w (e_rep e) post
    end
  end.

(* every edit is checked on the text it is applied to (the edits are applied
   in descending offset order, so the offsets of the remaining edits still
   designate the same places: EditAlgebraProps.splice_keeps_prefix) *)
Fixpoint edits_ok (src : list N) (es : list edit) : bool :=
  match es with
  | [] => true
  | e :: r =>
    gap_edit_ok src e &&
    match splice src e with Some s' => edits_ok s' r | None => false end
  end.

(* ------------------------------------------------------------------ *)
(* Per-line indentation edits (format.rs apply_indentation_edits): the leading
   whitespace of the line that starts right after `pre` is replaced by n spaces
   (by nothing when the line is blank). *)
Definition SPACE : N := 32.
Definition ws_not_lf (c : N) : bool := is_whitespace c && negb (c =? LF).
Definition line_start (pre : list N) : bool :=
  match rev pre with [] => true | c :: _ => c =? LF end.
Definition indent_edit (pre rest : list N) (n : nat) : edit :=
  let (w, post) := span ws_not_lf rest in
  let blank := match post with [] => true | c :: _ => c =? LF end in
  mkedit (blen pre) (blen pre + blen w) (if blank then [] else repeat SPACE n).

(* ------------------------------------------------------------------ *)
(* Phase 9 of format.rs: exactly one trailing newline on non-empty output *)
Fixpoint strip_lfs (r : list N) : list N :=      (* on the reversed text *)
  match r with
  | a :: ((b :: _) as t) => if (a =? LF) && (b =? LF) then strip_lfs t else r
  | _ => r
  end.
Definition final_newline (s : list N) : list N :=
  let r := strip_lfs (rev s) in
  match r with
  | [] => []
  | c :: _ => if c =? LF then rev r else rev (LF :: r)
  end.

(* a gap-normalising phase (format.rs phases 7 and 8 have this shape): the text
   between two adjacent tokens is replaced by a desired whitespace that depends
   only on the two token texts; `None` = leave the gap alone *)
Definition gap_edit_of (desired : list N -> list N -> option (list N)) (prev next gap : list N) : option (list N) :=
  match desired prev next with
  | Some d => if list_eq_dec N.eq_dec gap d then None else Some d
  | None => None
  end.
