(* EditAlgebraProps -- proofs about coq/EditAlgebra.v (edits, the position-free
   lexer steps, locality of lexing, the splice theorems used by C17 / C18).

   Part 1  kstep is Lex.lex_step with the positions erased (at every offset)
   Part 2  klex is the token/comment text sequence of the lexer loop; lex_items
   Part 3  locality: scanners stop in front of a char no token can absorb
   Part 4  runs of steps, splice_in_gap_lemma and the edit-list theorem
   Part 5  phase 9 (final newline) is idempotent
   Part 6  indentation edits, examples, refuting witnesses
   Part 7  fixed points of gap-normalising phases *)
From Coq Require Import NArith Bool List Lia PeanoNat.
From Garden Require Import Base.Utf Lex LexProps EditAlgebra.
Import ListNotations.
Open Scope N_scope.

(* ================================================================== *)
(* Part 1: kstep is lex_step without positions *)

Definition agrees (s : list N) (st : step) (ks : option (kind * list N)) : Prop :=
  exists k t r, ks = Some (k, t) /\ s = t ++ r /\ t <> [] /\
    match st with
    | SSkip n => k = KSkip /\ n = blen t
    | SComment _ t' n => k = KComment /\ t' = t /\ n = blen t
    | SToken _ t' n => k = KToken /\ t' = t /\ n = blen t
    | SErrToken _ _ _ t' n => k = KErrToken /\ t' = t /\ n = blen t
    | SErr _ _ n => k = KErr /\ n = blen t
    | _ => False
    end.

Lemma count_lf_cons0 : forall c m, count_lf (c :: m) = 0 -> c <> LF /\ count_lf m = 0.
Proof.
  intros c m H. cbn [count_lf] in H. destruct (N.eqb_spec c LF) as [->|Hn].
  - lia.
  - split; [exact Hn|lia].
Qed.

Lemma upto_lf_found : forall m r, count_lf m = 0 -> upto_lf (m ++ LF :: r) = m ++ [LF].
Proof.
  induction m as [|c m IH]; intros r H; cbn [app upto_lf].
  - now rewrite N.eqb_refl.
  - apply count_lf_cons0 in H as [Hn H]. apply N.eqb_neq in Hn. rewrite Hn. now rewrite IH.
Qed.

Lemma upto_lf_none : forall s, count_lf s = 0 -> upto_lf s = s.
Proof.
  induction s as [|c s IH]; intro H; [reflexivity|]. cbn [upto_lf].
  apply count_lf_cons0 in H as [Hn H]. apply N.eqb_neq in Hn. rewrite Hn. now rewrite IH.
Qed.

Lemma kstep_agrees : forall p s, s <> [] ->
  agrees s (lex_step cfg_fixed (p ++ s) (blen p)) (kstep s).
Proof.
  intros p s Hs. unfold lex_step, kstep. rewrite drop_bytes_app.
  destruct (starts_with2 SLASH SLASH s) eqn:Ecom.
  { rewrite from_offset_app.
    destruct (find_lf s) as [i|] eqn:Ef.
    - destruct (find_lf_some _ _ Ef) as (m & r & -> & Hb & Hc). subst i.
      rewrite upto_lf_found by exact Hc.
      replace (blen m + 1) with (blen (m ++ [LF])) by (rewrite blen_app; reflexivity).
      replace (m ++ LF :: r) with ((m ++ [LF]) ++ r) by (rewrite <- app_assoc; reflexivity).
      rewrite take_bytes_app. exists KComment, (m ++ [LF]), r.
      split; [reflexivity|]. split; [reflexivity|]. split; [destruct m; discriminate|]. repeat split; reflexivity.
    - pose proof (find_lf_none _ Ef) as Hc. rewrite upto_lf_none by exact Hc.
      exists KComment, s, []. rewrite app_nil_r. split; [reflexivity|]. split; [reflexivity|]. split; [exact Hs|]. repeat split; reflexivity. }
  destruct s as [|c s']; [congruence|].
  destruct (is_whitespace c) eqn:Ews.
  { cbn [fix_a cfg_fixed]. exists KSkip, [c], s'. split; [reflexivity|]. split; [reflexivity|]. split; [discriminate|]. split; [reflexivity|]. now rewrite blen_single. }
  assert (Hlf : c <> LF) by (intros ->; rewrite whitespace_lf in Ews; discriminate).
  destruct (existsb _ two_char_tokens) eqn:E2.
  { destruct (two_char_hit _ E2) as (a & b & r & Es & Hb & Hc).
    cbn [app] in Es. injection Es as -> ->. change (a :: b :: r) with ([a; b] ++ r).
    rewrite <- Hb. unfold slice_token.
    destruct (single_line_pos_wf p [a; b] r Hc) as (ps & E & W). rewrite E, take_bytes_app.
    cbn [app]. exists KToken, [a; b], r. split; [reflexivity|]. split; [reflexivity|]. split; [discriminate|]. repeat split; reflexivity. }
  destruct (float_re (c :: s')) as [m|] eqn:Efl.
  { destruct (float_re_spec _ _ Efl) as (r & Es & Hm & Hc). rewrite Es. unfold match_token.
    destruct (single_line_pos_wf p m r Hc) as (ps & E & W). rewrite E.
    exists KToken, m, r. split; [reflexivity|]. split; [reflexivity|]. split; [exact Hm|]. repeat split; reflexivity. }
  destruct (integer_re (c :: s')) as [m|] eqn:Eint.
  { destruct (integer_re_spec _ _ Eint) as (r & Es & Hm & Hc). rewrite Es. unfold match_token.
    destruct (single_line_pos_wf p m r Hc) as (ps & E & W). rewrite E.
    exists KToken, m, r. split; [reflexivity|]. split; [reflexivity|]. split; [exact Hm|]. repeat split; reflexivity. }
  destruct (existsb (N.eqb c) one_char_tokens) eqn:E1.
  { destruct (one_char_hit _ E1) as [L1 _].
    change (c :: s') with ([c] ++ s'). rewrite <- L1, <- blen_single. unfold slice_token.
    destruct (single_line_pos_wf p [c] s' (count_lf_single c Hlf)) as (ps & E & W).
    rewrite E, take_bytes_app. exists KToken, [c], s'. split; [reflexivity|]. split; [reflexivity|]. split; [discriminate|]. repeat split; reflexivity. }
  cbn [fix_a fix_b fix_c cfg_fixed].
  destruct (string_re true (c :: s')) as [text|] eqn:Estr.
  { destruct (string_re_spec _ _ _ Estr) as (r & t & Es & Et). rewrite Es.
    destruct (ends_with_quote text) eqn:Eq.
    - rewrite from_offset_app.
      replace (blen p + blen text) with (blen (p ++ text)) by now rewrite blen_app.
      replace (p ++ text ++ r) with ((p ++ text) ++ r) by now rewrite <- app_assoc.
      rewrite from_offset_app.
      exists KToken, text, r. split; [reflexivity|]. split; [reflexivity|]. split; [subst text; discriminate|]. repeat split; reflexivity.
    - destruct (before_lf_spec text) as (r' & Hr' & Hc).
      assert (Hne : before_lf text <> []).
      { subst text. cbn [before_lf]. destruct (N.eqb_spec QUOTE LF); discriminate. }
      set (tc := before_lf text) in *.
      replace (text ++ r) with (tc ++ r' ++ r) by (rewrite app_assoc, <- Hr'; reflexivity).
      destruct (single_line_pos_wf p tc (r' ++ r) Hc) as (ps & E & W). rewrite E.
      exists KErrToken, tc, (r' ++ r). split; [reflexivity|]. split; [reflexivity|]. split; [exact Hne|]. repeat split; reflexivity. }
  destruct (symbol_re (c :: s')) as [m|] eqn:Esym.
  { destruct (symbol_re_spec _ _ Esym) as (r & Es & Hm & Hc). rewrite Es. unfold match_token.
    destruct (single_line_pos_wf p m r Hc) as (ps & E & W). rewrite E.
    exists KToken, m, r. split; [reflexivity|]. split; [reflexivity|]. split; [exact Hm|]. repeat split; reflexivity. }
  change (c :: s') with ([c] ++ s'). rewrite <- blen_single.
  destruct (single_line_pos_wf p [c] s' (count_lf_single c Hlf)) as (ps & E & W). rewrite E.
  rewrite take_bytes_app. exists KErr, [c], s'. split; [reflexivity|]. split; [reflexivity|]. split; [discriminate|]. repeat split; reflexivity.
Qed.

(* every step consumes a non-empty prefix of the remaining input *)
Lemma kstep_nil : kstep [] = None.
Proof. reflexivity. Qed.

Lemma kstep_prefix : forall s k t, kstep s = Some (k, t) -> exists r, s = t ++ r /\ t <> [].
Proof.
  intros s k t H. destruct s as [|c s']; [discriminate|].
  assert (Hs : c :: s' <> []) by discriminate.
  destruct (kstep_agrees [] (c :: s') Hs) as (k' & t' & r & E & Es & Ht & _).
  rewrite H in E. injection E as -> ->. now exists r.
Qed.

Lemma skipn_app_len : forall (t r : list N), skipn (length t) (t ++ r) = r.
Proof. induction t as [|c t IH]; intro r; [reflexivity|]. cbn [length app skipn]. apply IH. Qed.

(* ================================================================== *)
(* Part 2: klex is the item sequence of the lexer loop *)

Lemma items_cons_tok : forall ps t pc r,
  items_of_result (cons_tok (mktoken ps t pc) r) =
  option_map (fun l => map com_item pc ++ ITok t :: l) (items_of_result r).
Proof.
  intros ps t pc [ts tr es| |]; cbn [cons_tok items_of_result option_map]; try reflexivity.
  cbn [flat_map]. unfold tok_items at 1. cbn [tcomments ttext]. now rewrite <- !app_assoc.
Qed.

Lemma items_cons_err : forall e r, items_of_result (cons_err e r) = items_of_result r.
Proof. intros e [ts tr es| |]; reflexivity. Qed.

Lemma option_map_app_cons : forall (pc : list item) (x : item) (o : option (list item)),
  option_map (fun l => pc ++ x :: l) o = option_map (app pc) (option_map (cons x) o).
Proof. intros pc x [l|]; reflexivity. Qed.

Lemma klex_bridge : forall fuel p s pc, (length s < fuel)%nat ->
  items_of_result (lex_loop cfg_fixed fuel (p ++ s) (blen (p ++ s)) (blen p) pc)
  = option_map (app (map com_item pc)) (klex fuel s).
Proof.
  induction fuel as [|f IH]; intros p s pc L; [lia|].
  cbn [lex_loop klex].
  destruct s as [|c s'].
  - assert (Hlt : blen p <? blen (p ++ []) = false) by (apply N.ltb_ge; rewrite app_nil_r; lia).
    rewrite Hlt. cbn [items_of_result flat_map option_map app]. now rewrite app_nil_r.
  - assert (Hlt : blen p <? blen (p ++ c :: s') = true).
    { apply N.ltb_lt. rewrite blen_app. cbn [blen]. pose proof (len_utf8_range c). lia. }
    rewrite Hlt.
    assert (Hs : c :: s' <> []) by discriminate.
    destruct (kstep_agrees p (c :: s') Hs) as (k & t & r & Ek & Es & Ht & Hm).
    rewrite Ek.
    assert (K : forall pc',
      items_of_result (lex_loop cfg_fixed f (p ++ c :: s') (blen (p ++ c :: s')) (blen p + blen t) pc')
      = option_map (app (map com_item pc')) (klex f (skipn (length t) (c :: s')))).
    { intro pc'. rewrite Es, skipn_app_len, <- blen_app.
      replace (p ++ t ++ r) with ((p ++ t) ++ r) by now rewrite <- app_assoc.
      apply IH.
      assert (length (c :: s') = length t + length r)%nat by (rewrite Es; apply app_length).
      destruct t; [congruence|]. cbn [length] in *. lia. }
    destruct (lex_step cfg_fixed (p ++ c :: s') (blen p)) as [| |n|ps t' n|ps t' n|ep m ps t' n|ep m n];
      try contradiction.
    + destruct Hm as [-> ->]. apply K.
    + destruct Hm as (-> & -> & ->). rewrite K, map_app. cbn [map]. unfold com_item at 2. cbn [snd].
      destruct (klex f (skipn (length t) (c :: s'))) as [l|]; cbn [option_map]; [|reflexivity].
      now rewrite <- app_assoc.
    + destruct Hm as (-> & -> & ->). rewrite items_cons_tok, K. cbn [map app].
      destruct (klex f (skipn (length t) (c :: s'))) as [l|]; reflexivity.
    + destruct Hm as (-> & -> & ->). rewrite items_cons_err, items_cons_tok, K. cbn [map app].
      destruct (klex f (skipn (length t) (c :: s'))) as [l|]; reflexivity.
    + destruct Hm as [-> ->]. rewrite items_cons_err. apply K.
Qed.

Definition klex_all (s : list N) : option (list item) := klex (S (length s)) s.

Lemma lex_items_klex : forall src,
  match src with c :: _ => (c =? HASH) = false | [] => True end ->
  lex_items src = klex_all src.
Proof.
  intros src H. unfold lex_items, lex, lex_with, klex_all.
  assert (E : shebang_skip src = 0).
  { destruct src as [|c r]; [reflexivity|]. cbn [shebang_skip]. now rewrite H. }
  rewrite E. pose proof (klex_bridge (S (length src)) [] src [] (le_n _)) as B.
  cbn [app blen map] in B. rewrite B. now destruct (klex (S (length src)) src).
Qed.

(* fuel does not matter once there is enough of it *)
Lemma klex_fuel : forall f1 f2 s, (length s < f1)%nat -> (length s < f2)%nat -> klex f1 s = klex f2 s.
Proof.
  induction f1 as [|f1 IH]; intros f2 s L1 L2; [lia|]. destruct f2 as [|f2]; [lia|].
  cbn [klex]. destruct s as [|c s']; [reflexivity|].
  destruct (kstep (c :: s')) as [[k t]|] eqn:Ek; [|reflexivity].
  destruct (kstep_prefix _ _ _ Ek) as (r & Es & Ht).
  assert (L : (length (skipn (length t) (c :: s')) < length (c :: s'))%nat).
  { rewrite Es, skipn_app_len, app_length. destruct t; [congruence|]. cbn [length]. lia. }
  rewrite (IH f2 (skipn (length t) (c :: s'))) by lia. reflexivity.
Qed.

Definition item_of (k : kind) (t : list N) (o : option (list item)) : option (list item) :=
  match k with
  | KSkip | KErr => o
  | KComment => option_map (cons (ICom t)) o
  | KToken | KErrToken => option_map (cons (ITok t)) o
  end.

Lemma klex_step : forall s k t, kstep s = Some (k, t) ->
  klex_all s = item_of k t (klex_all (skipn (length t) s)).
Proof.
  intros s k t Ek. unfold klex_all at 1. cbn [klex].
  destruct s as [|c s']; [discriminate|]. rewrite Ek.
  destruct (kstep_prefix _ _ _ Ek) as (r & Es & Ht).
  assert (L : (length (skipn (length t) (c :: s')) < length (c :: s'))%nat).
  { rewrite Es, skipn_app_len, app_length. destruct t; [congruence|]. cbn [length]. lia. }
  unfold klex_all. rewrite (klex_fuel (length (c :: s')) (S (length (skipn (length t) (c :: s'))))) by lia.
  destruct k; reflexivity.
Qed.

Lemma ws_not_slash : forall c, is_whitespace c = true -> (c =? SLASH) = false.
Proof. intros c H. destruct (N.eqb_spec c SLASH) as [->|]; [discriminate H|reflexivity]. Qed.

Lemma kstep_ws : forall c r, is_whitespace c = true -> kstep (c :: r) = Some (KSkip, [c]).
Proof.
  intros c r H. unfold kstep.
  assert (E : starts_with2 SLASH SLASH (c :: r) = false).
  { destruct r as [|d r]; [reflexivity|]. cbn [starts_with2]. now rewrite (ws_not_slash c H). }
  rewrite E, H. reflexivity.
Qed.

Lemma klex_ws : forall w post, all_ws w = true -> klex_all (w ++ post) = klex_all post.
Proof.
  induction w as [|c w IH]; intros post H; [reflexivity|].
  cbn [all_ws forallb] in H. apply andb_prop in H as [Hc Hw]. cbn [app].
  rewrite (klex_step _ _ _ (kstep_ws c (w ++ post) Hc)). cbn [item_of length skipn]. now apply IH.
Qed.

(* ================================================================== *)
(* Part 3: locality -- in front of a char no token can absorb, every scanner
   gives the answer it gives on the text before that char *)

Definition sstop (c : N) : Prop := is_sym_char c = false /\ (c =? DOT) = false.
Definition sstop_tail (A : list N) : Prop := match A with [] => True | c :: _ => sstop c end.

Lemma sstop_classes : forall c, sstop c ->
  is_digit c = false /\ is_digit_us c = false /\ is_sym_start c = false /\ is_sym_char c = false /\ (c =? DOT) = false.
Proof.
  intros c [H D]. unfold is_sym_char in H. apply orb_false_elim in H as [Hs Hd].
  repeat split; try assumption.
  - unfold is_digit_us. rewrite Hd. unfold is_sym_start in Hs. apply orb_false_elim in Hs as [_ Hu]. exact Hu.
  - unfold is_sym_char. now rewrite Hs, Hd.
Qed.

Lemma span_stop : forall p u A, match A with [] => True | c :: _ => p c = false end ->
  span p (u ++ A) = (fst (span p u), snd (span p u) ++ A).
Proof.
  intros p u A H. induction u as [|x u IH]; cbn [app span fst snd].
  - destruct A as [|c r]; [reflexivity|]. cbn [span]. now rewrite H.
  - destruct (p x); [|reflexivity]. rewrite IH. now destruct (span p u).
Qed.

Lemma scan_digits_stop : forall u A, sstop_tail A ->
  scan_digits (u ++ A) = match scan_digits u with Some (a, b) => Some (a, b ++ A) | None => None end.
Proof.
  intros u A H. destruct u as [|x u]; cbn [app scan_digits].
  - destruct A as [|c r]; [reflexivity|]. cbn [scan_digits].
    destruct (sstop_classes c H) as (Hd & _). now rewrite Hd.
  - destruct (is_digit x); [|reflexivity]. rewrite span_stop.
    + now destruct (span is_digit_us u).
    + destruct A as [|c r]; [exact I|]. now destruct (sstop_classes c H) as (_ & Hu & _).
Qed.

Lemma integer_re_stop : forall u A, u <> [] -> sstop_tail A -> integer_re (u ++ A) = integer_re u.
Proof.
  intros u A Hu H. destruct u as [|x u]; [congruence|]. unfold integer_re. cbn [app opt_minus].
  destruct (x =? MINUS).
  - rewrite scan_digits_stop by exact H. now destruct (scan_digits u) as [[a b]|].
  - change (x :: u ++ A) with ((x :: u) ++ A). rewrite scan_digits_stop by exact H.
    now destruct (scan_digits (x :: u)) as [[a b]|].
Qed.

Lemma float_tail_stop : forall b A, sstop_tail A ->
  match b ++ A with
  | d :: r2 => if d =? DOT then match scan_digits r2 with Some (b0, _) => Some b0 | None => None end else None
  | [] => None
  end =
  match b with
  | d :: r2 => if d =? DOT then match scan_digits r2 with Some (b0, _) => Some b0 | None => None end else None
  | [] => None
  end.
Proof.
  intros b A H. destruct b as [|d b]; cbn [app].
  - destruct A as [|c r]; [reflexivity|]. destruct H as [_ D]. now rewrite D.
  - destruct (d =? DOT); [|reflexivity]. rewrite scan_digits_stop by exact H.
    now destruct (scan_digits b) as [[x y]|].
Qed.

Lemma float_re_stop : forall u A, u <> [] -> sstop_tail A -> float_re (u ++ A) = float_re u.
Proof.
  intros u A Hu H. destruct u as [|x u]; [congruence|]. unfold float_re. cbn [app opt_minus].
  assert (G : forall sign v,
    match scan_digits (v ++ A) with
    | Some (a, r1) =>
      match r1 with
      | d :: r2 => if d =? DOT then match scan_digits r2 with Some (b, _) => Some (sign ++ a ++ DOT :: b) | None => None end else None
      | [] => None
      end
    | None => None
    end =
    match scan_digits v with
    | Some (a, r1) =>
      match r1 with
      | d :: r2 => if d =? DOT then match scan_digits r2 with Some (b, _) => Some (sign ++ a ++ DOT :: b) | None => None end else None
      | [] => None
      end
    | None => None
    end).
  { intros sign v. rewrite scan_digits_stop by exact H. destruct (scan_digits v) as [[a b]|]; [|reflexivity].
    destruct b as [|d b]; cbn [app].
    - destruct A as [|c r]; [reflexivity|]. destruct H as [_ D]. now rewrite D.
    - destruct (d =? DOT); [|reflexivity]. rewrite scan_digits_stop by exact H.
      now destruct (scan_digits b) as [[y z]|]. }
  destruct (x =? MINUS).
  - apply G.
  - change (x :: u ++ A) with ((x :: u) ++ A). apply G.
Qed.

Lemma symbol_re_stop : forall u A, u <> [] -> sstop_tail A -> symbol_re (u ++ A) = symbol_re u.
Proof.
  intros u A Hu H. destruct u as [|x u]; [congruence|]. cbn [app symbol_re].
  destruct (is_sym_start x); [|reflexivity]. rewrite span_stop; [reflexivity|].
  destruct A as [|c r]; [exact I|]. now destruct (sstop_classes c H) as (_ & _ & _ & Hc & _).
Qed.

Lemma stop_facts : forall c, stop c = true -> sstop c /\ pair_second c = false /\ (c =? SLASH) = false.
Proof.
  intros c H. unfold stop in H. apply andb_prop in H as [H P]. apply andb_prop in H as [S D].
  apply negb_true_iff in S, D, P. repeat split; try assumption.
  unfold pair_second in P. cbn [existsb] in P.
  repeat (apply orb_false_elim in P as [? P]). assumption.
Qed.

Lemma slash_sstop : sstop SLASH.
Proof. split; reflexivity. Qed.

Lemma tails_ok_sstop : forall A B, tails_ok A B = true -> sstop_tail A /\ sstop_tail B.
Proof.
  intros [|a ra] [|b rb] H; cbn [tails_ok sstop_tail] in *; try (split; exact I).
  - split; [exact I|]. now destruct (stop_facts b H).
  - split; [|exact I]. now destruct (stop_facts a H).
  - apply orb_prop in H as [H|H]; apply andb_prop in H as [Ha Hb].
    + split; [now destruct (stop_facts a Ha)|now destruct (stop_facts b Hb)].
    + apply N.eqb_eq in Ha, Hb. subst. split; exact slash_sstop.
Qed.

Definition pair_hit (s : list N) : bool :=
  existsb (fun ab => starts_with2 (fst ab) (snd ab) s) two_char_tokens.

Lemma pair_hit_single : forall x, pair_hit [x] = false.
Proof. intro x. reflexivity. Qed.

Lemma pair_hit_second : forall x y r, pair_second y = false \/ y = SLASH -> pair_hit (x :: y :: r) = false.
Proof.
  intros x y r H. unfold pair_hit, two_char_tokens. cbn [existsb starts_with2 fst snd].
  destruct H as [P| ->].
  - unfold pair_second in P. cbn [existsb] in P.
    repeat (let E := fresh "E" in apply orb_false_elim in P as [E P]; rewrite ?E).
    rewrite ?andb_false_r. reflexivity.
  - cbn. rewrite ?andb_false_r. reflexivity.
Qed.

(* tails that pass tails_ok never turn a one-char remainder into a comment
   start or a two-char token *)
Lemma tail_no_pair : forall x A B, tails_ok A B = true -> pair_hit (x :: B) = false.
Proof.
  intros x A [|b rb] H; [apply pair_hit_single|]. apply pair_hit_second.
  destruct A as [|a ra]; cbn [tails_ok] in H.
  - left. now destruct (stop_facts b H) as (_ & P & _).
  - apply orb_prop in H as [H|H]; apply andb_prop in H as [Ha Hb].
    + left. now destruct (stop_facts b Hb) as (_ & P & _).
    + right. now apply N.eqb_eq in Hb.
Qed.

Lemma tail_no_comment : forall x A B, tails_ok A B = true ->
  starts_with2 SLASH SLASH (x :: A) = false -> starts_with2 SLASH SLASH (x :: B) = false.
Proof.
  intros x [|a ra] [|b rb] H E; cbn [starts_with2 tails_ok] in *; try reflexivity.
  - destruct (stop_facts b H) as (_ & _ & Sb). rewrite Sb. apply andb_false_r.
  - apply orb_prop in H as [H|H]; apply andb_prop in H as [Ha Hb].
    + destruct (stop_facts b Hb) as (_ & _ & Sb). rewrite Sb. apply andb_false_r.
    + rewrite Ha in E. rewrite andb_true_r in E. rewrite E. reflexivity.
Qed.

Lemma comment_len : forall s, starts_with2 SLASH SLASH s = true -> (2 <= length (upto_lf s))%nat.
Proof.
  intros [|x [|y r]] H; try discriminate. cbn [starts_with2] in H. apply andb_prop in H as [Hx Hy].
  apply N.eqb_eq in Hx, Hy. subst. cbn. lia.
Qed.

Lemma upto_lf_fit : forall u A B, ends_lf (upto_lf (u ++ A)) = true ->
  (length (upto_lf (u ++ A)) <= length u)%nat -> upto_lf (u ++ B) = upto_lf (u ++ A).
Proof.
  induction u as [|x u IH]; intros A B E L.
  - cbn [app length] in L, E. destruct (upto_lf A); [discriminate E|cbn [length] in L; lia].
  - cbn [app upto_lf] in *. destruct (x =? LF) eqn:Ex; [reflexivity|].
    cbn [length] in L. f_equal. apply IH; [|lia].
    cbn [ends_lf] in E. destruct (upto_lf (u ++ A)) as [|z l] eqn:Eu; [|exact E].
    rewrite Ex in E. discriminate.
Qed.

(* a string body closed by its own quote is scanned the same whatever follows *)
Lemma closed_body_go_scan : forall n b B, closed_body_go n b = true -> string_body true (b ++ B) = b.
Proof.
  induction n as [|n IH]; intros b B H; [discriminate|]. cbn [closed_body_go] in H.
  destruct b as [|c r]; [discriminate|]. cbn [app string_body].
  destruct (N.eqb_spec c QUOTE) as [->|Hq].
  - destruct r; [reflexivity|discriminate].
  - destruct (c =? BACKSLASH).
    + destruct r as [|d r']; [discriminate|]. cbn [app]. destruct (negb (d =? LF)).
      * rewrite (IH r' B H). reflexivity.
      * change (d :: r' ++ B) with ((d :: r') ++ B). rewrite (IH (d :: r') B H). reflexivity.
    + rewrite (IH r B H). reflexivity.
Qed.

Lemma closed_body_scan : forall b B, closed_body b = true -> string_body true (b ++ B) = b.
Proof. intros b B H. exact (closed_body_go_scan _ b B H). Qed.

Lemma app_prefix_len : forall (b r u A : list N), b ++ r = u ++ A -> (length b <= length u)%nat ->
  exists u2, u = b ++ u2.
Proof.
  induction b as [|c b IH]; intros r u A E L; [now exists u|].
  destruct u as [|x u]; [cbn [length] in L; lia|]. cbn [app] in E. injection E as -> E.
  cbn [length] in L. destruct (IH r u A E) as (u2 & ->); [lia|]. now exists u2.
Qed.

Lemma string_re_fit : forall u A B text, u <> [] ->
  string_re true (u ++ A) = Some text -> step_ok_k KToken text = true ->
  (length text <= length u)%nat -> string_re true (u ++ B) = Some text.
Proof.
  intros u A B text Hu H Hok L. destruct u as [|x u]; [congruence|]. cbn [app string_re] in *.
  destruct (x =? QUOTE) eqn:Ex; [|discriminate]. injection H as <-.
  cbn in Hok. cbn [length] in L.
  destruct (string_body_prefix true (u ++ A)) as (r & Er). symmetry in Er.
  destruct (app_prefix_len _ _ _ _ Er) as (u2 & Eu); [lia|].
  rewrite Eu at 1. rewrite <- app_assoc. now rewrite closed_body_scan.
Qed.

Lemma string_re_head : forall u A B, u <> [] -> string_re true (u ++ A) = None -> string_re true (u ++ B) = None.
Proof.
  intros [|x u] A B Hu H; [congruence|]. cbn [app string_re] in *. now destruct (x =? QUOTE).
Qed.

(* The locality lemma: a step that stays inside u is the same whatever
   acceptable tail follows u. *)
Lemma kstep_local : forall u A B k t, u <> [] -> tails_ok A B = true ->
  kstep (u ++ A) = Some (k, t) -> (length t <= length u)%nat -> step_ok_k k t = true ->
  kstep (u ++ B) = Some (k, t).
Proof.
  intros u A B k t Hu HT H Hfit Hok.
  destruct (tails_ok_sstop A B HT) as [SA SB].
  unfold kstep in H |- *.
  rewrite (float_re_stop u A Hu SA), (integer_re_stop u A Hu SA), (symbol_re_stop u A Hu SA) in H.
  rewrite (float_re_stop u B Hu SB), (integer_re_stop u B Hu SB), (symbol_re_stop u B Hu SB).
  fold (pair_hit (u ++ A)) in H. fold (pair_hit (u ++ B)).
  (* comment *)
  destruct (starts_with2 SLASH SLASH (u ++ A)) eqn:CA.
  { injection H as <- <-. cbn [step_ok_k] in Hok.
    pose proof (comment_len _ CA) as L2.
    assert (CB : starts_with2 SLASH SLASH (u ++ B) = true).
    { destruct u as [|x [|y u]]; [congruence| cbn [length] in Hfit; lia |exact CA]. }
    rewrite CB. now rewrite (upto_lf_fit u A B Hok Hfit). }
  assert (CB : starts_with2 SLASH SLASH (u ++ B) = false).
  { destruct u as [|x [|y u]]; [congruence| |exact CA]. exact (tail_no_comment x A B HT CA). }
  rewrite CB.
  destruct u as [|x u']; [congruence|]. cbn [app] in H |- *.
  destruct (is_whitespace x); [exact H|].
  (* two-char tokens *)
  assert (PB : pair_hit (x :: u' ++ A) = true -> (1 <= length u')%nat ->
               pair_hit (x :: u' ++ B) = true).
  { intros P L. destruct u' as [|y u'']; [cbn [length] in L; lia|exact P]. }
  destruct (pair_hit (x :: u' ++ A)) eqn:PA.
  { destruct u' as [|y u''].
    - cbn [app] in H. destruct A as [|a ra]; [discriminate|]. injection H as <- <-. cbn [length] in Hfit. lia.
    - rewrite PB by (cbn [length]; lia || reflexivity). exact H. }
  assert (PB' : pair_hit (x :: u' ++ B) = false).
  { destruct u' as [|y u'']; [exact (tail_no_pair x A B HT)|exact PA]. }
  rewrite PB'.
  destruct (float_re (x :: u')); [exact H|].
  destruct (integer_re (x :: u')); [exact H|].
  destruct (existsb (N.eqb x) one_char_tokens); [exact H|].
  change (x :: u' ++ A) with ((x :: u') ++ A) in H. change (x :: u' ++ B) with ((x :: u') ++ B).
  destruct (string_re true ((x :: u') ++ A)) as [text|] eqn:SA'.
  { destruct (ends_with_quote text) eqn:Q.
    - injection H as <- <-. rewrite (string_re_fit (x :: u') A B text Hu SA' Hok Hfit). now rewrite Q.
    - injection H as <- <-. discriminate Hok. }
  rewrite (string_re_head (x :: u') A B Hu SA'). exact H.
Qed.

(* ================================================================== *)
(* Part 4: runs of steps, and the splice theorems *)

Lemma krun_transfer : forall f u A B steps, tails_ok A B = true ->
  krun f u A = Some steps -> krun f u B = Some steps.
Proof.
  induction f as [|f IH]; intros u A B steps HT H; destruct u as [|x u']; cbn [krun] in *;
    try exact H; try discriminate.
  destruct (kstep ((x :: u') ++ A)) as [[k t]|] eqn:EA; [|discriminate].
  destruct (Nat.leb (length t) (length (x :: u')) && step_ok_k k t) eqn:C; [|discriminate].
  pose proof C as C'. apply andb_prop in C' as [L Hok]. apply Nat.leb_le in L.
  assert (Hu : x :: u' <> []) by discriminate.
  rewrite (kstep_local (x :: u') A B k t Hu HT EA L Hok), C.
  destruct (krun f (skipn (length t) (x :: u')) A) as [rest|] eqn:R; [|discriminate].
  rewrite (IH _ A B rest HT R). exact H.
Qed.

Definition items_of_steps (steps : list (kind * list N)) (o : option (list item)) : option (list item) :=
  fold_right (fun st acc => item_of (fst st) (snd st) acc) o steps.

Lemma klex_run : forall f u A steps, krun f u A = Some steps ->
  klex_all (u ++ A) = items_of_steps steps (klex_all A).
Proof.
  induction f as [|f IH]; intros u A steps H; destruct u as [|x u']; cbn [krun] in H;
    try discriminate; try (injection H as <-; reflexivity).
  destruct (kstep ((x :: u') ++ A)) as [[k t]|] eqn:EA; [|discriminate].
  destruct (Nat.leb (length t) (length (x :: u')) && step_ok_k k t) eqn:C; [|discriminate].
  apply andb_prop in C as [L _]. apply Nat.leb_le in L.
  destruct (krun f (skipn (length t) (x :: u')) A) as [rest|] eqn:R; [|discriminate].
  injection H as <-. rewrite (klex_step _ _ _ EA). cbn [items_of_steps fold_right fst snd].
  rewrite skipn_app. replace (length t - length (x :: u'))%nat with O by lia. cbn [skipn].
  now rewrite (IH _ _ _ R).
Qed.

Lemma krun_nil : forall f u A, krun f u A = Some [] -> u = [].
Proof.
  intros f [|x u] A H; [reflexivity|]. destruct f; cbn [krun] in H; [discriminate|].
  destruct (kstep ((x :: u) ++ A)) as [[k t]|]; [|discriminate].
  destruct (Nat.leb _ _ && _); [|discriminate].
  destruct (krun f _ A); discriminate.
Qed.

Lemma list_eqb_eq : forall a b, list_eqb a b = true -> a = b.
Proof. intros a b H. unfold list_eqb in H. now destruct (list_eq_dec N.eq_dec a b). Qed.

Lemma kind_eqb_eq : forall a b, kind_eqb a b = true -> a = b.
Proof. intros [] []; cbn; intro H; try reflexivity; discriminate. Qed.

Lemma same_step_spec : forall k tl X, same_step k tl X = true -> kstep (tl ++ X) = Some (k, tl).
Proof.
  intros k tl X H. unfold same_step in H. destruct (kstep (tl ++ X)) as [[k' t']|]; [|discriminate].
  apply andb_prop in H as [E K]. apply list_eqb_eq in E. apply kind_eqb_eq in K. now subst.
Qed.

Lemma head_not_hash : forall pre w post, all_ws w = true -> sheb_ok pre post = true ->
  match pre ++ w ++ post with c :: _ => (c =? HASH) = false | [] => True end.
Proof.
  intros [|c pre] w post Hw H; cbn [app sheb_ok] in *.
  - destruct w as [|x w]; cbn [app].
    + destruct post; [exact I|]. now apply negb_true_iff in H.
    + cbn [all_ws forallb] in Hw. apply andb_prop in Hw as [Hx _].
      destruct (N.eqb_spec x HASH) as [->|]; [discriminate Hx|reflexivity].
  - now apply negb_true_iff in H.
Qed.

(* Replacing the whitespace w by the whitespace rep between pre and post keeps
   the token and comment texts, under the decidable condition gap_ok. *)
Lemma splice_in_gap_lemma : forall pre w rep post, gap_ok pre w rep post = true ->
  lex_items (pre ++ rep ++ post) = lex_items (pre ++ w ++ post).
Proof.
  intros pre w rep post H. unfold gap_ok in H.
  apply andb_prop in H as [H Hm]. apply andb_prop in H as [H Hs]. apply andb_prop in H as [Hw Hr].
  rewrite (lex_items_klex _ (head_not_hash pre rep post Hr Hs)).
  rewrite (lex_items_klex _ (head_not_hash pre w post Hw Hs)).
  destruct (krun (S (length pre)) pre (w ++ post)) as [steps|] eqn:R; [|discriminate].
  apply orb_prop in Hm as [HT|Hm].
  - rewrite (klex_run _ _ _ _ (krun_transfer _ _ _ _ _ HT R)), (klex_run _ _ _ _ R).
    now rewrite !klex_ws.
  - destruct (rev steps) as [|[k tl] rs] eqn:Er.
    + assert (steps = []) by (rewrite <- (rev_involutive steps), Er; reflexivity). subst steps.
      rewrite (krun_nil _ _ _ R). cbn [app]. now rewrite !klex_ws.
    + apply andb_prop in Hm as [Hm SB]. apply andb_prop in Hm as [Hm SA].
      apply andb_prop in Hm as [Hm HT]. apply andb_prop in Hm as [Ep R0].
      apply list_eqb_eq in Ep. set (pre0 := firstn (length pre - length tl) pre) in *.
      destruct (krun (S (length pre)) pre0 (tl ++ w ++ post)) as [s0|] eqn:R0'; [|discriminate].
      rewrite Ep, <- !app_assoc.
      rewrite (klex_run _ _ _ _ (krun_transfer _ _ _ _ _ HT R0')), (klex_run _ _ _ _ R0').
      rewrite (klex_step _ _ _ (same_step_spec _ _ _ SA)), (klex_step _ _ _ (same_step_spec _ _ _ SB)).
      rewrite !skipn_app_len. now rewrite !klex_ws.
Qed.

Lemma splice_in_gap_edit : forall src e, gap_edit_ok src e = true ->
  exists src', splice src e = Some src' /\ lex_items src' = lex_items src.
Proof.
  intros src e H. unfold gap_edit_ok in H. unfold splice.
  destruct (e_end e <? e_start e); [discriminate|].
  destruct (split_bytes src (e_start e)) as [[pre q]|] eqn:E1; [|discriminate].
  destruct (split_bytes q (e_end e - e_start e)) as [[w post]|] eqn:E2; [|discriminate].
  destruct (split_bytes_sound _ _ _ _ E1) as [-> _]. destruct (split_bytes_sound _ _ _ _ E2) as [-> _].
  eexists. split; [reflexivity|]. now apply splice_in_gap_lemma.
Qed.

Lemma edits_in_gaps_lemma : forall es src, edits_ok src es = true ->
  exists src', apply_edits src es = Some src' /\ lex_items src' = lex_items src.
Proof.
  induction es as [|e es IH]; intros src H; cbn [edits_ok apply_edits] in *.
  - now exists src.
  - apply andb_prop in H as [He Hr]. destruct (splice_in_gap_edit src e He) as (s1 & E1 & L1).
    rewrite E1 in *. destruct (IH s1 Hr) as (s2 & E2 & L2). exists s2. split; [exact E2|congruence].
Qed.

(* descending non-overlapping edits: a splice leaves the text before it alone,
   so the offsets of the remaining (earlier) edits keep their meaning *)
Lemma splice_keeps_prefix : forall src e src', splice src e = Some src' ->
  exists pre q q', src = pre ++ q /\ src' = pre ++ q' /\ blen pre = e_start e.
Proof.
  intros src e src' H. unfold splice in H.
  destruct (e_end e <? e_start e); [discriminate|].
  destruct (split_bytes src (e_start e)) as [[pre q]|] eqn:E1; [|discriminate].
  destruct (split_bytes q (e_end e - e_start e)) as [[w post]|] eqn:E2; [|discriminate].
  injection H as <-. destruct (split_bytes_sound _ _ _ _ E1) as [-> Hb].
  exists pre, q, (e_rep e ++ post). now repeat split.
Qed.

Lemma splice_app : forall pre w rep post,
  splice (pre ++ w ++ post) (mkedit (blen pre) (blen pre + blen w) rep) = Some (pre ++ rep ++ post).
Proof.
  intros. unfold splice. cbn [e_start e_end e_rep].
  replace (blen pre + blen w <? blen pre) with false by (symmetry; apply N.ltb_ge; lia).
  rewrite split_bytes_app. replace (blen pre + blen w - blen pre) with (blen w) by lia.
  now rewrite split_bytes_app.
Qed.

Lemma apply_edits_nil_lemma : forall s, apply_edits s [] = Some s.
Proof. reflexivity. Qed.

(* ================================================================== *)
(* Part 5: phase 9 (final newline) is idempotent *)

Lemma strip_lfs_unfold : forall a b t,
  strip_lfs (a :: b :: t) = if (a =? LF) && (b =? LF) then strip_lfs (b :: t) else a :: b :: t.
Proof. reflexivity. Qed.

Lemma strip_lfs_idem_len : forall n r, (length r <= n)%nat -> strip_lfs (strip_lfs r) = strip_lfs r.
Proof.
  induction n as [|n IH]; intros r L.
  - destruct r; [reflexivity|cbn [length] in L; lia].
  - destruct r as [|a [|b t]]; try reflexivity. rewrite strip_lfs_unfold.
    destruct ((a =? LF) && (b =? LF)) eqn:E.
    + apply IH. cbn [length] in *. lia.
    + rewrite strip_lfs_unfold, E. reflexivity.
Qed.

Lemma strip_lfs_idem : forall r, strip_lfs (strip_lfs r) = strip_lfs r.
Proof. intro r. exact (strip_lfs_idem_len (length r) r (le_n _)). Qed.

Lemma final_newline_idem_lemma : forall s, final_newline (final_newline s) = final_newline s.
Proof.
  intro s. unfold final_newline. remember (strip_lfs (rev s)) as r eqn:Er.
  assert (Hr : strip_lfs r = r) by (subst r; apply strip_lfs_idem). clear Er.
  destruct r as [|c r']; [reflexivity|]. destruct (c =? LF) eqn:Ec.
  - rewrite rev_involutive, Hr, Ec. reflexivity.
  - rewrite rev_involutive, strip_lfs_unfold, Ec, andb_false_r. now rewrite N.eqb_refl.
Qed.

(* ================================================================== *)
(* Part 6: per-line indentation edits, examples and refuting witnesses *)

Lemma indent_edit_shape : forall pre rest n,
  let (w, post) := span ws_not_lf rest in
  exists rep, e_rep (indent_edit pre rest n) = rep /\
    splice (pre ++ rest) (indent_edit pre rest n) = Some (pre ++ rep ++ post).
Proof.
  intros pre rest n. unfold indent_edit. destruct (span ws_not_lf rest) as [w post] eqn:E.
  destruct (span_spec _ _ _ _ E) as [-> _]. eexists. split; [reflexivity|]. apply splice_app.
Qed.

Lemma line_indent_edit_lemma : forall pre rest n,
  gap_edit_ok (pre ++ rest) (indent_edit pre rest n) = true ->
  exists src', splice (pre ++ rest) (indent_edit pre rest n) = Some src' /\
               lex_items src' = lex_items (pre ++ rest).
Proof. intros. now apply splice_in_gap_edit. Qed.

(* `{\n    x\n}`: re-indent line 1 to two spaces -- line start is a step boundary *)
Definition ex_pre : list N := [123; 10].
Definition ex_rest : list N := [32; 32; 32; 32; 120; 10; 125].
Lemma line_indent_example :
  line_start ex_pre = true /\ gap_edit_ok (ex_pre ++ ex_rest) (indent_edit ex_pre ex_rest 2) = true /\
  splice (ex_pre ++ ex_rest) (indent_edit ex_pre ex_rest 2) = Some [123; 10; 32; 32; 120; 10; 125].
Proof. vm_compute. repeat split. Qed.

(* `"a\n  b"`: line 1 starts inside the string token; un-indenting it is rejected
   by the condition and does change the token *)
Definition ms_pre : list N := [34; 97; 10].
Definition ms_rest : list N := [32; 32; 98; 34].
Lemma line_indent_refuted_lemma :
  line_start ms_pre = true /\
  gap_edit_ok (ms_pre ++ ms_rest) (indent_edit ms_pre ms_rest 0) = false /\
  exists src', splice (ms_pre ++ ms_rest) (indent_edit ms_pre ms_rest 0) = Some src' /\
               lex_items src' <> lex_items (ms_pre ++ ms_rest).
Proof.
  split; [reflexivity|]. split; [vm_compute; reflexivity|].
  eexists. split; [vm_compute; reflexivity|]. vm_compute. discriminate.
Qed.

(* `let x  = 1` -> `let x = 1` *)
Lemma gap_ok_example :
  gap_ok [108; 101; 116; 32; 120] [32; 32] [32] [61; 32; 49] = true.
Proof. vm_compute. reflexivity. Qed.

(* `f(a ,b)` -> `f(a,b)` (emptying the gap in front of a comma) and `f(a,b)` -> `f(a, b)` *)
Lemma gap_ok_comma_examples :
  gap_ok [102; 40; 97] [32] [] [44; 98; 41] = true /\
  gap_ok [102; 40; 97; 44] [] [32] [98; 41] = true.
Proof. vm_compute. split; reflexivity. Qed.

(* the glue condition is needed: `a b` -> `ab`, `1 .5` -> `1.5`, `- 1` -> `-1` are
   whitespace-only edits in a gap that change the tokens; gap_ok rejects them *)
Lemma glue_needed :
  (gap_ok [97] [32] [] [98] = false /\ lex_items [97; 98] <> lex_items [97; 32; 98]) /\
  (gap_ok [49] [32] [] [46; 53] = false /\ lex_items [49; 46; 53] <> lex_items [49; 32; 46; 53]) /\
  (gap_ok [45] [32] [] [49] = false /\ lex_items [45; 49] <> lex_items [45; 32; 49]).
Proof. repeat split; try (vm_compute; reflexivity); vm_compute; discriminate. Qed.

(* a comment line before the edited indentation: boundary moved in front of it *)
Lemma gap_ok_after_comment_example :
  gap_ok [47; 47; 32; 99; 10] [32; 32] [] [120] = true.
Proof. vm_compute. reflexivity. Qed.

(* ================================================================== *)
(* Part 7: fixed points (C18, partial) *)

Lemma gap_edit_fixed_point : forall desired prev next d,
  desired prev next = Some d -> gap_edit_of desired prev next d = None.
Proof.
  intros desired prev next d H. unfold gap_edit_of. rewrite H.
  now destruct (list_eq_dec N.eq_dec d d).
Qed.

Lemma gap_edit_result_fixed : forall desired prev next gap d,
  gap_edit_of desired prev next gap = Some d -> gap_edit_of desired prev next d = None.
Proof.
  intros desired prev next gap d H. unfold gap_edit_of in *.
  destruct (desired prev next) as [d'|]; [|discriminate].
  destruct (list_eq_dec N.eq_dec gap d'); [discriminate|]. injection H as <-.
  now destruct (list_eq_dec N.eq_dec d' d').
Qed.

Lemma final_newline_example : final_newline [97; 10; 10; 10] = [97; 10] /\ final_newline [97] = [97; 10] /\ final_newline [] = [].
Proof. vm_compute. repeat split. Qed.
