(* Fixes -- MODEL of how `garden check --fix` applies its automatic fixes.

   Definitions only (proofs are in FixesProps.v).

   Mirrors, statement by statement:
   - `apply_fixes` in src/syntax_check.rs, both as it was (`apply_fixes_orig`: one flat list, stable sort by
     descending start offset, one `format!("{}{}{}", &result[..start], new_text, &result[end..])` per fix)
     and as repaired (`apply_fixes`: the fixes of one diagnostic form a group; a group is taken only when,
     together with the groups already taken, no two neighbours of the sorted list overlap);
   - `get_line_position` in src/checks/unused_literals.rs (the span deleted for an unused literal), as it was
     (`line_removal_orig`: always the whole line(s)) and as repaired (`line_removal`: the whole line(s) only when
     they hold nothing but the literal and whitespace, else just the literal).

   A source is the list of its Unicode scalar values (Base/Utf.v); offsets are BYTE offsets into its UTF-8
   encoding, and slicing off a character boundary or past the end is a panic (`None`).

   Modelled, not verified: Rust `str` slicing, `Vec::sort_by_key` (stable), `slice::windows`, `str::rfind`,
   `str::find`, `char::is_whitespace`, `format!`. *)
From Coq Require Import NArith Bool List.
From Garden Require Import Base.Utf.
Import ListNotations.
Open Scope N_scope.

(* Autofix { position: {start_offset, end_offset, ..}, new_text, .. } *)
Record afix := mkfix { f_start : N; f_end : N; f_new : list N }.

(* result = format!("{}{}{}", &result[..start], fix.new_text, &result[end..]);  None = panic.
   The two slices are taken independently, as in the code (start > end is not checked there). *)
Definition apply_one (s : list N) (f : afix) : option (list N) :=
  match take_bytes s (f_start f), drop_bytes s (f_end f) with
  | Some p, Some q => Some (p ++ f_new f ++ q)
  | _, _ => None
  end.

(* for fix in fixes { ... } *)
Fixpoint apply_seq (s : list N) (fs : list afix) : option (list N) :=
  match fs with
  | [] => Some s
  | f :: r => match apply_one s f with Some s' => apply_seq s' r | None => None end
  end.

(* fixes.sort_by_key(|b| Reverse(b.position.start_offset)): stable, so among equal starts the original
   order is kept.  Insertion of f in front of a sorted list: f goes before the first g with g.start <= f.start. *)
Fixpoint insert_desc (f : afix) (l : list afix) : list afix :=
  match l with
  | [] => [f]
  | g :: r => if f_start f <? f_start g then g :: insert_desc f r else f :: l
  end.
Definition sort_desc (l : list afix) : list afix := fold_right insert_desc [] l.

(* The code before the repair. *)
Definition apply_fixes_orig (s : list N) (fixes : list afix) : option (list N) :=
  apply_seq s (sort_desc fixes).

(* candidate.windows(2).any(|w| w[1].position.end_offset > w[0].position.start_offset) *)
Fixpoint adjacent_overlap (l : list afix) : bool :=
  match l with
  | f :: r => (match r with g :: _ => f_start f <? f_end g | [] => false end) || adjacent_overlap r
  | [] => false
  end.

(* one iteration of `for group in fix_groups { ... }` *)
Definition add_group (acc : list afix) (g : list afix) : list afix :=
  let candidate := sort_desc (acc ++ g) in
  if adjacent_overlap candidate then acc else candidate.

Definition select (groups : list (list afix)) : list afix := fold_left add_group groups [].

(* The repaired code. *)
Definition apply_fixes (s : list N) (groups : list (list afix)) : option (list N) :=
  apply_seq s (select groups).

(* ---- specification: the simultaneous splice -------------------------------------------------------------
   `spliced s pos fs out`: s is the part of the source from byte offset pos on, fs are edits in ASCENDING
   order; out is s with every region [start, end) replaced by the edit's text and everything else kept. *)
Inductive spliced : list N -> N -> list afix -> list N -> Prop :=
| sp_nil : forall s pos, spliced s pos [] s
| sp_cons : forall keep del rest pos f fs out,
    pos + blen keep = f_start f ->
    f_start f + blen del = f_end f ->
    spliced rest (f_end f) fs out ->
    spliced (keep ++ del ++ rest) pos (f :: fs) (keep ++ f_new f ++ out).

(* The hypothesis of apply_fixes_splice, on the list in the order the code applies it (descending):
   every fix has start <= end <= bound, and the next one ends at or before this one's start. *)
Fixpoint chain (bound : N) (l : list afix) : Prop :=
  match l with
  | [] => True
  | f :: r => f_start f <= f_end f /\ f_end f <= bound /\ chain (f_start f) r
  end.

(* the same, computed (what the driver evaluates on the real fix lists) *)
Fixpoint chainb (bound : N) (l : list afix) : bool :=
  match l with
  | [] => true
  | f :: r => (f_start f <=? f_end f) && (f_end f <=? bound) && chainb (f_start f) r
  end.

(* every offset is a character boundary of the source *)
Definition on_boundaries (s : list N) (l : list afix) : Prop :=
  Forall (fun f => boundary s (f_start f) /\ boundary s (f_end f)) l.

(* ---- unused literal: the span that is deleted -------------------------------------------------------------- *)

(* s.rfind('\n'): byte index of the last `\n` *)
Fixpoint rfind_lf (s : list N) : option N :=
  match s with
  | [] => None
  | c :: r =>
    match rfind_lf r with
    | Some i => Some (len_utf8 c + i)
    | None => if c =? LF then Some 0 else None
    end
  end.

Definition all_ws (s : list N) : bool := forallb is_whitespace s.

(* line_start / line_end of get_line_position for the literal at [a, b).  None = panic. *)
Definition line_bounds (src : list N) (a b : N) : option (N * N) :=
  match take_bytes src a, drop_bytes src b with
  | Some p, Some q =>
    let line_start := match rfind_lf p with Some i => i + 1 | None => 0 end in
    let line_end := match find_lf q with Some i => b + i + 1 | None => blen src end in
    Some (line_start, line_end)
  | _, _ => None
  end.

(* before the repair: always the whole line(s) *)
Definition line_removal_orig (src : list N) (a b : N) : option (N * N) := line_bounds src a b.

(* repaired: if !only_whitespace(&src[line_start..start]) || !only_whitespace(&src[end..line_end])
             { return position.clone(); } *)
Definition line_removal (src : list N) (a b : N) : option (N * N) :=
  match line_bounds src a b with
  | None => None
  | Some (ls, le) =>
    match slice src ls a, slice src b le with
    | Some pre, Some post => if all_ws pre && all_ws post then Some (ls, le) else Some (a, b)
    | _, _ => None
    end
  end.

(* ---- tiny semantic models for three of the lints (not tied to Machine.v) ------------------------------------ *)

(* repeated_bool: a chain `e1 op e2 op ... en` of PURE operands; an operand is identified by a key and its
   value only depends on the key (purity).  The fix deletes every operand whose key was seen before. *)
Fixpoint dedup_first (seen : list nat) (l : list nat) : list nat :=
  match l with
  | [] => []
  | k :: r => if existsb (Nat.eqb k) seen then dedup_first seen r else k :: dedup_first (k :: seen) r
  end.
Definition or_chain (env : nat -> bool) (l : list nat) : bool := existsb env l.
Definition and_chain (env : nat -> bool) (l : list nat) : bool := forallb env l.

(* blocks: a statement transforms (output so far, variable bindings) and yields a value *)
Definition venv := nat -> N.
Inductive stmt :=
| SExpr (run : venv -> list N -> N * list N)      (* any expression: may read variables, may print *)
| SLit (v : N)                                     (* a literal built from literals only *)
| SLet (x : nat) (run : venv -> list N -> N * list N)
| SVar (x : nat).

Definition UNIT : N := 0.

Definition step (st : stmt) (env : venv) (out : list N) : N * venv * list N :=
  match st with
  | SExpr run => let '(v, o) := run env out in (v, env, o)
  | SLit v => (v, env, out)
  | SLet x run => let '(v, o) := run env out in (UNIT, (fun y => if Nat.eqb y x then v else env y), o)
  | SVar x => (env x, env, out)
  end.

(* value of a block = value of its last statement; bindings made inside are dropped at the end *)
Fixpoint run_block (l : list stmt) (last : N) (env : venv) (out : list N) : N * list N :=
  match l with
  | [] => (last, out)
  | st :: r => let '(v, env', o) := step st env out in run_block r v env' o
  end.
