(* FixesProps -- proofs about Fixes.v (C22). *)
From Coq Require Import NArith Arith Bool List Lia.
From Garden Require Import Base.Utf Fixes.
Import ListNotations.
Open Scope N_scope.

(* ---- bytes ---------------------------------------------------------------------------------------------- *)
Lemma len_utf8_pos : forall c, 1 <= len_utf8 c.
Proof. intro c. unfold len_utf8. repeat (destruct (_ <? _)); lia. Qed.

Lemma blen_app : forall a b, blen (a ++ b) = blen a + blen b.
Proof. induction a as [|c a IH]; intro b; cbn [blen app]; [lia|]. rewrite IH. lia. Qed.

Lemma split_bytes_0 : forall s, split_bytes s 0 = Some ([], s).
Proof. destruct s; reflexivity. Qed.

Lemma split_bytes_app : forall p q, split_bytes (p ++ q) (blen p) = Some (p, q).
Proof.
  induction p as [|c p IH]; intro q.
  - apply split_bytes_0.
  - cbn [app blen split_bytes]. pose proof (len_utf8_pos c) as H.
    destruct (len_utf8 c + blen p =? 0) eqn:E; [apply N.eqb_eq in E; lia|].
    destruct (len_utf8 c + blen p <? len_utf8 c) eqn:E2; [apply N.ltb_lt in E2; lia|].
    replace (len_utf8 c + blen p - len_utf8 c) with (blen p) by lia. now rewrite IH.
Qed.

Lemma split_bytes_sound : forall s o p q, split_bytes s o = Some (p, q) -> s = p ++ q /\ blen p = o.
Proof.
  induction s as [|c s IH]; intros o p q H; cbn [split_bytes] in H.
  - destruct (o =? 0) eqn:E; [|discriminate]. inversion H; subst. apply N.eqb_eq in E. now subst.
  - destruct (o =? 0) eqn:E.
    + inversion H; subst. apply N.eqb_eq in E. now subst.
    + destruct (o <? len_utf8 c) eqn:E2; [discriminate|].
      destruct (split_bytes s (o - len_utf8 c)) as [[p' q']|] eqn:E3; [|discriminate].
      inversion H; subst. destruct (IH _ _ _ E3) as [-> Hb]. apply N.ltb_ge in E2.
      cbn [app blen]. split; [reflexivity|lia].
Qed.

Lemma boundary_iff : forall s o, boundary s o <-> is_boundary s o = true.
Proof.
  intros s o. unfold boundary, is_boundary. split.
  - intros (p & q & -> & <-). now rewrite split_bytes_app.
  - destruct (split_bytes s o) as [[p q]|] eqn:E; [|discriminate]. intros _.
    destruct (split_bytes_sound _ _ _ _ E) as [-> <-]. now exists p, q.
Qed.

(* two prefixes of one text nest *)
Lemma prefixes_nest : forall p1 q1 p2 q2, p1 ++ q1 = p2 ++ q2 -> blen p1 <= blen p2 ->
  exists m, p2 = p1 ++ m /\ q1 = m ++ q2.
Proof.
  induction p1 as [|c p1 IH]; intros q1 p2 q2 H L.
  - exists p2. now cbn in *.
  - destruct p2 as [|c2 p2].
    + cbn [blen] in L. pose proof (len_utf8_pos c). lia.
    + cbn [app] in H. inversion H; subst. cbn [blen] in L.
      destruct (IH q1 p2 q2 H2) as (m & -> & ->); [lia|]. now exists m.
Qed.

Lemma take_drop_app : forall p q, take_bytes (p ++ q) (blen p) = Some p /\ drop_bytes (p ++ q) (blen p) = Some q.
Proof. intros. unfold take_bytes, drop_bytes. now rewrite split_bytes_app. Qed.

(* split inside the first part of an append *)
Lemma split_bytes_app_le : forall p x o, o <= blen p ->
  split_bytes (p ++ x) o = match split_bytes p o with Some (a, b) => Some (a, b ++ x) | None => None end.
Proof.
  induction p as [|c p IH]; intros x o L.
  - cbn [blen] in L. assert (o = 0) as -> by lia. cbn [app]. rewrite !split_bytes_0. reflexivity.
  - cbn [app split_bytes]. destruct (o =? 0) eqn:E; [reflexivity|].
    destruct (o <? len_utf8 c) eqn:E2; [reflexivity|].
    apply N.ltb_ge in E2. cbn [blen] in L. rewrite IH by lia.
    destruct (split_bytes p (o - len_utf8 c)) as [[a b]|]; reflexivity.
Qed.

(* ---- one fix, then the rest, inside a prefix ----------------------------------------------------------- *)
Lemma apply_one_app : forall p x f, f_end f <= blen p -> f_start f <= blen p ->
  apply_one (p ++ x) f = option_map (fun t => t ++ x) (apply_one p f).
Proof.
  intros p x f He Hs. unfold apply_one, take_bytes, drop_bytes.
  rewrite !split_bytes_app_le by assumption.
  destruct (split_bytes p (f_start f)) as [[a b]|]; [|reflexivity].
  destruct (split_bytes p (f_end f)) as [[a' b']|]; [|reflexivity].
  cbn [option_map]. now rewrite <- !app_assoc.
Qed.

Lemma apply_seq_app : forall l p x, chain (blen p) l ->
  apply_seq (p ++ x) l = option_map (fun t => t ++ x) (apply_seq p l).
Proof.
  induction l as [|f r IH]; intros p x C.
  - cbn. reflexivity.
  - cbn [chain] in C. destruct C as (Hse & Heb & Cr). cbn [apply_seq].
    rewrite apply_one_app by lia.
    unfold apply_one, take_bytes, drop_bytes.
    destruct (split_bytes p (f_start f)) as [[a b]|] eqn:Ea; [|reflexivity].
    destruct (split_bytes p (f_end f)) as [[a' b']|] eqn:Eb; [|reflexivity].
    cbn [option_map]. destruct (split_bytes_sound _ _ _ _ Ea) as [_ Hba].
    rewrite <- Hba in Cr.
    rewrite <- !app_assoc. rewrite (IH a _ Cr). rewrite (IH a (f_new f ++ b') Cr).
    destruct (apply_seq a r); cbn [option_map]; [|reflexivity]. now rewrite <- !app_assoc.
Qed.

(* ---- the specification, extended at the far end -------------------------------------------------------- *)
Lemma spliced_snoc : forall p pos fs out f del q,
  spliced p pos fs out -> pos + blen p = f_start f -> f_start f + blen del = f_end f ->
  spliced (p ++ del ++ q) pos (fs ++ [f]) (out ++ f_new f ++ q).
Proof.
  intros p pos fs out f del q H. induction H as [s pos|keep d rest pos g fs out Hk Hd Hr IH]; intros Hp Hdel.
  - cbn [app]. replace (s ++ del ++ q) with (s ++ del ++ q) by reflexivity.
    pose proof (sp_cons s del q pos f [] q Hp Hdel (sp_nil q (f_end f))) as X. exact X.
  - rewrite !blen_app in Hp. rewrite <- !app_assoc. cbn [app].
    apply sp_cons; [assumption|assumption|]. apply IH; [lia|assumption].
Qed.

(* The main lemma: on a chain, the sequential application (when it does not panic) is the splice of the
   reversed (= ascending) list. *)
Lemma apply_seq_spliced : forall l s out, chain (blen s) l -> apply_seq s l = Some out -> spliced s 0 (rev l) out.
Proof.
  induction l as [|f r IH]; intros s out C H.
  - cbn in H. inversion H; subst. constructor.
  - cbn [chain] in C. destruct C as (Hse & Heb & Cr). cbn [apply_seq] in H.
    unfold apply_one, take_bytes, drop_bytes in H.
    destruct (split_bytes s (f_start f)) as [[a b]|] eqn:Ea; [|discriminate].
    destruct (split_bytes s (f_end f)) as [[a' q]|] eqn:Eb; [|discriminate].
    destruct (split_bytes_sound _ _ _ _ Ea) as [Hs Hba].
    destruct (split_bytes_sound _ _ _ _ Eb) as [Hs' Hba'].
    assert (exists del, a' = a ++ del /\ b = del ++ q) as (del & -> & ->).
    { apply (prefixes_nest a b a' q); [congruence|lia]. }
    rewrite <- Hba in Cr. rewrite (apply_seq_app r a _ Cr) in H.
    destruct (apply_seq a r) as [t|] eqn:Et; [|discriminate]. cbn [option_map] in H. inversion H; subst out.
    cbn [rev]. subst s. apply spliced_snoc.
    + apply IH; assumption.
    + lia.
    + rewrite blen_app in Hba'. lia.
Qed.

(* No panic when every offset is a character boundary of the source. *)
Lemma boundary_prefix : forall a b o, boundary (a ++ b) o -> o <= blen a -> boundary a o.
Proof.
  intros a b o (p & q & E & Hb) L. subst o.
  destruct (prefixes_nest p q a b (eq_sym E) L) as (m & -> & _). now exists p, m.
Qed.

Lemma apply_seq_no_panic : forall l s, chain (blen s) l -> on_boundaries s l -> exists out, apply_seq s l = Some out.
Proof.
  induction l as [|f r IH]; intros s C B.
  - now exists s.
  - cbn [chain] in C. destruct C as (Hse & Heb & Cr). inversion B as [|? ? [Bs Be] Br]; subst.
    cbn [apply_seq]. unfold apply_one, take_bytes, drop_bytes.
    apply boundary_iff in Bs. apply boundary_iff in Be. unfold is_boundary in Bs, Be.
    destruct (split_bytes s (f_start f)) as [[a b]|] eqn:Ea; [|discriminate].
    destruct (split_bytes s (f_end f)) as [[a' q]|] eqn:Eb; [|discriminate].
    destruct (split_bytes_sound _ _ _ _ Ea) as [Es Hba].
    rewrite <- Hba in Cr. rewrite (apply_seq_app r a _ Cr).
    destruct (IH a Cr) as (t & Ht).
    { unfold on_boundaries in *. rewrite Forall_forall in *. intros g Hg. destruct (Br g Hg) as [G1 G2].
      assert (chain_le : forall l0 bnd g0, chain bnd l0 -> In g0 l0 -> f_start g0 <= bnd /\ f_end g0 <= bnd).
      { induction l0 as [|h l0 IHl]; intros bnd g0 Hc Hin; [contradiction|].
        cbn [chain] in Hc. destruct Hc as (H1 & H2 & H3). destruct Hin as [->|Hin]; [lia|].
        destruct (IHl _ _ H3 Hin). lia. }
      destruct (chain_le _ _ _ Cr Hg) as [L1 L2].
      rewrite Es in G1, G2. split; eapply boundary_prefix; eauto. }
    rewrite Ht. cbn [option_map]. eauto.
Qed.

(* ---- C22 main statements ---------------------------------------------------------------------------------- *)
Theorem apply_fixes_splice_lemma : forall s l, chain (blen s) l ->
  (forall out, apply_seq s l = Some out -> spliced s 0 (rev l) out) /\
  (on_boundaries s l -> exists out, apply_seq s l = Some out /\ spliced s 0 (rev l) out).
Proof.
  intros s l C. split.
  - intros out H. now apply apply_seq_spliced.
  - intro B. destruct (apply_seq_no_panic l s C B) as (out & H). exists out. split; [assumption|].
    now apply apply_seq_spliced.
Qed.

(* the computed hypothesis is the declared one *)
Lemma chainb_chain : forall l bound, chainb bound l = true <-> chain bound l.
Proof.
  induction l as [|f r IH]; intro bound; cbn [chainb chain]; [tauto|].
  rewrite !andb_true_iff, !N.leb_le, IH. tauto.
Qed.

(* ---- the selection of non-overlapping groups ----------------------------------------------------------------- *)
Definition wf_in (bound : N) (f : afix) : Prop := f_start f <= f_end f /\ f_end f <= bound.

Lemma in_insert_desc : forall x f l, In x (insert_desc f l) <-> x = f \/ In x l.
Proof.
  induction l as [|g r IH]; cbn [insert_desc In]; [intuition|].
  destruct (f_start f <? f_start g); cbn [In]; [rewrite IH|]; intuition.
Qed.

Lemma in_sort_desc : forall x l, In x (sort_desc l) <-> In x l.
Proof.
  induction l as [|f r IH]; cbn [sort_desc fold_right In]; [tauto|].
  fold (sort_desc r). rewrite in_insert_desc, IH. intuition.
Qed.

Lemma no_overlap_chain : forall l bound, Forall (wf_in bound) l -> adjacent_overlap l = false -> chain bound l.
Proof.
  induction l as [|f r IH]; intros bound W A; cbn [chain]; [exact I|].
  inversion W as [|? ? [W1 W2] Wr]; subst. cbn [adjacent_overlap] in A. apply orb_false_iff in A as [A1 A2].
  split; [assumption|]. split; [assumption|].
  destruct r as [|g r'].
  - exact I.
  - apply N.ltb_ge in A1. apply IH; [|assumption].
    rewrite Forall_forall in *. intros h Hh. destruct (Wr h Hh) as [H1 H2]. split; [assumption|].
    (* h.end <= f.start: for g directly; for later ones through the chain of non-overlaps *)
    clear IH W W1 W2.
    revert g A1 A2 Wr Hh. induction r' as [|k r'' IHr]; intros g A1 A2 Wr Hh.
    + destruct Hh as [->|[]]. assumption.
    + destruct Hh as [->|Hh]; [assumption|].
      cbn [adjacent_overlap] in A2. apply orb_false_iff in A2 as [B1 B2]. apply N.ltb_ge in B1.
      assert (Wg : wf_in bound g) by (apply Wr; now left). destruct Wg as [Wg1 _].
      apply (IHr k); [lia|assumption| |assumption].
      intros y Hy. apply Wr. now right.
Qed.

Lemma select_invariant : forall groups acc bound,
  Forall (Forall (wf_in bound)) groups -> Forall (wf_in bound) acc -> chain bound acc ->
  let sel := fold_left add_group groups acc in
  chain bound sel /\ Forall (wf_in bound) sel /\ (forall x, In x sel -> In x acc \/ In x (concat groups)).
Proof.
  induction groups as [|g gs IH]; intros acc bound WG WA CA; cbn [fold_left concat].
  - repeat split; auto.
  - inversion WG as [|? ? Wg Wgs]; subst.
    assert (Wc : Forall (wf_in bound) (sort_desc (acc ++ g))).
    { rewrite Forall_forall in *. intros x Hx. apply (proj1 (in_sort_desc _ _)) in Hx. apply in_app_or in Hx as [Hx|Hx]; auto. }
    assert (Hag : add_group acc g = acc \/
                  (adjacent_overlap (sort_desc (acc ++ g)) = false /\ add_group acc g = sort_desc (acc ++ g))).
    { unfold add_group. destruct (adjacent_overlap (sort_desc (acc ++ g))); auto. }
    destruct Hag as [->|[E ->]].
    + destruct (IH acc bound Wgs WA CA) as (H1 & H2 & H3). repeat split; auto.
      intros x Hx. destruct (H3 x Hx); auto. right. apply in_or_app. now right.
    + destruct (IH (sort_desc (acc ++ g)) bound Wgs Wc (no_overlap_chain _ _ Wc E)) as (H1 & H2 & H3).
      repeat split; auto. intros x Hx. destruct (H3 x Hx) as [Hy|Hy].
      * apply (proj1 (in_sort_desc _ _)) in Hy. apply in_app_or in Hy as [Hy|Hy]; auto. right. apply in_or_app. now left.
      * right. apply in_or_app. now right.
Qed.

Theorem apply_fixes_total_lemma : forall s groups,
  Forall (Forall (wf_in (blen s))) groups ->
  let sel := select groups in
  chain (blen s) sel /\ incl sel (concat groups) /\
  (forall out, apply_fixes s groups = Some out -> spliced s 0 (rev sel) out) /\
  (on_boundaries s sel -> exists out, apply_fixes s groups = Some out).
Proof.
  intros s groups W sel.
  destruct (select_invariant groups [] (blen s) W (Forall_nil _) I) as (C & _ & Hin).
  fold (select groups) in C, Hin. fold sel in C, Hin.
  split; [assumption|]. split.
  - intros x Hx. destruct (Hin x Hx) as [[]|]; assumption.
  - unfold apply_fixes. fold sel. split.
    + intros out H. now apply apply_seq_spliced.
    + intro B. now apply apply_seq_no_panic.
Qed.

(* a group is taken as a whole or not at all *)
Lemma add_group_atomic : forall acc g, add_group acc g = acc \/ (forall x, In x g -> In x (add_group acc g)).
Proof.
  intros acc g. unfold add_group. destruct (adjacent_overlap _); [now left|right].
  intros x Hx. apply in_sort_desc. apply in_or_app. now right.
Qed.

(* ---- the hypothesis is needed: the code before the repair ---------------------------------------------------- *)
Theorem apply_fixes_overlap_refuted_lemma :
  let s := [97; 98; 99; 100; 101; 102] in                       (* "abcdef" *)
  let nested := [mkfix 1 4 []; mkfix 2 3 []] in                 (* delete "bcd"; delete "c" inside it *)
  let twice := [mkfix 0 2 []; mkfix 0 2 []] in                  (* the same deletion offered twice *)
  chainb (blen s) (sort_desc nested) = false /\
  apply_fixes_orig s nested = Some [97; 102] /\                 (* "af": the `e` outside both regions is lost *)
  apply_fixes_orig [97; 98; 99] twice = None /\                 (* panic: slice past the end *)
  apply_fixes_orig s twice = Some [101; 102] /\                 (* "ef": four characters deleted instead of two *)
  apply_fixes s [[mkfix 1 4 []]; [mkfix 2 3 []]] = Some [97; 101; 102] /\   (* repaired: "aef" *)
  apply_fixes s [[mkfix 0 2 []]; [mkfix 0 2 []]] = Some [99; 100; 101; 102].
Proof. vm_compute. repeat split; reflexivity. Qed.

(* ---- unused literal: what is deleted ----------------------------------------------------------------------- *)
Lemma prefix_unique : forall p1 q1 p2 q2, p1 ++ q1 = p2 ++ q2 -> blen p1 = blen p2 -> p1 = p2 /\ q1 = q2.
Proof.
  intros p1 q1 p2 q2 H L. destruct (prefixes_nest p1 q1 p2 q2 H) as (m & -> & ->); [lia|].
  rewrite blen_app in L. destruct m as [|c m]; [now rewrite app_nil_r|].
  cbn [blen] in L. pose proof (len_utf8_pos c). lia.
Qed.

Lemma slice_sound : forall s a b m, slice s a b = Some m ->
  exists p q, s = p ++ m ++ q /\ blen p = a /\ blen m = b - a /\ a <= b.
Proof.
  intros s a b m H. unfold slice in H. destruct (b <? a) eqn:E; [discriminate|]. apply N.ltb_ge in E.
  unfold drop_bytes, take_bytes in H.
  destruct (split_bytes s a) as [[p r]|] eqn:E1; [|discriminate].
  destruct (split_bytes r (b - a)) as [[m' q]|] eqn:E2; [|discriminate]. inversion H; subst m'.
  destruct (split_bytes_sound _ _ _ _ E1) as [-> Hp]. destruct (split_bytes_sound _ _ _ _ E2) as [-> Hm].
  exists p, q. auto.
Qed.

Theorem line_removal_lemma : forall src a b s e, a <= b -> line_removal src a b = Some (s, e) ->
  exists before pre lit post after,
    src = before ++ pre ++ lit ++ post ++ after /\
    blen before = s /\ blen (before ++ pre) = a /\ blen (before ++ pre ++ lit) = b /\
    blen (before ++ pre ++ lit ++ post) = e /\
    all_ws pre = true /\ all_ws post = true.
Proof.
  intros src a b s e Hab H. unfold line_removal, line_bounds in H.
  unfold take_bytes, drop_bytes in H.
  destruct (split_bytes src a) as [[p x]|] eqn:Ea; [|discriminate].
  destruct (split_bytes src b) as [[p' q]|] eqn:Eb; [|discriminate].
  destruct (split_bytes_sound _ _ _ _ Ea) as [Hs Hp]. destruct (split_bytes_sound _ _ _ _ Eb) as [Hs' Hp'].
  assert (exists lit, p' = p ++ lit /\ x = lit ++ q) as (lit & -> & ->).
  { apply (prefixes_nest p x p' q); [congruence|lia]. }
  clear Hs'. set (ls := match rfind_lf p with Some i => i + 1 | None => 0 end) in H.
  set (le := match find_lf q with Some i => b + i + 1 | None => blen src end) in H.
  destruct (slice src ls a) as [pre|] eqn:S1; [|discriminate].
  destruct (slice src b le) as [post|] eqn:S2; [|discriminate].
  destruct (all_ws pre && all_ws post) eqn:W; inversion H; subst s e.
  - apply andb_true_iff in W as [W1 W2].
    destruct (slice_sound _ _ _ _ S1) as (r0 & r1 & E1 & B1 & B1' & L1).
    destruct (slice_sound _ _ _ _ S2) as (u & after & E2 & B2 & B2' & L2).
    (* r0 ++ pre = p *)
    assert (r0 ++ pre = p /\ r1 = lit ++ q) as [Hpre ->].
    { apply prefix_unique; [rewrite <- app_assoc; congruence|rewrite blen_app; lia]. }
    assert (u = p ++ lit /\ post ++ after = q) as [-> Hq].
    { apply prefix_unique; [rewrite <- app_assoc; congruence|lia]. }
    exists r0, pre, lit, post, after. subst p q. rewrite blen_app in *.
    repeat split; auto.
    + rewrite !app_assoc. rewrite !blen_app. rewrite blen_app in Hp'. lia.
    + rewrite !app_assoc. rewrite !blen_app. rewrite blen_app in Hp'. lia.
  - exists p, [], lit, [], q. cbn [app]. rewrite !app_nil_r. rewrite blen_app in Hp'.
    repeat split; auto; rewrite blen_app; lia.
Qed.

(* the code before the repair deletes other code on the line: `1 println("hi")\n` *)
Theorem line_removal_orig_refuted_lemma :
  let src := [49; 32; 112; 114; 105; 110; 116; 108; 110; 40; 34; 104; 105; 34; 41; 10] in
  line_removal_orig src 0 1 = Some (0, 16) /\                   (* the literal `1` is [0,1); the whole text goes *)
  (exists post, slice src 1 16 = Some post /\ all_ws post = false) /\
  line_removal src 0 1 = Some (0, 1).
Proof. vm_compute. split; [reflexivity|]. split; [|reflexivity]. eexists. split; reflexivity. Qed.

(* ---- tiny semantic lemmas ------------------------------------------------------------------------------------- *)
Lemma existsb_key : forall env seen k, existsb (Nat.eqb k) seen = true -> env k = true -> existsb env seen = true.
Proof.
  intros env seen k H E. apply existsb_exists in H as (j & Hin & Hj). apply Nat.eqb_eq in Hj. subst j.
  apply existsb_exists. now exists k.
Qed.

Lemma dedup_or : forall env l seen,
  existsb env seen || or_chain env (dedup_first seen l) = existsb env seen || or_chain env l.
Proof.
  intros env. unfold or_chain. induction l as [|k r IH]; intros seen; cbn [dedup_first existsb]; [reflexivity|].
  destruct (existsb (Nat.eqb k) seen) eqn:E.
  - rewrite IH. destruct (env k) eqn:Ek; cbn [orb]; [|reflexivity]. now rewrite (existsb_key env seen k E Ek).
  - cbn [existsb]. specialize (IH (k :: seen)). cbn [existsb] in IH.
    destruct (env k) eqn:Ek; cbn [orb] in *; [now rewrite !orb_true_r|exact IH].
Qed.

Theorem repeated_bool_or_lemma : forall env l, or_chain env (dedup_first [] l) = or_chain env l.
Proof. intros env l. pose proof (dedup_or env l []) as H. cbn [existsb orb] in H. exact H. Qed.

Lemma dedup_and : forall env l seen,
  forallb env seen && and_chain env (dedup_first seen l) = forallb env seen && and_chain env l.
Proof.
  intros env. induction l as [|k r IH]; intros seen; cbn [dedup_first and_chain forallb]; [reflexivity|].
  destruct (existsb (Nat.eqb k) seen) eqn:E.
  - unfold and_chain in IH. rewrite IH.
    destruct (forallb env seen) eqn:F; cbn [andb]; [|reflexivity].
    apply existsb_exists in E as (j & Hin & Hj). apply Nat.eqb_eq in Hj. subst j.
    rewrite forallb_forall in F. rewrite (F k Hin). reflexivity.
  - cbn [and_chain forallb]. unfold and_chain in IH. specialize (IH (k :: seen)). cbn [forallb] in IH.
    destruct (env k); cbn [andb] in *; [exact IH|]. now rewrite !andb_false_r.
Qed.

Theorem repeated_bool_and_lemma : forall env l, and_chain env (dedup_first [] l) = and_chain env l.
Proof. intros env l. pose proof (dedup_and env l []) as H. cbn [forallb andb] in H. exact H. Qed.

Lemma run_block_app : forall l1 l2 last env out,
  run_block (l1 ++ l2) last env out =
  (fix go l last env out := match l with
     | [] => run_block l2 last env out
     | st :: r => let '(v, env', o) := step st env out in go r v env' o end) l1 last env out.
Proof.
  induction l1 as [|st r IH]; intros; cbn [app run_block]; [reflexivity|].
  destruct (step st env out) as [[v env'] o]. apply IH.
Qed.

(* dropping a literal statement that is not the last one of its block changes neither value nor output *)
Theorem drop_unused_literal_lemma : forall pre v post last env out, post <> [] ->
  run_block (pre ++ SLit v :: post) last env out = run_block (pre ++ post) last env out.
Proof.
  induction pre as [|st r IH]; intros v post last env out Hne; cbn [app run_block].
  - cbn [step]. destruct post as [|st2 post]; [contradiction|]. cbn [run_block].
    destruct (step st2 env out) as [[v2 env2] o2]. reflexivity.
  - destruct (step st env out) as [[v1 env1] o1]. now apply IH.
Qed.

(* ... but a literal that IS the last statement is the block's value *)
Theorem drop_last_literal_refuted_lemma : exists pre v last env out,
  run_block (pre ++ [SLit v]) last env out <> run_block pre last env out.
Proof. exists [], 7, 0, (fun _ => 0), []. cbn. discriminate. Qed.

(* `let x = e  x` at the end of a block is `e` *)
Theorem unnecessary_let_lemma : forall pre x e last env out,
  run_block (pre ++ [SLet x e; SVar x]) last env out = run_block (pre ++ [SExpr e]) last env out.
Proof.
  induction pre as [|st r IH]; intros x e last env out; cbn [app run_block].
  - cbn [step]. destruct (e env out) as [v o]. cbn [run_block step]. rewrite Nat.eqb_refl. reflexivity.
  - destruct (step st env out) as [[v1 env1] o1]. apply IH.
Qed.

(* removing `let x =` from a let that is the LAST statement changes the block's value (Unit vs e) *)
Theorem unused_let_tail_refuted_lemma : exists x e last env out,
  run_block [SLet x e] last env out <> run_block [SExpr e] last env out.
Proof. exists 0%nat, (fun _ o => (5, o)), 0, (fun _ => 0), []. cbn. discriminate. Qed.

(* ... and does not when it is not the last statement and x is not read afterwards (statements that ignore x) *)
Theorem unused_let_removal_lemma : forall x e v2 last env out,
  run_block [SLet x e; SLit v2] last env out = run_block [SExpr e; SLit v2] last env out.
Proof. intros. cbn [run_block step]. destruct (e env out) as [v o]. reflexivity. Qed.

(* ---- examples: the hypotheses are satisfiable by non-trivial inputs ------------------------------------------- *)
Lemma on_boundaries_b : forall s l,
  forallb (fun f => is_boundary s (f_start f) && is_boundary s (f_end f)) l = true -> on_boundaries s l.
Proof.
  intros s l H. unfold on_boundaries. rewrite Forall_forall. rewrite forallb_forall in H.
  intros f Hf. specialize (H f Hf). apply andb_true_iff in H as [H1 H2]. split; now apply boundary_iff.
Qed.

(* "aébcd" (e-acute is 2 bytes): delete the e-acute [1,3), replace "c" [4,5) by "x" *)
Definition ex_src : list N := [97; 233; 98; 99; 100].
Definition ex_fixes : list afix := [mkfix 4 5 [120]; mkfix 1 3 []].

Lemma apply_fixes_splice_example_lemma :
  chain (blen ex_src) ex_fixes /\ on_boundaries ex_src ex_fixes /\
  apply_seq ex_src ex_fixes = Some [97; 98; 120; 100] /\
  apply_seq ex_src [mkfix 2 3 []] = None.                          (* inside the e-acute: panic *)
Proof.
  split; [apply chainb_chain; reflexivity|]. split; [apply on_boundaries_b; reflexivity|].
  split; reflexivity.
Qed.

(* three diagnostics: {delete [1,3)}, {a pair: [0,1) -> "y" and [2,5) -> ""} (overlaps the first: skipped as a
   whole), {[4,5) -> "x"} *)
Definition ex_groups : list (list afix) :=
  [[mkfix 1 3 []]; [mkfix 0 1 [121]; mkfix 2 5 []]; [mkfix 4 5 [120]]].

Lemma apply_fixes_total_example_lemma :
  Forall (Forall (wf_in (blen ex_src))) ex_groups /\
  select ex_groups = ex_fixes /\ on_boundaries ex_src (select ex_groups) /\
  apply_fixes ex_src ex_groups = Some [97; 98; 120; 100].
Proof.
  split.
  { repeat constructor; cbn; lia. }
  split; [reflexivity|]. split; [apply on_boundaries_b; reflexivity|reflexivity].
Qed.

(* "{\n  1\n  2}": the literal `1` at [4,5) alone on its line -> the whole line [2,6) goes;
   "{ 1 2 }": the literal `1` at [2,3) -> only [2,3) *)
Lemma line_removal_example_lemma :
  line_removal [123; 10; 32; 32; 49; 10; 32; 32; 50; 125] 4 5 = Some (2, 6) /\
  line_removal [123; 32; 49; 32; 50; 32; 125] 2 3 = Some (2, 3).
Proof. split; reflexivity. Qed.
