(* FormatPhases -- MODEL of the text-level phases of src/format.rs that do not
   need the syntax tree:
     phase 6  normalize_blank_lines        (lines; needs the line numbers of the
                                            toplevel definitions: an INPUT here,
                                            supplied by the formatter's trace)
     phase 7  fix_type_annotation_spacing  (token gaps)
     phase 8  normalize_token_spacing      (token gaps)
     phase 9  final newline                (EditAlgebra.final_newline)

   Definitions only (proofs are in FormatPhasesProps.v).

   Phases 7 and 8 lex their input and splice whitespace at token offsets.  Here
   the lexed source is the list of its segments `(gap, token)` -- the text the
   lexer consumes in front of a token (whitespace, comments, unrecognised
   characters) and the token text -- plus the trailing gap; `render` puts the
   text back together (the tokens and gaps partition the source:
   FormatPhasesProps.segs_of_render).  A phase maps gaps to gaps.

   `strict` selects the code version of phase 8:
     true   (current code) a gap is rewritten only if it is whitespace without a
            line feed:  gap.contains('\n') || !gap.chars().all(char::is_whitespace)
     false  (before fix-5) a gap is rewritten unless it contains '/' or '\n', so
            unrecognised characters in it were deleted
            (FormatPhasesProps.phase8_orig_not_idempotent).

   Modelled, not verified: Rust `str::lines`, `trim`, `trim_start`,
   `starts_with`, `char::is_uppercase` on the first char of a token (a token
   starts with an ASCII char, so this is [A-Z]).  tools/props/C18.py runs the
   extracted phases on the phase inputs of the real formatter's trace and
   compares the outputs. *)
From Coq Require Import NArith Bool List.
From Garden Require Import Base.Utf Lex EditAlgebra.
Import ListNotations.
Open Scope N_scope.

(* ------------------------------------------------------------------ *)
(* The token / gap view *)

Definition seg := (list N * list N)%type.        (* (gap in front of the token, token text) *)

Definition push_gap (t : list N) (r : list seg * list N) : list seg * list N :=
  match r with
  | ([], tr) => ([], t ++ tr)
  | ((g, tk) :: l, tr) => ((t ++ g, tk) :: l, tr)
  end.

Fixpoint segs_go (fuel : nat) (s : list N) : option (list seg * list N) :=
  match fuel with
  | O => None
  | S f =>
    match s with
    | [] => Some ([], [])
    | _ =>
      match kstep s with
      | None => None
      | Some (k, t) =>
        match segs_go f (skipn (length t) s) with
        | None => None
        | Some r =>
          match k with
          | KToken | KErrToken => Some (([], t) :: fst r, snd r)
          | _ => Some (push_gap t r)
          end
        end
      end
    end
  end.
Definition segs_of (s : list N) : option (list seg * list N) := segs_go (S (length s)) s.

(* the lexer meets no unclosed string literal (its "Unclosed string literal."
   branch, the KErrToken step, is never taken) *)
Fixpoint no_unclosed_go (fuel : nat) (s : list N) : bool :=
  match fuel with
  | O => false
  | S f =>
    match s with
    | [] => true
    | _ =>
      match kstep s with
      | None => false
      | Some (k, t) => negb (kind_eqb k KErrToken) && no_unclosed_go f (skipn (length t) s)
      end
    end
  end.
Definition no_unclosed (s : list N) : bool := no_unclosed_go (S (length s)) s.

Fixpoint render (l : list seg) (tr : list N) : list N :=
  match l with
  | [] => tr
  | (g, t) :: r => g ++ t ++ render r tr
  end.

(* ------------------------------------------------------------------ *)
(* Token texts the phases compare with *)

Definition T_COMMA : list N := [44].
Definition T_COLON : list N := [58].
Definition T_LPAREN : list N := [40].
Definition T_RPAREN : list N := [41].
Definition T_RBRACKET : list N := [93].
Definition T_RBRACE : list N := [125].
Definition T_ARROW : list N := [61; 62].
Definition T_PLUS_EQ : list N := [43; 61].
Definition T_MINUS_EQ : list N := [45; 61].
(* SPACED_BEFORE_PAREN = ["if", "while", "for", "match", "return"] *)
Definition spaced_before_paren : list (list N) :=
  [[105; 102]; [119; 104; 105; 108; 101]; [102; 111; 114]; [109; 97; 116; 99; 104]; [114; 101; 116; 117; 114; 110]].

Definition teq (a b : list N) : bool := list_eqb a b.
Definition tmem (a : list N) (l : list (list N)) : bool := existsb (teq a) l.

Definition has_char (c : N) (g : list N) : bool := existsb (N.eqb c) g.

(* ------------------------------------------------------------------ *)
(* Phase 8: normalize_token_spacing *)

(* `desired` for the gap between prev and next *)
Definition desired8 (prev next : list N) : option (list N) :=
  if teq next T_COMMA then Some []
  else if teq prev T_COMMA then
    (if tmem next [T_RPAREN; T_RBRACKET; T_RBRACE] then Some [] else Some [32])
  else if teq prev T_ARROW || teq next T_ARROW
          || tmem prev [T_PLUS_EQ; T_MINUS_EQ] || tmem next [T_PLUS_EQ; T_MINUS_EQ]
          || (tmem prev spaced_before_paren && teq next T_LPAREN)
  then Some [32]
  else None.

(* may this gap be rewritten? *)
Definition rewritable8 (strict : bool) (g : list N) : bool :=
  if strict then negb (has_char LF g) && all_ws g
  else negb (has_char SLASH g) && negb (has_char LF g).

Definition new_gap8 (strict : bool) (prev next g : list N) : list N :=
  if rewritable8 strict g then
    match desired8 prev next with Some d => d | None => g end
  else g.

(* for pair in tokens.windows(2) *)
Fixpoint phase8_go (strict : bool) (prev : list N) (l : list seg) : list seg :=
  match l with
  | [] => []
  | (g, t) :: r => (new_gap8 strict prev t g, t) :: phase8_go strict t r
  end.
Definition phase8_segs (strict : bool) (l : list seg) : list seg :=
  match l with
  | [] => []
  | (g, t) :: r => (g, t) :: phase8_go strict t r
  end.

(* ------------------------------------------------------------------ *)
(* Phase 7: fix_type_annotation_spacing *)

(* is_likely_type_name: first char uppercase or '(' *)
Definition likely_type (t : list N) : bool :=
  match t with
  | c :: _ => ((65 <=? c) && (c <=? 90)) || (c =? 40)
  | [] => false
  end.

(* the char right after the colon is not whitespace (the colon is followed by
   the gap and then the next token, which is not empty) *)
Definition head_not_ws (s : list N) : bool :=
  match s with
  | c :: _ => negb (is_whitespace c)
  | [] => false
  end.

(* pp: the token before the colon, if any;  p: the previous token *)
Definition new_gap7 (pp : option (list N)) (p next g : list N) : list N :=
  if teq p T_COLON
     && negb (teq next T_COLON)
     && negb (match pp with Some x => teq x T_COLON | None => false end)
     && likely_type next
     && head_not_ws (g ++ next)
  then 32 :: g
  else g.

Fixpoint phase7_go (pp : option (list N)) (p : list N) (l : list seg) : list seg :=
  match l with
  | [] => []
  | (g, t) :: r => (new_gap7 pp p t g, t) :: phase7_go (Some p) t r
  end.
Definition phase7_segs (l : list seg) : list seg :=
  match l with
  | [] => []
  | (g, t) :: r => (g, t) :: phase7_go None t r
  end.

(* ------------------------------------------------------------------ *)
(* The phases as text -> text *)

Definition on_segs (f : list seg -> list seg) (s : list N) : list N :=
  match segs_of s with
  | Some (l, tr) => render (f l) tr
  | None => s
  end.
Definition phase7 : list N -> list N := on_segs phase7_segs.
Definition phase8 (strict : bool) : list N -> list N := on_segs (phase8_segs strict).
Definition phase9 : list N -> list N := final_newline.

(* ------------------------------------------------------------------ *)
(* Phase 6: normalize_blank_lines *)

(* str::lines(): split at '\n'; a piece that was terminated by '\n' loses one
   trailing '\r'; no empty piece after a final '\n' *)
Definition strip_cr (rl : list N) : list N :=      (* on the reversed piece *)
  match rl with
  | c :: r => if c =? CR then rev r else rev rl
  | [] => []
  end.
Fixpoint lines_go (s cur : list N) : list (list N) :=
  match s with
  | [] => match cur with [] => [] | _ => [rev cur] end
  | c :: r => if c =? LF then strip_cr cur :: lines_go r [] else lines_go r (c :: cur)
  end.
Definition rust_lines (s : list N) : list (list N) := lines_go s [].

(* lines_starting_inside_token: lines line+1 ..= end_line of every token *)
Definition string_lines (s : list N) : list N :=
  match lex s with
  | LexOk ts _ _ =>
    flat_map (fun t => map (fun k => line (tpos t) + 1 + N.of_nat k)
                           (seq 0 (N.to_nat (end_line (tpos t) - line (tpos t))))) ts
  | _ => []
  end.

Definition nmem (i : N) (l : list N) : bool := existsb (N.eqb i) l.

(* a line with the two facts phase 6 looks up by line number *)
Record aline := mkaline { atext : list N; atop : bool; ainstr : bool }.
Definition empty_line : aline := mkaline [] false false.

Fixpoint annotate (ls : list (list N)) (tops strs : list N) (i : N) : list aline :=
  match ls with
  | [] => []
  | l :: r => mkaline l (nmem i tops) (nmem i strs) :: annotate r tops strs (i + 1)
  end.

(* is_blank(i): lines[i].trim().is_empty() && !string_lines.contains(&i) *)
Definition blank (a : aline) : bool := all_ws (atext a) && negb (ainstr a).

(* line.trim_start().starts_with("//") *)
Fixpoint trim_start (l : list N) : list N :=
  match l with
  | c :: r => if is_whitespace c then trim_start r else l
  | [] => []
  end.
Definition starts_comment (l : list N) : bool := starts_with2 SLASH SLASH (trim_start l).

(* the test after a non-blank line `a` whose successor is `n` *)
Definition ins_cond (a n : aline) : bool :=
  negb (all_ws (atext n)) && atop n && negb (ainstr n) && negb (starts_comment (atext a)).

(* the loop; `pending`: a run of blank lines has been skipped and not yet emitted *)
Fixpoint p6a (ls : list aline) (pending : bool) : list aline :=
  match ls with
  | [] => []
  | a :: rest =>
    if blank a then p6a rest true
    else
      (if pending then [empty_line] else []) ++
      a :: (match rest with
            | n :: _ => if ins_cond a n then [empty_line] else []
            | [] => []
            end) ++ p6a rest false
  end.

Definition render_lines (ls : list aline) : list N :=
  flat_map (fun a => atext a ++ [LF]) ls.

Definition ends_with_lf (s : list N) : bool :=
  match rev s with c :: _ => c =? LF | [] => false end.

Definition phase6 (tops : list N) (s : list N) : list N :=
  match rust_lines s with
  | [] => s
  | ls =>
    let res := render_lines (p6a (annotate ls tops (string_lines s) 0) false) in
    if ends_with_lf s && negb (ends_with_lf res) then res ++ [LF] else res
  end.
