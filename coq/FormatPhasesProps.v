(* FormatPhasesProps -- proofs about coq/FormatPhases.v.

   Part 1  segments: render (segs_of s) = s
   Part 2  phases 7 and 8 on segments: each idempotent, phase 7 stable under
           phase 8, the composition idempotent (every input, both code versions)
   Part 3  phase 6 on annotated lines: idempotent (every input)
   Part 4  phase 9, and phase 9 after a text that ends in exactly one line feed
   Part 5  the code before fix-5: phase 8 is not idempotent (witness)
   Part 6  re-lexing: on sources without unclosed string, the segments of a
           phase 7 / phase 8 output are the rewritten segments; hence the phases
           are idempotent as text -> text functions and keep lex_items *)
From Coq Require Import NArith Bool List Lia PeanoNat.
From Garden Require Import Base.Utf Lex LexProps EditAlgebra EditAlgebraProps FormatPhases.
Import ListNotations.
Open Scope N_scope.

(* ================================================================== *)
(* Part 1: segments *)

Lemma render_push_gap : forall t r, render (fst (push_gap t r)) (snd (push_gap t r)) = t ++ render (fst r) (snd r).
Proof.
  intros t [[|[g tk] l] tr]; cbn [push_gap fst snd render]; [reflexivity|]. now rewrite <- app_assoc.
Qed.

Lemma segs_go_render : forall f s r, segs_go f s = Some r -> render (fst r) (snd r) = s.
Proof.
  induction f as [|f IH]; intros s r H; [discriminate|]. cbn [segs_go] in H.
  destruct s as [|c s']; [injection H as <-; reflexivity|].
  destruct (kstep (c :: s')) as [[k t]|] eqn:Ek; [|discriminate].
  destruct (kstep_prefix _ _ _ Ek) as (rest & Es & Ht).
  destruct (segs_go f (skipn (length t) (c :: s'))) as [r0|] eqn:E0; [|discriminate].
  pose proof (IH _ _ E0) as R0. rewrite Es, skipn_app_len in R0.
  destruct k; injection H as <-; rewrite ?render_push_gap; cbn [fst snd render app]; rewrite R0; now rewrite Es.
Qed.

Lemma segs_of_render : forall s l tr, segs_of s = Some (l, tr) -> render l tr = s.
Proof. intros s l tr H. exact (segs_go_render _ _ _ H). Qed.

(* ================================================================== *)
(* Part 2: phases 7 and 8 on segments *)

Lemma teq_eq : forall a b, teq a b = true -> a = b.
Proof. intros a b H. now apply list_eqb_eq. Qed.

Lemma desired8_values : forall p n d, desired8 p n = Some d -> d = [] \/ d = [32].
Proof.
  intros p n d H. unfold desired8 in H.
  repeat match type of H with
         | (if ?c then _ else _) = _ => destruct c
         end; try discriminate; injection H as <-; auto.
Qed.

Lemma rewritable8_values : forall strict d, d = [] \/ d = [32] -> rewritable8 strict d = true.
Proof. intros [|] d [->| ->]; reflexivity. Qed.

Lemma new_gap8_idem : forall strict p n g,
  new_gap8 strict p n (new_gap8 strict p n g) = new_gap8 strict p n g.
Proof.
  intros strict p n g. destruct (rewritable8 strict g) eqn:R.
  - destruct (desired8 p n) as [d|] eqn:D.
    + assert (E : new_gap8 strict p n g = d) by (unfold new_gap8; now rewrite R, D).
      rewrite E. unfold new_gap8.
      now rewrite (rewritable8_values strict d (desired8_values _ _ _ D)), D.
    + assert (E : new_gap8 strict p n g = g) by (unfold new_gap8; now rewrite R, D).
      now rewrite !E.
  - assert (E : new_gap8 strict p n g = g) by (unfold new_gap8; now rewrite R).
    now rewrite !E.
Qed.

Lemma phase8_go_idem : forall strict l p, phase8_go strict p (phase8_go strict p l) = phase8_go strict p l.
Proof.
  induction l as [|[g t] r IH]; intro p; [reflexivity|]. cbn [phase8_go]. now rewrite new_gap8_idem, IH.
Qed.

Lemma phase8_segs_idem_lemma : forall strict l, phase8_segs strict (phase8_segs strict l) = phase8_segs strict l.
Proof. intros strict [|[g t] r]; [reflexivity|]. cbn [phase8_segs]. now rewrite phase8_go_idem. Qed.

Lemma new_gap7_idem : forall pp p n g, new_gap7 pp p n (new_gap7 pp p n g) = new_gap7 pp p n g.
Proof.
  intros pp p n g.
  destruct (teq p T_COLON && negb (teq n T_COLON)
            && negb match pp with Some x => teq x T_COLON | None => false end
            && likely_type n && head_not_ws (g ++ n)) eqn:C.
  - assert (E : new_gap7 pp p n g = 32 :: g) by (unfold new_gap7; now rewrite C).
    rewrite E. unfold new_gap7. cbn [app head_not_ws]. replace (is_whitespace 32) with true by reflexivity.
    cbn [negb]. now rewrite andb_false_r.
  - assert (E : new_gap7 pp p n g = g) by (unfold new_gap7; now rewrite C).
    now rewrite !E.
Qed.

Lemma phase7_go_idem : forall l pp p, phase7_go pp p (phase7_go pp p l) = phase7_go pp p l.
Proof.
  induction l as [|[g t] r IH]; intros pp p; [reflexivity|]. cbn [phase7_go]. now rewrite new_gap7_idem, IH.
Qed.

Lemma phase7_segs_idem_lemma : forall l, phase7_segs (phase7_segs l) = phase7_segs l.
Proof. intros [|[g t] r]; [reflexivity|]. cbn [phase7_segs]. now rewrite phase7_go_idem. Qed.

(* a colon followed by a type name: phase 8 has no rule for that gap *)
Lemma likely_type_head : forall n, likely_type n = true ->
  exists c r, n = c :: r /\ (((65 <=? c) && (c <=? 90)) || (c =? 40)) = true.
Proof. intros [|c r] H; [discriminate|]. now exists c, r. Qed.

Lemma desired8_colon_type : forall p n, teq p T_COLON = true -> likely_type n = true -> desired8 p n = None.
Proof.
  intros p n Hp Hn. apply teq_eq in Hp. subst p.
  destruct (likely_type_head n Hn) as (c & r & -> & Hc).
  assert (N1 : forall x r', teq (c :: r) (x :: r') = true -> x = c).
  { intros x r' E. apply teq_eq in E. now injection E. }
  assert (Hc' : c <> 44 /\ c <> 61 /\ c <> 43 /\ c <> 45).
  { repeat split; intros ->; discriminate Hc. }
  destruct Hc' as (C1 & C2 & C3 & C4).
  assert (F1 : teq (c :: r) T_COMMA = false).
  { destruct (teq (c :: r) T_COMMA) eqn:E; [|reflexivity]. apply N1 in E. congruence. }
  assert (F2 : teq (c :: r) T_ARROW = false).
  { destruct (teq (c :: r) T_ARROW) eqn:E; [|reflexivity]. apply N1 in E. congruence. }
  assert (F3 : tmem (c :: r) [T_PLUS_EQ; T_MINUS_EQ] = false).
  { unfold tmem. cbn [existsb].
    destruct (teq (c :: r) T_PLUS_EQ) eqn:E1; [apply N1 in E1; congruence|].
    destruct (teq (c :: r) T_MINUS_EQ) eqn:E2; [apply N1 in E2; congruence|]. reflexivity. }
  unfold desired8. rewrite F1, F2, F3. reflexivity.
Qed.

(* phase 7 finds nothing to do on a gap phase 8 produced from a phase 7 output *)
Lemma new_gap7_after_8 : forall strict pp p n g,
  new_gap7 pp p n (new_gap8 strict p n (new_gap7 pp p n g)) = new_gap8 strict p n (new_gap7 pp p n g).
Proof.
  intros strict pp p n g.
  destruct (teq p T_COLON && likely_type n) eqn:TC.
  - apply andb_prop in TC as [Hp Hn].
    assert (E8 : forall x, new_gap8 strict p n x = x).
    { intro x. unfold new_gap8. rewrite (desired8_colon_type p n Hp Hn). now destruct (rewritable8 strict x). }
    rewrite E8. apply new_gap7_idem.
  - assert (E7 : forall x, new_gap7 pp p n x = x).
    { intro x. unfold new_gap7. apply andb_false_iff in TC as [Hp|Hn].
      - now rewrite Hp.
      - rewrite Hn. now rewrite !andb_false_r. }
    now rewrite !E7.
Qed.

Lemma phase7_go_after_8 : forall strict l pp p,
  phase7_go pp p (phase8_go strict p (phase7_go pp p l)) = phase8_go strict p (phase7_go pp p l).
Proof.
  induction l as [|[g t] r IH]; intros pp p; [reflexivity|]. cbn [phase7_go phase8_go].
  now rewrite new_gap7_after_8, IH.
Qed.

Lemma phase7_after_8_lemma : forall strict l,
  phase7_segs (phase8_segs strict (phase7_segs l)) = phase8_segs strict (phase7_segs l).
Proof.
  intros strict [|[g t] r]; [reflexivity|]. cbn [phase7_segs phase8_segs]. now rewrite phase7_go_after_8.
Qed.

Definition phase78_segs (strict : bool) (l : list seg) : list seg := phase8_segs strict (phase7_segs l).

Lemma phase78_segs_idem_lemma : forall strict l, phase78_segs strict (phase78_segs strict l) = phase78_segs strict l.
Proof.
  intros strict l. unfold phase78_segs. rewrite phase7_after_8_lemma. apply phase8_segs_idem_lemma.
Qed.

(* the phases change gaps only *)
Lemma phase8_go_tokens : forall strict l p, map snd (phase8_go strict p l) = map snd l.
Proof. induction l as [|[g t] r IH]; intro p; [reflexivity|]. cbn [phase8_go map snd]. now rewrite IH. Qed.
Lemma phase8_segs_tokens : forall strict l, map snd (phase8_segs strict l) = map snd l.
Proof. intros strict [|[g t] r]; [reflexivity|]. cbn [phase8_segs map snd]. now rewrite phase8_go_tokens. Qed.
Lemma phase7_go_tokens : forall l pp p, map snd (phase7_go pp p l) = map snd l.
Proof. induction l as [|[g t] r IH]; intros pp p; [reflexivity|]. cbn [phase7_go map snd]. now rewrite IH. Qed.
Lemma phase7_segs_tokens : forall l, map snd (phase7_segs l) = map snd l.
Proof. intros [|[g t] r]; [reflexivity|]. cbn [phase7_segs map snd]. now rewrite phase7_go_tokens. Qed.

(* ================================================================== *)
(* Part 3: phase 6 on annotated lines *)

(* normal form of an output of the loop *)
Fixpoint nf (l : list aline) : bool :=
  match l with
  | [] => true
  | a :: rest =>
    if blank a then
      match a with mkaline [] false false => true | _ => false end
      && match rest with [] => false | n :: _ => negb (blank n) end
      && nf rest
    else
      match rest with n :: _ => negb (ins_cond a n) | [] => true end && nf rest
  end.

Lemma p6a_pending_nonblank : forall n r, blank n = false ->
  p6a (n :: r) true = empty_line :: p6a (n :: r) false.
Proof. intros n r H. cbn [p6a]. rewrite H. reflexivity. Qed.

Lemma nf_fixed : forall l, nf l = true -> p6a l false = l.
Proof.
  induction l as [|a rest IH]; intro H; [reflexivity|]. cbn [nf] in H. cbn [p6a].
  destruct (blank a) eqn:B.
  - apply andb_prop in H as [H Hr]. apply andb_prop in H as [Ha Hn].
    destruct rest as [|n r]; [discriminate|]. apply negb_true_iff in Hn.
    rewrite (p6a_pending_nonblank n r Hn), (IH Hr).
    destruct a as [[|? ?] [|] [|]]; try discriminate. reflexivity.
  - apply andb_prop in H as [Hc Hr]. cbn [app]. rewrite (IH Hr).
    destruct rest as [|n r]; [reflexivity|]. apply negb_true_iff in Hc. now rewrite Hc.
Qed.

Lemma blank_empty : blank empty_line = true.
Proof. reflexivity. Qed.

Lemma ins_cond_empty : forall a, ins_cond a empty_line = false.
Proof. reflexivity. Qed.

Lemma p6a_pending_head : forall r, p6a r true = [] \/ exists Y, p6a r true = empty_line :: Y.
Proof.
  induction r as [|a r IH]; [now left|]. cbn [p6a]. destruct (blank a); [exact IH|].
  right. eexists. reflexivity.
Qed.

Lemma ins_cond_nonblank : forall a n, ins_cond a n = true -> blank n = false.
Proof.
  intros a n H. unfold ins_cond in H. apply andb_prop in H as [H _]. apply andb_prop in H as [H _].
  apply andb_prop in H as [H _]. apply negb_true_iff in H. unfold blank. now rewrite H.
Qed.

Lemma nf_cons_empty : forall a X, blank a = false -> nf (a :: X) = true -> nf (empty_line :: a :: X) = true.
Proof.
  intros a X B H. change (nf (empty_line :: a :: X)) with
    (match empty_line with mkaline [] false false => true | _ => false end && negb (blank a) && nf (a :: X)).
  rewrite B, H. reflexivity.
Qed.

Lemma nf_p6a : forall ls p, nf (p6a ls p) = true.
Proof.
  induction ls as [|a rest IH]; intro p; [reflexivity|]. cbn [p6a].
  destruct (blank a) eqn:B; [apply IH|].
  assert (Main : nf (a :: (match rest with n :: _ => if ins_cond a n then [empty_line] else [] | [] => [] end)
                        ++ p6a rest false) = true).
  { cbn [nf]. rewrite B. destruct rest as [|n r]; [reflexivity|].
    destruct (ins_cond a n) eqn:C.
    - cbn [app]. rewrite ins_cond_empty. cbn [negb andb nf]. rewrite blank_empty.
      pose proof (ins_cond_nonblank a n C) as Bn.
      pose proof (IH false) as Hr. cbn [p6a] in Hr |- *. rewrite Bn in Hr |- *. cbn [app] in Hr |- *.
      rewrite Bn. cbn [negb andb]. exact Hr.
    - cbn [app]. pose proof (IH false) as Hr. rewrite Hr, andb_true_r.
      cbn [p6a]. destruct (blank n) eqn:Bn.
      + destruct (p6a_pending_head r) as [E|(Y & E)]; rewrite E; [reflexivity|]. now rewrite ins_cond_empty.
      + cbn [app]. now rewrite C. }
  destruct p; [|exact Main].
  cbn [app]. now apply nf_cons_empty.
Qed.

Lemma p6a_idem_lemma : forall ls, p6a (p6a ls false) false = p6a ls false.
Proof. intro ls. apply nf_fixed, nf_p6a. Qed.

(* ================================================================== *)
(* Part 6a: scanners on a longer text -- what they say about the shorter one *)

Lemma span_app_gen : forall p u A,
  span p (u ++ A) =
  match snd (span p u) with
  | [] => (fst (span p u) ++ fst (span p A), snd (span p A))
  | _ => (fst (span p u), snd (span p u) ++ A)
  end.
Proof.
  intros p u A. induction u as [|x u IH]; cbn [app span].
  - cbn [fst snd app]. now destruct (span p A).
  - destruct (p x) eqn:Px; [|reflexivity]. rewrite IH. destruct (span p u) as [a b]. cbn [fst snd].
    destruct b; reflexivity.
Qed.

Lemma span_parts : forall p s, s = fst (span p s) ++ snd (span p s).
Proof. intros p s. destruct (span p s) as [a b] eqn:E. now destruct (span_spec _ _ _ _ E). Qed.

(* SD: a scan over v ++ A that ends inside v is the scan over v *)
Lemma scan_digits_down : forall v A a r, scan_digits (v ++ A) = Some (a, r) -> (length a <= length v)%nat ->
  exists r0, scan_digits v = Some (a, r0) /\ r = r0 ++ A.
Proof.
  intros [|c v] A a r H L.
  - cbn [app] in H. destruct (scan_digits_spec _ _ _ H) as (_ & Ha & _). destruct a; [congruence|cbn [length] in L; lia].
  - cbn [app scan_digits] in *. destruct (is_digit c); [|discriminate].
    rewrite span_app_gen in H. pose proof (span_parts is_digit_us v) as Ev.
    destruct (span is_digit_us v) as [a0 b0]. cbn [fst snd] in *.
    destruct b0 as [|d b0].
    + pose proof (span_parts is_digit_us A) as EA.
      destruct (span is_digit_us A) as [a1 b1]. cbn [fst snd] in H, EA. injection H as <- <-.
      rewrite app_nil_r in Ev. subst a0. cbn [length] in L. rewrite app_length in L.
      destruct a1; [|cbn [length] in L; lia]. rewrite app_nil_r. exists []. cbn [app] in *. now subst.
    + injection H as <- <-. now exists (d :: b0).
Qed.

Lemma scan_digits_none_down : forall v A, scan_digits (v ++ A) = None -> scan_digits v = None.
Proof.
  intros [|c v] A H; [reflexivity|]. cbn [app scan_digits] in *.
  destruct (is_digit c); [|reflexivity]. now destruct (span is_digit_us (v ++ A)).
Qed.

Lemma scan_digits_inside : forall v A a d b, scan_digits v = Some (a, d :: b) ->
  scan_digits (v ++ A) = Some (a, d :: b ++ A).
Proof.
  intros [|c v] A a d b H; [discriminate|]. cbn [app scan_digits] in *.
  destruct (is_digit c); [|discriminate]. rewrite span_app_gen.
  destruct (span is_digit_us v) as [a0 b0]. cbn [fst snd]. injection H as <- ->. reflexivity.
Qed.

Lemma scan_digits_some_up : forall v A x, scan_digits v = Some x -> exists y, scan_digits (v ++ A) = Some y.
Proof.
  intros [|c v] A x H; [discriminate|]. cbn [app scan_digits] in *.
  destruct (is_digit c); [|discriminate]. destruct (span is_digit_us (v ++ A)). eexists. reflexivity.
Qed.

Lemma scan_len : forall v a r, scan_digits v = Some (a, r) -> length v = (length a + length r)%nat.
Proof. intros v a r H. destruct (scan_digits_spec _ _ _ H) as (-> & _). apply app_length. Qed.

(* integer_re / float_re are `sign ++ ...` over the text after the sign *)
Lemma integer_re_down : forall u A t, u <> [] -> integer_re (u ++ A) = Some t -> (length t <= length u)%nat ->
  integer_re u = Some t.
Proof.
  intros [|x u] A t Hu H L; [congruence|]. unfold integer_re in *. cbn [app opt_minus] in *.
  destruct (x =? MINUS).
  - destruct (scan_digits (u ++ A)) as [[a r]|] eqn:E; [|discriminate]. injection H as <-.
    cbn [app length] in L. destruct (scan_digits_down u A a r E) as (r0 & E0 & _); [lia|]. now rewrite E0.
  - change (x :: u ++ A) with ((x :: u) ++ A) in H.
    destruct (scan_digits ((x :: u) ++ A)) as [[a r]|] eqn:E; [|discriminate]. injection H as <-.
    cbn [app] in L. destruct (scan_digits_down (x :: u) A a r E L) as (r0 & E0 & _). now rewrite E0.
Qed.

Lemma integer_re_none_down : forall u A, u <> [] -> integer_re (u ++ A) = None -> integer_re u = None.
Proof.
  intros [|x u] A Hu H; [congruence|]. unfold integer_re in *. cbn [app opt_minus] in *.
  destruct (x =? MINUS).
  - destruct (scan_digits (u ++ A)) as [[a r]|] eqn:E; [discriminate|].
    now rewrite (scan_digits_none_down u A E).
  - change (x :: u ++ A) with ((x :: u) ++ A) in H.
    destruct (scan_digits ((x :: u) ++ A)) as [[a r]|] eqn:E; [discriminate|].
    now rewrite (scan_digits_none_down (x :: u) A E).
Qed.

Definition float_tail (sign a r1 : list N) : option (list N) :=
  match r1 with
  | d :: r2 =>
    if d =? DOT then
      match scan_digits r2 with
      | Some (b, _) => Some (sign ++ a ++ DOT :: b)
      | None => None
      end
    else None
  | [] => None
  end.

Lemma float_re_unfold : forall s, float_re s =
  let (sign, s1) := opt_minus s in
  match scan_digits s1 with Some (a, r1) => float_tail sign a r1 | None => None end.
Proof. reflexivity. Qed.

Lemma float_body_down : forall sign v A t,
  match scan_digits (v ++ A) with Some (a, r1) => float_tail sign a r1 | None => None end = Some t ->
  (length t <= length sign + length v)%nat ->
  match scan_digits v with Some (a, r1) => float_tail sign a r1 | None => None end = Some t.
Proof.
  intros sign v A t H L.
  destruct (scan_digits (v ++ A)) as [[a r1]|] eqn:E; [|discriminate].
  unfold float_tail in H. destruct r1 as [|d r2]; [discriminate|].
  destruct (d =? DOT) eqn:Ed; [|discriminate].
  destruct (scan_digits r2) as [[b rb]|] eqn:E2; [|discriminate]. injection H as <-.
  rewrite !app_length in L. cbn [length] in L.
  destruct (scan_digits_down v A a (d :: r2) E) as (r0 & E0 & Er); [lia|].
  rewrite E0. pose proof (scan_len _ _ _ E0) as Lv.
  destruct r0 as [|d0 r0'].
  - cbn [app] in Er. cbn [length] in Lv. lia.
  - cbn [app] in Er. injection Er as <- ->. unfold float_tail. rewrite Ed.
    cbn [length] in Lv.
    destruct (scan_digits_down r0' A b rb E2) as (r3 & E3 & _); [lia|]. now rewrite E3.
Qed.

Lemma float_body_none_down : forall sign v A,
  match scan_digits (v ++ A) with Some (a, r1) => float_tail sign a r1 | None => None end = None ->
  match scan_digits v with Some (a, r1) => float_tail sign a r1 | None => None end = None.
Proof.
  intros sign v A H. destruct (scan_digits v) as [[a r0]|] eqn:E0; [|reflexivity].
  destruct r0 as [|d r0']; [reflexivity|].
  rewrite (scan_digits_inside v A a d r0' E0) in H. unfold float_tail in *.
  destruct (d =? DOT); [|reflexivity].
  destruct (scan_digits r0') as [[b rb]|] eqn:E3; [|reflexivity].
  destruct (scan_digits_some_up r0' A _ E3) as ([b' rb'] & E4). rewrite E4 in H. discriminate.
Qed.

Lemma float_re_down : forall u A t, u <> [] -> float_re (u ++ A) = Some t -> (length t <= length u)%nat ->
  float_re u = Some t.
Proof.
  intros [|x u] A t Hu H L; [congruence|]. rewrite float_re_unfold in *. cbn [app opt_minus] in *.
  destruct (x =? MINUS).
  - apply (float_body_down [MINUS] u A t H). cbn [length] in *. lia.
  - change (x :: u ++ A) with ((x :: u) ++ A) in H. apply (float_body_down [] (x :: u) A t H). cbn [length] in *. lia.
Qed.

Lemma float_re_none_down : forall u A, u <> [] -> float_re (u ++ A) = None -> float_re u = None.
Proof.
  intros [|x u] A Hu H; [congruence|]. rewrite float_re_unfold in *. cbn [app opt_minus] in *.
  destruct (x =? MINUS).
  - exact (float_body_none_down [MINUS] u A H).
  - change (x :: u ++ A) with ((x :: u) ++ A) in H. exact (float_body_none_down [] (x :: u) A H).
Qed.

Lemma symbol_re_down : forall u A t, u <> [] -> symbol_re (u ++ A) = Some t -> (length t <= length u)%nat ->
  symbol_re u = Some t.
Proof.
  intros [|x u] A t Hu H L; [congruence|]. cbn [app symbol_re] in *.
  destruct (is_sym_start x); [|discriminate]. injection H as <-. rewrite span_app_gen in L |- *.
  pose proof (span_parts is_sym_char u) as Ev.
  destruct (span is_sym_char u) as [a0 b0]. cbn [fst snd] in *. destruct b0 as [|d b0]; [|reflexivity].
  cbn [fst]. rewrite app_nil_r in Ev. subst a0. cbn [fst length] in L. rewrite app_length in L.
  destruct (fst (span is_sym_char A)); [now rewrite app_nil_r|cbn [length] in L; lia].
Qed.

Lemma symbol_re_none_down : forall u A, u <> [] -> symbol_re (u ++ A) = None -> symbol_re u = None.
Proof.
  intros [|x u] A Hu H; [congruence|]. cbn [app symbol_re] in *. now destruct (is_sym_start x).
Qed.

(* ================================================================== *)
(* Part 6b: a token step is kept when the text after it is replaced by a text
   that starts with a char no token can absorb *)

Definition stopt (B : list N) : bool := match B with [] => true | b :: _ => stop b end.

Lemma stopt_sstop : forall B, stopt B = true -> sstop_tail B.
Proof. intros [|b r] H; [exact I|]. now destruct (stop_facts b H). Qed.

Lemma kstep_token_stop : forall u A B t, u <> [] -> stopt B = true ->
  kstep (u ++ A) = Some (KToken, t) -> (length t <= length u)%nat -> step_ok_k KToken t = true ->
  kstep (u ++ B) = Some (KToken, t).
Proof.
  intros u A B t Hu HB H Hfit Hok.
  pose proof (stopt_sstop B HB) as SB.
  unfold kstep in H |- *.
  rewrite (float_re_stop u B Hu SB), (integer_re_stop u B Hu SB), (symbol_re_stop u B Hu SB).
  fold (pair_hit (u ++ A)) in H. fold (pair_hit (u ++ B)).
  destruct (starts_with2 SLASH SLASH (u ++ A)) eqn:CA; [discriminate|].
  assert (CB : starts_with2 SLASH SLASH (u ++ B) = false).
  { destruct u as [|x [|y u]]; [congruence| |exact CA]. cbn [app starts_with2].
    destruct B as [|b rb]; [reflexivity|]. cbn [stopt] in HB. destruct (stop_facts b HB) as (_ & _ & Sb).
    rewrite Sb. apply andb_false_r. }
  rewrite CB. destruct u as [|x u']; [congruence|]. cbn [app] in H |- *.
  destruct (is_whitespace x); [discriminate|].
  destruct (pair_hit (x :: u' ++ A)) eqn:PA.
  { destruct u' as [|y u''].
    - cbn [app] in H. destruct A as [|a ra]; [discriminate|]. injection H as <-. cbn [length] in Hfit. lia.
    - assert (PB : pair_hit (x :: (y :: u'') ++ B) = true) by exact PA. rewrite PB. exact H. }
  assert (PB' : pair_hit (x :: u' ++ B) = false).
  { destruct u' as [|y u'']; [|exact PA]. cbn [app]. destruct B as [|b rb]; [apply pair_hit_single|].
    apply pair_hit_second. left. cbn [stopt] in HB. now destruct (stop_facts b HB) as (_ & P & _). }
  rewrite PB'.
  change (x :: u' ++ A) with ((x :: u') ++ A) in H.
  destruct (float_re ((x :: u') ++ A)) as [m|] eqn:FA.
  { injection H as <-. now rewrite (float_re_down _ _ _ Hu FA Hfit). }
  rewrite (float_re_none_down _ _ Hu FA).
  destruct (integer_re ((x :: u') ++ A)) as [m|] eqn:IA.
  { injection H as <-. now rewrite (integer_re_down _ _ _ Hu IA Hfit). }
  rewrite (integer_re_none_down _ _ Hu IA).
  destruct (existsb (N.eqb x) one_char_tokens); [exact H|].
  change (x :: u' ++ B) with ((x :: u') ++ B).
  destruct (string_re true ((x :: u') ++ A)) as [text|] eqn:SA'.
  { destruct (ends_with_quote text) eqn:Q; [|discriminate].
    injection H as <-. rewrite (string_re_fit (x :: u') A B text Hu SA' Hok Hfit). now rewrite Q. }
  rewrite (string_re_head (x :: u') A B Hu SA').
  destruct (symbol_re ((x :: u') ++ A)) as [m|] eqn:YA.
  { injection H as <-. now rewrite (symbol_re_down _ _ _ Hu YA Hfit). }
  discriminate.
Qed.

(* a string token that is followed by more text is closed by its own quote *)
Lemma string_body_nonempty : forall s, s <> [] -> string_body true s <> [].
Proof.
  intros [|c r] H; [congruence|]. cbn [string_body]. destruct (c =? QUOTE); [discriminate|].
  destruct (c =? BACKSLASH); [|discriminate]. destruct r as [|d r']; [discriminate|].
  destruct (negb (d =? LF)); discriminate.
Qed.

Lemma string_body_exact_closed : forall n b Y, (length b <= n)%nat -> Y <> [] ->
  string_body true (b ++ Y) = b -> closed_body_go (S n) b = true.
Proof.
  induction n as [|n IH]; intros b Y L HY H.
  - destruct b; [|cbn [length] in L; lia]. cbn [app] in H. now apply string_body_nonempty in H.
  - destruct b as [|c b']; [cbn [app] in H; now apply string_body_nonempty in H|].
    cbn [length] in L. cbn [app string_body] in H. cbn [closed_body_go].
    destruct (N.eqb_spec c QUOTE) as [->|Hq].
    + injection H as H. now subst b'.
    + destruct (c =? BACKSLASH).
      * destruct b' as [|d b''].
        -- cbn [app] in H. destruct Y as [|y r]; [congruence|].
           destruct (negb (y =? LF)); injection H as H; [discriminate|].
           destruct (y =? QUOTE); [discriminate|]. destruct (y =? BACKSLASH); [|discriminate].
           destruct r as [|d r']; [discriminate|]. destruct (negb (d =? LF)); discriminate.
        -- cbn [app] in H. cbn [length] in L. destruct (negb (d =? LF)).
           ++ injection H as H. apply (IH b'' Y); [lia|exact HY|exact H].
           ++ injection H as H. change (d :: b'' ++ Y) with ((d :: b'') ++ Y) in H.
              apply (IH (d :: b'') Y); [cbn [length]; lia|exact HY|exact H].
      * injection H as H. apply (IH b' Y); [lia|exact HY|exact H].
Qed.

Lemma kstep_quote : forall rest,
  kstep (QUOTE :: rest) =
  if ends_with_quote (QUOTE :: string_body true rest) then Some (KToken, QUOTE :: string_body true rest)
  else Some (KErrToken, before_lf (QUOTE :: string_body true rest)).
Proof. intros [|y r]; unfold kstep; reflexivity. Qed.

Lemma token_followed_ok : forall t Y, Y <> [] -> kstep (t ++ Y) = Some (KToken, t) -> step_ok_k KToken t = true.
Proof.
  intros t Y HY H. cbn [step_ok_k]. destruct t as [|c b]; [reflexivity|].
  destruct (c =? QUOTE) eqn:Ec; [|reflexivity]. apply N.eqb_eq in Ec. subst c.
  cbn [app] in H. rewrite kstep_quote in H.
  destruct (ends_with_quote (QUOTE :: string_body true (b ++ Y))); [|discriminate].
  injection H as H. unfold closed_body. exact (string_body_exact_closed (length b) b Y (le_n _) HY H).
Qed.

(* ================================================================== *)
(* Part 6c: gap steps (whitespace, unrecognised characters, comments) *)

Definition gapk (k : kind) : bool := match k with KSkip | KErr | KComment => true | _ => false end.

Ltac kstep_exhaust H :=
  unfold kstep in H;
  repeat match type of H with
         | context [if ?c then _ else _] => let E := fresh "E" in destruct c eqn:E
         | context [match ?x with _ => _ end] => let E := fresh "E" in destruct x eqn:E
         end; try discriminate.

Lemma kstep_comment_inv : forall s t, kstep s = Some (KComment, t) ->
  starts_with2 SLASH SLASH s = true /\ t = upto_lf s.
Proof.
  intros s t H. destruct (starts_with2 SLASH SLASH s) eqn:C.
  - unfold kstep in H. rewrite C in H. injection H as <-. now split.
  - exfalso. unfold kstep in H. rewrite C in H. kstep_exhaust H.
Qed.

Lemma kstep_skip_inv : forall s t, kstep s = Some (KSkip, t) ->
  exists c r, s = c :: r /\ is_whitespace c = true /\ t = [c].
Proof.
  intros s t H. destruct s as [|c r]; [discriminate|].
  destruct (is_whitespace c) eqn:W.
  - rewrite (kstep_ws c r W) in H. injection H as <-. now exists c, r.
  - exfalso. unfold kstep in H. destruct (starts_with2 SLASH SLASH (c :: r)); [discriminate|].
    rewrite W in H. kstep_exhaust H.
Qed.

(* what an unrecognised character is *)
Record junk (c : N) : Prop := mkjunk {
  j_ws : is_whitespace c = false;
  j_one : existsb (N.eqb c) one_char_tokens = false;
  j_digit : is_digit c = false;
  j_sym : is_sym_start c = false;
  j_quote : (c =? QUOTE) = false
}.

Lemma junk_not_minus : forall c, junk c -> (c =? MINUS) = false.
Proof.
  intros c J. pose proof (j_one c J) as E. unfold one_char_tokens in E. cbn [existsb] in E.
  repeat (apply orb_false_elim in E as [? E]). assumption.
Qed.

Lemma junk_scanners : forall c X, junk c ->
  float_re (c :: X) = None /\ integer_re (c :: X) = None /\ symbol_re (c :: X) = None /\ string_re true (c :: X) = None.
Proof.
  intros c X J. pose proof (junk_not_minus c J) as M.
  unfold float_re, integer_re. cbn [opt_minus]. rewrite M. cbn [scan_digits symbol_re string_re].
  rewrite (j_digit c J), (j_sym c J), (j_quote c J). repeat split.
Qed.

Lemma junk_stop : forall c, junk c -> stop c = true.
Proof.
  intros c J. pose proof (j_one c J) as E. unfold one_char_tokens in E. cbn [existsb] in E.
  repeat (let F := fresh "F" in apply orb_false_elim in E as [F E]).
  unfold stop, pair_second, is_sym_char. cbn [existsb]. rewrite (j_sym c J), (j_digit c J).
  unfold DOT. repeat match goal with H : (c =? _) = false |- _ => rewrite ?H; clear H end.
  reflexivity.
Qed.

Lemma kstep_err_inv : forall s t, kstep s = Some (KErr, t) ->
  exists c r, s = c :: r /\ t = [c] /\ junk c /\
              starts_with2 SLASH SLASH s = false /\ pair_hit s = false.
Proof.
  intros s t H. destruct s as [|c r]; [discriminate|].
  unfold kstep in H. fold (pair_hit (c :: r)) in H.
  destruct (starts_with2 SLASH SLASH (c :: r)) eqn:C; [discriminate|].
  destruct (is_whitespace c) eqn:W; [discriminate|].
  destruct (pair_hit (c :: r)) eqn:P; [destruct r; discriminate|].
  destruct (float_re (c :: r)) eqn:Fl; [discriminate|].
  destruct (integer_re (c :: r)) eqn:In; [discriminate|].
  destruct (existsb (N.eqb c) one_char_tokens) eqn:O; [discriminate|].
  destruct (string_re true (c :: r)) eqn:St; [destruct (ends_with_quote l); discriminate|].
  destruct (symbol_re (c :: r)) eqn:Sy; [discriminate|]. injection H as <-.
  exists c, r. repeat split; try assumption.
  - assert (M : (c =? MINUS) = false).
    { unfold one_char_tokens in O. cbn [existsb] in O. repeat (apply orb_false_elim in O as [? O]). assumption. }
    unfold integer_re in In. cbn [opt_minus] in In. rewrite M in In. cbn [scan_digits] in In.
    destruct (is_digit c); [|reflexivity]. now destruct (span is_digit_us r).
  - cbn [symbol_re] in Sy. now destruct (is_sym_start c).
  - cbn [string_re] in St. now destruct (c =? QUOTE).
Qed.

Lemma kstep_junk : forall c X, junk c -> starts_with2 SLASH SLASH (c :: X) = false -> pair_hit (c :: X) = false ->
  kstep (c :: X) = Some (KErr, [c]).
Proof.
  intros c X J C P. unfold kstep. fold (pair_hit (c :: X)). rewrite C, (j_ws c J), P.
  destruct (junk_scanners c X J) as (-> & -> & -> & ->). now rewrite (j_one c J).
Qed.

Lemma upto_lf_strict : forall u d A, (length (upto_lf (u ++ d :: A)) <= length u)%nat ->
  ends_lf (upto_lf (u ++ d :: A)) = true.
Proof.
  induction u as [|x u IH]; intros d A L.
  - cbn [app length] in L. cbn [upto_lf] in L. destruct (d =? LF); cbn [length] in L; lia.
  - cbn [app upto_lf] in *. destruct (x =? LF) eqn:Ex; [reflexivity|]. cbn [length] in L.
    assert (Ht : ends_lf (upto_lf (u ++ d :: A)) = true) by (apply IH; lia).
    cbn [ends_lf]. destruct (upto_lf (u ++ d :: A)); [discriminate Ht|exact Ht].
Qed.

(* a gap step that stays inside u, with at least one more char after u that is
   the same on both sides, is the same step *)
Lemma gapstep_local : forall u d A B k t, kstep (u ++ d :: A) = Some (k, t) -> gapk k = true ->
  (length t <= length u)%nat -> kstep (u ++ d :: B) = Some (k, t).
Proof.
  intros u d A B k t H G L. destruct k; try discriminate G.
  - destruct (kstep_skip_inv _ _ H) as (c & r & Es & W & ->).
    destruct u as [|x u]; [cbn [length] in L; lia|]. cbn [app] in Es. injection Es as -> _.
    cbn [app]. apply kstep_ws. exact W.
  - destruct (kstep_comment_inv _ _ H) as [C ->].
    pose proof (comment_len _ C) as L2.
    pose proof (upto_lf_strict u d A L) as El.
    assert (CB : starts_with2 SLASH SLASH (u ++ d :: B) = true).
    { destruct u as [|x [|y u]]; [cbn [length] in L; lia|cbn [length] in L; lia|exact C]. }
    unfold kstep. rewrite CB. now rewrite (upto_lf_fit u (d :: A) (d :: B) El L).
  - destruct (kstep_err_inv _ _ H) as (c & r & Es & -> & J & C & P).
    destruct u as [|x u]; [cbn [length] in L; lia|]. cbn [app] in Es. injection Es as -> _.
    cbn [app] in *. apply kstep_junk; [exact J| |].
    + destruct u as [|y u]; exact C.
    + destruct u as [|y u]; exact P.
Qed.

Inductive gaprun : list N -> list N -> Prop :=
| gr_nil : forall X, gaprun [] X
| gr_step : forall k t g X, kstep ((t ++ g) ++ X) = Some (k, t) -> gapk k = true ->
    gaprun g X -> gaprun (t ++ g) X.

Lemma gaprun_tail : forall g d A B, gaprun g (d :: A) -> gaprun g (d :: B).
Proof.
  intros g d A B H. remember (d :: A) as X eqn:EX. revert EX.
  induction H as [X|k t g X Hk Gk Hr IH]; intro EX; [constructor|]. subst X.
  apply (gr_step k); [|exact Gk|now apply IH].
  apply (gapstep_local (t ++ g) d A B k t Hk Gk). rewrite app_length. lia.
Qed.

Lemma ws_stop : forall c, is_whitespace c = true -> stop c = true.
Proof.
  intros c W. destruct (stop c) eqn:S; [reflexivity|]. exfalso.
  unfold stop in S. apply andb_false_iff in S as [S|S]; [apply andb_false_iff in S as [S|S]|];
    apply negb_false_iff in S.
  - unfold is_whitespace in W. unfold is_sym_char, is_sym_start, is_digit in S.
    repeat match goal with
           | H : _ || _ = true |- _ => apply orb_prop in H as [H|H]
           | H : _ && _ = true |- _ => apply andb_prop in H as [? H]
           end;
    repeat match goal with
           | H : (_ <=? _) = true |- _ => apply N.leb_le in H
           | H : (_ =? _) = true |- _ => apply N.eqb_eq in H
           end; unfold UNDERSCORE in *; lia.
  - apply N.eqb_eq in S. subst c. discriminate W.
  - unfold pair_second in S. cbn [existsb] in S.
    repeat match goal with
           | H : _ || _ = true |- _ => apply orb_prop in H as [H|H]
           end; try discriminate S; apply N.eqb_eq in S; subst c; discriminate W.
Qed.

(* the first char of a gap is whitespace, an unrecognised char or the `/` of a comment *)
Lemma gaprun_head : forall c g X, gaprun (c :: g) X -> stop c = true \/ c = SLASH.
Proof.
  intros c g X H. remember (c :: g) as G eqn:EG. destruct H as [X|k t g0 X Hk Gk Hr]; [discriminate|].
  rewrite EG in Hk. cbn [app] in Hk. destruct k; try discriminate Gk.
  - destruct (kstep_skip_inv _ _ Hk) as (c1 & r1 & Es & W & Et). injection Es as <- _.
    left. now apply ws_stop.
  - destruct (kstep_comment_inv _ _ Hk) as [C _]. right.
    destruct (g ++ X) as [|y r']; [discriminate C|]. cbn [starts_with2] in C.
    apply andb_prop in C as [C _]. now apply N.eqb_eq in C.
  - destruct (kstep_err_inv _ _ Hk) as (c1 & r1 & Es & _ & J & _). injection Es as <- _.
    left. now apply junk_stop.
Qed.

(* ================================================================== *)
(* Part 6d: re-lexing a source whose gaps were rewritten *)

(* the decomposition (l, tr) is the one the lexer finds, and no token is an
   unclosed string *)
Fixpoint good (l : list seg) (tr : list N) : Prop :=
  match l with
  | [] => gaprun tr []
  | (g, t) :: r =>
    gaprun g (t ++ render r tr) /\ t <> [] /\ kstep (t ++ render r tr) = Some (KToken, t) /\ good r tr
  end.

(* how a gap in front of the token tk may change *)
Inductive gaprw (tk : list N) : list N -> list N -> Prop :=
| rw_same : forall g, gaprw tk g g
| rw_ws : forall w w', all_ws w = true -> all_ws w' = true ->
    (w' = [] -> w <> [] -> stopt tk = true) -> gaprw tk w w'
| rw_ins : forall g, gaprw tk g (32 :: g).

Inductive segsrw : list seg -> list seg -> Prop :=
| srw_nil : segsrw [] []
| srw_cons : forall g g' tk r r', gaprw tk g g' -> segsrw r r' -> segsrw ((g, tk) :: r) ((g', tk) :: r').

Lemma stop_32 : stop 32 = true.
Proof. reflexivity. Qed.

Lemma all_ws_head_stop : forall c w, all_ws (c :: w) = true -> stop c = true.
Proof. intros c w H. cbn [all_ws forallb] in H. apply andb_prop in H as [H _]. now apply ws_stop. Qed.

(* token steps in front of the rewritten part are kept *)
Lemma token_tail_rw : forall l l', segsrw l l' -> forall tr, good l tr ->
  forall u t, u <> [] -> kstep (u ++ render l tr) = Some (KToken, t) ->
  (length t <= length u)%nat -> step_ok_k KToken t = true ->
  kstep (u ++ render l' tr) = Some (KToken, t).
Proof.
  intros l l' R. induction R as [|g g' tk r r' Hg R IH]; intros tr G u t Hu H L Hok; [exact H|].
  cbn [good] in G. destruct G as (Gg & Htk & Ktk & Gr). cbn [render] in H |- *.
  assert (Rec : forall v, v <> [] -> kstep (v ++ render r tr) = Some (KToken, t) -> (length t <= length v)%nat ->
                          kstep (v ++ render r' tr) = Some (KToken, t)).
  { intros v Hv Hk Lv. exact (IH tr Gr v t Hv Hk Lv Hok). }
  assert (Empty : kstep (u ++ [] ++ tk ++ render r tr) = Some (KToken, t) ->
                  kstep (u ++ [] ++ tk ++ render r' tr) = Some (KToken, t)).
  { cbn [app]. rewrite !app_assoc. intro Hk. apply Rec; [intro E0; apply app_eq_nil in E0 as [E0 _]; congruence|exact Hk|].
    rewrite app_length. lia. }
  assert (Stop : forall B, stopt B = true -> kstep (u ++ B) = Some (KToken, t)).
  { intros B HB. exact (kstep_token_stop u _ B t Hu HB H L Hok). }
  destruct Hg as [g|w w' Hw Hw' Hc|g].
  - destruct g as [|c g0]; [exact (Empty H)|].
    destruct (gaprun_head c g0 _ Gg) as [S| ->].
    + apply Stop. exact S.
    + apply (kstep_local u _ _ KToken t Hu) with (3 := L) (4 := Hok) (2 := H).
      cbn [app tails_ok]. rewrite N.eqb_refl. apply orb_true_r.
  - destruct w' as [|c' w0'].
    + destruct w as [|c w0]; [exact (Empty H)|].
      apply Stop. cbn [app]. destruct tk as [|d tk0]; [congruence|]. cbn [app stopt].
      assert (S : stopt (d :: tk0) = true) by (apply Hc; [reflexivity|discriminate]). exact S.
    + apply Stop. cbn [app stopt]. exact (all_ws_head_stop c' w0' Hw').
  - apply Stop. reflexivity.
Qed.

Lemma gaprun_ws : forall w X, all_ws w = true -> gaprun w X.
Proof.
  induction w as [|c w IH]; intros X H; [constructor|].
  cbn [all_ws forallb] in H. apply andb_prop in H as [Hc Hw].
  change (c :: w) with ([c] ++ w). apply (gr_step KSkip); [|reflexivity|now apply IH].
  cbn [app]. apply kstep_ws. exact Hc.
Qed.

Lemma gaprun_rw : forall tk g g' Y Y', gaprw tk g g' -> tk <> [] ->
  gaprun g (tk ++ Y) -> gaprun g' (tk ++ Y').
Proof.
  intros tk g g' Y Y' R Htk H. destruct tk as [|d tk0]; [congruence|]. cbn [app] in *.
  destruct R as [g|w w' Hw Hw' _|g].
  - exact (gaprun_tail g d _ _ H).
  - now apply gaprun_ws.
  - change (32 :: g) with ([32] ++ g). apply (gr_step KSkip); [|reflexivity|exact (gaprun_tail g d _ _ H)].
    cbn [app]. now apply kstep_ws.
Qed.

Lemma render_cons_nonempty : forall g t r tr, t <> [] -> render ((g, t) :: r) tr <> [].
Proof.
  intros g t r tr Ht E. cbn [render] in E. apply app_eq_nil in E as [_ E]. apply app_eq_nil in E as [E _]. congruence.
Qed.

Lemma good_rw : forall l l', segsrw l l' -> forall tr, good l tr -> good l' tr.
Proof.
  intros l l' R. induction R as [|g g' tk r r' Hg R IH]; intros tr G; [exact G|].
  cbn [good] in G |- *. destruct G as (Gg & Htk & Ktk & Gr).
  split; [exact (gaprun_rw tk g g' _ _ Hg Htk Gg)|]. split; [exact Htk|]. split; [|exact (IH tr Gr)].
  destruct R as [|g2 g2' tk2 r2 r2' Hg2 R2]; [exact Ktk|].
  assert (Ht2 : tk2 <> []) by (cbn [good] in Gr; tauto).
  assert (Ok : step_ok_k KToken tk = true).
  { apply (token_followed_ok tk _ (render_cons_nonempty g2 tk2 r2 tr Ht2) Ktk). }
  apply (token_tail_rw _ _ (srw_cons _ _ _ _ _ Hg2 R2) tr Gr tk tk Htk Ktk (le_n _) Ok).
Qed.

(* ---- segs_of recomputes a good decomposition -------------------------------- *)

Lemma segs_go_fuel : forall f1 f2 s, (length s < f1)%nat -> (length s < f2)%nat -> segs_go f1 s = segs_go f2 s.
Proof.
  induction f1 as [|f1 IH]; intros f2 s L1 L2; [lia|]. destruct f2 as [|f2]; [lia|].
  cbn [segs_go]. destruct s as [|c s']; [reflexivity|].
  destruct (kstep (c :: s')) as [[k t]|] eqn:Ek; [|reflexivity].
  destruct (kstep_prefix _ _ _ Ek) as (r & Es & Ht).
  assert (L : (length (skipn (length t) (c :: s')) < length (c :: s'))%nat).
  { rewrite Es, skipn_app_len, app_length. destruct t; [congruence|]. cbn [length]. lia. }
  rewrite (IH f2 (skipn (length t) (c :: s'))) by lia. reflexivity.
Qed.

Definition seg_step (k : kind) (t : list N) (o : option (list seg * list N)) : option (list seg * list N) :=
  match o with
  | None => None
  | Some r =>
    match k with
    | KToken | KErrToken => Some (([], t) :: fst r, snd r)
    | _ => Some (push_gap t r)
    end
  end.

Lemma segs_step : forall s k t, kstep s = Some (k, t) ->
  segs_of s = seg_step k t (segs_of (skipn (length t) s)).
Proof.
  intros s k t Ek. unfold segs_of at 1. cbn [segs_go].
  destruct s as [|c s']; [discriminate|]. rewrite Ek.
  destruct (kstep_prefix _ _ _ Ek) as (r & Es & Ht).
  assert (L : (length (skipn (length t) (c :: s')) < length (c :: s'))%nat).
  { rewrite Es, skipn_app_len, app_length. destruct t; [congruence|]. cbn [length]. lia. }
  unfold segs_of. rewrite (segs_go_fuel (length (c :: s')) (S (length (skipn (length t) (c :: s'))))) by lia.
  reflexivity.
Qed.

Lemma push_gap_nil : forall r, push_gap [] r = r.
Proof. intros [[|[g tk] l] tr]; reflexivity. Qed.

Lemma push_gap_app : forall t g r, push_gap t (push_gap g r) = push_gap (t ++ g) r.
Proof. intros t g [[|[g0 tk] l] tr]; cbn [push_gap]; now rewrite app_assoc. Qed.

Lemma gaprun_segs : forall g X, gaprun g X -> segs_of (g ++ X) = option_map (push_gap g) (segs_of X).
Proof.
  intros g X H. induction H as [X|k t g X Hk Gk Hr IH].
  - cbn [app]. destruct (segs_of X) as [r|]; [|reflexivity]. cbn [option_map]. now rewrite push_gap_nil.
  - rewrite (segs_step _ _ _ Hk). rewrite <- app_assoc, skipn_app_len, IH.
    destruct (segs_of X) as [r|]; [|reflexivity]. cbn [option_map seg_step].
    destruct k; try discriminate Gk; now rewrite push_gap_app.
Qed.

Lemma good_segs : forall l tr, good l tr -> segs_of (render l tr) = Some (l, tr).
Proof.
  induction l as [|[g t] r IH]; intros tr G; cbn [good render] in *.
  - pose proof (gaprun_segs tr [] G) as E. rewrite app_nil_r in E. rewrite E.
    cbn. now rewrite app_nil_r.
  - destruct G as (Gg & Ht & Kt & Gr). rewrite (gaprun_segs g _ Gg), (segs_step _ _ _ Kt), skipn_app_len.
    rewrite (IH tr Gr). cbn [seg_step option_map fst snd push_gap]. now rewrite app_nil_r.
Qed.

Lemma good_push_gap : forall k t r, gapk k = true ->
  kstep (t ++ render (fst r) (snd r)) = Some (k, t) -> good (fst r) (snd r) ->
  good (fst (push_gap t r)) (snd (push_gap t r)).
Proof.
  intros k t [[|[g tk] l] tr] Gk Hk G; cbn [push_gap fst snd good render] in *.
  - apply (gr_step k); [now rewrite app_nil_r|exact Gk|exact G].
  - destruct G as (Gg & Ht & Kt & Gr). split; [|tauto].
    apply (gr_step k); [now rewrite <- app_assoc|exact Gk|exact Gg].
Qed.

Lemma segs_go_good : forall f s r, segs_go f s = Some r -> no_unclosed_go f s = true -> good (fst r) (snd r).
Proof.
  induction f as [|f IH]; intros s r H C; [discriminate|]. cbn [segs_go no_unclosed_go] in H, C.
  destruct s as [|c s']; [injection H as <-; constructor|].
  destruct (kstep (c :: s')) as [[k t]|] eqn:Ek; [|discriminate].
  apply andb_prop in C as [Ck C].
  destruct (kstep_prefix _ _ _ Ek) as (rest & Es & Ht).
  destruct (segs_go f (skipn (length t) (c :: s'))) as [r0|] eqn:E0; [|discriminate].
  pose proof (IH _ _ E0 C) as G0. pose proof (segs_go_render _ _ _ E0) as R0.
  rewrite Es, skipn_app_len in R0. rewrite Es, <- R0 in Ek.
  destruct k; try discriminate Ck; injection H as <-.
  - exact (good_push_gap KSkip t r0 eq_refl Ek G0).
  - exact (good_push_gap KComment t r0 eq_refl Ek G0).
  - cbn [fst snd good]. split; [constructor|]. split; [exact Ht|]. split; [exact Ek|exact G0].
  - exact (good_push_gap KErr t r0 eq_refl Ek G0).
Qed.

Lemma segs_of_good : forall s l tr, segs_of s = Some (l, tr) -> no_unclosed s = true -> good l tr.
Proof. intros s l tr H C. exact (segs_go_good _ _ _ H C). Qed.

Lemma segs_of_total : forall s, no_unclosed s = true -> exists l tr, segs_of s = Some (l, tr).
Proof.
  intros s. unfold no_unclosed, segs_of. generalize (S (length s)) as f. intro f. revert s.
  induction f as [|f IH]; intros s C; [discriminate|]. cbn [segs_go no_unclosed_go] in *.
  destruct s as [|c s']; [now exists [], []|].
  destruct (kstep (c :: s')) as [[k t]|]; [|discriminate]. apply andb_prop in C as [_ C].
  destruct (IH _ C) as (l & tr & E). rewrite E.
  destruct (push_gap t (l, tr)) as [l0 l1] eqn:P.
  destruct k; cbn [fst snd]; try (now exists l0, l1); now eexists _, _.
Qed.

(* ---- the phases produce allowed rewrites ---------------------------------- *)

Lemma desired8_empty_stop : forall p n, desired8 p n = Some [] -> stopt n = true.
Proof.
  intros p n H. unfold desired8 in H.
  destruct (teq n T_COMMA) eqn:E1; [apply teq_eq in E1; subst; reflexivity|].
  destruct (teq p T_COMMA).
  - destruct (tmem n [T_RPAREN; T_RBRACKET; T_RBRACE]) eqn:E2; [|discriminate].
    unfold tmem in E2. cbn [existsb] in E2.
    repeat (apply orb_prop in E2 as [E2|E2]); try discriminate E2; apply teq_eq in E2; subst; reflexivity.
  - destruct (_ || _); discriminate.
Qed.

Lemma gaprw_8 : forall p n g, gaprw n g (new_gap8 true p n g).
Proof.
  intros p n g. unfold new_gap8. destruct (rewritable8 true g) eqn:R; [|constructor].
  destruct (desired8 p n) as [d|] eqn:D; [|constructor].
  unfold rewritable8 in R. apply andb_prop in R as [_ W].
  apply rw_ws; [exact W| |].
  - destruct (desired8_values _ _ _ D) as [-> | ->]; reflexivity.
  - intros -> _. exact (desired8_empty_stop p n D).
Qed.

Lemma segsrw_8_go : forall l p, segsrw l (phase8_go true p l).
Proof.
  induction l as [|[g t] r IH]; intro p; cbn [phase8_go]; constructor; [apply gaprw_8|apply IH].
Qed.

Lemma segsrw_8 : forall l, segsrw l (phase8_segs true l).
Proof. intros [|[g t] r]; cbn [phase8_segs]; constructor; [constructor|apply segsrw_8_go]. Qed.

Lemma gaprw_7 : forall pp p n g, gaprw n g (new_gap7 pp p n g).
Proof. intros pp p n g. unfold new_gap7. destruct (_ && _); [apply rw_ins|apply rw_same]. Qed.

Lemma segsrw_7_go : forall l pp p, segsrw l (phase7_go pp p l).
Proof.
  induction l as [|[g t] r IH]; intros pp p; cbn [phase7_go]; constructor; [apply gaprw_7|apply IH].
Qed.

Lemma segsrw_7 : forall l, segsrw l (phase7_segs l).
Proof. intros [|[g t] r]; cbn [phase7_segs]; constructor; [constructor|apply segsrw_7_go]. Qed.

(* ---- the text-level theorems -------------------------------------------------- *)

(* On a source without unclosed string, re-lexing the output of a gap rewriting
   finds the rewritten segments. *)
Lemma relex_lemma : forall f s l tr, (forall l0, segsrw l0 (f l0)) ->
  segs_of s = Some (l, tr) -> no_unclosed s = true ->
  on_segs f s = render (f l) tr /\ segs_of (on_segs f s) = Some (f l, tr) /\ good (f l) tr.
Proof.
  intros f s l tr Hf E C. unfold on_segs. rewrite E.
  pose proof (good_rw _ _ (Hf l) tr (segs_of_good _ _ _ E C)) as G.
  split; [reflexivity|]. split; [now apply good_segs|exact G].
Qed.

Lemma on_segs_good : forall f l tr, (forall l0, segsrw l0 (f l0)) -> good l tr ->
  on_segs f (render l tr) = render (f l) tr /\ good (f l) tr.
Proof.
  intros f l tr Hf G. unfold on_segs. rewrite (good_segs _ _ G). split; [reflexivity|].
  exact (good_rw _ _ (Hf l) tr G).
Qed.

Lemma phase8_idem_lemma : forall s, no_unclosed s = true -> phase8 true (phase8 true s) = phase8 true s.
Proof.
  intros s C. destruct (segs_of_total s C) as (l & tr & E).
  destruct (relex_lemma (phase8_segs true) s l tr segsrw_8 E C) as (E1 & _ & G).
  unfold phase8 in *. rewrite E1.
  destruct (on_segs_good (phase8_segs true) _ tr segsrw_8 G) as [E2 _]. rewrite E2.
  now rewrite phase8_segs_idem_lemma.
Qed.

Lemma phase7_idem_lemma : forall s, no_unclosed s = true -> phase7 (phase7 s) = phase7 s.
Proof.
  intros s C. destruct (segs_of_total s C) as (l & tr & E).
  destruct (relex_lemma phase7_segs s l tr segsrw_7 E C) as (E1 & _ & G).
  unfold phase7 in *. rewrite E1.
  destruct (on_segs_good phase7_segs _ tr segsrw_7 G) as [E2 _]. rewrite E2.
  now rewrite phase7_segs_idem_lemma.
Qed.

Definition phase78 (s : list N) : list N := phase8 true (phase7 s).

Lemma phase78_render : forall s l tr, segs_of s = Some (l, tr) -> no_unclosed s = true ->
  phase78 s = render (phase78_segs true l) tr /\ good (phase78_segs true l) tr.
Proof.
  intros s l tr E C. destruct (relex_lemma phase7_segs s l tr segsrw_7 E C) as (E1 & _ & G).
  unfold phase78, phase7, phase8. rewrite E1.
  exact (on_segs_good (phase8_segs true) _ tr segsrw_8 G).
Qed.

Lemma phase78_idem_lemma : forall s, no_unclosed s = true -> phase78 (phase78 s) = phase78 s.
Proof.
  intros s C. destruct (segs_of_total s C) as (l & tr & E).
  destruct (phase78_render s l tr E C) as [E1 G]. rewrite E1.
  unfold phase78 at 1. unfold phase7, phase8.
  destruct (on_segs_good phase7_segs _ tr segsrw_7 G) as [E2 G2]. rewrite E2.
  destruct (on_segs_good (phase8_segs true) _ tr segsrw_8 G2) as [E3 _]. rewrite E3.
  fold (phase78_segs true (phase78_segs true l)). now rewrite phase78_segs_idem_lemma.
Qed.

(* the lexer finds the same token texts and the same trailing gap in the output *)
Lemma phase78_tokens_lemma : forall s l tr, segs_of s = Some (l, tr) -> no_unclosed s = true ->
  exists l', segs_of (phase78 s) = Some (l', tr) /\ map snd l' = map snd l.
Proof.
  intros s l tr E C. destruct (phase78_render s l tr E C) as [E1 G].
  exists (phase78_segs true l). rewrite E1. split; [now apply good_segs|].
  unfold phase78_segs. now rewrite phase8_segs_tokens, phase7_segs_tokens.
Qed.

(* gaps are kept up to whitespace: a gap that is not whitespace only (in
   particular every gap that holds a comment) is kept verbatim, possibly behind
   added whitespace *)
Definition gap_keep (g g' : list N) : Prop :=
  (all_ws g = true /\ all_ws g' = true) \/ exists w, all_ws w = true /\ g' = w ++ g.

Lemma all_ws_app : forall a b, all_ws (a ++ b) = all_ws a && all_ws b.
Proof. intros a b. unfold all_ws. apply forallb_app. Qed.

Lemma gap_keep_refl : forall g, gap_keep g g.
Proof. intro g. right. now exists []. Qed.

Lemma gap_keep_trans : forall a b c, gap_keep a b -> gap_keep b c -> gap_keep a c.
Proof.
  intros a b c [[Ha Hb]|(w & Hw & ->)] [[Hb' Hc]|(w2 & Hw2 & ->)].
  - now left.
  - left. split; [exact Ha|]. rewrite all_ws_app. now rewrite Hw2, Hb.
  - left. rewrite all_ws_app in Hb'. apply andb_prop in Hb' as [_ Ha]. now split.
  - right. exists (w2 ++ w). rewrite all_ws_app, Hw, Hw2. split; [reflexivity|now rewrite app_assoc].
Qed.

Lemma gaprw_keep : forall tk g g', gaprw tk g g' -> gap_keep g g'.
Proof.
  intros tk g g' [g0|w w' Hw Hw' _|g0].
  - apply gap_keep_refl.
  - now left.
  - right. now exists [32].
Qed.

Lemma segsrw_keep : forall l l', segsrw l l' -> Forall2 gap_keep (map fst l) (map fst l').
Proof.
  intros l l' R. induction R as [|g g' tk r r' Hg R IH]; cbn [map fst]; constructor; [|exact IH].
  exact (gaprw_keep _ _ _ Hg).
Qed.

Lemma Forall2_trans_keep : forall a b c, Forall2 gap_keep a b -> Forall2 gap_keep b c -> Forall2 gap_keep a c.
Proof.
  intros a b c H. revert c. induction H as [|x y a b Hxy H IH]; intros c Hc; inversion Hc; subst; constructor.
  - eapply gap_keep_trans; eassumption.
  - now apply IH.
Qed.

Lemma phase78_gaps_lemma : forall l, Forall2 gap_keep (map fst l) (map fst (phase78_segs true l)).
Proof.
  intro l. unfold phase78_segs. eapply Forall2_trans_keep; [exact (segsrw_keep _ _ (segsrw_7 l))|].
  exact (segsrw_keep _ _ (segsrw_8 (phase7_segs l))).
Qed.

(* ================================================================== *)
(* Part 4: phase 9 *)

Lemma final_newline_noop : forall r c, (c =? LF) = false ->
  final_newline (rev (LF :: c :: r)) = rev (LF :: c :: r).
Proof.
  intros r c Hc. unfold final_newline. rewrite rev_involutive, strip_lfs_unfold, Hc, andb_false_r.
  now rewrite N.eqb_refl.
Qed.

(* ================================================================== *)
(* Part 5: witnesses *)

(* "abc LF f(a, \"  ,b) LF : an unclosed string, then a backslash (unrecognised
   character) in the gap between `,` and the next quote *)
Definition w_unclosed : list N :=
  [34; 97; 98; 99; 10; 102; 40; 97; 44; 32; 92; 34; 32; 32; 44; 98; 41; 10].

(* the code before fix-5 deletes the backslash, which closes the first string;
   the second run then finds a new gap to rewrite *)
Lemma phase8_orig_not_idempotent_lemma :
  phase8 false (phase8 false w_unclosed) <> phase8 false w_unclosed.
Proof. vm_compute. discriminate. Qed.

(* the current code leaves that text alone *)
Lemma phase8_fixed_on_witness : phase8 true w_unclosed = w_unclosed.
Proof. vm_compute. reflexivity. Qed.

(* f(a ,b:Int) LF  ->  f(a, b: Int) LF *)
Definition w_sample : list N := [102; 40; 97; 32; 44; 98; 58; 73; 110; 116; 41; 10].
Lemma phase78_example :
  no_unclosed w_sample = true /\
  phase78 w_sample = [102; 40; 97; 44; 32; 98; 58; 32; 73; 110; 116; 41; 10].
Proof. vm_compute. split; reflexivity. Qed.

(* phase 6 on  "a LF LF LF fun f() LF" with line 3 a toplevel definition start, and on a
   text where the definition follows directly *)
Lemma phase6_example :
  phase6 [3] [97; 10; 10; 10; 102; 10] = [97; 10; 10; 102; 10] /\
  phase6 [1] [97; 10; 102; 10] = [97; 10; 10; 102; 10] /\
  phase6 [2] (phase6 [1] [97; 10; 102; 10]) = phase6 [1] [97; 10; 102; 10].
Proof. vm_compute. repeat split. Qed.
