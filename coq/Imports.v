(* MODEL (definitions only) of import loading and of name resolution across files:
     src/eval.rs   load_toplevel_items / load_toplevel_items_ (imports, paths_seen, cyclic branch),
                   insert_imported_namespace, insert_placeholder_namespace, eval_namespace_access
     src/checks/type_checker.rs  infer_namespace_access, get_var
     src/env.rs    get_or_create_namespace, add_type, add_method  (env.types is ONE global table)
   Files are lists of items; a file id is its index in the project. Namespace values hold a
   reference ([VNs g]) to the namespace of file g, as the Rc<RefCell<NamespaceInfo>> does.
   `paths_seen` is represented by its complement [remaining] (the ids of existing files not yet
   seen): `paths_seen.contains(p)` is `negb (mem p remaining)` for an existing file p. *)
From Coq Require Import List Bool NArith Arith.
Import ListNotations.

Inductive Vis := Public | Private.

Inductive Item :=
  | IFun (name : N) (v : Vis)
  | IEnum (tname : N) (v : Vis) (variants : list N)
  | IStruct (tname : N) (v : Vis)
  | IMethod (tname mname : N) (v : Vis)
  | IImport (target : nat) (alias : option N).

Definition File := list Item.
Definition Project := list File.

Inductive Val :=
  | VFun (file : nat) (name : N)
  | VVariant (file : nat) (name : N)
  | VNs (file : nat)            (* Value_::Namespace: shares the namespace of that file *)
  | VPlaceholderNs              (* insert_placeholder_namespace *)
  | VPrelude (name : N).

Record Ns := { ns_values : list (N * Val); ns_exported : list N }.

Record Env := {
  e_ns : list (nat * Ns);                       (* env.namespaces *)
  e_types : list (N * (nat * Vis));             (* env.types: GLOBAL, keyed by type name only *)
  e_methods : list ((N * N) * (nat * Vis))      (* methods inside env.types[type]: GLOBAL *)
}.

(* which of the repairs are present in the loader *)
Record LoaderShape := {
  sh_self_import_guard : bool;       (* insert_imported_namespace returns early when both namespaces are the same *)
  sh_export_public_variants : bool;  (* variants of a `public enum` go into exported_syms *)
  sh_finish_cyclic : bool;           (* unqualified cyclic imports are completed after loading *)
  sh_missing_ns_guard : bool         (* the cyclic branch tolerates a file that could not be loaded *)
}.

Definition mem_nat (x : nat) (l : list nat) : bool := existsb (Nat.eqb x) l.
Definition mem_N (x : N) (l : list N) : bool := existsb (N.eqb x) l.
Definition remove_nat (x : nat) (l : list nat) : list nat := filter (fun y => negb (Nat.eqb x y)) l.
Definition remove_N (x : N) (l : list N) : list N := filter (fun y => negb (N.eqb x y)) l.

Fixpoint lookup_N {A} (k : N) (l : list (N * A)) : option A :=
  match l with [] => None | (k', v) :: r => if N.eqb k k' then Some v else lookup_N k r end.
Fixpoint lookup_nat {A} (k : nat) (l : list (nat * A)) : option A :=
  match l with [] => None | (k', v) :: r => if Nat.eqb k k' then Some v else lookup_nat k r end.
Definition insert_N {A} (k : N) (v : A) (l : list (N * A)) : list (N * A) :=
  (k, v) :: filter (fun p => negb (N.eqb k (fst p))) l.
Definition insert_nat {A} (k : nat) (v : A) (l : list (nat * A)) : list (nat * A) :=
  (k, v) :: filter (fun p => negb (Nat.eqb k (fst p))) l.

Definition prelude_names : list N := [0%N].     (* stands for the prelude functions copied into every namespace *)
Definition fresh_ns : Ns := {| ns_values := map (fun n => (n, VPrelude n)) prelude_names; ns_exported := [] |}.

Definition get_ns (e : Env) (f : nat) : option Ns := lookup_nat f (e_ns e).
Definition set_ns (e : Env) (f : nat) (ns : Ns) : Env :=
  {| e_ns := insert_nat f ns (e_ns e); e_types := e_types e; e_methods := e_methods e |}.
Definition get_or_create_ns (e : Env) (f : nat) : Env :=
  match get_ns e f with Some _ => e | None => set_ns e f fresh_ns end.
Definition ns_of (e : Env) (f : nat) : Ns := match get_ns e f with Some ns => ns | None => fresh_ns end.

Definition set_value (e : Env) (f : nat) (name : N) (v : Val) : Env :=
  let ns := ns_of e f in set_ns e f {| ns_values := insert_N name v (ns_values ns); ns_exported := ns_exported ns |}.
Definition set_exported (e : Env) (f : nat) (name : N) (vis : Vis) : Env :=
  let ns := ns_of e f in
  set_ns e f {| ns_values := ns_values ns;
                ns_exported := match vis with
                               | Public => name :: remove_N name (ns_exported ns)
                               | Private => remove_N name (ns_exported ns)
                               end |}.

Inductive Outcome (A : Type) := Ok (a : A) | Panic | OutOfFuel.
Arguments Ok {A}. Arguments Panic {A}. Arguments OutOfFuel {A}.

(* insert_imported_namespace *)
Definition copy_exported (cur_vals : list (N * Val)) (imp : Ns) (only_missing : bool) : list (N * Val) :=
  fold_left (fun acc p =>
               if mem_N (fst p) (ns_exported imp)
               then (if only_missing then match lookup_N (fst p) acc with Some _ => acc | None => insert_N (fst p) (snd p) acc end
                     else insert_N (fst p) (snd p) acc)
               else acc) (ns_values imp) cur_vals.

Definition insert_imported (sh : LoaderShape) (e : Env) (alias : option N) (cur target : nat) : Outcome Env :=
  match alias with
  | Some a => Ok (set_value e cur a (VNs target))
  | None =>
      if Nat.eqb cur target
      then (if sh_self_import_guard sh then Ok e else Panic)     (* RefCell already borrowed *)
      else let c := ns_of e cur in
           Ok (set_ns e cur {| ns_values := copy_exported (ns_values c) (ns_of e target) false;
                               ns_exported := ns_exported c |})
  end.

Definition is_type_item (i : Item) : bool := match i with IEnum _ _ _ | IStruct _ _ => true | _ => false end.
(* items.sort_by_key(types first) -- a stable sort *)
Definition sort_items (items : list Item) : list Item :=
  filter is_type_item items ++ filter (fun i => negb (is_type_item i)) items.

Record LoadState := {
  st_env : Env;
  st_remaining : list nat;            (* existing files not in paths_seen *)
  st_failed : list nat;               (* paths in paths_seen whose file could not be read (no namespace) *)
  st_pending : list (nat * nat)       (* unfinished unqualified cyclic imports (importer, imported) *)
}.

Definition with_env (st : LoadState) (e : Env) : LoadState :=
  {| st_env := e; st_remaining := st_remaining st; st_failed := st_failed st; st_pending := st_pending st |}.

Definition add_variants (sh : LoaderShape) (f : nat) (e : Env) (items : list Item) : Env :=
  fold_left (fun e i =>
               match i with
               | IEnum _ vis variants =>
                   fold_left (fun e v =>
                                let e1 := set_value e f v (VVariant f v) in
                                if sh_export_public_variants sh then set_exported e1 f v vis else e1) variants e
               | _ => e
               end) items e.

(* load_toplevel_items_ : fuel bounds the nesting of imports *)
Fixpoint load_items (sh : LoaderShape) (proj : Project) (fuel : nat) (f : nat) (items : list Item) (st : LoadState)
  {struct fuel} : Outcome LoadState :=
  match fuel with
  | 0 => OutOfFuel
  | S fuel' =>
      let fix go (its : list Item) (st : LoadState) {struct its} : Outcome LoadState :=
        match its with
        | [] => Ok st
        | i :: rest =>
            let e := st_env st in
            match i with
            | IFun name vis => go rest (with_env st (set_exported (set_value e f name (VFun f name)) f name vis))
            | IMethod t m vis =>
                go rest (with_env st {| e_ns := e_ns e; e_types := e_types e;
                                        e_methods := ((t, m), (f, vis)) :: e_methods e |})
            | IEnum t vis _ | IStruct t vis =>
                go rest (with_env st {| e_ns := e_ns e; e_types := insert_N t (f, vis) (e_types e);
                                        e_methods := e_methods e |})
            | IImport target alias =>
                if mem_nat target (st_remaining st) then
                  (* first time: paths_seen.insert, read, parse, load into its own namespace *)
                  match nth_error proj target with
                  | None => Panic   (* unreachable: remaining only holds existing files *)
                  | Some titems =>
                      let st1 := {| st_env := get_or_create_ns e target;
                                    st_remaining := remove_nat target (st_remaining st);
                                    st_failed := st_failed st; st_pending := st_pending st |} in
                      match load_items sh proj fuel' target titems st1 with
                      | Ok st2 =>
                          match insert_imported sh (st_env st2) alias f target with
                          | Ok e3 => go rest (with_env st2 e3)
                          | Panic => Panic | OutOfFuel => OutOfFuel
                          end
                      | Panic => Panic | OutOfFuel => OutOfFuel
                      end
                  end
                else if Nat.ltb target (length proj) then
                  (* already in paths_seen: cyclic (or repeated) import *)
                  match get_ns e target with
                  | None => if sh_missing_ns_guard sh then go rest st else Panic
                  | Some _ =>
                      let st1 := match alias with
                                 | None => if sh_finish_cyclic sh
                                           then {| st_env := e; st_remaining := st_remaining st; st_failed := st_failed st;
                                                   st_pending := (f, target) :: st_pending st |}
                                           else st
                                 | Some _ => st
                                 end in
                      match insert_imported sh e alias f target with
                      | Ok e3 => go rest (with_env st1 e3)
                      | Panic => Panic | OutOfFuel => OutOfFuel
                      end
                  end
                else
                  (* the file does not exist *)
                  if mem_nat target (st_failed st)
                  then (if sh_missing_ns_guard sh
                        then go rest (with_env st (match alias with Some a => set_value e f a VPlaceholderNs | None => e end))
                        else Panic)                                   (* get_namespace(..).unwrap() on None *)
                  else go rest {| st_env := match alias with Some a => set_value e f a VPlaceholderNs | None => e end;
                                  st_remaining := st_remaining st; st_failed := target :: st_failed st;
                                  st_pending := st_pending st |}
            end
        end in
      match go (sort_items items) st with
      | Ok st' => Ok (with_env st' (add_variants sh f (st_env st') (sort_items items)))
      | r => r
      end
  end.

(* finish_cyclic_imports *)
Definition finish_pending (e : Env) (pending : list (nat * nat)) : Env :=
  fold_left (fun e p =>
               let '(cur, target) := p in
               if Nat.eqb cur target then e
               else let c := ns_of e cur in
                    set_ns e cur {| ns_values := copy_exported (ns_values c) (ns_of e target) true;
                                    ns_exported := ns_exported c |}) (rev pending) e.

Definition empty_env : Env := {| e_ns := []; e_types := []; e_methods := [] |}.

(* load_toplevel_items on the root file: its namespace exists, paths_seen starts EMPTY (the root file itself
   is not in it, so a cycle back to the root loads the root's items a second time). *)
Definition load_root (sh : LoaderShape) (proj : Project) (fuel : nat) (root : nat) : Outcome Env :=
  match nth_error proj root with
  | None => Ok empty_env
  | Some items =>
      let st := {| st_env := get_or_create_ns empty_env root; st_remaining := seq 0 (length proj);
                   st_failed := []; st_pending := [] |} in
      match load_items sh proj fuel root items st with
      | Ok st' => Ok (if sh_finish_cyclic sh then finish_pending (st_env st') (st_pending st') else st_env st')
      | Panic => Panic
      | OutOfFuel => OutOfFuel
      end
  end.

(* ---- name resolution ------------------------------------------------------------------------ *)
Inductive Verdict := Resolved | Rejected.

(* run time: eval of a variable in file f (frame bindings empty) = lookup in the namespace values *)
Definition run_unqualified (e : Env) (f : nat) (x : N) : Verdict :=
  match lookup_N x (ns_values (ns_of e f)) with Some _ => Resolved | None => Rejected end.
(* check time: TypeCheckVisitor::get_var *)
Definition check_unqualified (e : Env) (f : nat) (x : N) : Verdict :=
  match get_ns e f with
  | Some ns => match lookup_N x (ns_values ns) with Some _ => Resolved | None => Rejected end
  | None => match lookup_N x (ns_values fresh_ns) with Some _ => Resolved | None => Rejected end
  end.

(* eval_namespace_access *)
Definition run_qualified (e : Env) (f : nat) (a x : N) : Verdict :=
  match lookup_N a (ns_values (ns_of e f)) with
  | Some (VNs g) =>
      let ns := ns_of e g in
      match lookup_N x (ns_values ns) with
      | Some _ => if mem_N x (ns_exported ns) then Resolved else Rejected     (* "is not marked as external" *)
      | None => Rejected                                                       (* "does not contain a function named" *)
      end
  | Some VPlaceholderNs => Rejected
  | _ => Rejected                                                              (* not a namespace / unbound *)
  end.
(* infer_namespace_access *)
Definition check_qualified (e : Env) (f : nat) (a x : N) : Verdict :=
  match lookup_N a (ns_values (ns_of e f)) with
  | None => Rejected
  | Some v =>
      match v with
      | VNs g =>
          let ns := ns_of e g in
          match lookup_N x (ns_values ns) with
          | Some _ => if negb (mem_N x (ns_exported ns)) then Rejected else Resolved
          | None => Rejected
          end
      | _ => Rejected
      end
  end.

(* struct literal / type hint: Type::from_hint, eval_struct_value look the NAME up in env.types *)
Definition type_usable (e : Env) (f : nat) (t : N) : Verdict :=
  match lookup_N t (e_types e) with Some _ => Resolved | None => Rejected end.
Fixpoint lookup_method (k : N * N) (l : list ((N * N) * (nat * Vis))) : option (nat * Vis) :=
  match l with
  | [] => None
  | ((t, m), v) :: r => if N.eqb (fst k) t && N.eqb (snd k) m then Some v else lookup_method k r
  end.
Definition method_usable (e : Env) (f : nat) (t m : N) : Verdict :=
  match lookup_method (t, m) (e_methods e) with Some _ => Resolved | None => Rejected end.

(* what the file says *)
Definition declares_public_value (sh : LoaderShape) (items : File) (x : N) : bool :=
  existsb (fun i => match i with
                    | IFun n Public => N.eqb n x
                    | IEnum _ Public vs => sh_export_public_variants sh && mem_N x vs
                    | _ => false end) items.

Definition shape_unfixed : LoaderShape :=
  {| sh_self_import_guard := false; sh_export_public_variants := false; sh_finish_cyclic := false;
     sh_missing_ns_guard := false |}.
Definition shape_fixed : LoaderShape :=
  {| sh_self_import_guard := true; sh_export_public_variants := true; sh_finish_cyclic := true;
     sh_missing_ns_guard := true |}.
