(* General theorems about import loading (Imports.v), for ARBITRARY projects: any number of files, any import
   graph (cycles, self-imports, repeated and missing imports), with and without `as`, on the repaired loader
   shape [shape_fixed]. The proof is an invariant of the loader (Inv), a monotonicity relation between loader
   states (Step) and a completion predicate per loaded file (Done), carried through the nested recursion of
   load_items by induction on the fuel and on the item list. *)
From Coq Require Import List Bool NArith Arith Lia.
Import ListNotations.
From Garden Require Import Imports ImportsProps.


(* ======================= part 1 ======================= *)

(* ---------- association lists ---------- *)
Lemma lookup_nat_filter_ne : forall A k k' (l : list (nat * A)), k <> k' ->
  lookup_nat k (filter (fun p => negb (Nat.eqb k' (fst p))) l) = lookup_nat k l.
Proof.
  intros A k k' l Hne. induction l as [|[a v] l IH]; cbn; auto.
  destruct (Nat.eqb k' a) eqn:E; cbn.
  - apply Nat.eqb_eq in E; subst a. destruct (Nat.eqb k k') eqn:E2; [apply Nat.eqb_eq in E2; congruence|]. exact IH.
  - destruct (Nat.eqb k a); auto.
Qed.

Lemma lookup_nat_insert : forall A k k' (v : A) l,
  lookup_nat k (insert_nat k' v l) = if Nat.eqb k k' then Some v else lookup_nat k l.
Proof.
  intros. unfold insert_nat. cbn [lookup_nat]. destruct (Nat.eqb k k') eqn:E; auto.
  apply lookup_nat_filter_ne. apply Nat.eqb_neq; auto.
Qed.

Lemma lookup_N_filter_ne : forall A k k' (l : list (N * A)), k <> k' ->
  lookup_N k (filter (fun p => negb (N.eqb k' (fst p))) l) = lookup_N k l.
Proof.
  intros A k k' l Hne. induction l as [|[a v] l IH]; cbn; auto.
  destruct (N.eqb k' a) eqn:E; cbn.
  - apply N.eqb_eq in E; subst a. destruct (N.eqb k k') eqn:E2; [apply N.eqb_eq in E2; congruence|]. exact IH.
  - destruct (N.eqb k a); auto.
Qed.

Lemma lookup_N_insert : forall A k k' (v : A) l,
  lookup_N k (insert_N k' v l) = if N.eqb k k' then Some v else lookup_N k l.
Proof.
  intros. unfold insert_N. cbn [lookup_N]. destruct (N.eqb k k') eqn:E; auto.
  apply lookup_N_filter_ne. apply N.eqb_neq; auto.
Qed.

Lemma In_insert_N : forall A (p : N * A) k v l, In p (insert_N k v l) -> p = (k, v) \/ In p l.
Proof. intros A p k v l [H|H]; [left; auto|right]. apply filter_In in H. tauto. Qed.

Lemma lookup_N_In : forall A k (l : list (N * A)) v, lookup_N k l = Some v -> In (k, v) l.
Proof.
  intros A k l v. induction l as [|[a w] l IH]; cbn; [discriminate|].
  destruct (N.eqb k a) eqn:E; [apply N.eqb_eq in E; subst; intros H; inversion H; auto|auto].
Qed.

Lemma In_lookup_N : forall A k (v : A) l, In (k, v) l -> lookup_N k l <> None.
Proof.
  intros A k v l. induction l as [|[a w] l IH]; cbn; [tauto|].
  intros [H|H]; [inversion H; subst; rewrite N.eqb_refl; discriminate|].
  destruct (N.eqb k a); [discriminate|auto].
Qed.

Lemma mem_N_true : forall x l, mem_N x l = true <-> In x l.
Proof.
  intros. unfold mem_N. rewrite existsb_exists. split.
  - intros (y & Hy & E). apply N.eqb_eq in E. subst; auto.
  - intros H. exists x. split; auto. apply N.eqb_refl.
Qed.

Lemma mem_N_remove : forall x n l, mem_N x (remove_N n l) = mem_N x l && negb (N.eqb n x).
Proof.
  intros x n l. unfold remove_N, mem_N. induction l as [|a l IH]; cbn; auto.
  destruct (N.eqb n a) eqn:E; cbn.
  - apply N.eqb_eq in E. subst a. rewrite IH. destruct (N.eqb x n) eqn:E2; cbn.
    + apply N.eqb_eq in E2. subst. rewrite N.eqb_refl. cbn. now rewrite andb_false_r.
    + reflexivity.
  - rewrite IH. destruct (N.eqb x a) eqn:E2; cbn; auto.
    apply N.eqb_eq in E2. subst a. now rewrite E.
Qed.

Lemma mem_nat_true : forall x l, mem_nat x l = true <-> In x l.
Proof.
  intros. unfold mem_nat. rewrite existsb_exists. split.
  - intros (y & Hy & E). apply Nat.eqb_eq in E. subst; auto.
  - intros H. exists x. split; auto. apply Nat.eqb_refl.
Qed.

Lemma mem_nat_remove : forall x t l, mem_nat x (remove_nat t l) = mem_nat x l && negb (Nat.eqb t x).
Proof.
  intros x t l. destruct (mem_nat x (remove_nat t l)) eqn:E.
  - apply mem_nat_true in E. unfold remove_nat in E. apply filter_In in E as [A B].
    apply mem_nat_true in A. now rewrite A, B.
  - destruct (mem_nat x l) eqn:A; auto. destruct (Nat.eqb t x) eqn:B; auto. cbn.
    assert (In x (remove_nat t l)) by (apply filter_In; split; [apply mem_nat_true; auto | now rewrite B]).
    apply mem_nat_true in H. congruence.
Qed.

(* ---------- observations of an environment ---------- *)
Definition exp (e : Env) (g : nat) (x : N) : bool := mem_N x (ns_exported (ns_of e g)).
Definition val (e : Env) (g : nat) (x : N) : option Val := lookup_N x (ns_values (ns_of e g)).
Definition vals (e : Env) (g : nat) : list (N * Val) := ns_values (ns_of e g).
Definition hasns (e : Env) (g : nat) : bool := match get_ns e g with Some _ => true | None => false end.

Lemma get_ns_set_ns : forall e f ns g, get_ns (set_ns e f ns) g = if Nat.eqb g f then Some ns else get_ns e g.
Proof. intros. unfold get_ns, set_ns. cbn. apply lookup_nat_insert. Qed.

Lemma ns_of_set_ns : forall e f ns g, ns_of (set_ns e f ns) g = if Nat.eqb g f then ns else ns_of e g.
Proof. intros. unfold ns_of. rewrite get_ns_set_ns. destruct (Nat.eqb g f); reflexivity. Qed.

Lemma hasns_set_ns : forall e f ns g, hasns (set_ns e f ns) g = Nat.eqb g f || hasns e g.
Proof. intros. unfold hasns. rewrite get_ns_set_ns. destruct (Nat.eqb g f); reflexivity. Qed.

Lemma ns_of_get_or_create : forall e t g, ns_of (get_or_create_ns e t) g = ns_of e g.
Proof.
  intros. unfold get_or_create_ns. destruct (get_ns e t) eqn:E; auto.
  rewrite ns_of_set_ns. destruct (Nat.eqb g t) eqn:E2; auto.
  apply Nat.eqb_eq in E2. subst. unfold ns_of. now rewrite E.
Qed.

Lemma hasns_get_or_create : forall e t g, hasns (get_or_create_ns e t) g = Nat.eqb g t || hasns e g.
Proof.
  intros. unfold get_or_create_ns. destruct (get_ns e t) eqn:E.
  - destruct (Nat.eqb g t) eqn:E2; auto. apply Nat.eqb_eq in E2. subst. unfold hasns. now rewrite E.
  - apply hasns_set_ns.
Qed.

(* set_value *)
Lemma exp_set_value : forall e f n v g x, exp (set_value e f n v) g x = exp e g x.
Proof. intros. unfold exp, set_value. rewrite ns_of_set_ns. destruct (Nat.eqb g f) eqn:E; auto. apply Nat.eqb_eq in E. now subst. Qed.
Lemma val_set_value : forall e f n v g x,
  val (set_value e f n v) g x = if Nat.eqb g f && N.eqb x n then Some v else val e g x.
Proof.
  intros. unfold val, set_value. rewrite ns_of_set_ns. destruct (Nat.eqb g f) eqn:E; cbn; auto.
  apply Nat.eqb_eq in E. subst. apply lookup_N_insert.
Qed.
Lemma vals_set_value : forall e f n v g p, In p (vals (set_value e f n v) g) -> (g = f /\ p = (n, v)) \/ In p (vals e g).
Proof.
  intros e f n v g p. unfold vals, set_value. rewrite ns_of_set_ns. destruct (Nat.eqb g f) eqn:E; auto.
  apply Nat.eqb_eq in E. subst. cbn. intros H. apply In_insert_N in H. tauto.
Qed.
Lemma hasns_set_value : forall e f n v g, hasns (set_value e f n v) g = Nat.eqb g f || hasns e g.
Proof. intros. apply hasns_set_ns. Qed.

(* set_exported *)
Lemma exp_set_exported : forall e f n vis g x,
  exp (set_exported e f n vis) g x =
  if Nat.eqb g f then match vis with Public => N.eqb x n || exp e g x | Private => exp e g x && negb (N.eqb n x) end
  else exp e g x.
Proof.
  intros. unfold exp, set_exported. rewrite ns_of_set_ns. destruct (Nat.eqb g f) eqn:E; auto.
  apply Nat.eqb_eq in E. subst. destruct vis; cbn [ns_exported].
  - unfold mem_N at 1. cbn [existsb]. fold (mem_N x (remove_N n (ns_exported (ns_of e f)))).
    rewrite mem_N_remove. destruct (N.eqb x n) eqn:E2; cbn; auto.
    assert (N.eqb n x = false) by (rewrite N.eqb_sym; auto). rewrite H. cbn. now rewrite andb_true_r.
  - apply mem_N_remove.
Qed.
Lemma val_set_exported : forall e f n vis g x, val (set_exported e f n vis) g x = val e g x.
Proof. intros. unfold val, set_exported. rewrite ns_of_set_ns. destruct (Nat.eqb g f) eqn:E; auto. apply Nat.eqb_eq in E. now subst. Qed.
Lemma vals_set_exported : forall e f n vis g, vals (set_exported e f n vis) g = vals e g.
Proof. intros. unfold vals, set_exported. rewrite ns_of_set_ns. destruct (Nat.eqb g f) eqn:E; auto. apply Nat.eqb_eq in E. now subst. Qed.
Lemma hasns_set_exported : forall e f n vis g, hasns (set_exported e f n vis) g = Nat.eqb g f || hasns e g.
Proof. intros. apply hasns_set_ns. Qed.

(* get_or_create *)
Lemma exp_goc : forall e t g x, exp (get_or_create_ns e t) g x = exp e g x.
Proof. intros. unfold exp. now rewrite ns_of_get_or_create. Qed.
Lemma val_goc : forall e t g x, val (get_or_create_ns e t) g x = val e g x.
Proof. intros. unfold val. now rewrite ns_of_get_or_create. Qed.
Lemma vals_goc : forall e t g, vals (get_or_create_ns e t) g = vals e g.
Proof. intros. unfold vals. now rewrite ns_of_get_or_create. Qed.


(* ======================= part 2 ======================= *)

Definition copy_step (ex : list N) (b : bool) (acc : list (N * Val)) (p : N * Val) : list (N * Val) :=
  if mem_N (fst p) ex
  then (if b then match lookup_N (fst p) acc with Some _ => acc | None => insert_N (fst p) (snd p) acc end
        else insert_N (fst p) (snd p) acc)
  else acc.

Lemma copy_exported_fold : forall cur imp b,
  copy_exported cur imp b = fold_left (copy_step (ns_exported imp) b) (ns_values imp) cur.
Proof. reflexivity. Qed.

Lemma copy_step_mono : forall ex b acc p x, lookup_N x acc <> None -> lookup_N x (copy_step ex b acc p) <> None.
Proof.
  intros ex b acc [k v] x H. unfold copy_step. cbn [fst snd]. destruct (mem_N k ex); auto.
  destruct b.
  - destruct (lookup_N k acc); auto. rewrite lookup_N_insert. destruct (N.eqb x k); [discriminate|auto].
  - rewrite lookup_N_insert. destruct (N.eqb x k); [discriminate|auto].
Qed.

Lemma copy_fold_mono : forall ex b l acc x, lookup_N x acc <> None -> lookup_N x (fold_left (copy_step ex b) l acc) <> None.
Proof. intros ex b l. induction l as [|p l IH]; intros acc x H; cbn; auto. apply IH. now apply copy_step_mono. Qed.

Lemma copy_fold_complete : forall ex b l acc x v, In (x, v) l -> mem_N x ex = true ->
  lookup_N x (fold_left (copy_step ex b) l acc) <> None.
Proof.
  intros ex b l. induction l as [|p l IH]; intros acc x v Hin Hm; [destruct Hin|].
  cbn. destruct Hin as [->|Hin]; [|eapply IH; eauto].
  apply copy_fold_mono. unfold copy_step. cbn [fst snd]. rewrite Hm. destruct b.
  - destruct (lookup_N x acc) eqn:E; [congruence|]. rewrite lookup_N_insert, N.eqb_refl. discriminate.
  - rewrite lookup_N_insert, N.eqb_refl. discriminate.
Qed.

Lemma copy_fold_sound : forall ex b l acc x, lookup_N x (fold_left (copy_step ex b) l acc) <> None ->
  lookup_N x acc <> None \/ (mem_N x ex = true /\ exists v, In (x, v) l).
Proof.
  intros ex b l. induction l as [|[k v] l IH]; intros acc x H; cbn in *; auto.
  destruct (IH _ _ H) as [H1|(Hm & w & Hw)]; [|right; split; eauto].
  unfold copy_step in H1. cbn [fst snd] in H1. destruct (mem_N k ex) eqn:Ek; auto.
  assert (G : lookup_N x (insert_N k v acc) <> None -> lookup_N x acc <> None \/ (mem_N x ex = true /\ exists v0, In (x, v0) ((k, v) :: l))).
  { rewrite lookup_N_insert. destruct (N.eqb x k) eqn:E; auto. apply N.eqb_eq in E. subst. intros _. right. split; auto. exists v. now left. }
  destruct b; auto. destruct (lookup_N k acc); auto.
Qed.

Lemma copy_fold_In : forall ex b l acc p, In p (fold_left (copy_step ex b) l acc) -> In p acc \/ In p l.
Proof.
  intros ex b l. induction l as [|[k v] l IH]; intros acc p H; cbn in *; auto.
  destruct (IH _ _ H) as [H1|H1]; auto.
  unfold copy_step in H1. cbn [fst snd] in H1. destruct (mem_N k ex); auto.
  assert (G : In p (insert_N k v acc) -> In p acc \/ (k, v) = p \/ In p l) by (intros X; apply In_insert_N in X; destruct X; auto).
  destruct b; auto. destruct (lookup_N k acc); auto.
Qed.

(* the import step: copy the exported values of [target] into [cur] *)
Definition import_copy (e : Env) (cur target : nat) (b : bool) : Env :=
  let c := ns_of e cur in
  set_ns e cur {| ns_values := copy_exported (ns_values c) (ns_of e target) b; ns_exported := ns_exported c |}.

Lemma exp_import_copy : forall e cur t b g x, exp (import_copy e cur t b) g x = exp e g x.
Proof. intros. unfold exp, import_copy. rewrite ns_of_set_ns. destruct (Nat.eqb g cur) eqn:E; auto. apply Nat.eqb_eq in E. now subst. Qed.
Lemma hasns_import_copy : forall e cur t b g, hasns (import_copy e cur t b) g = Nat.eqb g cur || hasns e g.
Proof. intros. apply hasns_set_ns. Qed.
Lemma val_import_copy_other : forall e cur t b g x, g <> cur -> val (import_copy e cur t b) g x = val e g x.
Proof. intros. unfold val, import_copy. rewrite ns_of_set_ns. apply Nat.eqb_neq in H. now rewrite H. Qed.
Lemma val_import_copy_mono : forall e cur t b g x, val e g x <> None -> val (import_copy e cur t b) g x <> None.
Proof.
  intros e cur t b g x H. destruct (Nat.eq_dec g cur) as [->|Hne]; [|now rewrite val_import_copy_other].
  unfold val, import_copy. rewrite ns_of_set_ns, Nat.eqb_refl. cbn. rewrite copy_exported_fold. now apply copy_fold_mono.
Qed.
Lemma val_import_copy_complete : forall e cur t b x, exp e t x = true -> val e t x <> None ->
  val (import_copy e cur t b) cur x <> None.
Proof.
  intros e cur t b x He Hv. unfold val, import_copy. rewrite ns_of_set_ns, Nat.eqb_refl. cbn. rewrite copy_exported_fold.
  unfold val in Hv. destruct (lookup_N x (ns_values (ns_of e t))) eqn:E; [|congruence].
  eapply copy_fold_complete; [eapply lookup_N_In; eauto | exact He].
Qed.
Lemma val_import_copy_sound : forall e cur t b g x, val (import_copy e cur t b) g x <> None ->
  val e g x <> None \/ (g = cur /\ exp e t x = true).
Proof.
  intros e cur t b g x H. destruct (Nat.eq_dec g cur) as [->|Hne]; [|rewrite val_import_copy_other in H; auto].
  unfold val, import_copy in H. rewrite ns_of_set_ns, Nat.eqb_refl in H. cbn in H. rewrite copy_exported_fold in H.
  apply copy_fold_sound in H. destruct H as [H|[H _]]; [left; exact H | right; auto].
Qed.
Lemma vals_import_copy : forall e cur t b g p, In p (vals (import_copy e cur t b) g) -> In p (vals e g) \/ In p (vals e t).
Proof.
  intros e cur t b g p. unfold vals, import_copy. rewrite ns_of_set_ns. destruct (Nat.eqb g cur) eqn:E; auto.
  apply Nat.eqb_eq in E. subst. cbn. rewrite copy_exported_fold. apply copy_fold_In.
Qed.

Lemma insert_imported_fixed : forall e alias cur target,
  insert_imported shape_fixed e alias cur target =
  Ok (match alias with
      | Some a => set_value e cur a (VNs target)
      | None => if Nat.eqb cur target then e else import_copy e cur target false
      end).
Proof. intros. unfold insert_imported. destruct alias; auto. cbn. destruct (Nat.eqb cur target); reflexivity. Qed.


(* ======================= part 3 ======================= *)

Definition declares_private_value (items : File) (x : N) : bool :=
  existsb (fun i => match i with
                    | IFun nm Private => N.eqb nm x
                    | IEnum _ Private vs => mem_N x vs
                    | _ => false end) items.

Section Gen.
Variable proj : Project.
Variable root : nat.

Definition pubp (g : nat) (x : N) : bool :=
  match nth_error proj g with Some items => declares_public_value shape_fixed items x | None => false end.
Definition privp (g : nat) (x : N) : bool :=
  match nth_error proj g with Some items => declares_private_value items x | None => false end.
(* no name is marked both public and private in one file *)
Definition consistent_marks : Prop := forall g x, pubp g x = true -> privp g x = false.

Definition declared (g : nat) (x : N) : Prop :=
  exists items, nth_error proj g = Some items /\
    ((exists vis, In (IFun x vis) items) \/ (exists t vis vs, In (IEnum t vis vs) items /\ In x vs)).
Definition import_alias (g t : nat) (a : N) : Prop := exists items, nth_error proj g = Some items /\ In (IImport t (Some a)) items.
Definition import_plain (g t : nat) : Prop := exists items, nth_error proj g = Some items /\ In (IImport t None) items.
Definition allowed (f : nat) (x : N) : Prop :=
  In x prelude_names \/ declared f x \/ (exists t, import_alias f t x) \/ (exists g, import_plain f g /\ pubp g x = true).

Hypothesis Hcons : consistent_marks.

Lemma pub_fun : forall f items x, nth_error proj f = Some items -> In (IFun x Public) items -> pubp f x = true.
Proof.
  intros f items x Hn Hin. unfold pubp. rewrite Hn. unfold declares_public_value. apply existsb_exists.
  exists (IFun x Public). split; auto. apply N.eqb_refl.
Qed.
Lemma priv_fun : forall f items x, nth_error proj f = Some items -> In (IFun x Private) items -> privp f x = true.
Proof.
  intros f items x Hn Hin. unfold privp. rewrite Hn. unfold declares_private_value. apply existsb_exists.
  exists (IFun x Private). split; auto. apply N.eqb_refl.
Qed.
Lemma pub_variant : forall f items t vs x, nth_error proj f = Some items -> In (IEnum t Public vs) items -> In x vs -> pubp f x = true.
Proof.
  intros f items t vs x Hn Hin Hx. unfold pubp. rewrite Hn. unfold declares_public_value. apply existsb_exists.
  exists (IEnum t Public vs). split; auto. cbn. now apply mem_N_true.
Qed.
Lemma priv_variant : forall f items t vs x, nth_error proj f = Some items -> In (IEnum t Private vs) items -> In x vs -> privp f x = true.
Proof.
  intros f items t vs x Hn Hin Hx. unfold privp. rewrite Hn. unfold declares_private_value. apply existsb_exists.
  exists (IEnum t Private vs). split; auto. now apply mem_N_true.
Qed.
Lemma pubp_cases : forall f x, pubp f x = true ->
  exists items, nth_error proj f = Some items /\
    (In (IFun x Public) items \/ exists t vs, In (IEnum t Public vs) items /\ In x vs).
Proof.
  intros f x H. unfold pubp in H. destruct (nth_error proj f) as [items|] eqn:E; [|discriminate].
  exists items. split; auto. unfold declares_public_value in H. apply existsb_exists in H as (i & Hin & Hi).
  destruct i as [nm [|]|t [|] vs| | |]; try discriminate.
  - apply N.eqb_eq in Hi. subst. now left.
  - cbn in Hi. apply mem_N_true in Hi. right. eauto.
Qed.

Lemma pubp_range : forall g x, pubp g x = true -> g < length proj.
Proof. intros g x H. unfold pubp in H. destruct (nth_error proj g) eqn:E; [|discriminate]. apply nth_error_Some. congruence. Qed.

Record Inv (st : LoadState) : Prop := {
  inv_sound : forall g x, exp (st_env st) g x = true -> pubp g x = true;
  inv_R : forall g, hasns (st_env st) g = true -> g = root \/ (g < length proj /\ mem_nat g (st_remaining st) = false);
  inv_R' : forall g, g < length proj -> mem_nat g (st_remaining st) = false -> hasns (st_env st) g = true;
  inv_vns : forall f k g, In (k, VNs g) (vals (st_env st) f) -> hasns (st_env st) g = true;
  inv_prel : forall f p, In p prelude_names -> val (st_env st) f p <> None;
  inv_S : forall f x, val (st_env st) f x <> None -> allowed f x;
  inv_pend : forall c t, In (c, t) (st_pending st) -> import_plain c t /\ hasns (st_env st) c = true /\ hasns (st_env st) t = true
}.

Record Step (a b : LoadState) : Prop := {
  step_rem : forall g, mem_nat g (st_remaining b) = true -> mem_nat g (st_remaining a) = true;
  step_ns : forall g, hasns (st_env a) g = true -> hasns (st_env b) g = true;
  step_exp : forall g x, pubp g x = true -> exp (st_env a) g x = true -> exp (st_env b) g x = true;
  step_val : forall g x, val (st_env a) g x <> None -> val (st_env b) g x <> None;
  step_pend : forall p, In p (st_pending a) -> In p (st_pending b)
}.

Lemma Step_refl : forall a, Step a a.
Proof. intros; constructor; auto. Qed.
Lemma Step_trans : forall a b c, Step a b -> Step b c -> Step a c.
Proof. intros a b c [] []; constructor; auto. Qed.

Record Done (g : nat) (st : LoadState) : Prop := {
  done_decl : forall x, declared g x -> val (st_env st) g x <> None;
  done_pub : forall x, pubp g x = true -> exp (st_env st) g x = true /\ val (st_env st) g x <> None;
  done_alias : forall t a, import_alias g t a -> val (st_env st) g a <> None;
  done_plain : forall t, import_plain g t -> t < length proj ->
               In (g, t) (st_pending st) \/ forall x, pubp t x = true -> val (st_env st) g x <> None
}.

Lemma Done_step : forall g a b, Step a b -> Done g a -> Done g b.
Proof.
  intros g a b [] []. constructor.
  - auto.
  - intros x Hx. destruct (done_pub0 x Hx). split; auto.
  - intros t a0 H. eauto.
  - intros t Ht Hlt. destruct (done_plain0 t Ht Hlt) as [H|H]; [left; auto|right; intros; auto].
Qed.

Definition NewDone (a b : LoadState) : Prop :=
  forall g, mem_nat g (st_remaining a) = true -> mem_nat g (st_remaining b) = false -> Done g b.

Lemma NewDone_trans : forall a b c, NewDone a b -> Step b c -> NewDone b c -> NewDone a c.
Proof.
  intros a b c Hab Hbc Hnc g Ha Hc. destruct (mem_nat g (st_remaining b)) eqn:E.
  - apply Hnc; auto.
  - eapply Done_step; eauto.
Qed.
Lemma NewDone_refl : forall a, NewDone a a.
Proof. intros a g H1 H2. congruence. Qed.

(* environments that differ only in the type / method tables *)
Lemma obs_ext : forall e e', e_ns e' = e_ns e ->
  (forall g x, exp e' g x = exp e g x) /\ (forall g x, val e' g x = val e g x) /\
  (forall g, vals e' g = vals e g) /\ (forall g, hasns e' g = hasns e g).
Proof.
  intros e e' H. unfold exp, val, vals, hasns, ns_of, get_ns. rewrite H. repeat split; reflexivity.
Qed.

Lemma Inv_ext : forall st e', e_ns e' = e_ns (st_env st) -> Inv st -> Inv (with_env st e').
Proof.
  intros st e' H [s r r' v p S pe]. destruct (obs_ext _ _ H) as (He & Hv & Hvs & Hh).
  constructor; cbn; intros.
  - rewrite He in *; eauto.
  - rewrite Hh in *; eauto.
  - rewrite Hh; eauto.
  - rewrite Hvs in *. rewrite Hh. eauto.
  - rewrite Hv; eauto.
  - rewrite Hv in *; eauto.
  - rewrite !Hh; eauto.
Qed.
Lemma Step_ext : forall st e', e_ns e' = e_ns (st_env st) -> Step st (with_env st e').
Proof.
  intros st e' H. destruct (obs_ext _ _ H) as (He & Hv & Hvs & Hh).
  constructor; cbn; intros; auto.
  - now rewrite Hh.
  - now rewrite He.
  - now rewrite Hv.
Qed.

(* one declaration of file f: value + visibility *)
Lemma decl_step : forall st f items name vis w,
  nth_error proj f = Some items ->
  Inv st -> hasns (st_env st) f = true ->
  declared f name -> (forall g, w <> VNs g) ->
  (vis = Public -> pubp f name = true) -> (vis = Private -> privp f name = true) ->
  let st' := with_env st (set_exported (set_value (st_env st) f name w) f name vis) in
  Inv st' /\ Step st st' /\ val (st_env st') f name <> None /\ (vis = Public -> exp (st_env st') f name = true).
Proof.
  intros st f items name vis w Hn [s r r' v p S pe] Hf Hdecl Hw Hpub Hpriv st'.
  assert (Hh : forall g, hasns (st_env st') g = true -> hasns (st_env st) g = true).
  { intros g. subst st'; cbn. rewrite hasns_set_exported, hasns_set_value.
    destruct (Nat.eqb g f) eqn:E; cbn; auto. apply Nat.eqb_eq in E. now subst. }
  assert (Hh' : forall g, hasns (st_env st) g = true -> hasns (st_env st') g = true).
  { intros g H. subst st'; cbn. rewrite hasns_set_exported, hasns_set_value. rewrite H. now rewrite !orb_true_r. }
  split; [|split; [|split]].
  - constructor; subst st'; cbn.
    + intros g x. rewrite exp_set_exported, exp_set_value. destruct (Nat.eqb g f) eqn:E; auto.
      apply Nat.eqb_eq in E. subst g. destruct vis.
      * destruct (N.eqb x name) eqn:E2; cbn; auto. apply N.eqb_eq in E2. subst. auto.
      * intros H. apply andb_true_iff in H as [H _]. auto.
    + intros g H. apply (Hh g) in H. exact (r _ H).
    + intros g H1 H2. apply Hh'. exact (r' _ H1 H2).
    + intros f' k g. rewrite vals_set_exported. intros H. apply vals_set_value in H as [[_ H]|H].
      * inversion H. subst. exfalso. eapply Hw; eauto.
      * apply Hh'. eauto.
    + intros f' q Hq. rewrite val_set_exported, val_set_value. destruct (Nat.eqb f' f && N.eqb q name); [discriminate|auto].
    + intros f' x. rewrite val_set_exported, val_set_value. destruct (Nat.eqb f' f && N.eqb x name) eqn:E; auto.
      apply andb_true_iff in E as [E1 E2]. apply Nat.eqb_eq in E1. apply N.eqb_eq in E2. subst. intros _. right. left. exact Hdecl.
    + intros c t H. destruct (pe c t H) as (A & B & C). repeat split; auto.
  - constructor; subst st'; cbn; auto.
    + intros g x Hp. rewrite exp_set_exported, exp_set_value. destruct (Nat.eqb g f) eqn:E; auto.
      apply Nat.eqb_eq in E. subst g. intros H. rewrite H. destruct vis; [now rewrite orb_true_r|].
      cbn. destruct (N.eqb name x) eqn:E2; auto. apply N.eqb_eq in E2. subst x.
      rewrite (Hcons _ _ Hp) in Hpriv. specialize (Hpriv eq_refl). discriminate.
    + intros g x. rewrite val_set_exported, val_set_value. destruct (Nat.eqb g f && N.eqb x name); [discriminate|auto].
  - subst st'; cbn. rewrite val_set_exported, val_set_value, Nat.eqb_refl, N.eqb_refl. discriminate.
  - intros ->. subst st'; cbn. rewrite exp_set_exported, Nat.eqb_refl, N.eqb_refl. reflexivity.
Qed.

End Gen.


(* ======================= part 4 ======================= *)

Section Gen2.
Variable proj : Project.
Variable root : nat.
Hypothesis Hcons : consistent_marks proj.

Notation Inv := (Inv proj root).
Notation Step := (Step proj).
Notation Done := (Done proj).
Notation NewDone := (NewDone proj).

(* binding one name of file f to a value that is not exported *)
Lemma value_step : forall st st' f a w,
  Inv st -> hasns (st_env st) f = true -> allowed proj f a ->
  (forall g, w = VNs g -> hasns (st_env st) g = true) ->
  st_env st' = set_value (st_env st) f a w -> st_remaining st' = st_remaining st -> st_pending st' = st_pending st ->
  Inv st' /\ Step st st' /\ val (st_env st') f a <> None.
Proof.
  intros st st' f a w [s r r' v p S pe] Hf Hal Hw He Hr Hp.
  assert (Hh : forall g, hasns (st_env st') g = hasns (st_env st) g).
  { intros g. rewrite He, hasns_set_value. destruct (Nat.eqb g f) eqn:E; auto. apply Nat.eqb_eq in E. subst. now rewrite Hf. }
  split; [|split].
  - constructor.
    + intros g x. rewrite He, exp_set_value. auto.
    + intros g. rewrite Hh, Hr. auto.
    + intros g. rewrite Hh, Hr. auto.
    + intros f' k g. rewrite He. intros H. apply vals_set_value in H as [[_ H]|H]; rewrite <- He, Hh.
      * inversion H. subst. auto.
      * eauto.
    + intros f' q Hq. rewrite He, val_set_value. destruct (Nat.eqb f' f && N.eqb q a); [discriminate|auto].
    + intros f' x. rewrite He, val_set_value. destruct (Nat.eqb f' f && N.eqb x a) eqn:E; auto.
      apply andb_true_iff in E as [E1 E2]. apply Nat.eqb_eq in E1. apply N.eqb_eq in E2. subst. auto.
    + intros c t H. rewrite Hp in H. destruct (pe c t H) as (A & B & C). rewrite !Hh. auto.
  - constructor.
    + intros g. now rewrite Hr.
    + intros g. now rewrite Hh.
    + intros g x _. now rewrite He, exp_set_value.
    + intros g x. rewrite He, val_set_value. destruct (Nat.eqb g f && N.eqb x a); [discriminate|auto].
    + intros q. now rewrite Hp.
  - rewrite He, val_set_value, Nat.eqb_refl, N.eqb_refl. discriminate.
Qed.

(* copying the exported values of target into f (f imports target without `as`) *)
Lemma copy_step_inv : forall st st' f target b,
  Inv st -> hasns (st_env st) f = true -> import_plain proj f target ->
  st_env st' = import_copy (st_env st) f target b -> st_remaining st' = st_remaining st -> st_pending st' = st_pending st ->
  Inv st' /\ Step st st' /\
  (forall x, exp (st_env st) target x = true -> val (st_env st) target x <> None -> val (st_env st') f x <> None).
Proof.
  intros st st' f target b [s r r' v p S pe] Hf Himp He Hr Hp.
  assert (Hh : forall g, hasns (st_env st') g = hasns (st_env st) g).
  { intros g. rewrite He, hasns_import_copy. destruct (Nat.eqb g f) eqn:E; auto. apply Nat.eqb_eq in E. subst. now rewrite Hf. }
  split; [|split].
  - constructor.
    + intros g x. rewrite He, exp_import_copy. auto.
    + intros g. rewrite Hh, Hr. auto.
    + intros g. rewrite Hh, Hr. auto.
    + intros f' k g. rewrite He. intros H. apply vals_import_copy in H. rewrite <- He, Hh. destruct H; eauto.
    + intros f' q Hq. rewrite He. apply val_import_copy_mono. auto.
    + intros f' x. rewrite He. intros H. apply val_import_copy_sound in H as [H|[-> H]]; auto.
      right. right. right. exists target. split; auto.
    + intros c t H. rewrite Hp in H. destruct (pe c t H) as (A & B & C). rewrite !Hh. auto.
  - constructor.
    + intros g. now rewrite Hr.
    + intros g. now rewrite Hh.
    + intros g x _. now rewrite He, exp_import_copy.
    + intros g x. rewrite He. apply val_import_copy_mono.
    + intros q. now rewrite Hp.
  - intros x H1 H2. rewrite He. now apply val_import_copy_complete.
Qed.

Lemma pend_step : forall st st' f target,
  Inv st -> import_plain proj f target -> hasns (st_env st) f = true -> hasns (st_env st) target = true ->
  st_env st' = st_env st -> st_remaining st' = st_remaining st -> st_pending st' = (f, target) :: st_pending st ->
  Inv st' /\ Step st st'.
Proof.
  intros st st' f target [s r r' v p S pe] Himp Hf Ht He Hr Hp. split.
  - constructor; rewrite ?He, ?Hr; auto.
    intros c t. rewrite Hp. intros [H|H]; [inversion H; subst; auto|auto].
  - constructor; rewrite ?He, ?Hr, ?Hp; auto. intros q H. now right.
Qed.

(* entering a file for the first time *)
Lemma enter_step : forall st st' target,
  Inv st -> target < length proj -> mem_nat target (st_remaining st) = true ->
  st_env st' = get_or_create_ns (st_env st) target -> st_remaining st' = remove_nat target (st_remaining st) ->
  st_pending st' = st_pending st ->
  Inv st' /\ Step st st' /\ hasns (st_env st') target = true.
Proof.
  intros st st' target [s r r' v p S pe] Hlt Hmem He Hr Hp.
  assert (Hh : forall g, hasns (st_env st') g = Nat.eqb g target || hasns (st_env st) g) by (intros; rewrite He; apply hasns_get_or_create).
  split; [|split].
  - constructor.
    + intros g x. rewrite He, exp_goc. auto.
    + intros g. rewrite Hh, Hr, mem_nat_remove. destruct (Nat.eqb g target) eqn:E; cbn.
      * apply Nat.eqb_eq in E. subst. intros _. right. split; auto. rewrite Nat.eqb_refl. cbn. apply andb_false_r.
      * intros H. destruct (r _ H) as [?|[? H2]]; auto. right. split; auto. now rewrite H2.
    + intros g Hg. rewrite Hh, Hr, mem_nat_remove. destruct (Nat.eqb g target) eqn:E; cbn; auto.
      rewrite Nat.eqb_sym, E. cbn. rewrite andb_true_r. auto.
    + intros f' k g. rewrite He, vals_goc, <- He, Hh. intros H. rewrite (v _ _ _ H). apply orb_true_r.
    + intros f' q Hq. rewrite He, val_goc. auto.
    + intros f' x. rewrite He, val_goc. auto.
    + intros c t. rewrite Hp, !Hh. intros H. destruct (pe c t H) as (A & B & C). rewrite B, C, !orb_true_r. auto.
  - constructor.
    + intros g. rewrite Hr, mem_nat_remove. intros H. apply andb_true_iff in H. tauto.
    + intros g H. rewrite Hh, H. apply orb_true_r.
    + intros g x _. now rewrite He, exp_goc.
    + intros g x. now rewrite He, val_goc.
    + intros q. now rewrite Hp.
  - rewrite Hh, Nat.eqb_refl. reflexivity.
Qed.

End Gen2.


(* ======================= part 5 ======================= *)

Section Gen3.
Variable proj : Project.
Variable root : nat.
Hypothesis Hcons : consistent_marks proj.

Notation Inv := (Inv proj root).
Notation Step := (Step proj).
Notation Done := (Done proj).
Notation NewDone := (NewDone proj).
Notation pubp := (pubp proj).

Lemma with_env_with_env : forall st e e', with_env (with_env st e) e' = with_env st e'.
Proof. reflexivity. Qed.

(* ---- add_variants ---- *)
Definition variant_step (f : nat) (vis : Vis) (e : Env) (v : N) : Env :=
  set_exported (set_value e f v (VVariant f v)) f v vis.

Lemma add_variants_fixed : forall f e items,
  add_variants shape_fixed f e items =
  fold_left (fun e i => match i with IEnum _ vis variants => fold_left (variant_step f vis) variants e | _ => e end) items e.
Proof. reflexivity. Qed.

Lemma variants_inner : forall f items t vis vs, nth_error proj f = Some items -> In (IEnum t vis vs) items ->
  forall l, (forall v, In v l -> In v vs) ->
  forall st, Inv st -> hasns (st_env st) f = true ->
  let e' := fold_left (variant_step f vis) l (st_env st) in
  Inv (with_env st e') /\ Step st (with_env st e') /\
  forall v, In v l -> val e' f v <> None /\ (vis = Public -> exp e' f v = true).
Proof.
  intros f items t vis vs Hn Hin l. induction l as [|v l IH]; intros Hsub st Hinv Hf; cbn [fold_left].
  - split; [apply Inv_ext; auto|]. split; [apply Step_ext; auto|]. intros v [].
  - assert (Hd : declared proj f v) by (exists items; split; auto; right; exists t, vis, vs; split; auto; apply Hsub; now left).
    destruct (decl_step proj root Hcons st f items v vis (VVariant f v) Hn Hinv Hf Hd) as (I1 & S1 & V1 & E1).
    { intros g; discriminate. }
    { intros ->. eapply pub_variant; eauto. apply Hsub. now left. }
    { intros ->. eapply priv_variant; eauto. apply Hsub. now left. }
    fold (variant_step f vis (st_env st) v) in *.
    set (st1 := with_env st (variant_step f vis (st_env st) v)) in *.
    assert (Hf1 : hasns (st_env st1) f = true) by (apply (step_ns _ _ _ S1); auto).
    destruct (IH (fun w Hw => Hsub w (or_intror Hw)) st1 I1 Hf1) as (I2 & S2 & P2).
    cbn [st_env st1 with_env] in *. try rewrite with_env_with_env in *.
    split; auto. split; [eapply Step_trans; eauto|].
    intros w [<-|Hw]; [|apply P2; auto]. split.
    + apply (step_val _ _ _ S2). exact V1.
    + intros Hp. apply (step_exp _ _ _ S2); auto. subst vis. eapply pub_variant; eauto. apply Hsub. now left.
Qed.

Lemma variants_outer : forall f items, nth_error proj f = Some items ->
  forall its, (forall i, In i its -> In i items) ->
  forall st, Inv st -> hasns (st_env st) f = true ->
  let e' := add_variants shape_fixed f (st_env st) its in
  Inv (with_env st e') /\ Step st (with_env st e') /\
  forall t vis vs v, In (IEnum t vis vs) its -> In v vs -> val e' f v <> None /\ (vis = Public -> exp e' f v = true).
Proof.
  intros f items Hn its. induction its as [|i its IH]; intros Hsub st Hinv Hf; rewrite add_variants_fixed; cbn [fold_left].
  - split; [apply Inv_ext; auto|]. split; [apply Step_ext; auto|]. intros t vis vs v [].
  - assert (Hsub' : forall j, In j its -> In j items) by (intros j Hj; apply Hsub; now right).
    destruct i as [nm vis0|t0 vis0 vs0|t0 vis0|t0 m0 vis0|tg al];
      try (rewrite <- add_variants_fixed; destruct (IH Hsub' st Hinv Hf) as (I2 & S2 & P2); split; auto; split; auto;
           intros t vis vs v [Hd|Hd] Hv; [discriminate Hd | eapply P2; eauto]).
    destruct (variants_inner f items t0 vis0 vs0 Hn (Hsub _ (or_introl eq_refl)) vs0 (fun v H => H) st Hinv Hf) as (I1 & S1 & P1).
    set (e1 := fold_left (variant_step f vis0) vs0 (st_env st)) in *.
    set (st1 := with_env st e1) in *.
    assert (Hf1 : hasns (st_env st1) f = true) by (apply (step_ns _ _ _ S1); auto).
    destruct (IH Hsub' st1 I1 Hf1) as (I2 & S2 & P2).
    rewrite add_variants_fixed in I2, S2, P2. cbn [st_env st1 with_env] in I2, S2, P2. try rewrite with_env_with_env in *.
    split; auto. split; [eapply Step_trans; eauto|].
    intros t vis vs v [Hd|Hd] Hv; [|eapply P2; eauto].
    inversion Hd; subst t0 vis0 vs0. destruct (P1 v Hv) as [A B]. split.
    + apply (step_val _ _ _ S2). exact A.
    + intros Hp. apply (step_exp _ _ _ S2); auto. subst vis. eapply pub_variant; eauto. apply Hsub. now left.
Qed.

End Gen3.


(* ======================= part 6 ======================= *)

Section Gen4.
Variable proj : Project.
Variable root : nat.
Hypothesis Hcons : consistent_marks proj.

Notation Inv := (Inv proj root).
Notation Step := (Step proj).
Notation Done := (Done proj).
Notation NewDone := (NewDone proj).
Notation pubp := (pubp proj).

(* what processing a list of items of file f has achieved *)
Definition Partial (f : nat) (its : list Item) (st : LoadState) : Prop :=
  (forall x vis, In (IFun x vis) its -> val (st_env st) f x <> None /\ (vis = Public -> exp (st_env st) f x = true)) /\
  (forall t a, In (IImport t (Some a)) its -> val (st_env st) f a <> None) /\
  (forall t, In (IImport t None) its -> t < length proj ->
     In (f, t) (st_pending st) \/ forall x, pubp t x = true -> val (st_env st) f x <> None).

Lemma Partial_step : forall f items its a b, nth_error proj f = Some items -> (forall i, In i its -> In i items) ->
  Step a b -> Partial f its a -> Partial f its b.
Proof.
  intros f items its a b Hn Hsub S (P1 & P2 & P3). split; [|split].
  - intros x vis Hin. destruct (P1 x vis Hin) as [A B]. split; [apply (step_val _ _ _ S); auto|].
    intros ->. apply (step_exp _ _ _ S); auto. eapply pub_fun; eauto.
  - intros t al Hin. apply (step_val _ _ _ S). eauto.
  - intros t Hin Hlt. destruct (P3 t Hin Hlt) as [H|H]; [left; apply (step_pend _ _ _ S); auto|].
    right. intros x Hx. apply (step_val _ _ _ S). auto.
Qed.

Lemma Partial_cons : forall f i its st, Partial f [i] st -> Partial f its st -> Partial f (i :: its) st.
Proof.
  intros f i its st (A1 & A2 & A3) (B1 & B2 & B3). split; [|split].
  - intros x vis [H|H]; [apply A1; left; auto | apply B1; auto].
  - intros t a [H|H]; [eapply A2; left; eauto | eapply B2; eauto].
  - intros t [H|H] Hlt; [apply A3; auto; left; auto | apply B3; auto].
Qed.

Lemma Partial_nil : forall f st, Partial f [] st.
Proof. intros. split; [|split]; intros; contradiction. Qed.

Lemma NewDone_same_rem : forall a b, st_remaining b = st_remaining a -> NewDone a b.
Proof. intros a b H g H1 H2. rewrite H in H2. congruence. Qed.

Lemma In_sort_items : forall i items, In i (sort_items items) <-> In i items.
Proof.
  intros. unfold sort_items. rewrite in_app_iff, !filter_In. split; [tauto|].
  intros H. destruct (is_type_item i); [left|right]; auto.
Qed.

Lemma Inv_eq : forall a b, st_env b = st_env a -> st_remaining b = st_remaining a -> st_pending b = st_pending a ->
  Inv a -> Inv b.
Proof. intros a b He Hr Hp [s r r' v p S pe]. constructor; rewrite ?He, ?Hr, ?Hp; auto. Qed.
Lemma Step_eq : forall a b, st_env b = st_env a -> st_remaining b = st_remaining a -> st_pending b = st_pending a -> Step a b.
Proof. intros a b He Hr Hp. constructor; rewrite ?He, ?Hr, ?Hp; auto. Qed.

Theorem load_items_spec : forall fuel f items st st',
  nth_error proj f = Some items -> Inv st -> hasns (st_env st) f = true ->
  load_items shape_fixed proj fuel f items st = Ok st' ->
  Inv st' /\ Step st st' /\ Done f st' /\ NewDone st st'.
Proof.
  induction fuel as [|fuel IH]; intros f items st st' Hn Hinv Hf Hload; [discriminate|].
  cbn [load_items] in Hload.
  set (go := fix go (its : list Item) (st0 : LoadState) {struct its} : Outcome LoadState := _) in Hload.
  assert (G : forall its st0 st1, (forall i, In i its -> In i items) -> Inv st0 -> hasns (st_env st0) f = true ->
              go its st0 = Ok st1 -> Inv st1 /\ Step st0 st1 /\ NewDone st0 st1 /\ Partial f its st1).
  { induction its as [|i rest IHr]; intros st0 st1 Hsub I0 Hf0 Hgo.
    - unfold go in Hgo; cbn beta iota fix in Hgo. inversion Hgo; subst.
      split; auto. split; [apply Step_refl|]. split; [apply NewDone_refl | apply Partial_nil].
    - assert (Hsubr : forall j, In j rest -> In j items) by (intros j Hj; apply Hsub; now right).
      assert (Hi : In i items) by (apply Hsub; now left).
      assert (Fin : forall mid, Inv mid -> Step st0 mid -> NewDone st0 mid -> Partial f [i] mid -> go rest mid = Ok st1 ->
                    Inv st1 /\ Step st0 st1 /\ NewDone st0 st1 /\ Partial f (i :: rest) st1).
      { intros mid Im Sm Nm Pm Hg.
        assert (Hfm : hasns (st_env mid) f = true) by (apply (step_ns _ _ _ Sm); auto).
        destruct (IHr mid st1 Hsubr Im Hfm Hg) as (I1 & S1 & N1 & P1).
        split; auto. split; [eapply Step_trans; eauto|]. split; [eapply NewDone_trans; eauto|].
        apply Partial_cons; auto. eapply Partial_step; eauto. intros j [<-|[]]; auto. }
      destruct i as [name vis|t vis vs|t vis|t m vis|target alias];
        (unfold go at 1 in Hgo; cbn beta iota zeta fix in Hgo; fold go in Hgo).
      + (* IFun *)
        assert (Hd : declared proj f name) by (exists items; split; auto; left; eauto).
        destruct (decl_step proj root Hcons st0 f items name vis (VFun f name) Hn I0 Hf0 Hd) as (I1 & S1 & V1 & E1).
        { intros g; discriminate. }
        { intros ->. eapply pub_fun; eauto. }
        { intros ->. eapply priv_fun; eauto. }
        apply (Fin _ I1 S1).
        * apply NewDone_same_rem. reflexivity.
        * split; [|split].
          -- intros x vis' [H|[]]. inversion H; subst. split; auto.
          -- intros t a [H|[]]. discriminate.
          -- intros t [H|[]]. discriminate.
        * exact Hgo.
      + (* IEnum *)
        match type of Hgo with go rest (with_env st0 ?e') = _ =>
          apply (Fin _ (Inv_ext proj root st0 e' eq_refl I0) (Step_ext proj st0 e' eq_refl)) end.
        * apply NewDone_same_rem. reflexivity.
        * split; [|split]; intros; match goal with H : In _ [_] |- _ => destruct H as [H|[]]; discriminate end.
        * exact Hgo.
      + (* IStruct *)
        match type of Hgo with go rest (with_env st0 ?e') = _ =>
          apply (Fin _ (Inv_ext proj root st0 e' eq_refl I0) (Step_ext proj st0 e' eq_refl)) end.
        * apply NewDone_same_rem. reflexivity.
        * split; [|split]; intros; match goal with H : In _ [_] |- _ => destruct H as [H|[]]; discriminate end.
        * exact Hgo.
      + (* IMethod *)
        match type of Hgo with go rest (with_env st0 ?e') = _ =>
          apply (Fin _ (Inv_ext proj root st0 e' eq_refl I0) (Step_ext proj st0 e' eq_refl)) end.
        * apply NewDone_same_rem. reflexivity.
        * split; [|split]; intros; match goal with H : In _ [_] |- _ => destruct H as [H|[]]; discriminate end.
        * exact Hgo.
      + (* IImport *)
        change (sh_missing_ns_guard shape_fixed) with true in Hgo. change (sh_finish_cyclic shape_fixed) with true in Hgo.
        cbn beta iota in Hgo.
        assert (Pdisc1 : forall mid x vis, In (IFun x vis) [IImport target alias] ->
                   val (st_env mid) f x <> None /\ (vis = Public -> exp (st_env mid) f x = true))
          by (intros mid x vis [H|[]]; discriminate).
        destruct (mem_nat target (st_remaining st0)) eqn:Emem.
        * (* first import of an existing file: nested load *)
          destruct (nth_error proj target) as [titems|] eqn:Et; [|discriminate].
          assert (Hlt : target < length proj) by (apply nth_error_Some; congruence).
          match type of Hgo with context [load_items shape_fixed proj fuel target titems ?s] => set (st1' := s) in * end.
          destruct (enter_step proj root st0 st1' target I0 Hlt Emem eq_refl eq_refl eq_refl) as (Ie & Se & He).
          destruct (load_items shape_fixed proj fuel target titems st1') as [st2| |] eqn:El; try discriminate.
          rewrite insert_imported_fixed in Hgo.
          destruct (IH target titems st1' st2 Et Ie He El) as (I2 & S2 & D2 & N2).
          assert (S02 : Step st0 st2) by (eapply Step_trans; eauto).
          assert (Hf2 : hasns (st_env st2) f = true) by (apply (step_ns _ _ _ S02); auto).
          assert (Ht2 : hasns (st_env st2) target = true) by (apply (step_ns _ _ _ S2); auto).
          assert (N02 : NewDone st0 st2).
          { intros g G1 G2. destruct (Nat.eq_dec g target) as [->|Hne]; auto. apply N2; [|exact G2].
            unfold st1'. cbn [st_remaining]. rewrite mem_nat_remove, G1. cbn.
            destruct (Nat.eqb target g) eqn:E; auto. apply Nat.eqb_eq in E. congruence. }
          destruct alias as [a|].
          -- destruct (value_step proj root st2 (with_env st2 (set_value (st_env st2) f a (VNs target))) f a (VNs target) I2 Hf2)
               as (I3 & S3 & V3); try reflexivity.
             { right. right. left. exists target. exists items. auto. }
             { intros g Hg. inversion Hg. subst. exact Ht2. }
             apply (Fin _ I3 (Step_trans _ _ _ _ S02 S3)).
             ++ eapply NewDone_trans; eauto. apply NewDone_same_rem. reflexivity.
             ++ split; [apply Pdisc1|]. split.
                ** intros t a' [H|[]]. inversion H; subst. exact V3.
                ** intros t [H|[]]. discriminate.
             ++ exact Hgo.
          -- destruct (Nat.eqb f target) eqn:Eft.
             ++ apply Nat.eqb_eq in Eft. subst target.
                apply (Fin _ (Inv_ext proj root st2 (st_env st2) eq_refl I2)
                             (Step_trans _ _ _ _ S02 (Step_ext proj st2 (st_env st2) eq_refl))).
                ** eapply NewDone_trans; eauto. apply Step_ext; auto. apply NewDone_same_rem. reflexivity.
                ** split; [apply Pdisc1|]. split.
                   --- intros t a' [H|[]]. discriminate.
                   --- intros t [H|[]] _. inversion H; subst. right. intros x Hx. cbn.
                       exact (proj2 (done_pub _ _ _ D2 x Hx)).
                ** exact Hgo.
             ++ destruct (copy_step_inv proj root st2 (with_env st2 (import_copy (st_env st2) f target false)) f target false I2 Hf2)
                  as (I3 & S3 & C3); try reflexivity.
                { exists items. auto. }
                apply (Fin _ I3 (Step_trans _ _ _ _ S02 S3)).
                ** eapply NewDone_trans; eauto. apply NewDone_same_rem. reflexivity.
                ** split; [apply Pdisc1|]. split.
                   --- intros t a' [H|[]]. discriminate.
                   --- intros t [H|[]] _. inversion H; subst. right. intros x Hx.
                       destruct (done_pub _ _ _ D2 x Hx) as [A B]. apply C3; auto.
                ** exact Hgo.
        * destruct (target <? length proj) eqn:Elt.
          -- (* the file is already in paths_seen: cyclic or repeated import *)
             apply Nat.ltb_lt in Elt. pose proof (inv_R' _ _ _ I0 target Elt Emem) as Ht0.
             assert (Ht0' := Ht0). unfold hasns in Ht0'. destruct (get_ns (st_env st0) target) eqn:Eg; [|discriminate].
             rewrite insert_imported_fixed in Hgo.
             destruct alias as [a|].
             ++ destruct (value_step proj root st0 (with_env st0 (set_value (st_env st0) f a (VNs target))) f a (VNs target) I0 Hf0)
                  as (I3 & S3 & V3); try reflexivity.
                { right. right. left. exists target. exists items. auto. }
                { intros g Hg. inversion Hg. subst. exact Ht0. }
                apply (Fin _ I3 S3).
                ** apply NewDone_same_rem. reflexivity.
                ** split; [apply Pdisc1|]. split.
                   --- intros t a' [H|[]]. inversion H; subst. exact V3.
                   --- intros t [H|[]]. discriminate.
                ** exact Hgo.
             ++ match type of Hgo with go rest (with_env ?s _) = _ => set (stp := s) in * end.
                assert (Himp : import_plain proj f target) by (exists items; auto).
                destruct (pend_step proj root st0 stp f target I0 Himp Hf0 Ht0 eq_refl eq_refl eq_refl) as (Ip & Sp).
                assert (Hfp : hasns (st_env stp) f = true) by exact Hf0.
                destruct (Nat.eqb f target) eqn:Eft.
                ** apply (Fin _ (Inv_ext proj root stp (st_env st0) eq_refl Ip)
                               (Step_trans _ _ _ _ Sp (Step_ext proj stp (st_env st0) eq_refl))).
                   --- apply NewDone_same_rem. reflexivity.
                   --- split; [apply Pdisc1|]. split.
                       +++ intros t a' [H|[]]. discriminate.
                       +++ intros t [H|[]] _. inversion H; subst. left. cbn. now left.
                   --- exact Hgo.
                ** destruct (copy_step_inv proj root stp (with_env stp (import_copy (st_env st0) f target false)) f target false Ip Hfp Himp)
                     as (I3 & S3 & C3); try reflexivity.
                   apply (Fin _ I3 (Step_trans _ _ _ _ Sp S3)).
                   --- apply NewDone_same_rem. reflexivity.
                   --- split; [apply Pdisc1|]. split.
                       +++ intros t a' [H|[]]. discriminate.
                       +++ intros t [H|[]] _. inversion H; subst. left. cbn. now left.
                   --- exact Hgo.
          -- (* the file does not exist *)
             apply Nat.ltb_ge in Elt.
             assert (P3 : forall mid t, In (IImport t None) [IImport target alias] -> t < length proj ->
                       In (f, t) (st_pending mid) \/ (forall x, pubp t x = true -> val (st_env mid) f x <> None))
               by (intros mid t [H|[]] Hl; inversion H; subst; lia).
             destruct (mem_nat target (st_failed st0)); destruct alias as [a|];
               match type of Hgo with go rest ?m = _ => set (mid := m) in * end.
             ++ destruct (value_step proj root st0 mid f a VPlaceholderNs I0 Hf0) as (I3 & S3 & V3); try reflexivity.
                { right. right. left. exists target. exists items. auto. }
                { intros g Hg. discriminate. }
                apply (Fin _ I3 S3); [apply NewDone_same_rem; reflexivity| |exact Hgo].
                split; [apply Pdisc1|]. split; [|apply P3]. intros t a' [H|[]]. inversion H; subst. exact V3.
             ++ apply (Fin mid (Inv_eq st0 mid eq_refl eq_refl eq_refl I0) (Step_eq st0 mid eq_refl eq_refl eq_refl));
                  [apply NewDone_same_rem; reflexivity| |exact Hgo].
                split; [apply Pdisc1|]. split; [|apply P3]. intros t a' [H|[]]. discriminate.
             ++ destruct (value_step proj root st0 mid f a VPlaceholderNs I0 Hf0) as (I3 & S3 & V3); try reflexivity.
                { right. right. left. exists target. exists items. auto. }
                { intros g Hg. discriminate. }
                apply (Fin _ I3 S3); [apply NewDone_same_rem; reflexivity| |exact Hgo].
                split; [apply Pdisc1|]. split; [|apply P3]. intros t a' [H|[]]. inversion H; subst. exact V3.
             ++ apply (Fin mid (Inv_eq st0 mid eq_refl eq_refl eq_refl I0) (Step_eq st0 mid eq_refl eq_refl eq_refl));
                  [apply NewDone_same_rem; reflexivity| |exact Hgo].
                split; [apply Pdisc1|]. split; [|apply P3]. intros t a' [H|[]]. discriminate.
  }
  destruct (go (sort_items items) st) as [stg| |] eqn:Eg; try discriminate. inversion Hload; subst st'. clear Hload.
  assert (Hsub : forall i, In i (sort_items items) -> In i items) by (intros i H; apply In_sort_items; auto).
  destruct (G (sort_items items) st stg Hsub Hinv Hf Eg) as (Ig & Sg & Ng & Pg).
  assert (Hfg : hasns (st_env stg) f = true) by (apply (step_ns _ _ _ Sg); auto).
  destruct (variants_outer proj root Hcons f items Hn (sort_items items) Hsub stg Ig Hfg) as (Iv & Sv & Pv).
  set (fin := with_env stg (add_variants shape_fixed f (st_env stg) (sort_items items))) in *.
  pose proof (Partial_step f items _ stg fin Hn Hsub Sv Pg) as (Q1 & Q2 & Q3).
  split; [exact Iv|]. split; [eapply Step_trans; eauto|]. split.
  - constructor.
    + intros x (items0 & Hn0 & Hd). rewrite Hn in Hn0. inversion Hn0; subst items0.
      destruct Hd as [[vis Hd]|(t & vis & vs & Hd & Hx)].
      * apply (Q1 x vis). apply In_sort_items; auto.
      * apply (Pv t vis vs x); auto. apply In_sort_items; auto.
    + intros x Hx. destruct (pubp_cases proj f x Hx) as (items0 & Hn0 & Hd). rewrite Hn in Hn0. inversion Hn0; subst items0.
      destruct Hd as [Hd|(t & vs & Hd & Hv)].
      * destruct (Q1 x Public) as [A B]; [apply In_sort_items; auto|]. split; auto.
      * destruct (Pv t Public vs x) as [A B]; [apply In_sort_items; auto|auto|]. split; auto.
    + intros t a (items0 & Hn0 & Hd). rewrite Hn in Hn0. inversion Hn0; subst items0.
      apply (Q2 t a). apply In_sort_items; auto.
    + intros t (items0 & Hn0 & Hd) Hlt. rewrite Hn in Hn0. inversion Hn0; subst items0.
      apply (Q3 t); auto. apply In_sort_items; auto.
  - eapply NewDone_trans; eauto. apply NewDone_same_rem. reflexivity.
Qed.

End Gen4.


(* ======================= part 7 ======================= *)

Section Gen5.
Variable proj : Project.
Variable root : nat.
Hypothesis Hcons : consistent_marks proj.

Notation Inv := (Inv proj root).
Notation Step := (Step proj).
Notation Done := (Done proj).
Notation pubp := (pubp proj).

Definition fp_step (e : Env) (p : nat * nat) : Env :=
  let '(cur, target) := p in if Nat.eqb cur target then e else import_copy e cur target true.

Lemma finish_pending_fold : forall e pending, finish_pending e pending = fold_left fp_step (rev pending) e.
Proof. reflexivity. Qed.

Lemma finish_spec : forall l st,
  Inv st -> (forall c t, In (c, t) l -> import_plain proj c t /\ hasns (st_env st) c = true) ->
  let e' := fold_left fp_step l (st_env st) in
  Inv (with_env st e') /\ Step st (with_env st e') /\
  forall c t, In (c, t) l -> c <> t ->
    forall x, exp (st_env st) t x = true -> val (st_env st) t x <> None -> val e' c x <> None.
Proof.
  induction l as [|[c0 t0] l IH]; intros st I0 Hl; cbn [fold_left].
  - split; [apply Inv_ext; auto|]. split; [apply Step_ext; auto|]. intros c t [].
  - destruct (Hl c0 t0 (or_introl eq_refl)) as [Himp Hc].
    assert (M : exists st1, st_env st1 = fp_step (st_env st) (c0, t0) /\ Inv st1 /\ Step st st1 /\
                 st1 = with_env st (fp_step (st_env st) (c0, t0)) /\
                 (c0 <> t0 -> forall x, exp (st_env st) t0 x = true -> val (st_env st) t0 x <> None -> val (st_env st1) c0 x <> None)).
    { exists (with_env st (fp_step (st_env st) (c0, t0))). unfold fp_step. destruct (Nat.eqb c0 t0) eqn:E.
      - split; [reflexivity|]. split; [apply Inv_ext; auto|]. split; [apply Step_ext; auto|]. split; [reflexivity|].
        apply Nat.eqb_eq in E. congruence.
      - destruct (copy_step_inv proj root st (with_env st (import_copy (st_env st) c0 t0 true)) c0 t0 true I0 Hc Himp)
          as (I1 & S1 & C1); try reflexivity.
        split; [reflexivity|]. split; [exact I1|]. split; [exact S1|]. split; [reflexivity|]. intros _. exact C1. }
    destruct M as (st1 & E1 & I1 & S1 & Eq1 & C1).
    assert (Hl1 : forall c t, In (c, t) l -> import_plain proj c t /\ hasns (st_env st1) c = true).
    { intros c t H. destruct (Hl c t (or_intror H)). split; auto. apply (step_ns _ _ _ S1). auto. }
    destruct (IH st1 I1 Hl1) as (I2 & S2 & C2). rewrite E1 in *. subst st1. cbn [with_env st_env] in *.
    split; [exact I2|]. split; [eapply Step_trans; eauto|].
    intros c t [H|H] Hne x Hx Hv.
    + inversion H; subst c t. apply (step_val _ _ _ S2). cbn. apply C1; auto.
    + apply (C2 c t H Hne x).
      * apply (step_exp _ _ _ S1 t x); [exact (inv_sound _ _ _ I0 t x Hx) | exact Hx].
      * apply (step_val _ _ _ S1 t x). exact Hv.
Qed.

Lemma initial_inv : let st := {| st_env := get_or_create_ns empty_env root; st_remaining := seq 0 (length proj);
                                 st_failed := []; st_pending := [] |} in
  Inv st /\ hasns (st_env st) root = true.
Proof.
  intros st. split.
  - constructor; subst st; cbn [st_env st_remaining st_pending].
    + intros g x. rewrite exp_goc. cbn. discriminate.
    + intros g. rewrite hasns_get_or_create. destruct (Nat.eqb g root) eqn:E; cbn.
      * apply Nat.eqb_eq in E. auto.
      * unfold hasns. cbn. discriminate.
    + intros g Hg Hm. assert (In g (seq 0 (length proj))) by (apply in_seq; lia).
      apply mem_nat_true in H. congruence.
    + intros f k g. rewrite vals_goc. cbn. intros [H|[]]. discriminate.
    + intros f p. rewrite val_goc. cbn. intros [<-|[]]. cbn. discriminate.
    + intros f x. rewrite val_goc. cbn. destruct (N.eqb x 0) eqn:E; [|congruence].
      apply N.eqb_eq in E. subst. intros _. left. cbn. auto.
    + intros c t [].
  - subst st; cbn [st_env]. rewrite hasns_get_or_create, Nat.eqb_refl. reflexivity.
Qed.

(* everything that holds of the environment load_root returns *)
Record Loaded (e : Env) : Prop := {
  ld_sound : forall g x, exp e g x = true -> pubp g x = true;
  ld_vns : forall f k g, In (k, VNs g) (vals e f) -> hasns e g = true;
  ld_S : forall f x, val e f x <> None -> allowed proj f x;
  ld_prel : forall f p, In p prelude_names -> val e f p <> None;
  ld_range : forall g, hasns e g = true -> g < length proj;
  ld_decl : forall g x, hasns e g = true -> declared proj g x -> val e g x <> None;
  ld_pub : forall g x, hasns e g = true -> pubp g x = true -> exp e g x = true /\ val e g x <> None;
  ld_alias : forall g t a, hasns e g = true -> import_alias proj g t a -> val e g a <> None;
  ld_plain : forall g t x, hasns e g = true -> import_plain proj g t -> pubp t x = true -> val e g x <> None
}.

Theorem load_root_spec : forall fuel e,
  root < length proj -> load_root shape_fixed proj fuel root = Ok e -> Loaded e /\ hasns e root = true.
Proof.
  intros fuel e Hroot Hload. unfold load_root in Hload.
  destruct (nth_error proj root) as [items|] eqn:Hn; [|apply nth_error_None in Hn; lia].
  destruct initial_inv as [I0 Hr0].
  match type of Hload with context [load_items shape_fixed proj fuel root items ?s] => set (st0 := s) in * end.
  destruct (load_items shape_fixed proj fuel root items st0) as [st1| |] eqn:El; try discriminate.
  change (sh_finish_cyclic shape_fixed) with true in Hload. cbn beta iota in Hload. inversion Hload; subst e. clear Hload.
  destruct (load_items_spec proj root Hcons fuel root items st0 st1 Hn I0 Hr0 El) as (I1 & S1 & D1 & N1).
  assert (AllDone : forall g, hasns (st_env st1) g = true -> g < length proj /\ Done g st1).
  { intros g Hg. destruct (inv_R _ _ _ I1 g Hg) as [->|[Hlt Hm]]; [split; auto|]. split; auto.
    apply N1; auto. subst st0; cbn. apply mem_nat_true. apply in_seq. lia. }
  rewrite finish_pending_fold.
  assert (Hl : forall c t, In (c, t) (rev (st_pending st1)) -> import_plain proj c t /\ hasns (st_env st1) c = true).
  { intros c t H. apply in_rev in H. destruct (inv_pend _ _ _ I1 c t H) as (A & B & _). auto. }
  destruct (finish_spec (rev (st_pending st1)) st1 I1 Hl) as (I2 & S2 & C2).
  set (e2 := fold_left fp_step (rev (st_pending st1)) (st_env st1)) in *.
  assert (Hh : forall g, hasns e2 g = true -> hasns (st_env st1) g = true).
  { intros g Hg. destruct (inv_R _ _ _ I2 g Hg) as [->|[Hlt Hm]].
    - apply (step_ns _ _ _ S1). exact Hr0.
    - apply (inv_R' _ _ _ I1); auto. }
  split.
  - constructor.
    + exact (inv_sound _ _ _ I2).
    + exact (inv_vns _ _ _ I2).
    + exact (inv_S _ _ _ I2).
    + exact (inv_prel _ _ _ I2).
    + intros g Hg. apply AllDone. auto.
    + intros g x Hg Hd. apply (step_val _ _ _ S2). cbn. apply (done_decl _ _ _ (proj2 (AllDone g (Hh g Hg)))). auto.
    + intros g x Hg Hp. destruct (done_pub _ _ _ (proj2 (AllDone g (Hh g Hg))) x Hp) as [A B]. split.
      * apply (step_exp _ _ _ S2); auto.
      * apply (step_val _ _ _ S2). auto.
    + intros g t a Hg Hd. apply (step_val _ _ _ S2). cbn. eapply (done_alias _ _ _ (proj2 (AllDone g (Hh g Hg)))). eauto.
    + intros g t x Hg Himp Hp.
      assert (Hlt : t < length proj) by (eapply pubp_range; eauto).
      destruct (Nat.eq_dec g t) as [->|Hne].
      * apply (step_val _ _ _ S2). cbn. apply (done_pub _ _ _ (proj2 (AllDone t (Hh t Hg)))). auto.
      * destruct (done_plain _ _ _ (proj2 (AllDone g (Hh g Hg))) t Himp Hlt) as [Hpend|Hdir].
        -- assert (Ht : hasns (st_env st1) t = true) by (destruct (inv_pend _ _ _ I1 g t Hpend) as (_ & _ & C); exact C).
           destruct (done_pub _ _ _ (proj2 (AllDone t Ht)) x Hp) as [A B].
           apply (C2 g t); auto. apply in_rev. rewrite rev_involutive. exact Hpend.
        -- apply (step_val _ _ _ S2). cbn. auto.
  - apply (step_ns _ _ _ S2). apply (step_ns _ _ _ S1). exact Hr0.
Qed.

End Gen5.


(* ======================= part 8 ======================= *)

(* ---- the general theorems: ANY project, ANY import graph, the repaired loader ---- *)
Section Final.
Variable proj : Project.
Variable root : nat.
Variable fuel : nat.
Variable e : Env.
Hypothesis Hcons : consistent_marks proj.
Hypothesis Hroot : root < length proj.
Hypothesis Hload : load_root shape_fixed proj fuel root = Ok e.

Let L : Loaded proj e := proj1 (load_root_spec proj root Hcons fuel e Hroot Hload).

Theorem root_is_loaded : hasns e root = true.
Proof. exact (proj2 (load_root_spec proj root Hcons fuel e Hroot Hload)). Qed.

(* (a) the exported_syms of every loaded file are exactly its `public` marks *)
Theorem exported_iff_public_lemma : forall g, hasns e g = true -> forall x, exp e g x = pubp proj g x.
Proof.
  intros g Hg x. destruct (exp e g x) eqn:E.
  - symmetry. exact (ld_sound _ _ L g x E).
  - destruct (pubp proj g x) eqn:P; auto. destruct (ld_pub _ _ L g x Hg P). congruence.
Qed.

(* every namespace value refers to a loaded file *)
Theorem namespace_values_are_loaded_lemma : forall f a g, val e f a = Some (VNs g) -> hasns e g = true.
Proof. intros f a g H. apply lookup_N_In in H. exact (ld_vns _ _ L f a g H). Qed.

(* `a::x` resolves exactly when a names the namespace of a file that marks x public *)
Theorem qualified_visible_iff_public_lemma : forall f a x,
  run_qualified e f a x = Resolved <-> exists g, val e f a = Some (VNs g) /\ pubp proj g x = true.
Proof.
  intros f a x. rewrite qualified_visible_iff_exported_lemma. split.
  - intros (g & Ha & Hx & Hm). exists g. split; auto. exact (ld_sound _ _ L g x Hm).
  - intros (g & Ha & Hp). exists g. pose proof (namespace_values_are_loaded_lemma f a g Ha) as Hg.
    destruct (ld_pub _ _ L g x Hg Hp) as [A B]. repeat split; auto.
Qed.

Lemma run_unqualified_val : forall f x, run_unqualified e f x = Resolved <-> val e f x <> None.
Proof. intros. unfold run_unqualified, val. destruct (lookup_N x (ns_values (ns_of e f))); split; congruence. Qed.

(* (b) an unqualified name resolves in a loaded file exactly when it is a prelude name, a declaration of the
   file itself, an import alias of the file, or a public item of a file it imports without `as` *)
Theorem unqualified_visible_iff_lemma : forall f, hasns e f = true -> forall x,
  run_unqualified e f x = Resolved <-> allowed proj f x.
Proof.
  intros f Hf x. rewrite run_unqualified_val. split.
  - exact (ld_S _ _ L f x).
  - intros [H|[H|[(t & H)|(g & Hi & Hp)]]].
    + exact (ld_prel _ _ L f x H).
    + exact (ld_decl _ _ L f x Hf H).
    + exact (ld_alias _ _ L f t x Hf H).
    + exact (ld_plain _ _ L f g x Hf Hi Hp).
Qed.

(* completeness in any graph, cycles and self-imports included *)
Theorem unqualified_import_complete_lemma : forall f g x,
  hasns e f = true -> import_plain proj f g -> pubp proj g x = true -> run_unqualified e f x = Resolved.
Proof. intros f g x Hf Hi Hp. apply unqualified_visible_iff_lemma; auto. right. right. right. eauto. Qed.

(* nothing else becomes visible: no private item, no re-export *)
Theorem unqualified_import_sound_lemma : forall f x,
  hasns e f = true -> run_unqualified e f x = Resolved ->
  ~ In x prelude_names -> ~ declared proj f x -> (forall t, ~ import_alias proj f t x) ->
  exists g, import_plain proj f g /\ pubp proj g x = true.
Proof.
  intros f x Hf H N1 N2 N3. apply unqualified_visible_iff_lemma in H; auto.
  destruct H as [H|[H|[(t & H)|H]]]; try tauto. exfalso. eapply N3; eauto.
Qed.

Theorem loaded_files_exist_lemma : forall g, hasns e g = true -> g < length proj.
Proof. exact (ld_range _ _ L). Qed.

End Final.

(* ---- non-vacuity: a concrete cyclic project satisfies the hypotheses ---- *)
Definition ex_proj : Project :=
  [ [IImport 1 None; IFun 5 Public; IImport 0 None];
    [IImport 0 None; IFun 1 Public; IFun 2 Private; IEnum 22 Public [3%N]; IEnum 23 Private [4%N]; IImport 1 (Some 10%N)] ].

Lemma ex_proj_consistent : consistent_marks ex_proj.
Proof.
  intros g x. destruct g as [|[|g]]; unfold pubp, privp; cbn [nth_error ex_proj].
  - intros _. reflexivity.
  - unfold declares_public_value, declares_private_value. cbn [existsb shape_fixed sh_export_public_variants andb orb mem_N].
    destruct (N.eqb_spec 1 x); destruct (N.eqb_spec 2 x); destruct (N.eqb_spec x 3); destruct (N.eqb_spec x 4);
      subst; cbn; try discriminate; auto.
  - destruct g; cbn; discriminate.
Qed.

Lemma ex_proj_loads : exists e, load_root shape_fixed ex_proj 3 0 = Ok e /\
  run_unqualified e 0 1 = Resolved /\ run_unqualified e 0 3 = Resolved /\ run_unqualified e 0 2 = Rejected /\
  run_unqualified e 1 5 = Resolved /\ run_qualified e 1 10 1 = Resolved /\ run_qualified e 1 10 2 = Rejected.
Proof. eexists. split; [vm_compute; reflexivity|]. vm_compute. repeat split. Qed.

(* the hypothesis on the marks is needed: a name marked public AND private is not exported *)
Lemma consistent_marks_needed :
  let p := [[IFun 1 Public; IFun 1 Private]] in
  ~ consistent_marks p /\
  exists e, load_root shape_fixed p 2 0 = Ok e /\ pubp p 0 1 = true /\ exp e 0 1 = false.
Proof.
  split.
  - intros H. specialize (H 0 1%N eq_refl). vm_compute in H. discriminate.
  - eexists. split; [vm_compute; reflexivity|]. vm_compute. split; reflexivity.
Qed.
