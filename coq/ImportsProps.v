(* Proofs about the model of import loading and name resolution (Imports.v). *)
From Coq Require Import List Bool NArith Arith Lia.
Import ListNotations.
From Garden Require Import Imports.

Lemma remove_nat_length_le : forall x l, length (remove_nat x l) <= length l.
Proof. intros. unfold remove_nat. induction l; cbn; auto. destruct (negb (x =? a)); cbn; lia. Qed.

Lemma remove_nat_length_lt : forall x l, mem_nat x l = true -> length (remove_nat x l) < length l.
Proof.
  intros x l. unfold mem_nat, remove_nat. induction l as [|a l IH]; cbn; [discriminate|].
  destruct (x =? a) eqn:E; cbn.
  - intros _. pose proof (remove_nat_length_le x l). unfold remove_nat in H. lia.
  - intros H. specialize (IH H). lia.
Qed.

(* Termination: the nesting of loads is bounded by the number of files not yet in paths_seen. *)
Lemma load_items_fuel : forall sh proj fuel f items st,
  length (st_remaining st) < fuel ->
  load_items sh proj fuel f items st <> OutOfFuel /\
  forall st', load_items sh proj fuel f items st = Ok st' -> length (st_remaining st') <= length (st_remaining st).
Proof.
  intros sh proj fuel. induction fuel as [|fuel IH]; intros f items st Hlt; [lia|].
  cbn [load_items].
  match goal with |- context [ (fix go (its : list Item) (st0 : LoadState) {struct its} := _) ] => idtac end.
  set (go := fix go (its : list Item) (st0 : LoadState) {struct its} : Outcome LoadState := _).
  assert (G : forall its st0, length (st_remaining st0) <= length (st_remaining st) ->
              go its st0 <> OutOfFuel /\
              forall st', go its st0 = Ok st' -> length (st_remaining st') <= length (st_remaining st0)).
  { induction its as [|i rest IHr]; intros st0 Hle.
    - unfold go; cbn beta iota fix. split; [discriminate|]. intros st' E; inversion E; subst; lia.
    - destruct i as [name vis|t vis vs|t vis|t m vis|target alias]; cbn [go];
        try (match goal with |- ?g ?r ?s <> _ /\ _ =>
           let H := fresh "H" in
           assert (H : length (st_remaining s) <= length (st_remaining st)) by (cbn; exact Hle);
           let A := fresh "A" in let B := fresh "B" in
           destruct (IHr s H) as [A B]; split; [exact A | intros st' E; specialize (B st' E); cbn in B; exact B] end).
      destruct (mem_nat target (st_remaining st0)) eqn:Emem.
      + destruct (nth_error proj target) as [titems|]; [|split; [discriminate|intros ? E; discriminate]].
        pose proof (remove_nat_length_lt _ _ Emem) as Hrm.
        match goal with |- context [load_items sh proj fuel target titems ?s1] => set (st1 := s1) end.
        assert (Hlt1 : length (st_remaining st1) < fuel) by (cbn; lia).
        destruct (IH target titems st1 Hlt1) as [Hne Hmono].
        destruct (load_items sh proj fuel target titems st1) as [st2| |] eqn:El; try (split; [discriminate|intros ? E; discriminate]).
        * specialize (Hmono st2 eq_refl). cbn in Hmono.
          destruct (insert_imported sh (st_env st2) alias f target) as [e3| |] eqn:Ei;
            try (split; [discriminate|intros ? E; discriminate]).
          -- assert (Hle2 : length (st_remaining (with_env st2 e3)) <= length (st_remaining st)) by (cbn; lia).
             destruct (IHr (with_env st2 e3) Hle2) as [A B]. split; auto.
             intros st' E. specialize (B st' E). cbn in B. lia.
          -- unfold insert_imported in Ei. destruct alias; [discriminate|].
             destruct (f =? target); [destruct (sh_self_import_guard sh)|]; discriminate.
        * congruence.
      + destruct (target <? length proj).
        * destruct (get_ns (st_env st0) target).
          -- destruct (insert_imported sh (st_env st0) alias f target) as [e3| |] eqn:Ei;
               try (split; [discriminate|intros ? E; discriminate]).
             ++ match goal with |- context [with_env ?s e3] => set (st1 := s) end.
                assert (Hr : st_remaining (with_env st1 e3) = st_remaining st0)
                  by (subst st1; destruct alias; [|destruct (sh_finish_cyclic sh)]; reflexivity).
                assert (Hle2 : length (st_remaining (with_env st1 e3)) <= length (st_remaining st)) by (rewrite Hr; lia).
                destruct (IHr _ Hle2) as [A B]. split; auto.
                intros st' E. specialize (B st' E). rewrite Hr in B. exact B.
             ++ unfold insert_imported in Ei. destruct alias; [discriminate|].
                destruct (f =? target); [destruct (sh_self_import_guard sh)|]; discriminate.
          -- destruct (sh_missing_ns_guard sh); [(match goal with |- ?g ?r ?s <> _ /\ _ =>
           let H := fresh "H" in
           assert (H : length (st_remaining s) <= length (st_remaining st)) by (cbn; exact Hle);
           let A := fresh "A" in let B := fresh "B" in
           destruct (IHr s H) as [A B]; split; [exact A | intros st' E; specialize (B st' E); cbn in B; exact B] end) | split; [discriminate|intros ? E; discriminate]].
        * destruct (mem_nat target (st_failed st0)).
          -- destruct (sh_missing_ns_guard sh); [(match goal with |- ?g ?r ?s <> _ /\ _ =>
           let H := fresh "H" in
           assert (H : length (st_remaining s) <= length (st_remaining st)) by (cbn; exact Hle);
           let A := fresh "A" in let B := fresh "B" in
           destruct (IHr s H) as [A B]; split; [exact A | intros st' E; specialize (B st' E); cbn in B; exact B] end) | split; [discriminate|intros ? E; discriminate]].
          -- (match goal with |- ?g ?r ?s <> _ /\ _ =>
           let H := fresh "H" in
           assert (H : length (st_remaining s) <= length (st_remaining st)) by (cbn; exact Hle);
           let A := fresh "A" in let B := fresh "B" in
           destruct (IHr s H) as [A B]; split; [exact A | intros st' E; specialize (B st' E); cbn in B; exact B] end). }
  destruct (G (sort_items items) st (le_n _)) as [A B].
  destruct (go (sort_items items) st) as [st'| |] eqn:E; try (split; [discriminate|intros ? E'; discriminate]).
  - split; [discriminate|]. intros st'' E'. inversion E'; subst. cbn. apply B. reflexivity.
  - congruence.
Qed.

Theorem load_terminates_lemma : forall sh proj root fuel,
  length proj < fuel -> load_root sh proj fuel root <> OutOfFuel.
Proof.
  intros sh proj root fuel Hlt. unfold load_root.
  destruct (nth_error proj root) as [items|]; [|discriminate].
  match goal with |- context [load_items sh proj fuel root items ?s] => set (st := s) end.
  assert (H : length (st_remaining st) < fuel) by (cbn; rewrite seq_length; exact Hlt).
  destruct (load_items_fuel sh proj fuel root items st H) as [A _].
  destruct (load_items sh proj fuel root items st); try discriminate. congruence.
Qed.

(* Qualified access: `a::x` resolves exactly when `a` is bound to the namespace of some file g,
   x has a value there and x is in g's exported_syms. *)
Theorem qualified_visible_iff_exported_lemma : forall e f a x,
  run_qualified e f a x = Resolved <->
  exists g, lookup_N a (ns_values (ns_of e f)) = Some (VNs g) /\
            lookup_N x (ns_values (ns_of e g)) <> None /\ mem_N x (ns_exported (ns_of e g)) = true.
Proof.
  intros e f a x. unfold run_qualified. split.
  - destruct (lookup_N a (ns_values (ns_of e f))) as [[| |g| |]|]; try discriminate.
    destruct (lookup_N x (ns_values (ns_of e g))) eqn:E1; try discriminate.
    destruct (mem_N x (ns_exported (ns_of e g))) eqn:E2; try discriminate.
    intros _. exists g. rewrite E1. repeat split; auto. discriminate.
  - intros (g & Ha & Hx & Hm). rewrite Ha. destruct (lookup_N x (ns_values (ns_of e g))); [|congruence].
    now rewrite Hm.
Qed.

(* Check time and run time take the same decision, for every environment. *)
Theorem check_and_run_agree_lemma : forall e f a x,
  check_qualified e f a x = run_qualified e f a x /\ check_unqualified e f x = run_unqualified e f x.
Proof.
  intros e f a x. split.
  - unfold check_qualified, run_qualified.
    destruct (lookup_N a (ns_values (ns_of e f))) as [[| |g| |]|]; try reflexivity.
    destruct (lookup_N x (ns_values (ns_of e g))); try reflexivity.
    destruct (mem_N x (ns_exported (ns_of e g))); reflexivity.
  - unfold check_unqualified, run_unqualified, ns_of. destruct (get_ns e f); reflexivity.
Qed.

(* ---- concrete projects (names: 1 = pub_f, 2 = priv_f, 3 = PubVariant, 4 = PrivVariant, 10.. = aliases,
        20 = PubStruct?, 21 = PrivStruct, 22 = PubEnum, 23 = PrivEnum, 30 = pub_m, 31 = priv_m on type 40) ---- *)
Definition lib : File :=
  [ IFun 1 Public; IFun 2 Private; IEnum 22 Public [3%N]; IEnum 23 Private [4%N];
    IStruct 20 Public; IStruct 21 Private; IMethod 40 30 Public; IMethod 40 31 Private ].
Definition main_alias : File := [ IImport 1 (Some 10%N) ].
Definition main_plain : File := [ IImport 1 None ].

Definition loaded (sh : LoaderShape) (proj : Project) : option Env :=
  match load_root sh proj (S (length proj)) 0 with Ok e => Some e | _ => None end.

Definition option_map2 {A B} (f : A -> B) (o : option A) : option B := match o with Some a => Some (f a) | None => None end.

(* the expected finding: private struct / enum / method of an imported file ARE usable by the importer,
   with either import form, in the fixed loader too (types live in one global table) *)
Theorem types_visible_refuted_lemma :
  forall sh, In sh [shape_unfixed; shape_fixed] ->
  forall main, In main [main_alias; main_plain] ->
  option_map2 (fun e => (type_usable e 0 21, type_usable e 0 23, method_usable e 0 40 31)) (loaded sh [main; lib])
  = Some (Resolved, Resolved, Resolved).
Proof.
  intros sh [<-|[<-|[]]] main [<-|[<-|[]]]; vm_compute; reflexivity.
Qed.

(* values: exactly the public ones, both import forms (fixed loader; variants included) *)
Lemma values_example_fixed :
  option_map2 (fun e => (run_qualified e 0 10 1, run_qualified e 0 10 2, run_qualified e 0 10 3, run_qualified e 0 10 4,
                         run_qualified e 0 10 0 (* prelude through the namespace *), run_qualified e 0 10 99))
              (loaded shape_fixed [main_alias; lib])
  = Some (Resolved, Rejected, Resolved, Rejected, Rejected, Rejected)
  /\
  option_map2 (fun e => (run_unqualified e 0 1, run_unqualified e 0 2, run_unqualified e 0 3, run_unqualified e 0 4))
              (loaded shape_fixed [main_plain; lib])
  = Some (Resolved, Rejected, Resolved, Rejected).
Proof. vm_compute. split; reflexivity. Qed.

(* the unfixed loader: variants of a public enum are NOT reachable *)
Lemma unfixed_public_variant_unreachable :
  option_map2 (fun e => (run_qualified e 0 10 3)) (loaded shape_unfixed [main_alias; lib]) = Some Rejected /\
  option_map2 (fun e => (run_unqualified e 0 3)) (loaded shape_unfixed [main_plain; lib]) = Some Rejected.
Proof. vm_compute. split; reflexivity. Qed.

(* the unfixed loader panics on an unqualified self-import and on a missing file imported twice *)
Lemma unfixed_self_import_panics :
  load_root shape_unfixed [[IImport 0 None; IFun 1 Public]] 2 0 = Panic /\
  loaded shape_fixed [[IImport 0 None; IFun 1 Public]] <> None.
Proof. vm_compute. split; [reflexivity|discriminate]. Qed.
Lemma unfixed_missing_twice_panics :
  load_root shape_unfixed [[IImport 7 (Some 10%N); IImport 7 (Some 11%N)]] 2 0 = Panic /\
  loaded shape_fixed [[IImport 7 (Some 10%N); IImport 7 (Some 11%N)]] <> None.
Proof. vm_compute. split; [reflexivity|discriminate]. Qed.

(* cycle b <-> c reached from main, all unqualified: in the unfixed loader c does not see b's public
   function (b was still being loaded when c imported it); in the fixed loader it does *)
Definition cyc : Project :=
  [ [IImport 1 None]; [IImport 2 None; IFun 1 Public]; [IImport 1 None; IFun 5 Public] ].
Lemma cyclic_unqualified_import :
  option_map2 (fun e => run_unqualified e 2 1) (loaded shape_unfixed cyc) = Some Rejected /\
  option_map2 (fun e => (run_unqualified e 2 1, run_unqualified e 1 5, run_unqualified e 0 1, run_unqualified e 0 5))
              (loaded shape_fixed cyc) = Some (Resolved, Resolved, Resolved, Rejected).
Proof. vm_compute. split; reflexivity. Qed.
