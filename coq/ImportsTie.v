(* Ties the statements about imports to the loader shape regenerated from src/eval.rs (gen/ImportsGen.v).
   These lemmas stop computing to the stated results when a repair is missing from the source. *)
From Coq Require Import List Bool NArith Arith.
Import ListNotations.
From Garden Require Import Imports ImportsProps gen.ImportsGen.

Lemma current_loader_values :
  option_map2 (fun e => (run_qualified e 0 10 1, run_qualified e 0 10 2, run_qualified e 0 10 3, run_qualified e 0 10 4,
                         run_qualified e 0 10 0, run_qualified e 0 10 99))
              (loaded loader_shape [main_alias; lib])
  = Some (Resolved, Rejected, Resolved, Rejected, Rejected, Rejected)
  /\
  option_map2 (fun e => (run_unqualified e 0 1, run_unqualified e 0 2, run_unqualified e 0 3, run_unqualified e 0 4))
              (loaded loader_shape [main_plain; lib])
  = Some (Resolved, Rejected, Resolved, Rejected).
Proof. vm_compute. split; reflexivity. Qed.

Lemma current_loader_cycles :
  option_map2 (fun e => (run_unqualified e 2 1, run_unqualified e 1 5, run_unqualified e 0 1, run_unqualified e 0 5))
              (loaded loader_shape cyc) = Some (Resolved, Resolved, Resolved, Rejected)
  /\ loaded loader_shape [[IImport 0 None; IFun 1 Public]] <> None
  /\ loaded loader_shape [[IImport 7 (Some 10%N); IImport 7 (Some 11%N)]] <> None.
Proof. vm_compute. repeat split; discriminate. Qed.

Lemma current_loader_types_visible :
  forall main, In main [main_alias; main_plain] ->
  option_map2 (fun e => (type_usable e 0 21, type_usable e 0 23, method_usable e 0 40 31)) (loaded loader_shape [main; lib])
  = Some (Resolved, Resolved, Resolved).
Proof. intros main [<-|[<-|[]]]; vm_compute; reflexivity. Qed.
