(* Ties the statements about imports to the loader shape regenerated from src/eval.rs (gen/ImportsGen.v).
   These lemmas stop computing to the stated results when a repair is missing from the source. *)
From Coq Require Import List Bool NArith Arith.
Import ListNotations.
From Garden Require Import Imports ImportsProps ImportsGeneral gen.ImportsGen.

Lemma current_loader_values :
  option_map2 (fun e => (run_qualified e 0 10 1, run_qualified e 0 10 2, run_qualified e 0 10 3, run_qualified e 0 10 4,
                         run_qualified e 0 10 0, run_qualified e 0 10 99))
              (loaded loader_shape [main_alias; lib])
  = Some (Resolved, Rejected, Resolved, Rejected, Rejected, Rejected)
  /\
  option_map2 (fun e => (run_unqualified e 0 1, run_unqualified e 0 2, run_unqualified e 0 3, run_unqualified e 0 4))
              (loaded loader_shape [main_plain; lib])
  = Some (Resolved, Rejected, Resolved, Rejected).
Proof. vm_compute. split; reflexivity. Qed.

Lemma current_loader_cycles :
  option_map2 (fun e => (run_unqualified e 2 1, run_unqualified e 1 5, run_unqualified e 0 1, run_unqualified e 0 5))
              (loaded loader_shape cyc) = Some (Resolved, Resolved, Resolved, Rejected)
  /\ loaded loader_shape [[IImport 0 None; IFun 1 Public]] <> None
  /\ loaded loader_shape [[IImport 7 (Some 10%N); IImport 7 (Some 11%N)]] <> None.
Proof. vm_compute. repeat split; discriminate. Qed.

Lemma current_loader_types_visible :
  forall main, In main [main_alias; main_plain] ->
  option_map2 (fun e => (type_usable e 0 21, type_usable e 0 23, method_usable e 0 40 31)) (loaded loader_shape [main; lib])
  = Some (Resolved, Resolved, Resolved).
Proof. intros main [<-|[<-|[]]]; vm_compute; reflexivity. Qed.

(* ---- general theorems (ImportsGeneral.v) for the loader shape of the CURRENT source ---- *)
Lemma loader_shape_is_fixed : loader_shape = shape_fixed.
Proof. reflexivity. Qed.

Section TiedGeneral.
Variable proj : Project.
Variable root fuel : nat.
Variable e : Env.
Hypothesis Hcons : consistent_marks proj.
Hypothesis Hroot : root < length proj.
Hypothesis Hload : load_root loader_shape proj fuel root = Ok e.

Let Hload' : load_root shape_fixed proj fuel root = Ok e.
Proof. rewrite <- loader_shape_is_fixed. exact Hload. Qed.

Lemma exported_iff_public_tied : forall g, hasns e g = true -> forall x, exp e g x = pubp proj g x.
Proof. exact (exported_iff_public_lemma proj root fuel e Hcons Hroot Hload'). Qed.
Lemma qualified_visible_iff_public_tied : forall f a x,
  run_qualified e f a x = Resolved <-> exists g, val e f a = Some (VNs g) /\ pubp proj g x = true.
Proof. exact (qualified_visible_iff_public_lemma proj root fuel e Hcons Hroot Hload'). Qed.
Lemma unqualified_visible_iff_tied : forall f, hasns e f = true -> forall x,
  run_unqualified e f x = Resolved <-> allowed proj f x.
Proof. exact (unqualified_visible_iff_lemma proj root fuel e Hcons Hroot Hload'). Qed.
Lemma unqualified_import_complete_tied : forall f g x,
  hasns e f = true -> import_plain proj f g -> pubp proj g x = true -> run_unqualified e f x = Resolved.
Proof. exact (unqualified_import_complete_lemma proj root fuel e Hcons Hroot Hload'). Qed.
Lemma unqualified_import_sound_tied : forall f x,
  hasns e f = true -> run_unqualified e f x = Resolved ->
  ~ In x prelude_names -> ~ declared proj f x -> (forall t, ~ import_alias proj f t x) ->
  exists g, import_plain proj f g /\ pubp proj g x = true.
Proof. exact (unqualified_import_sound_lemma proj root fuel e Hcons Hroot Hload'). Qed.
Lemma loaded_tied : hasns e root = true /\ (forall g, hasns e g = true -> g < length proj) /\
  (forall f a g, val e f a = Some (VNs g) -> hasns e g = true).
Proof.
  split; [exact (root_is_loaded proj root fuel e Hcons Hroot Hload')|].
  split; [exact (loaded_files_exist_lemma proj root fuel e Hcons Hroot Hload')|].
  exact (namespace_values_are_loaded_lemma proj root fuel e Hcons Hroot Hload').
Qed.
End TiedGeneral.
