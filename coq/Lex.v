(* Lex -- MODEL of garden's lexer, /repo/src/parser/lex.rs `lex_between`
   called as `lex(vfs_path, s) = lex_between(vfs_path, s, 0, s.len())`.

   Definitions only (proofs are in LexProps.v).

   The source is the list of its chars (`list N`, see Base/Utf.v); offsets,
   columns and lengths are BYTES exactly as in the Rust.  Every Rust slice
   `&s[a..b]` is checked against char boundaries (`drop_bytes`/`take_bytes`) and
   yields the distinguished result `LexPanic` when off a boundary; so does an
   out-of-range `LinePositions::from_offset`.

   The model follows the code WITH the three defect fixes applied
   (handoff/lex/fix-*.diff).  The behaviour of the code BEFORE each fix is kept
   selectable through `lex_cfg` so that the refuting inputs stay checkable
   (LexProps.v: `orig_*` examples).  In comments Q stands for the double-quote
   character (a literal one would open a string inside a Coq comment):
     fix_a  whitespace and unrecognised characters advance by `len_utf8()`
            (before: `offset += 1`, `&s[0..1]`  -> panic on multi-byte chars)
     fix_b  STRING_RE = ^Q(\\.|[^Q])*(Q|\z)     (before: ^Q(\\Q|[^Q])*(Q|\z))
     fix_c  a string token's end line/column come from
            `lp.from_offset(end_offset)`        (before: start line, column+len)

   Modelled, not verified: the `regex` crate (the four anchored regexes are
   re-implemented as deterministic scanners: for each of them the
   leftmost-first match is the greedy first-preference path, no backtracking
   is ever needed -- see the comment at each scanner), `line_numbers`
   (`from_offset`), Rust `str` methods.  tools/props/C01.py, C23.py run this
   model, extracted, against the real lexer. *)
From Coq Require Import NArith Bool List.
From Garden Require Import Base.Utf.
Import ListNotations.
Open Scope N_scope.

(* ------------------------------------------------------------------ *)
(* Interface types *)

(* parser/position.rs `Position` without path / vfs_path *)
Record pos := mkpos {
  start_offset : N;
  end_offset : N;
  line : N;          (* line_number *)
  end_line : N;      (* end_line_number *)
  column : N;
  end_column : N
}.

(* the six fields in the order of the wire format (used by the extracted driver
   so that it does not depend on record field names) *)
Definition pos_fields (p : pos) : list N :=
  [start_offset p; end_offset p; line p; end_line p; column p; end_column p].
Definition pos_of_fields (s e l el c ec : N) : pos := mkpos s e l el c ec.

Definition comment := (pos * list N)%type.

(* lex.rs `Token` *)
Record token := mktoken {
  tpos : pos;
  ttext : list N;
  tcomments : list comment     (* preceding_comments *)
}.

Inductive lex_msg :=
| UnclosedString                    (* "Unclosed string literal." *)
| Unrecognized (text : list N).     (* "Unrecognized syntax `<text>`" *)

(* ParseError::Invalid { position, message, notes: [] } *)
Record lex_error := mkerr { epos : pos; emsg : lex_msg }.

Inductive lex_result :=
| LexOk (toks : list token) (trailing : list comment) (errs : list lex_error)
| LexPanic
| LexOutOfFuel.

Definition tok_texts (ts : list token) : list (list N) := map ttext ts.

(* Position::merge(first, second) *)
Definition merge (first second : pos) : pos :=
  mkpos (start_offset first)
        (N.max (end_offset first) (end_offset second))
        (line first)
        (N.max (end_line first) (end_line second))
        (column first)
        (if end_offset second <? end_offset first then end_column first else end_column second).

(* ------------------------------------------------------------------ *)
(* Which version of the code *)

Record lex_cfg := mkcfg { fix_a : bool; fix_b : bool; fix_c : bool }.
Definition cfg_fixed : lex_cfg := mkcfg true true true.
Definition cfg_orig : lex_cfg := mkcfg false false false.

(* ------------------------------------------------------------------ *)
(* line_numbers::LinePositions::from(s).from_offset(o)
   Lines are split at `\n` only; the line of offset o is the number of `\n`
   bytes before o, the column is the number of bytes since the last of them.
   Works on any byte offset (also inside a char).  None = the crate's
   `assert!(offset <= len)` fails (panic). *)
Fixpoint from_offset_go (s : list N) (o ln col : N) {struct s} : option (N * N) :=
  if o =? 0 then Some (ln, col) else
  match s with
  | [] => None
  | c :: r =>
    if o <? len_utf8 c then Some (ln, col + o)
    else if c =? LF then from_offset_go r (o - 1) (ln + 1) 0
    else from_offset_go r (o - len_utf8 c) ln (col + len_utf8 c)
  end.
Definition from_offset (s : list N) (o : N) : option (N * N) := from_offset_go s o 0 0.

(* ------------------------------------------------------------------ *)
(* Character classes and token tables *)

Definition QUOTE : N := 34.       (* 'Q' *)
Definition BACKSLASH : N := 92.
Definition MINUS : N := 45.
Definition DOT : N := 46.
Definition SLASH : N := 47.
Definition HASH : N := 35.
Definition UNDERSCORE : N := 95.

Definition is_digit (c : N) : bool := (48 <=? c) && (c <=? 57).                (* [0-9] *)
Definition is_digit_us (c : N) : bool := is_digit c || (c =? UNDERSCORE).      (* [0-9_] *)
Definition is_sym_start (c : N) : bool :=                                       (* [a-zA-Z_] *)
  ((97 <=? c) && (c <=? 122)) || ((65 <=? c) && (c <=? 90)) || (c =? UNDERSCORE).
Definition is_sym_char (c : N) : bool := is_sym_start c || is_digit c.          (* [a-zA-Z0-9_] *)

(* TWO_CHAR_OPERATORS ++ TWO_CHAR_TOKENS:
   == != >= <= && || += -= ** +. -. *. /.  => :: *)
Definition two_char_tokens : list (N * N) :=
  [(61,61); (33,61); (62,61); (60,61); (38,38); (124,124); (43,61); (45,61); (42,42);
   (43,46); (45,46); (42,46); (47,46); (61,62); (58,58)].

(* ONE_CHAR_OPERATORS ++ ONE_CHAR_TOKENS:
   + - * / % ^ = < > & |   ( ) { } , [ ] . : *)
Definition one_char_tokens : list N :=
  [43; 45; 42; 47; 37; 94; 61; 60; 62; 38; 124;  40; 41; 123; 125; 44; 91; 93; 46; 58].

(* s.starts_with(<two chars a b>) *)
Definition starts_with2 (a b : N) (s : list N) : bool :=
  match s with
  | x :: y :: _ => (x =? a) && (y =? b)
  | _ => false
  end.

(* ------------------------------------------------------------------ *)
(* The four regexes as scanners.  Each returns the matched text
   (`m.as_str()`); `m.end()` is its byte length. *)

(* maximal prefix satisfying p, and the rest *)
Fixpoint span (p : N -> bool) (s : list N) : list N * list N :=
  match s with
  | [] => ([], [])
  | c :: r => if p c then let (a, b) := span p r in (c :: a, b) else ([], s)
  end.

(* [0-9][0-9_]*  -> (matched, rest) *)
Definition scan_digits (s : list N) : option (list N * list N) :=
  match s with
  | c :: r => if is_digit c then let (a, b) := span is_digit_us r in Some (c :: a, b) else None
  | [] => None
  end.

(* -?  (if the `-` is taken and the rest fails, retrying without it fails too
   because `-` is not a digit) *)
Definition opt_minus (s : list N) : list N * list N :=
  match s with
  | c :: r => if c =? MINUS then ([MINUS], r) else ([], s)
  | [] => ([], s)
  end.

(* INTEGER_RE  ^-?[0-9][0-9_]* *)
Definition integer_re (s : list N) : option (list N) :=
  let (sign, s1) := opt_minus s in
  match scan_digits s1 with
  | Some (a, _) => Some (sign ++ a)
  | None => None
  end.

(* FLOAT_RE  ^-?[0-9][0-9_]*\.[0-9][0-9_]*
   (`[0-9_]*` is greedy; a shorter repetition would have to be followed by `.`
   but is followed by a char of [0-9_], so the greedy path is the only one) *)
Definition float_re (s : list N) : option (list N) :=
  let (sign, s1) := opt_minus s in
  match scan_digits s1 with
  | Some (a, r1) =>
    match r1 with
    | d :: r2 =>
      if d =? DOT then
        match scan_digits r2 with
        | Some (b, _) => Some (sign ++ a ++ DOT :: b)
        | None => None
        end
      else None
    | [] => None
    end
  | None => None
  end.

(* SYMBOL_RE  ^[a-zA-Z_][a-zA-Z0-9_]* *)
Definition symbol_re (s : list N) : option (list N) :=
  match s with
  | c :: r => if is_sym_start c then Some (c :: fst (span is_sym_char r)) else None
  | [] => None
  end.

(* The part of STRING_RE after the opening quote: (ALT)*(Q|\z) with
     ALT = \\.|[^Q]   (fixed; `.` is any char but `\n`)
     ALT = \\Q|[^Q]   (before fix_b).
   Leftmost-first: at each position the first alternative is tried first and
   the star is greedy; an iteration is impossible only in front of a `Q` or at
   the end of the text, and there the tail `(Q|\z)` matches, so the first
   path tried succeeds. *)
Fixpoint string_body (fixb : bool) (s : list N) {struct s} : list N :=
  match s with
  | [] => []                                      (* \z *)
  | c :: r =>
    if c =? QUOTE then [QUOTE]                    (* closing quote *)
    else if c =? BACKSLASH then
      match r with
      | d :: r' =>
        if (if fixb then negb (d =? LF) else d =? QUOTE)
        then c :: d :: string_body fixb r'        (* \\.  /  \\Q *)
        else c :: string_body fixb r              (* [^Q] *)
      | [] => [c]
      end
    else c :: string_body fixb r                  (* [^Q] *)
  end.

(* STRING_RE  ^Q(ALT)*(Q|\z) *)
Definition string_re (fixb : bool) (s : list N) : option (list N) :=
  match s with
  | c :: r => if c =? QUOTE then Some (QUOTE :: string_body fixb r) else None
  | [] => None
  end.

(* text.ends_with('Q') *)
Definition ends_with_quote (t : list N) : bool :=
  match rev t with c :: _ => c =? QUOTE | [] => false end.

(* match text.split_once("\n") { Some((before, _)) => before, None => text } *)
Fixpoint before_lf (t : list N) : list N :=
  match t with
  | [] => []
  | c :: r => if c =? LF then [] else c :: before_lf r
  end.

(* ------------------------------------------------------------------ *)
(* One iteration of `'outer: while offset < end_offset { ... }` *)

Inductive step :=
| SPanic
| SBreak                                              (* s.chars().next() is None *)
| SSkip (n : N)                                       (* offset += n *)
| SComment (p : pos) (text : list N) (n : N)          (* preceding_comments.push; offset += n *)
| SToken (p : pos) (text : list N) (n : N)            (* tokens.push; offset += n *)
| SErrToken (ep : pos) (m : lex_msg) (p : pos) (text : list N) (n : N)
                                                      (* errors.push; tokens.push; offset += n *)
| SErr (ep : pos) (m : lex_msg) (n : N).              (* errors.push; offset += n *)

(* Position { start_offset: offset, end_offset: offset + n, line_number, end_line_number: line_number,
              column, end_column: column + n } with (line_number, column) = lp.from_offset(offset) *)
Definition single_line_pos (src : list N) (offset n : N) : option pos :=
  match from_offset src offset with
  | Some (ln, col) => Some (mkpos offset (offset + n) ln ln col (col + n))
  | None => None
  end.

(* token of text `&s[0..n]` (checked slice) at a single-line position *)
Definition slice_token (src s : list N) (offset n : N) : step :=
  match single_line_pos src offset n, take_bytes s n with
  | Some p, Some t => SToken p t n
  | _, _ => SPanic
  end.

(* token whose text is a regex match m (a `&str` produced by the regex crate:
   no slicing by the lexer) *)
Definition match_token (src : list N) (offset : N) (m : list N) : step :=
  match single_line_pos src offset (blen m) with
  | Some p => SToken p m (blen m)
  | None => SPanic
  end.

Definition lex_step (cfg : lex_cfg) (src : list N) (offset : N) : step :=
  match drop_bytes src offset with                 (* let s = &s[offset..]; *)
  | None => SPanic
  | Some s =>
    if starts_with2 SLASH SLASH s then             (* // comment *)
      match from_offset src offset with
      | None => SPanic
      | Some (ln, col) =>
        match find_lf s with
        | Some i =>
          match take_bytes s (i + 1) with          (* &s[0..i + 1] *)
          | Some t => SComment (mkpos offset (offset + i) ln ln col (col + i)) t (i + 1)
          | None => SPanic
          end
        | None =>
          SComment (mkpos offset (offset + blen s) ln ln col (col + blen s)) s (blen s)
        end
      end
    else
    match s with
    | [] => SBreak
    | first_char :: _ =>
      if is_whitespace first_char then
        SSkip (if fix_a cfg then len_utf8 first_char else 1)
      else if existsb (fun ab => starts_with2 (fst ab) (snd ab) s) two_char_tokens then
        slice_token src s offset 2                 (* &s[0..token_str.len()] *)
      else
      match float_re s with
      | Some m => match_token src offset m
      | None =>
      match integer_re s with
      | Some m => match_token src offset m
      | None =>
      if existsb (N.eqb first_char) one_char_tokens then
        slice_token src s offset 1                 (* &s[0..1] *)
      else
      match string_re (fix_b cfg) s with
      | Some text =>
        if ends_with_quote text then               (* well-formed string literal *)
          let n := blen text in
          match from_offset src offset with
          | None => SPanic
          | Some (ln, col) =>
            if fix_c cfg then
              match from_offset src (offset + n) with
              | Some (eln, ecol) => SToken (mkpos offset (offset + n) ln eln col ecol) text n
              | None => SPanic
              end
            else SToken (mkpos offset (offset + n) ln ln col (col + n)) text n
          end
        else                                       (* unclosed: up to the end of the line *)
          let text_content := before_lf text in
          let n := blen text_content in
          match single_line_pos src offset n with
          | Some p => SErrToken p UnclosedString p text_content n
          | None => SPanic
          end
      | None =>
      match symbol_re s with
      | Some m => match_token src offset m
      | None =>
        let n := if fix_a cfg then len_utf8 first_char else 1 in
        match single_line_pos src offset n, take_bytes s n with   (* &s[0..n] in the message *)
        | Some p, Some t => SErr p (Unrecognized t) n
        | _, _ => SPanic
        end
      end end end end
    end
  end.

(* ------------------------------------------------------------------ *)
(* The loop.  Tokens / errors are produced in order (the Rust pushes to
   vectors); `pc` is `preceding_comments`. *)

Definition cons_tok (t : token) (r : lex_result) : lex_result :=
  match r with LexOk ts tr es => LexOk (t :: ts) tr es | _ => r end.
Definition cons_err (e : lex_error) (r : lex_result) : lex_result :=
  match r with LexOk ts tr es => LexOk ts tr (e :: es) | _ => r end.

Fixpoint lex_loop (cfg : lex_cfg) (fuel : nat) (src : list N) (end_off offset : N)
         (pc : list comment) {struct fuel} : lex_result :=
  match fuel with
  | O => LexOutOfFuel
  | S f =>
    if offset <? end_off then
      match lex_step cfg src offset with
      | SPanic => LexPanic
      | SBreak => LexOk [] pc []
      | SSkip n => lex_loop cfg f src end_off (offset + n) pc
      | SComment p t n => lex_loop cfg f src end_off (offset + n) (pc ++ [(p, t)])
      | SToken p t n => cons_tok (mktoken p t pc) (lex_loop cfg f src end_off (offset + n) [])
      | SErrToken ep m p t n =>
        cons_err (mkerr ep m) (cons_tok (mktoken p t pc) (lex_loop cfg f src end_off (offset + n) []))
      | SErr ep m n => cons_err (mkerr ep m) (lex_loop cfg f src end_off (offset + n) pc)
      end
    else LexOk [] pc []          (* trailing_comments: preceding_comments *)
  end.

(* lex(s) = lex_between(s, 0, s.len()), including the shebang skip
     if offset == 0 && s.starts_with('#') { offset = s.find('\n').unwrap_or(s.len()); } *)
Definition shebang_skip (src : list N) : N :=
  match src with
  | c :: _ => if c =? HASH then match find_lf src with Some i => i | None => blen src end else 0
  | [] => 0
  end.

Definition lex_with (cfg : lex_cfg) (src : list N) : lex_result :=
  lex_loop cfg (S (length src)) src (blen src) (shebang_skip src) [].

Definition lex (src : list N) : lex_result := lex_with cfg_fixed src.

(* ------------------------------------------------------------------ *)
(* Strings: how a value is printed and how a string token is read.

   values.rs `escape_string_literal` (used by Value::display for strings, hence
   by `string_repr`, `dbg` and the REPL):
     'Q' -> \Q   '\n' -> \n   '\\' -> \\   everything else unchanged *)
Fixpoint escape_body (s : list N) : list N :=
  match s with
  | [] => []
  | c :: r =>
    if c =? QUOTE then BACKSLASH :: QUOTE :: escape_body r
    else if c =? LF then BACKSLASH :: 110 :: escape_body r
    else if c =? BACKSLASH then BACKSLASH :: BACKSLASH :: escape_body r
    else c :: escape_body r
  end.
Definition escape (s : list N) : list N := QUOTE :: escape_body s ++ [QUOTE].

(* parser.rs `unescape_string` (the diagnostics it also returns are modelled
   as a count of invalid escape sequences):
     \n \t \\ \Q are decoded; any other `\` is kept as is and reported. *)
Fixpoint unescape_chars (s : list N) {struct s} : list N * N :=
  match s with
  | [] => ([], 0)
  | c :: r =>
    if c =? BACKSLASH then
      match r with
      | d :: r' =>
        if d =? 110 then let (t, e) := unescape_chars r' in (LF :: t, e)
        else if d =? 116 then let (t, e) := unescape_chars r' in (9 :: t, e)
        else if d =? BACKSLASH then let (t, e) := unescape_chars r' in (BACKSLASH :: t, e)
        else if d =? QUOTE then let (t, e) := unescape_chars r' in (QUOTE :: t, e)
        else let (t, e) := unescape_chars r in (c :: t, e + 1)
      | [] => ([c], 1)
      end
    else let (t, e) := unescape_chars r in (c :: t, e)
  end.

(* let mut s = &src[1..]; if s.ends_with('Q') { s = &s[..s.len() - 1]; }
   None = the slice `&src[1..]` panics (cannot happen for a string token: it
   starts with `Q`). *)
Definition strip_quotes (tok : list N) : option (list N) :=
  match drop_bytes tok 1 with
  | None => None
  | Some s => if ends_with_quote s then Some (removelast s) else Some s
  end.

Definition unescape (tok : list N) : option (list N * N) :=
  match strip_quotes tok with
  | None => None
  | Some s => Some (unescape_chars s)
  end.
