(* LexProps -- specifications and proofs about the lexer model (Lex.v).

   Part 1  facts about Base/Utf.v (byte lengths, boundaries)
   Part 2  specification of line/column of a byte offset, well-formed positions,
           `from_offset` meets it, Position::merge preserves it
   Part 3  the scanners return non-empty prefixes
   Part 4  one lexer iteration: never panics, advances, positions well-formed
   Part 5  the loop: `lex` is total and all positions are well-formed
   Part 6  strings: escape / STRING scanner / unescape round trip
   Part 7  the code before the fixes is refuted (concrete inputs)            *)
From Coq Require Import NArith Bool List Lia.
From Garden Require Import Base.Utf Lex.
Import ListNotations.
Open Scope N_scope.

(* ================================================================== *)
(* Part 1: Utf *)

Lemma len_utf8_range : forall c, 1 <= len_utf8 c <= 4.
Proof.
  intro c. unfold len_utf8.
  destruct (c <? 128); [lia|]. destruct (c <? 2048); [lia|]. destruct (c <? 65536); lia.
Qed.

Lemma len_utf8_ascii : forall c, c < 128 -> len_utf8 c = 1.
Proof. intros c H. unfold len_utf8. apply N.ltb_lt in H. now rewrite H. Qed.

Lemma blen_app : forall a b, blen (a ++ b) = blen a + blen b.
Proof. induction a as [|c a IH]; intro b; cbn [blen app]; [reflexivity|]. rewrite IH. lia. Qed.

Lemma blen_nonempty : forall m, m <> [] -> 1 <= blen m.
Proof.
  intros [|c m] H; [congruence|]. cbn [blen]. pose proof (len_utf8_range c). lia.
Qed.

Lemma split_bytes_app : forall p q, split_bytes (p ++ q) (blen p) = Some (p, q).
Proof.
  induction p as [|c p IH]; intro q.
  - cbn. destruct q; reflexivity.
  - cbn [app blen split_bytes]. pose proof (len_utf8_range c) as Hc.
    destruct (N.eqb_spec (len_utf8 c + blen p) 0) as [E|_]; [lia|].
    destruct (N.ltb_spec (len_utf8 c + blen p) (len_utf8 c)) as [L|_]; [lia|].
    replace (len_utf8 c + blen p - len_utf8 c) with (blen p) by lia.
    now rewrite IH.
Qed.

Lemma split_bytes_sound : forall s o p q, split_bytes s o = Some (p, q) -> s = p ++ q /\ blen p = o.
Proof.
  induction s as [|c s IH]; intros o p q H.
  - cbn in H. destruct (N.eqb_spec o 0) as [E|E]; [|discriminate].
    inversion H; subst. now split.
  - cbn [split_bytes] in H. destruct (N.eqb_spec o 0) as [E|E].
    + inversion H; subst. now split.
    + destruct (N.ltb_spec o (len_utf8 c)) as [L|L]; [discriminate|].
      destruct (split_bytes s (o - len_utf8 c)) as [[p' q']|] eqn:E'; [|discriminate].
      inversion H; subst. apply IH in E'. destruct E' as [-> E2].
      split; [reflexivity|]. cbn [blen]. lia.
Qed.

Lemma boundary_iff : forall s o, boundary s o <-> is_boundary s o = true.
Proof.
  intros s o. unfold boundary, is_boundary. split.
  - intros (p & q & -> & <-). now rewrite split_bytes_app.
  - destruct (split_bytes s o) as [[p q]|] eqn:E; [|discriminate].
    intros _. apply split_bytes_sound in E. now exists p, q.
Qed.

Lemma drop_bytes_app : forall p q, drop_bytes (p ++ q) (blen p) = Some q.
Proof. intros. unfold drop_bytes. now rewrite split_bytes_app. Qed.

Lemma take_bytes_app : forall p q, take_bytes (p ++ q) (blen p) = Some p.
Proof. intros. unfold take_bytes. now rewrite split_bytes_app. Qed.

Lemma count_lf_app : forall a b, count_lf (a ++ b) = count_lf a + count_lf b.
Proof. induction a as [|c a IH]; intro b; cbn [count_lf app]; [reflexivity|]. rewrite IH. lia. Qed.

Lemma after_last_lf_nolf : forall m, count_lf m = 0 -> after_last_lf m = m.
Proof.
  induction m as [|c m IH]; intro H; [reflexivity|].
  cbn [count_lf] in H. cbn [after_last_lf].
  destruct (N.eqb_spec c LF) as [E|E]; [lia|].
  assert (H0 : count_lf m = 0) by lia. rewrite H0. reflexivity.
Qed.

Lemma after_last_lf_app_nolf : forall p m, count_lf m = 0 ->
  after_last_lf (p ++ m) = after_last_lf p ++ m.
Proof.
  induction p as [|c p IH]; intros m H.
  - cbn [app after_last_lf]. now apply after_last_lf_nolf.
  - cbn [app after_last_lf]. rewrite count_lf_app, H, N.add_0_r.
    destruct (0 <? count_lf p); [now apply IH|].
    destruct (c =? LF); reflexivity.
Qed.

(* two decompositions of the same text: the shorter prefix is a prefix of the longer *)
Lemma prefix_of_prefix : forall p1 q1 p2 q2, p1 ++ q1 = p2 ++ q2 -> blen p1 <= blen p2 ->
  exists d, p2 = p1 ++ d.
Proof.
  induction p1 as [|c p1 IH]; intros q1 p2 q2 E L.
  - now exists p2.
  - destruct p2 as [|c2 p2].
    + cbn [blen] in L. pose proof (len_utf8_range c). lia.
    + cbn [app] in E. inversion E; subst. cbn [blen] in L.
      destruct (IH q1 p2 q2 H1) as [d ->]; [lia|]. now exists d.
Qed.

Lemma prefix_unique : forall p1 q1 p2 q2, p1 ++ q1 = p2 ++ q2 -> blen p1 = blen p2 -> p1 = p2 /\ q1 = q2.
Proof.
  intros p1 q1 p2 q2 E L.
  destruct (prefix_of_prefix p1 q1 p2 q2 E) as [d ->]; [lia|].
  rewrite blen_app in L. destruct d as [|c d].
  - rewrite app_nil_r in *. split; [reflexivity|]. now apply app_inv_head in E.
  - cbn [blen] in L. pose proof (len_utf8_range c). lia.
Qed.

Lemma find_lf_some : forall s i, find_lf s = Some i ->
  exists m r, s = m ++ LF :: r /\ blen m = i /\ count_lf m = 0.
Proof.
  induction s as [|c s IH]; intros i H; [discriminate|].
  cbn [find_lf] in H. destruct (N.eqb_spec c LF) as [E|E].
  - inversion H; subst. now exists [], s.
  - destruct (find_lf s) as [j|] eqn:Ej; [|discriminate]. inversion H; subst.
    destruct (IH j eq_refl) as (m & r & -> & Hb & Hc).
    exists (c :: m), r. cbn [app blen count_lf]. repeat split; [lia|].
    destruct (N.eqb_spec c LF); [contradiction|]. lia.
Qed.

Lemma find_lf_none : forall s, find_lf s = None -> count_lf s = 0.
Proof.
  induction s as [|c s IH]; intro H; [reflexivity|].
  cbn [find_lf] in H. cbn [count_lf]. destruct (N.eqb_spec c LF) as [E|E]; [discriminate|].
  destruct (find_lf s); [discriminate|]. now rewrite IH.
Qed.

(* ================================================================== *)
(* Part 2: specification of positions *)

(* (l, c) are the line and column of byte offset o of src: o is the byte
   length of a prefix p of src (so o is a char boundary inside src), l is the
   number of `\n` in p and c the number of bytes of p after its last `\n`. *)
Definition line_col (src : list N) (o l c : N) : Prop :=
  exists p q, src = p ++ q /\ blen p = o /\ l = count_lf p /\ c = blen (after_last_lf p).

(* A position is well-formed for src. *)
Definition pos_wf (src : list N) (p : pos) : Prop :=
  start_offset p <= end_offset p /\ end_offset p <= blen src /\
  line_col src (start_offset p) (line p) (column p) /\
  line_col src (end_offset p) (end_line p) (end_column p).

Definition comment_wf (src : list N) (c : comment) : Prop := pos_wf src (fst c).
(* a token: well-formed position, its text is non-empty and is exactly the
   source text between its offsets, its comments are well-formed *)
Definition token_wf (src : list N) (t : token) : Prop :=
  pos_wf src (tpos t) /\
  slice src (start_offset (tpos t)) (end_offset (tpos t)) = Some (ttext t) /\
  ttext t <> [] /\
  Forall (comment_wf src) (tcomments t).
Definition error_wf (src : list N) (e : lex_error) : Prop := pos_wf src (epos e).

Definition result_wf (src : list N) (r : lex_result) : Prop :=
  match r with
  | LexOk ts tr es => Forall (token_wf src) ts /\ Forall (comment_wf src) tr /\ Forall (error_wf src) es
  | _ => False
  end.

Lemma line_col_boundary : forall src o l c, line_col src o l c -> boundary src o /\ o <= blen src.
Proof.
  intros src o l c (p & q & -> & <- & _). split; [now exists p, q|]. rewrite blen_app. lia.
Qed.

Lemma line_col_fun : forall src o l c l' c', line_col src o l c -> line_col src o l' c' -> l = l' /\ c = c'.
Proof.
  intros src o l c l' c' (p & q & E & B & -> & ->) (p' & q' & E' & B' & -> & ->).
  subst src. destruct (prefix_unique p q p' q' E') as [-> _]; [lia|]. now split.
Qed.

Lemma line_col_mono : forall src o1 l1 c1 o2 l2 c2,
  line_col src o1 l1 c1 -> line_col src o2 l2 c2 -> o1 <= o2 -> l1 <= l2.
Proof.
  intros src o1 l1 c1 o2 l2 c2 (p & q & E & B & -> & _) (p' & q' & E' & B' & -> & _) L.
  subst src. destruct (prefix_of_prefix p q p' q' E') as [d ->]; [lia|].
  rewrite count_lf_app. lia.
Qed.

Lemma from_offset_go_app : forall p q ln col,
  from_offset_go (p ++ q) (blen p) ln col =
  Some (ln + count_lf p, if count_lf p =? 0 then col + blen p else blen (after_last_lf p)).
Proof.
  induction p as [|c p IH]; intros q ln col.
  - cbn [app blen count_lf after_last_lf]. destruct q; cbn; f_equal; f_equal; lia.
  - cbn [app blen from_offset_go]. pose proof (len_utf8_range c) as Hc.
    destruct (N.eqb_spec (len_utf8 c + blen p) 0) as [E|_]; [lia|].
    destruct (N.ltb_spec (len_utf8 c + blen p) (len_utf8 c)) as [L|_]; [lia|].
    cbn [count_lf after_last_lf].
    destruct (N.eqb_spec c LF) as [E|E].
    + subst c. change (len_utf8 LF) with 1 in *.
      replace (1 + blen p - 1) with (blen p) by lia. rewrite IH.
      destruct (N.eqb_spec (1 + count_lf p) 0) as [E0|_]; [lia|].
      f_equal. f_equal; [lia|].
      destruct (N.eqb_spec (count_lf p) 0) as [E1|E1].
      * rewrite E1. cbn. lia.
      * destruct (N.ltb_spec 0 (count_lf p)); [reflexivity|lia].
    + replace (len_utf8 c + blen p - len_utf8 c) with (blen p) by lia. rewrite IH.
      rewrite N.add_0_l.
      f_equal. f_equal.
      destruct (N.eqb_spec (count_lf p) 0) as [E1|E1]; [lia|].
      destruct (N.ltb_spec 0 (count_lf p)); [reflexivity|lia].
Qed.

Lemma from_offset_app : forall p q,
  from_offset (p ++ q) (blen p) = Some (count_lf p, blen (after_last_lf p)).
Proof.
  intros p q. unfold from_offset. rewrite from_offset_go_app. rewrite !N.add_0_l.
  destruct (N.eqb_spec (count_lf p) 0) as [E|E]; [|reflexivity].
  now rewrite after_last_lf_nolf.
Qed.

(* `from_offset` meets the specification on every char boundary of the source *)
Lemma from_offset_spec : forall src o, boundary src o ->
  exists l c, from_offset src o = Some (l, c) /\ line_col src o l c.
Proof.
  intros src o (p & q & -> & <-). rewrite from_offset_app.
  eexists _, _. split; [reflexivity|]. now exists p, q.
Qed.

(* a single-line position over text m (no `\n`) between p and r *)
Lemma single_line_pos_wf : forall p m r, count_lf m = 0 ->
  exists ps, single_line_pos (p ++ m ++ r) (blen p) (blen m) = Some ps /\ pos_wf (p ++ m ++ r) ps.
Proof.
  intros p m r H. unfold single_line_pos. rewrite from_offset_app.
  eexists. split; [reflexivity|]. unfold pos_wf. cbn [start_offset end_offset line end_line column end_column].
  rewrite !blen_app. repeat split; try lia.
  - now exists p, (m ++ r).
  - exists (p ++ m), r. rewrite <- app_assoc. repeat split.
    + now rewrite blen_app.
    + rewrite count_lf_app. lia.
    + rewrite after_last_lf_app_nolf by assumption. now rewrite blen_app.
Qed.

(* Position::merge of two positions that are well-formed for the same source is
   well-formed for that source -- no ordering hypothesis is needed. *)
Lemma merge_wf_lemma : forall src a b, pos_wf src a -> pos_wf src b -> pos_wf src (merge a b).
Proof.
  intros src a b (A1 & A2 & A3 & A4) (B1 & B2 & B3 & B4).
  unfold pos_wf, merge. cbn [start_offset end_offset line end_line column end_column].
  destruct (N.ltb_spec (end_offset b) (end_offset a)) as [L|L].
  - assert (Hl : end_line b <= end_line a) by (eapply line_col_mono; [exact B4|exact A4|lia]).
    rewrite (N.max_l (end_offset a)) by lia. rewrite (N.max_l (end_line a)) by lia.
    repeat split; assumption.
  - assert (Hl : end_line a <= end_line b) by (eapply line_col_mono; [exact A4|exact B4|lia]).
    rewrite (N.max_r (end_offset a)) by lia. rewrite (N.max_r (end_line a)) by lia.
    repeat split; try assumption. lia.
Qed.

(* ================================================================== *)
(* Part 3: the scanners return non-empty, `\n`-free prefixes *)

Lemma span_spec : forall f s a b, span f s = (a, b) -> s = a ++ b /\ Forall (fun c => f c = true) a.
Proof.
  induction s as [|c s IH]; intros a b H.
  - inversion H; subst. split; [reflexivity|constructor].
  - cbn [span] in H. destruct (f c) eqn:Ec.
    + destruct (span f s) as [a' b'] eqn:E. inversion H; subst.
      destruct (IH a' b eq_refl) as [-> F]. split; [reflexivity|]. now constructor.
    + inversion H; subst. split; [reflexivity|constructor].
Qed.

Lemma forall_nolf : forall (f : N -> bool) m, (forall c, f c = true -> c <> LF) ->
  Forall (fun c => f c = true) m -> count_lf m = 0.
Proof.
  intros f m Hf F. induction F as [|c m Hc F IH]; [reflexivity|].
  cbn [count_lf]. destruct (N.eqb_spec c LF) as [E|E]; [now apply Hf in Hc|]. now rewrite IH.
Qed.

Lemma is_digit_nolf : forall c, is_digit c = true -> c <> LF.
Proof. intros c H ->. discriminate. Qed.
Lemma is_digit_us_nolf : forall c, is_digit_us c = true -> c <> LF.
Proof. intros c H ->. discriminate. Qed.
Lemma is_sym_start_nolf : forall c, is_sym_start c = true -> c <> LF.
Proof. intros c H ->. discriminate. Qed.
Lemma is_sym_char_nolf : forall c, is_sym_char c = true -> c <> LF.
Proof. intros c H ->. discriminate. Qed.

Lemma count_lf_cons_ne : forall c m, c <> LF -> count_lf (c :: m) = count_lf m.
Proof. intros c m H. cbn [count_lf]. destruct (N.eqb_spec c LF); [contradiction|]. lia. Qed.

Lemma scan_digits_spec : forall s a b, scan_digits s = Some (a, b) ->
  s = a ++ b /\ a <> [] /\ count_lf a = 0.
Proof.
  intros [|c s] a b H; [discriminate|]. cbn [scan_digits] in H.
  destruct (is_digit c) eqn:Ec; [|discriminate].
  destruct (span is_digit_us s) as [a' b'] eqn:E. inversion H; subst.
  destruct (span_spec _ _ _ _ E) as [-> F]. split; [reflexivity|]. split; [discriminate|].
  rewrite count_lf_cons_ne by now apply is_digit_nolf.
  eapply forall_nolf; [exact is_digit_us_nolf|exact F].
Qed.

Lemma opt_minus_spec : forall s sg s1, opt_minus s = (sg, s1) -> s = sg ++ s1 /\ count_lf sg = 0.
Proof.
  intros [|c s] sg s1 H; cbn [opt_minus] in H.
  - inversion H; subst. now split.
  - destruct (N.eqb_spec c MINUS) as [E|E]; inversion H; subst; now split.
Qed.

Lemma integer_re_spec : forall s m, integer_re s = Some m ->
  exists r, s = m ++ r /\ m <> [] /\ count_lf m = 0.
Proof.
  intros s m H. unfold integer_re in H.
  destruct (opt_minus s) as [sg s1] eqn:E1. destruct (opt_minus_spec _ _ _ E1) as [-> Hsg].
  destruct (scan_digits s1) as [[a b]|] eqn:E2; [|discriminate]. inversion H; subst.
  destruct (scan_digits_spec _ _ _ E2) as (-> & Ha & Hc).
  exists b. rewrite app_assoc. split; [reflexivity|]. split.
  - destruct sg; [exact Ha|discriminate].
  - rewrite count_lf_app. lia.
Qed.

Lemma float_re_spec : forall s m, float_re s = Some m ->
  exists r, s = m ++ r /\ m <> [] /\ count_lf m = 0.
Proof.
  intros s m H. unfold float_re in H.
  destruct (opt_minus s) as [sg s1] eqn:E1. destruct (opt_minus_spec _ _ _ E1) as [-> Hsg].
  destruct (scan_digits s1) as [[a r1]|] eqn:E2; [|discriminate].
  destruct (scan_digits_spec _ _ _ E2) as (-> & Ha & Hc).
  destruct r1 as [|d r2]; [discriminate|].
  destruct (N.eqb_spec d DOT) as [Ed|Ed]; [|discriminate]. subst d.
  destruct (scan_digits r2) as [[b r3]|] eqn:E3; [|discriminate]. inversion H; subst.
  destruct (scan_digits_spec _ _ _ E3) as (-> & Hb & Hcb).
  exists r3. split.
  - now rewrite <- !app_assoc.
  - split.
    + destruct sg; [|discriminate]. destruct a; [congruence|discriminate].
    + rewrite !count_lf_app. rewrite count_lf_cons_ne by discriminate. lia.
Qed.

Lemma symbol_re_spec : forall s m, symbol_re s = Some m ->
  exists r, s = m ++ r /\ m <> [] /\ count_lf m = 0.
Proof.
  intros [|c s] m H; [discriminate|]. cbn [symbol_re] in H.
  destruct (is_sym_start c) eqn:Ec; [|discriminate]. inversion H; subst.
  destruct (span is_sym_char s) as [a b] eqn:E. destruct (span_spec _ _ _ _ E) as [-> F].
  exists b. cbn [fst]. split; [reflexivity|]. split; [discriminate|].
  rewrite count_lf_cons_ne by now apply is_sym_start_nolf.
  eapply forall_nolf; [exact is_sym_char_nolf|exact F].
Qed.

Lemma string_body_prefix_len : forall b n s, (length s <= n)%nat -> exists r, s = string_body b s ++ r.
Proof.
  induction n as [|n IH]; intros s L.
  - destruct s; [|cbn in L; lia]. now exists [].
  - destruct s as [|c s]; [now exists []|]. cbn [length] in L. cbn [string_body].
    destruct (N.eqb_spec c QUOTE) as [->|_]; [now exists s|].
    destruct (c =? BACKSLASH).
    + destruct s as [|d s']; [now exists []|].
      destruct (if b then negb (d =? LF) else d =? QUOTE).
      * cbn [length] in L. destruct (IH s') as [r Hr]; [lia|]. exists r. cbn [app]. now rewrite <- Hr.
      * destruct (IH (d :: s')) as [r Hr]; [lia|]. exists r. cbn [app]. now rewrite <- Hr.
    + destruct (IH s) as [r Hr]; [lia|]. exists r. cbn [app]. now rewrite <- Hr.
Qed.

Lemma string_body_prefix : forall b s, exists r, s = string_body b s ++ r.
Proof. intros b s. now apply (string_body_prefix_len b (length s)). Qed.

Lemma string_re_spec : forall b s m, string_re b s = Some m ->
  exists r t, s = m ++ r /\ m = QUOTE :: t.
Proof.
  intros b [|c s] m H; [discriminate|]. cbn [string_re] in H.
  destruct (N.eqb_spec c QUOTE) as [E|E]; [|discriminate]. inversion H; subst.
  destruct (string_body_prefix b s) as [r Hr]. exists r, (string_body b s).
  split; [|reflexivity]. cbn [app]. now rewrite <- Hr.
Qed.

Lemma before_lf_spec : forall t, exists r, t = before_lf t ++ r /\ count_lf (before_lf t) = 0.
Proof.
  induction t as [|c t (r & Hr & Hc)]; [now exists []|].
  cbn [before_lf]. destruct (N.eqb_spec c LF) as [E|E].
  - now exists (c :: t).
  - exists r. cbn [app]. rewrite <- Hr. split; [reflexivity|]. now rewrite count_lf_cons_ne.
Qed.

(* ================================================================== *)
(* Part 4: one iteration *)

(* the iteration consumed the non-empty prefix t of s, n = its byte length *)
Definition consumed (s t : list N) (n : N) : Prop := exists r, s = t ++ r /\ t <> [] /\ n = blen t.
Definition adv (s : list N) (n : N) : Prop := exists t, consumed s t n.

(* the position spans exactly the n bytes from the current offset *)
Definition spans (ps : pos) (o n : N) : Prop := start_offset ps = o /\ end_offset ps = o + n.

(* What an iteration at offset `blen p` of `src = p ++ s` (s non-empty) does:
   it never panics, always consumes a non-empty prefix of s, every position it
   builds is well-formed, and a token's text is the consumed prefix. *)
Definition step_ok (src p s : list N) (st : step) : Prop :=
  match st with
  | SPanic => False
  | SBreak => False
  | SSkip n => adv s n
  | SComment ps t n => consumed s t n /\ pos_wf src ps
  | SToken ps t n => consumed s t n /\ pos_wf src ps /\ spans ps (blen p) n
  | SErrToken ep _ ps t n => consumed s t n /\ pos_wf src ps /\ spans ps (blen p) n /\ pos_wf src ep
  | SErr ep _ n => adv s n /\ pos_wf src ep
  end.

Lemma match_token_ok : forall p m r, m <> [] -> count_lf m = 0 ->
  step_ok (p ++ m ++ r) p (m ++ r) (match_token (p ++ m ++ r) (blen p) m).
Proof.
  intros p m r Hm Hc. unfold match_token.
  destruct (single_line_pos_wf p m r Hc) as (ps & E & W). rewrite E.
  cbn [step_ok]. split; [now exists r|]. split; [exact W|].
  unfold single_line_pos in E. rewrite from_offset_app in E. inversion E; subst. now split.
Qed.

Lemma slice_token_ok : forall p m r, m <> [] -> count_lf m = 0 ->
  step_ok (p ++ m ++ r) p (m ++ r) (slice_token (p ++ m ++ r) (m ++ r) (blen p) (blen m)).
Proof.
  intros p m r Hm Hc. unfold slice_token.
  destruct (single_line_pos_wf p m r Hc) as (ps & E & W). rewrite E, take_bytes_app.
  cbn [step_ok]. split; [now exists r|]. split; [exact W|].
  unfold single_line_pos in E. rewrite from_offset_app in E. inversion E; subst. now split.
Qed.

Lemma two_char_table_ascii :
  forallb (fun ab => (fst ab <? 128) && (snd ab <? 128) && negb (fst ab =? LF) && negb (snd ab =? LF))
          two_char_tokens = true.
Proof. vm_compute. reflexivity. Qed.

Lemma one_char_table_ascii :
  forallb (fun a => (a <? 128) && negb (a =? LF)) one_char_tokens = true.
Proof. vm_compute. reflexivity. Qed.

Lemma two_char_hit : forall s,
  existsb (fun ab => starts_with2 (fst ab) (snd ab) s) two_char_tokens = true ->
  exists a b r, s = [a; b] ++ r /\ blen [a; b] = 2 /\ count_lf [a; b] = 0.
Proof.
  intros s H. apply existsb_exists in H. destruct H as ([a b] & Hin & Hs).
  pose proof two_char_table_ascii as T. rewrite forallb_forall in T. specialize (T _ Hin).
  cbn [fst snd] in *. apply andb_prop in T as [T Tb]. apply andb_prop in T as [T Ta].
  apply andb_prop in T as [La Lb]. apply N.ltb_lt in La, Lb.
  destruct s as [|x [|y r]]; try discriminate. cbn [starts_with2] in Hs.
  apply andb_prop in Hs as [Ex Ey]. apply N.eqb_eq in Ex, Ey. subst x y.
  exists a, b, r. split; [reflexivity|]. split.
  - cbn [blen]. rewrite !len_utf8_ascii by assumption. reflexivity.
  - cbn [count_lf]. destruct (a =? LF); [discriminate|]. destruct (b =? LF); [discriminate|]. reflexivity.
Qed.

Lemma one_char_hit : forall c, existsb (N.eqb c) one_char_tokens = true -> len_utf8 c = 1 /\ c <> LF.
Proof.
  intros c H. apply existsb_exists in H. destruct H as (a & Hin & E). apply N.eqb_eq in E. subst a.
  pose proof one_char_table_ascii as T. rewrite forallb_forall in T. specialize (T _ Hin).
  apply andb_prop in T as [L Nl]. apply N.ltb_lt in L. split; [now apply len_utf8_ascii|].
  intros ->. discriminate.
Qed.

Lemma whitespace_lf : is_whitespace LF = true.
Proof. reflexivity. Qed.

Lemma count_lf_single : forall c, c <> LF -> count_lf [c] = 0.
Proof. intros c H. now rewrite count_lf_cons_ne. Qed.

Lemma blen_single : forall c, blen [c] = len_utf8 c.
Proof. intro c. cbn [blen]. lia. Qed.

Lemma lex_step_ok : forall p s, s <> [] ->
  step_ok (p ++ s) p s (lex_step cfg_fixed (p ++ s) (blen p)).
Proof.
  intros p s Hs. unfold lex_step. rewrite drop_bytes_app.
  destruct (starts_with2 SLASH SLASH s) eqn:Ecom.
  { (* comment *)
    rewrite from_offset_app.
    destruct (find_lf s) as [i|] eqn:Ef.
    - destruct (find_lf_some _ _ Ef) as (m & r & -> & Hb & Hc). subst i.
      replace (blen m + 1) with (blen (m ++ [LF])) by (rewrite blen_app; reflexivity).
      replace (m ++ LF :: r) with ((m ++ [LF]) ++ r) by (rewrite <- app_assoc; reflexivity).
      rewrite take_bytes_app. cbn [step_ok]. split.
      + exists r. split; [reflexivity|]. split; [destruct m; discriminate|reflexivity].
      + rewrite <- app_assoc. cbn [app].
        destruct (single_line_pos_wf p m (LF :: r) Hc) as (ps & E & W).
        unfold single_line_pos in E. rewrite from_offset_app in E. inversion E; subst. exact W.
    - pose proof (find_lf_none _ Ef) as Hc. cbn [step_ok]. split.
      + exists []. rewrite app_nil_r. now split.
      + destruct (single_line_pos_wf p s [] Hc) as (ps & E & W). rewrite app_nil_r in *.
        unfold single_line_pos in E. rewrite from_offset_app in E. inversion E; subst. exact W. }
  destruct s as [|c s']; [congruence|].
  destruct (is_whitespace c) eqn:Ews.
  { cbn [fix_a cfg_fixed step_ok]. exists [c], s'. split; [reflexivity|]. split; [discriminate|].
    now rewrite blen_single. }
  assert (Hlf : c <> LF) by (intros ->; rewrite whitespace_lf in Ews; discriminate).
  destruct (existsb _ two_char_tokens) eqn:E2.
  { destruct (two_char_hit _ E2) as (a & b & r & Es & Hb & Hc). rewrite Es.
    rewrite <- Hb. apply slice_token_ok; [discriminate|exact Hc]. }
  destruct (float_re (c :: s')) as [m|] eqn:Efl.
  { destruct (float_re_spec _ _ Efl) as (r & -> & Hm & Hc). now apply match_token_ok. }
  destruct (integer_re (c :: s')) as [m|] eqn:Eint.
  { destruct (integer_re_spec _ _ Eint) as (r & -> & Hm & Hc). now apply match_token_ok. }
  destruct (existsb (N.eqb c) one_char_tokens) eqn:E1.
  { destruct (one_char_hit _ E1) as [L1 _].
    change (c :: s') with ([c] ++ s'). rewrite <- L1, <- blen_single.
    apply slice_token_ok; [discriminate|now apply count_lf_single]. }
  cbn [fix_a fix_b fix_c cfg_fixed].
  destruct (string_re true (c :: s')) as [text|] eqn:Estr.
  { destruct (string_re_spec _ _ _ Estr) as (r & t & Es & Et). rewrite Es.
    destruct (ends_with_quote text) eqn:Eq.
    - (* well-formed string, possibly spanning several lines *)
      rewrite from_offset_app.
      replace (blen p + blen text) with (blen (p ++ text)) by now rewrite blen_app.
      replace (p ++ text ++ r) with ((p ++ text) ++ r) by now rewrite <- app_assoc.
      rewrite from_offset_app. rewrite <- app_assoc.
      cbn [step_ok]. split; [exists r; split; [reflexivity|]; split; [subst text; discriminate|reflexivity]|].
      split.
      + unfold pos_wf. cbn [start_offset end_offset line end_line column end_column].
        rewrite !blen_app. repeat split; try lia.
        * now exists p, (text ++ r).
        * exists (p ++ text), r. rewrite <- app_assoc. repeat split. now rewrite blen_app.
      + split; cbn [start_offset end_offset]; [reflexivity|now rewrite blen_app].
    - (* unclosed string: up to the end of the line *)
      destruct (before_lf_spec text) as (r' & Hr' & Hc).
      assert (Hne : before_lf text <> []).
      { subst text. cbn [before_lf]. destruct (N.eqb_spec QUOTE LF); discriminate. }
      set (tc := before_lf text) in *.
      replace (text ++ r) with (tc ++ r' ++ r) by (rewrite app_assoc, <- Hr'; reflexivity).
      destruct (single_line_pos_wf p tc (r' ++ r) Hc) as (ps & E & W). rewrite E.
      cbn [step_ok]. split; [exists (r' ++ r); now split|]. split; [exact W|]. split; [|exact W].
      unfold single_line_pos in E. rewrite from_offset_app in E. inversion E; subst. now split. }
  destruct (symbol_re (c :: s')) as [m|] eqn:Esym.
  { destruct (symbol_re_spec _ _ Esym) as (r & -> & Hm & Hc). now apply match_token_ok. }
  (* unrecognised character *)
  change (c :: s') with ([c] ++ s'). rewrite <- blen_single.
  destruct (single_line_pos_wf p [c] s' (count_lf_single c Hlf)) as (ps & E & W). rewrite E.
  rewrite take_bytes_app. cbn [step_ok]. split; [|exact W].
  exists [c], s'. split; [reflexivity|]. split; [discriminate|reflexivity].
Qed.

(* ================================================================== *)
(* Part 5: the loop *)

Lemma slice_app3 : forall p t r, slice (p ++ t ++ r) (blen p) (blen p + blen t) = Some t.
Proof.
  intros p t r. unfold slice.
  destruct (N.ltb_spec (blen p + blen t) (blen p)) as [L|_]; [lia|].
  rewrite drop_bytes_app. replace (blen p + blen t - blen p) with (blen t) by lia.
  apply take_bytes_app.
Qed.

Lemma cons_tok_wf : forall src t r, token_wf src t -> result_wf src r -> result_wf src (cons_tok t r).
Proof.
  intros src t [ts tr es| |] Ht Hr; cbn in *; try contradiction.
  destruct Hr as (A & B & C). repeat split; try assumption. now constructor.
Qed.

Lemma cons_err_wf : forall src e r, error_wf src e -> result_wf src r -> result_wf src (cons_err e r).
Proof.
  intros src e [ts tr es| |] He Hr; cbn in *; try contradiction.
  destruct Hr as (A & B & C). repeat split; try assumption. now constructor.
Qed.

Lemma token_wf_intro : forall p t r ps pc, t <> [] ->
  pos_wf (p ++ t ++ r) ps -> spans ps (blen p) (blen t) -> Forall (comment_wf (p ++ t ++ r)) pc ->
  token_wf (p ++ t ++ r) (mktoken ps t pc).
Proof.
  intros p t r ps pc Ht W [S1 S2] Hpc. unfold token_wf. cbn [tpos ttext tcomments].
  rewrite S1, S2. split; [exact W|]. split; [apply slice_app3|]. now split.
Qed.

Lemma lex_loop_ok : forall src fuel p s pc,
  src = p ++ s -> (length s < fuel)%nat -> Forall (comment_wf src) pc ->
  result_wf src (lex_loop cfg_fixed fuel src (blen src) (blen p) pc).
Proof.
  intros src fuel. induction fuel as [|f IH]; intros p s pc E L Hpc; [lia|].
  cbn [lex_loop].
  destruct s as [|c s'].
  - assert (Hlt : blen p <? blen src = false).
    { apply N.ltb_ge. subst src. rewrite app_nil_r. lia. }
    rewrite Hlt. cbn. repeat split; [constructor|assumption|constructor].
  - assert (Hlt : blen p <? blen src = true).
    { apply N.ltb_lt. subst src. rewrite blen_app. cbn [blen]. pose proof (len_utf8_range c). lia. }
    rewrite Hlt.
    assert (Hs : c :: s' <> []) by discriminate.
    pose proof (lex_step_ok p (c :: s') Hs) as H. rewrite <- E in H.
    (* common continuation: after consuming the non-empty prefix t *)
    assert (K : forall t r pc', c :: s' = t ++ r -> t <> [] -> Forall (comment_wf src) pc' ->
                result_wf src (lex_loop cfg_fixed f src (blen src) (blen p + blen t) pc')).
    { intros t r pc' Es Ht Hpc'. rewrite <- blen_app. apply (IH (p ++ t) r pc').
      - rewrite E, Es. now rewrite app_assoc.
      - assert (length (c :: s') = length t + length r)%nat by (rewrite Es; apply app_length).
        destruct t; [congruence|]. cbn [length] in *. lia.
      - exact Hpc'. }
    destruct (lex_step cfg_fixed src (blen p)) as [| |n|ps t n|ps t n|ep m ps t n|ep m n];
      cbn [step_ok] in H; try contradiction.
    + destruct H as (t & r & Es & Ht & ->). now apply (K t r).
    + destruct H as ((r & Es & Ht & ->) & W). apply (K t r); try assumption.
      apply Forall_app. split; [assumption|]. constructor; [exact W|constructor].
    + destruct H as ((r & Es & Ht & ->) & W & Sp). apply cons_tok_wf.
      * rewrite E, Es. apply token_wf_intro; try assumption; rewrite <- Es, <- E; assumption.
      * apply (K t r); try assumption. constructor.
    + destruct H as ((r & Es & Ht & ->) & W & Sp & We). apply cons_err_wf; [exact We|].
      apply cons_tok_wf.
      * rewrite E, Es. apply token_wf_intro; try assumption; rewrite <- Es, <- E; assumption.
      * apply (K t r); try assumption. constructor.
    + destruct H as ((t & r & Es & Ht & ->) & We). apply cons_err_wf; [exact We|]. now apply (K t r).
Qed.

Lemma shebang_skip_boundary : forall src, exists p s, src = p ++ s /\ shebang_skip src = blen p.
Proof.
  intros [|c src]; [now exists [], []|]. cbn [shebang_skip].
  destruct (c =? HASH); [|now exists [], (c :: src)].
  destruct (find_lf (c :: src)) as [i|] eqn:Ef.
  - destruct (find_lf_some _ _ Ef) as (m & r & -> & Hb & _). now exists m, (LF :: r).
  - exists (c :: src), []. now rewrite app_nil_r.
Qed.

(* `lex` returns LexOk with every token, comment and error well-formed *)
Lemma lex_ok : forall src, result_wf src (lex src).
Proof.
  intro src. unfold lex, lex_with.
  destruct (shebang_skip_boundary src) as (p & s & E & ->).
  apply (lex_loop_ok src _ p s []); [exact E| |constructor].
  rewrite E, app_length. lia.
Qed.

Lemma lex_total_lemma : forall src, exists ts tr es, lex src = LexOk ts tr es.
Proof.
  intro src. pose proof (lex_ok src) as H. destruct (lex src) as [ts tr es| |]; cbn in H; try contradiction.
  now exists ts, tr, es.
Qed.

Lemma lex_no_panic_lemma : forall src, lex src <> LexPanic /\ lex src <> LexOutOfFuel.
Proof.
  intro src. destruct (lex_total_lemma src) as (ts & tr & es & ->). split; discriminate.
Qed.

Lemma lex_wf_lemma : forall src ts tr es, lex src = LexOk ts tr es ->
  Forall (token_wf src) ts /\ Forall (comment_wf src) tr /\ Forall (error_wf src) es.
Proof. intros src ts tr es H. pose proof (lex_ok src) as W. rewrite H in W. exact W. Qed.

(* every position a lexer result contains *)
Definition all_positions (ts : list token) (tr : list comment) (es : list lex_error) : list pos :=
  map tpos ts ++ flat_map (fun t => map fst (tcomments t)) ts ++ map fst tr ++ map epos es.

(* the consistency of one position, spelled out *)
Definition pos_consistent (src : list N) (p : pos) : Prop :=
  start_offset p <= end_offset p /\ end_offset p <= blen src /\
  boundary src (start_offset p) /\ boundary src (end_offset p) /\
  line_col src (start_offset p) (line p) (column p) /\
  line_col src (end_offset p) (end_line p) (end_column p).

Lemma pos_wf_consistent : forall src p, pos_wf src p <-> pos_consistent src p.
Proof.
  intros src p. unfold pos_wf, pos_consistent. split.
  - intros (A & B & C & D). repeat split; try assumption.
    + now apply line_col_boundary in C.
    + now apply line_col_boundary in D.
  - intros (A & B & _ & _ & C & D). now repeat split.
Qed.

Lemma lex_positions_wf_lemma : forall src ts tr es, lex src = LexOk ts tr es ->
  forall p, In p (all_positions ts tr es) -> pos_consistent src p.
Proof.
  intros src ts tr es H p Hin. destruct (lex_wf_lemma _ _ _ _ H) as (T & C & Er).
  apply pos_wf_consistent. unfold all_positions in Hin.
  rewrite Forall_forall in T, C, Er.
  apply in_app_or in Hin as [Hin|Hin].
  - apply in_map_iff in Hin as (t & <- & Ht). now apply T.
  - apply in_app_or in Hin as [Hin|Hin].
    + apply in_flat_map in Hin as (t & Ht & Hc). apply in_map_iff in Hc as (c & <- & Hc).
      destruct (T t Ht) as (_ & _ & _ & F). rewrite Forall_forall in F. now apply F.
    + apply in_app_or in Hin as [Hin|Hin].
      * apply in_map_iff in Hin as (c & <- & Hc). now apply C.
      * apply in_map_iff in Hin as (e & <- & He). now apply Er.
Qed.

(* token texts are non-empty and are the source text between the offsets *)
Lemma lex_token_text_lemma : forall src ts tr es, lex src = LexOk ts tr es ->
  forall t, In t ts ->
    ttext t <> [] /\ slice src (start_offset (tpos t)) (end_offset (tpos t)) = Some (ttext t).
Proof.
  intros src ts tr es H t Ht. destruct (lex_wf_lemma _ _ _ _ H) as (T & _ & _).
  rewrite Forall_forall in T. destruct (T t Ht) as (_ & S & Ne & _). now split.
Qed.

Lemma merge_consistent_lemma : forall src a b,
  pos_consistent src a -> pos_consistent src b -> pos_consistent src (merge a b).
Proof.
  intros src a b A B. apply pos_wf_consistent. apply merge_wf_lemma; now apply pos_wf_consistent.
Qed.

(* ================================================================== *)
(* Part 6: strings -- escape / STRING scanner / unescape *)

(* The STRING scanner applied to a printed string followed by ANY text stops
   exactly at the closing quote of the printed string. *)
Lemma string_body_escape : forall s rest,
  string_body true (escape_body s ++ QUOTE :: rest) = escape_body s ++ [QUOTE].
Proof.
  induction s as [|c s IH]; intro rest.
  - reflexivity.
  - cbn [escape_body].
    destruct (N.eqb_spec c QUOTE) as [->|Nq]; [cbn [app string_body]; cbn; now rewrite IH|].
    destruct (N.eqb_spec c LF) as [->|Nl]; [cbn [app string_body]; cbn; now rewrite IH|].
    destruct (N.eqb_spec c BACKSLASH) as [->|Nb]; [cbn [app string_body]; cbn; now rewrite IH|].
    cbn [app string_body].
    destruct (N.eqb_spec c QUOTE); [contradiction|]. destruct (N.eqb_spec c BACKSLASH); [contradiction|].
    now rewrite IH.
Qed.

Lemma string_re_escape : forall s rest, string_re true (escape s ++ rest) = Some (escape s).
Proof.
  intros s rest. unfold escape. cbn [app string_re]. cbn.
  rewrite <- app_assoc. cbn [app]. now rewrite string_body_escape.
Qed.

Lemma unescape_chars_escape : forall s, unescape_chars (escape_body s) = (s, 0).
Proof.
  induction s as [|c s IH]; [reflexivity|]. cbn [escape_body].
  destruct (N.eqb_spec c QUOTE) as [->|Nq]; [cbn [unescape_chars]; cbn; now rewrite IH|].
  destruct (N.eqb_spec c LF) as [->|Nl]; [cbn [unescape_chars]; cbn; now rewrite IH|].
  destruct (N.eqb_spec c BACKSLASH) as [->|Nb]; [cbn [unescape_chars]; cbn; now rewrite IH|].
  cbn [unescape_chars]. destruct (N.eqb_spec c BACKSLASH); [contradiction|]. now rewrite IH.
Qed.

Lemma ends_with_quote_snoc : forall l, ends_with_quote (l ++ [QUOTE]) = true.
Proof. intro l. unfold ends_with_quote. rewrite rev_app_distr. reflexivity. Qed.

Lemma strip_quotes_escape : forall s, strip_quotes (escape s) = Some (escape_body s).
Proof.
  intro s. unfold strip_quotes, escape.
  change (QUOTE :: escape_body s ++ [QUOTE]) with ([QUOTE] ++ (escape_body s ++ [QUOTE])).
  change 1 with (blen [QUOTE]). rewrite drop_bytes_app.
  rewrite ends_with_quote_snoc. now rewrite removelast_last.
Qed.

Lemma unescape_escape : forall s, unescape (escape s) = Some (s, 0).
Proof. intro s. unfold unescape. rewrite strip_quotes_escape. now rewrite unescape_chars_escape. Qed.

(* a printed string never ends the STRING scanner early and is never
   mistaken for another kind of token: the lexer iteration at its first
   character produces exactly it *)
Lemma escape_count_lf : forall s, count_lf (escape_body s) = 0.
Proof.
  induction s as [|c s IH]; [reflexivity|]. cbn [escape_body].
  destruct (N.eqb_spec c QUOTE) as [->|Nq]; [cbn; exact IH|].
  destruct (N.eqb_spec c LF) as [->|Nl]; [cbn; exact IH|].
  destruct (N.eqb_spec c BACKSLASH) as [->|Nb]; [cbn; exact IH|].
  now rewrite count_lf_cons_ne.
Qed.

Lemma lex_step_escape : forall p s rest,
  exists ps, lex_step cfg_fixed (p ++ escape s ++ rest) (blen p) = SToken ps (escape s) (blen (escape s))
             /\ spans ps (blen p) (blen (escape s)).
Proof.
  intros p s rest. unfold lex_step. rewrite drop_bytes_app.
  assert (E0 : escape s ++ rest = QUOTE :: (escape_body s ++ [QUOTE]) ++ rest) by reflexivity.
  assert (Ecom : starts_with2 SLASH SLASH (escape s ++ rest) = false).
  { rewrite E0. cbn [starts_with2]. destruct ((escape_body s ++ [QUOTE]) ++ rest); reflexivity. }
  rewrite Ecom. pose proof (string_re_escape s rest) as Hre.
  rewrite E0 in *. 
  change (is_whitespace QUOTE) with false. cbv iota.
  assert (E2 : existsb (fun ab => starts_with2 (fst ab) (snd ab) (QUOTE :: (escape_body s ++ [QUOTE]) ++ rest))
                       two_char_tokens = false).
  { cbn [existsb two_char_tokens starts_with2 fst snd].
    destruct ((escape_body s ++ [QUOTE]) ++ rest); reflexivity. }
  rewrite E2.
  change (float_re (QUOTE :: (escape_body s ++ [QUOTE]) ++ rest)) with (@None (list N)).
  change (integer_re (QUOTE :: (escape_body s ++ [QUOTE]) ++ rest)) with (@None (list N)).
  change (existsb (N.eqb QUOTE) one_char_tokens) with false. cbv iota.
  cbn [fix_a fix_b fix_c cfg_fixed]. rewrite Hre.
  unfold escape at 1. rewrite app_comm_cons, ends_with_quote_snoc.
  rewrite from_offset_app.
  replace (blen p + blen (escape s)) with (blen (p ++ escape s)) by now rewrite blen_app.
  replace (p ++ QUOTE :: (escape_body s ++ [QUOTE]) ++ rest) with ((p ++ escape s) ++ rest)
    by (rewrite <- app_assoc; reflexivity).
  rewrite from_offset_app. eexists. split; [reflexivity|]. split; cbn [start_offset end_offset]; [reflexivity|].
  now rewrite blen_app.
Qed.

(* ================================================================== *)
(* Part 7: the code before the fixes (cfg_orig) is refuted *)

(* (a) `let x = 1 é`: the unrecognised-character branch slices `&s[0..1]` *)
Lemma orig_nonascii_panics :
  lex_with cfg_orig [108; 101; 116; 32; 120; 32; 61; 32; 49; 32; 233] = LexPanic.
Proof. vm_compute. reflexivity. Qed.

(* (a) `1<U+00A0>2`: whitespace advances one byte into the no-break space *)
Lemma orig_nbsp_panics : lex_with cfg_orig [49; 160; 50] = LexPanic.
Proof. vm_compute. reflexivity. Qed.

(* (b) the printed form of the string `a\` followed by `, "b"]` *)
Definition str_a_backslash : list N := [97; 92].
Definition rest_comma_b : list N := [44; 32; 34; 98; 34; 93].
Lemma orig_string_re_refuted :
  string_re false (escape str_a_backslash ++ rest_comma_b) <> Some (escape str_a_backslash).
Proof. vm_compute. discriminate. Qed.

(* (c) `"a\nb"`: end line = start line, end column = column + length *)
Definition multi_line_string : list N := [34; 97; 10; 98; 34].
Lemma orig_multiline_refuted :
  exists t, lex_with cfg_orig multi_line_string = LexOk [t] [] [] /\ ~ pos_wf multi_line_string (tpos t).
Proof.
  eexists. split; [vm_compute; reflexivity|].
  intros (_ & _ & _ & H). cbn [tpos end_offset end_line end_column] in H.
  assert (H' : line_col multi_line_string 5 1 2).
  { exists multi_line_string, []. repeat split. }
  destruct (line_col_fun _ _ _ _ _ _ H H') as [E _]. discriminate.
Qed.

(* the whole lexer on a printed string: exactly one token, the string itself *)
Lemma lex_escape : forall s, exists ps,
  lex (escape s) = LexOk [mktoken ps (escape s) []] [] [] /\ spans ps 0 (blen (escape s)).
Proof.
  intro s. unfold lex, lex_with.
  change (shebang_skip (escape s)) with 0.
  destruct (lex_step_escape [] s []) as (ps & E & Sp). cbn [app blen] in E, Sp. rewrite app_nil_r in E.
  exists ps. split; [|exact Sp].
  assert (Hb : 1 <= blen (escape s)) by (apply blen_nonempty; discriminate).
  assert (L : exists k, length (escape s) = S k) by (unfold escape; cbn [length]; eauto).
  destruct L as [k ->]. cbn [lex_loop].
  destruct (N.ltb_spec 0 (blen (escape s))) as [_|L0]; [|lia].
  rewrite E. rewrite N.add_0_l, N.ltb_irrefl. reflexivity.
Qed.

(* ================================================================== *)
(* Concrete instances (non-vacuity) *)

(* `let x = 1 é<NBSP>"a<LF>€"` : non-ASCII junk, multi-byte whitespace, multi-line string *)
Definition sample_src : list N :=
  [108; 101; 116; 32; 120; 32; 61; 32; 49; 32; 233; 160; 34; 97; 10; 8364; 34].

Lemma sample_lex :
  exists ts es, lex sample_src = LexOk ts [] es /\
    tok_texts ts = [[108; 101; 116]; [120]; [61]; [49]; [34; 97; 10; 8364; 34]] /\
    map (fun t => pos_fields (tpos t)) ts =
      [[0; 3; 0; 0; 0; 3]; [4; 5; 0; 0; 4; 5]; [6; 7; 0; 0; 6; 7]; [8; 9; 0; 0; 8; 9]; [14; 21; 0; 1; 14; 4]] /\
    map (fun e => pos_fields (epos e)) es = [[10; 12; 0; 0; 10; 12]].
Proof. eexists _, _. split; [vm_compute; reflexivity|]. repeat split. Qed.

(* `["a\\", "b"]` lexes into five tokens *)
Lemma list_of_strings_lex :
  exists ts, lex [91; 34; 97; 92; 92; 34; 44; 32; 34; 98; 34; 93] = LexOk ts [] [] /\
    tok_texts ts = [[91]; [34; 97; 92; 92; 34]; [44]; [34; 98; 34]; [93]].
Proof. eexists. split; [vm_compute; reflexivity|]. reflexivity. Qed.

Lemma merge_example :
  merge (mkpos 0 3 0 0 0 3) (mkpos 14 21 0 1 14 4) = mkpos 0 21 0 1 0 4.
Proof. reflexivity. Qed.
