(* C28 -- MODEL of the LSP server's message loop (src/lsp.rs: run_lsp, handle_message,
   push_request_response, push_response, push_error).  Definitions only; proofs are in
   LspDispatchProps.v.

   The model is PARAMETERISED by a `table` that tools/gen_lspdispatch.py regenerates from the
   Rust source on every run (coq/gen/LspDispatch.v): the arms of
   `match parsed.method.as_deref()` in source order (pattern, guard, shape of the body), what
   happens when the JSON value is not a `Message`, the shapes of the push helpers and of the
   main loop.

   Abstractions (modelled, not verified):
   * a client message is abstracted to what the code looks at: is the body JSON at all
     (`Garbage` otherwise: read_message fails), does it deserialize into `Message`
     (`Malformed` otherwise, with `message.get("id")`), and for a `Message` its id (None when
     absent or null), its method, whether its params deserialize into the handler's params type;
   * handler BODIES are abstracted to an `outcome` carried by the message: the handler that
     this message reaches (if any) returns, panics, or returns something `serde_json::to_value`
     rejects.  Theorems exclude the last two; the search hunts for them on the real server;
   * JSON ids are abstracted to numbers naming them (`IdVal n`), document URIs likewise. *)
From Coq Require Import List String NArith Bool.
Import ListNotations.
Open Scope string_scope.
Open Scope list_scope.

(* ------------------------------------------------------------------ *)
(* What the translator extracts                                        *)

Inductive action := ActContinue | ActShutdown | ActExit | ActUnknown.
Inductive errcode := MethodNotFound | InvalidRequest | InvalidParams | ParseErrorCode | InternalError.

(* pattern of an arm of `match parsed.method.as_deref()` *)
Inductive pat :=
| PStrs (l : list string)   (* Some("a" | "b" | ...), possibly `name @ (...)` *)
| PAnySome                  (* Some(method) / Some(_) *)
| PNone                     (* None *)
| PUnknown.

Inductive guard :=
| GNone
| GIdPresent                (* if parsed.id.is_some() *)
| GIdAbsent                 (* if parsed.id.is_none() *)
| GUnknown.

(* what a did* handler does to the document store *)
Inductive store_effect := StoreInsert | StoreRemove | StoreNone.

Inductive body :=
| BRespondParams (a : action)  (* if let Some(id) = parsed.id { push_request_response(.., id, "m", handler) } *)
| BRespondDirect (a : action)  (* if let Some(id) = parsed.id { push_response(.., handler(id)) } *)
| BRespondError (c : errcode) (a : action) (* if let Some(id) = parsed.id { push_error(.., id, code, ..) } *)
| BNotify (e : store_effect) (a : action)  (* outgoing.extend(handle_did_x(params, documents)) *)
| BNothing (a : action)        (* no output *)
| BUnknown.

Record arm := { a_pat : pat; a_guard : guard; a_body : body }.

Inductive parse_error_shape :=
| PEErrorIfRawId (c : errcode)  (* if let Some(id) = message.get("id") { push_error(id.clone(), c) }; return *)
| PEIgnore
| PEUnknown.
Inductive prr_shape := PrrResponseOrInvalidParams | PrrUnknown.
Inductive push_shape := PushOrLog | PushUnknown.
Inductive loop_shape := LoopBreak | LoopContinue | LoopUnknown.
Inductive shutdown_shape := SetShutdown | ShutdownUnknown.
Inductive exit_shape := ExitCodes (after_shutdown other : N) | ExitUnknown.

Record table := {
  t_arms : list arm;
  t_on_parse_error : parse_error_shape;
  t_prr : prr_shape;                 (* push_request_response *)
  t_push_response : push_shape;
  t_push_error : push_shape;
  t_frame_ok : bool;                 (* handle_message starts with an empty `outgoing` and Action::Continue,
                                        does nothing between the envelope parse and the dispatch, returns (outgoing, action) *)
  t_on_eof : loop_shape;             (* Ok(None) => break *)
  t_on_read_error : loop_shape;      (* Err(e) => { error!(..); continue } *)
  t_on_shutdown : shutdown_shape;    (* Action::Shutdown => shutdown_received = true *)
  t_loop_ok : bool;                  (* every outgoing message is written; shutdown_received starts false; Continue => {} *)
  t_exit_codes : exit_shape          (* Action::Exit => process::exit(if shutdown_received { a } else { b }) *)
}.

(* ------------------------------------------------------------------ *)
(* Messages                                                            *)

Inductive rawid := IdNull | IdVal (n : N).
Inductive outcome := Returns | SerializeFails | Panics.

Record envelope := {
  w_id : option N;            (* parsed.id: None when absent or null *)
  w_method : option string;   (* parsed.method *)
  w_params_ok : bool;         (* message.get("params") deserializes into the handler's params type *)
  w_outcome : outcome;        (* what the handler reached by this message does (oracle) *)
  w_doc : option N            (* did* handlers: Some uri when the params name a file document (diagnostics are published) *)
}.

Inductive cmsg :=
| Garbage                           (* body is not JSON: read_message returns Err *)
| Malformed (raw : option rawid)    (* JSON, but not a `Message`; raw = message.get("id") *)
| Wellformed (w : envelope).

Inductive omsg :=
| OResult (id : rawid)
| OError (id : rawid) (c : errcode)
| ODiag (uri : N).

Record state := { shutdown_seen : bool; open_docs : list N }.
Definition init_state : state := {| shutdown_seen := false; open_docs := [] |}.

(* ------------------------------------------------------------------ *)
(* handle_message                                                      *)

Definition is_some {A} (o : option A) : bool := match o with Some _ => true | None => false end.

Definition pat_matches (p : pat) (m : option string) : bool :=
  match p, m with
  | PStrs l, Some s => existsb (String.eqb s) l
  | PAnySome, Some _ => true
  | PNone, None => true
  | _, _ => false
  end.

Definition guard_holds (g : guard) (has_id : bool) : bool :=
  match g with
  | GNone => true
  | GIdPresent => has_id
  | GIdAbsent => negb has_id
  | GUnknown => false
  end.

(* Rust tries the arms first to last.  An arm the translator did not recognise stops the lookup. *)
Fixpoint lookup (arms : list arm) (m : option string) (has_id : bool) : body :=
  match arms with
  | [] => BUnknown
  | a :: rest =>
    match a_pat a, a_guard a with
    | PUnknown, _ => BUnknown
    | _, GUnknown => BUnknown
    | p, g => if pat_matches p m && guard_holds g has_id then a_body a else lookup rest m has_id
    end
  end.

Inductive step_result :=
| Step (out : list omsg) (act : action) (st : state)
| Crash       (* the handler panicked: the process dies, nothing of this message is written *)
| Stuck.      (* an unrecognised shape was reached: the model does not know *)

Definition remove_doc (u : N) (l : list N) : list N := filter (fun x => negb (N.eqb x u)) l.

Definition apply_store (e : store_effect) (u : N) (st : state) : state :=
  match e with
  | StoreInsert => {| shutdown_seen := shutdown_seen st; open_docs := u :: remove_doc u (open_docs st) |}
  | StoreRemove => {| shutdown_seen := shutdown_seen st; open_docs := remove_doc u (open_docs st) |}
  | StoreNone => st
  end.

(* push_response(outgoing, handler(..)) *)
Definition respond (t : table) (i : N) (o : outcome) (a : action) (st : state) : step_result :=
  match t_push_response t with
  | PushOrLog =>
    match o with
    | Returns => Step [OResult (IdVal i)] a st
    | SerializeFails => Step [] a st        (* error!("Error serializing response") and nothing is pushed *)
    | Panics => Crash
    end
  | PushUnknown => Stuck
  end.

(* push_error: JsonRpcErrorResponse holds a Value, a code and a String; its serialization is taken to succeed *)
Definition respond_error (t : table) (i : rawid) (c : errcode) (a : action) (st : state) : step_result :=
  match t_push_error t with
  | PushOrLog => Step [OError i c] a st
  | PushUnknown => Stuck
  end.

Definition handle (t : table) (st : state) (m : cmsg) : step_result :=
  if negb (t_frame_ok t) then Stuck else
  match m with
  | Garbage =>
    match t_on_read_error t with
    | LoopContinue => Step [] ActContinue st
    | _ => Stuck
    end
  | Malformed raw =>
    match t_on_parse_error t with
    | PEErrorIfRawId c =>
      match raw with
      | Some r => respond_error t r c ActContinue st
      | None => Step [] ActContinue st
      end
    | PEIgnore => Step [] ActContinue st
    | PEUnknown => Stuck
    end
  | Wellformed w =>
    match lookup (t_arms t) (w_method w) (is_some (w_id w)) with
    | BRespondParams a =>
      match w_id w with
      | None => Step [] a st
      | Some i =>
        match t_prr t with
        | PrrResponseOrInvalidParams =>
          if w_params_ok w then respond t i (w_outcome w) a st
          else respond_error t (IdVal i) InvalidParams a st
        | PrrUnknown => Stuck
        end
      end
    | BRespondDirect a =>
      match w_id w with
      | None => Step [] a st
      | Some i => respond t i (w_outcome w) a st
      end
    | BRespondError c a =>
      match w_id w with
      | None => Step [] a st
      | Some i => respond_error t (IdVal i) c a st
      end
    | BNotify e a =>
      match w_outcome w with
      | Panics => Crash
      | SerializeFails => Step [] a (match w_doc w with Some u => apply_store e u st | None => st end)
      | Returns =>
        match w_doc w with
        | Some u => Step [ODiag u] a (apply_store e u st)
        | None => Step [] a st
        end
      end
    | BNothing a => Step [] a st
    | BUnknown => Stuck
    end
  end.

(* ------------------------------------------------------------------ *)
(* run_lsp                                                             *)

Inductive final :=
| FExit (code : N)   (* std::process::exit(code) at an `exit` *)
| FEof               (* stdin closed: the loop breaks, the process ends normally (status 0) *)
| FCrash             (* panic: status 101 *)
| FStuck.

Definition set_shutdown (st : state) : state := {| shutdown_seen := true; open_docs := open_docs st |}.

Fixpoint run (t : table) (st : state) (msgs : list cmsg) : list omsg * final :=
  if negb (t_loop_ok t) then ([], FStuck) else
  match msgs with
  | [] => match t_on_eof t with LoopBreak => ([], FEof) | _ => ([], FStuck) end
  | m :: rest =>
    match handle t st m with
    | Crash => ([], FCrash)
    | Stuck => ([], FStuck)
    | Step out act st' =>
      (* the outgoing messages are written first, then the action is looked at *)
      match act with
      | ActContinue => let (o, f) := run t st' rest in (out ++ o, f)
      | ActShutdown =>
        match t_on_shutdown t with
        | SetShutdown => let (o, f) := run t (set_shutdown st') rest in (out ++ o, f)
        | ShutdownUnknown => (out, FStuck)
        end
      | ActExit =>
        match t_exit_codes t with
        | ExitCodes a b => (out, FExit (if shutdown_seen st' then a else b))
        | ExitUnknown => (out, FStuck)
        end
      | ActUnknown => (out, FStuck)
      end
    end
  end.

(* ------------------------------------------------------------------ *)
(* Vocabulary of the property (independent of the table)               *)

(* a request: a `Message` with an id and a method, whatever the method is *)
Definition request_id (m : cmsg) : option rawid :=
  match m with
  | Wellformed w =>
    match w_id w, w_method w with
    | Some i, Some _ => Some (IdVal i)
    | _, _ => None
    end
  | _ => None
  end.

(* the messages the server must answer: requests, and malformed messages that still show an id *)
Definition answerable (m : cmsg) : option rawid :=
  match m with
  | Malformed (Some r) => Some r
  | _ => request_id m
  end.

Definition is_exit_notification (m : cmsg) : bool :=
  match m with
  | Wellformed w =>
    match w_id w, w_method w with
    | None, Some s => String.eqb s "exit"
    | _, _ => false
    end
  | _ => false
  end.

Definition is_shutdown (m : cmsg) : bool :=
  match m with
  | Wellformed w => match w_method w with Some s => String.eqb s "shutdown" | None => false end
  | _ => false
  end.

(* the messages the server gets to see: everything up to and including the first `exit` notification *)
Fixpoint processed (msgs : list cmsg) : list cmsg :=
  match msgs with
  | [] => []
  | m :: rest => if is_exit_notification m then [m] else m :: processed rest
  end.

Definition has_exit (msgs : list cmsg) : bool := existsb is_exit_notification msgs.

(* how the process must end: at the first `exit` notification with status 0 when a shutdown
   (request or notification) was seen before it and 1 otherwise; at EOF the loop just ends *)
Fixpoint expected_final (sd : bool) (msgs : list cmsg) : final :=
  match msgs with
  | [] => FEof
  | m :: rest =>
    if is_exit_notification m then FExit (if sd then 0%N else 1%N)
    else expected_final (sd || is_shutdown m) rest
  end.

Definition response_id (o : omsg) : option rawid :=
  match o with
  | OResult i => Some i
  | OError i _ => Some i
  | ODiag _ => None
  end.

Fixpoint filter_map {A B} (f : A -> option B) (l : list A) : list B :=
  match l with
  | [] => []
  | x :: r => match f x with Some y => y :: filter_map f r | None => filter_map f r end
  end.

Definition response_ids (out : list omsg) : list rawid := filter_map response_id out.

(* the handler reached by this message returns a serializable result *)
Definition outcome_ok (m : cmsg) : Prop :=
  match m with
  | Wellformed w => w_outcome w = Returns
  | _ => True
  end.

Definition rawid_eqb (a b : rawid) : bool :=
  match a, b with
  | IdNull, IdNull => true
  | IdVal x, IdVal y => N.eqb x y
  | _, _ => false
  end.

Definition count_id (r : rawid) (l : list rawid) : nat := List.length (filter (rawid_eqb r) l).

(* ------------------------------------------------------------------ *)
(* The finite check of a table (computed on the generated table)       *)

Definition action_eqb (a b : action) : bool :=
  match a, b with
  | ActContinue, ActContinue | ActShutdown, ActShutdown | ActExit, ActExit => true
  | _, _ => false
  end.

Definition body_action (b : body) : action :=
  match b with
  | BRespondParams a | BRespondDirect a | BRespondError _ a | BNotify _ a | BNothing a => a
  | BUnknown => ActUnknown
  end.

(* with an id present: exactly one response on every path *)
Definition responding (b : body) : bool :=
  match b with
  | BRespondParams _ | BRespondDirect _ | BRespondError _ _ => true
  | _ => false
  end.

Definition recognised (b : body) : bool := match b with BUnknown => false | _ => true end.

Definition want_action (s : string) (has_id : bool) : action :=
  if String.eqb s "shutdown" then ActShutdown
  else if String.eqb s "exit" && negb has_id then ActExit
  else ActContinue.

Definition arm_spec (s : string) (has_id : bool) (b : body) : bool :=
  (if has_id then responding b else recognised b) && action_eqb (body_action b) (want_action s has_id).

Fixpoint literals (arms : list arm) : list string :=
  match arms with
  | [] => []
  | a :: rest => match a_pat a with PStrs l => l ++ literals rest | _ => literals rest end
  end.

(* the arm reached by a method that is none of the literals *)
Fixpoint lookup_other (arms : list arm) (has_id : bool) : body :=
  match arms with
  | [] => BUnknown
  | a :: rest =>
    match a_pat a, a_guard a with
    | PUnknown, _ => BUnknown
    | _, GUnknown => BUnknown
    | PAnySome, g => if guard_holds g has_id then a_body a else lookup_other rest has_id
    | _, _ => lookup_other rest has_id
    end
  end.

Definition body_eqb_error (b : body) (c : errcode) : bool :=
  match b, c with
  | BRespondError MethodNotFound ActContinue, MethodNotFound => true
  | _, _ => false
  end.

Definition arms_ok (arms : list arm) : bool :=
  forallb (fun s => arm_spec s true (lookup arms (Some s) true) && arm_spec s false (lookup arms (Some s) false))
          (literals arms)
  && existsb (String.eqb "exit") (literals arms)
  && existsb (String.eqb "shutdown") (literals arms)
  && body_eqb_error (lookup_other arms true) MethodNotFound
  && (recognised (lookup_other arms false) && action_eqb (body_action (lookup_other arms false)) ActContinue)
  && (recognised (lookup arms None true) && action_eqb (body_action (lookup arms None true)) ActContinue
      && negb (responding (lookup arms None true)))
  && (recognised (lookup arms None false) && action_eqb (body_action (lookup arms None false)) ActContinue).

Definition table_ok (t : table) : bool :=
  arms_ok (t_arms t)
  && t_frame_ok t && t_loop_ok t
  && match t_on_parse_error t with PEErrorIfRawId InvalidRequest => true | _ => false end
  && match t_prr t with PrrResponseOrInvalidParams => true | _ => false end
  && match t_push_response t with PushOrLog => true | _ => false end
  && match t_push_error t with PushOrLog => true | _ => false end
  && match t_on_eof t with LoopBreak => true | _ => false end
  && match t_on_read_error t with LoopContinue => true | _ => false end
  && match t_on_shutdown t with SetShutdown => true | _ => false end
  && match t_exit_codes t with ExitCodes 0 1 => true | _ => false end.
