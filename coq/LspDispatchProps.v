(* C28 -- proofs about the model LspDispatch.v, for ANY table that passes the finite check
   `table_ok`; Properties/C28.v instantiates them with the generated table. *)
From Coq Require Import List String NArith Bool Lia.
Require Import Garden.LspDispatch.
Import ListNotations.
Open Scope string_scope.
Open Scope list_scope.

(* ------------------------------------------------------------------ *)
(* small facts                                                         *)

Lemma filter_map_app : forall {A B} (f : A -> option B) l1 l2,
  filter_map f (l1 ++ l2) = filter_map f l1 ++ filter_map f l2.
Proof.
  intros A B f l1 l2; induction l1 as [|x r IH]; cbn [filter_map app]; [reflexivity|].
  destruct (f x); cbn [app]; now rewrite IH.
Qed.

Lemma response_ids_app : forall a b, response_ids (a ++ b) = response_ids a ++ response_ids b.
Proof. intros; apply filter_map_app. Qed.

Lemma existsb_eqb_In : forall s l, existsb (String.eqb s) l = true <-> In s l.
Proof.
  intros s l; rewrite existsb_exists; split.
  - intros [x [Hin Heq]]. apply String.eqb_eq in Heq. now subst.
  - intros Hin. exists s. split; [assumption | apply String.eqb_refl].
Qed.

Lemma existsb_eqb_notIn : forall s l, ~ In s l -> existsb (String.eqb s) l = false.
Proof.
  intros s l H. destruct (existsb (String.eqb s) l) eqn:E; [|reflexivity].
  apply existsb_eqb_In in E. contradiction.
Qed.

(* ------------------------------------------------------------------ *)
(* a method that is none of the literals reaches the catch-all arm     *)

Lemma lookup_other_eq : forall arms s h,
  ~ In s (literals arms) -> lookup arms (Some s) h = lookup_other arms h.
Proof.
  induction arms as [|a rest IH]; intros s h Hn; [reflexivity|].
  cbn [lookup lookup_other literals] in *.
  destruct (a_pat a) as [l| | |] eqn:Ep; destruct (a_guard a) eqn:Eg; cbn [pat_matches];
    try reflexivity;
    try (rewrite existsb_eqb_notIn by (intro Hin; apply Hn; apply in_or_app; now left);
         cbn [andb]; apply IH; intro Hin; apply Hn; apply in_or_app; now right);
    try (cbn [andb]; destruct (guard_holds _ h); [reflexivity | now apply IH]);
    try (cbn [andb]; now apply IH).
Qed.

Lemma action_eqb_eq : forall a b, action_eqb a b = true -> a = b.
Proof. intros [] []; cbn; congruence. Qed.

Lemma arms_ok_spec : forall arms, arms_ok arms = true ->
  forall s h, arm_spec s h (lookup arms (Some s) h) = true.
Proof.
  intros arms Hok s h. unfold arms_ok in Hok.
  repeat (apply andb_true_iff in Hok; destruct Hok as [Hok ?]).
  rename Hok into Hall.
  destruct (in_dec string_dec s (literals arms)) as [Hin|Hnin].
  - rewrite forallb_forall in Hall. specialize (Hall s Hin).
    apply andb_true_iff in Hall. destruct Hall as [Ht Hf]. destruct h; assumption.
  - rewrite (lookup_other_eq arms s h Hnin).
    assert (Hns : String.eqb s "shutdown" = false).
    { destruct (String.eqb s "shutdown") eqn:E; [|reflexivity]. apply String.eqb_eq in E. subst s.
      exfalso. apply Hnin. now apply existsb_eqb_In. }
    assert (Hne : String.eqb s "exit" = false).
    { destruct (String.eqb s "exit") eqn:E; [|reflexivity]. apply String.eqb_eq in E. subst s.
      exfalso. apply Hnin. now apply existsb_eqb_In. }
    unfold arm_spec, want_action. rewrite Hns, Hne. cbn [andb].
    destruct h.
    + destruct (lookup_other arms true) as [ | |c a| | | ]; try discriminate.
      destruct c, a; try discriminate. reflexivity.
    + match goal with H : recognised (lookup_other arms false) && _ = true |- _ =>
        apply andb_true_iff in H; destruct H as [Hr Ha] end.
      rewrite Hr, Ha. reflexivity.
Qed.

Lemma arms_ok_none : forall arms, arms_ok arms = true ->
  forall h, recognised (lookup arms None h) = true
            /\ body_action (lookup arms None h) = ActContinue
            /\ (h = true -> responding (lookup arms None h) = false).
Proof.
  intros arms Hok h. unfold arms_ok in Hok.
  repeat (apply andb_true_iff in Hok; destruct Hok as [Hok ?]).
  destruct h.
  - match goal with H : recognised (lookup arms None true) && _ && _ = true |- _ =>
      apply andb_true_iff in H; destruct H as [H Hnr]; apply andb_true_iff in H; destruct H as [Hr Ha] end.
    split; [assumption|]. split; [now apply action_eqb_eq|]. intros _. now apply negb_true_iff.
  - match goal with H : recognised (lookup arms None false) && _ = true |- _ =>
      apply andb_true_iff in H; destruct H as [Hr Ha] end.
    split; [assumption|]. split; [now apply action_eqb_eq|]. discriminate.
Qed.

(* ------------------------------------------------------------------ *)
(* one message                                                         *)

Definition msg_action (m : cmsg) : action :=
  match m with
  | Wellformed w =>
    match w_method w with
    | Some s => want_action s (is_some (w_id w))
    | None => ActContinue
    end
  | _ => ActContinue
  end.

Definition opt_list {A} (o : option A) : list A := match o with Some x => [x] | None => [] end.

Record table_facts (t : table) : Prop := {
  tf_arms : arms_ok (t_arms t) = true;
  tf_frame : t_frame_ok t = true;
  tf_loop : t_loop_ok t = true;
  tf_pe : t_on_parse_error t = PEErrorIfRawId InvalidRequest;
  tf_prr : t_prr t = PrrResponseOrInvalidParams;
  tf_pr : t_push_response t = PushOrLog;
  tf_perr : t_push_error t = PushOrLog;
  tf_eof : t_on_eof t = LoopBreak;
  tf_rerr : t_on_read_error t = LoopContinue;
  tf_sd : t_on_shutdown t = SetShutdown;
  tf_exit : t_exit_codes t = ExitCodes 0 1
}.

Lemma table_ok_facts : forall t, table_ok t = true -> table_facts t.
Proof.
  intros t H. unfold table_ok in H.
  destruct (arms_ok (t_arms t)) eqn:Ha; [|discriminate H]. cbn [andb] in H.
  destruct (t_frame_ok t) eqn:Hf; [|discriminate H]. cbn [andb] in H.
  destruct (t_loop_ok t) eqn:Hl; [|discriminate H]. cbn [andb] in H.
  destruct (t_on_parse_error t) as [c| |] eqn:Hpe; try discriminate H.
  destruct c; try discriminate H. cbn [andb] in H.
  destruct (t_prr t) eqn:Hprr; [|discriminate H]. cbn [andb] in H.
  destruct (t_push_response t) eqn:Hpr; [|discriminate H]. cbn [andb] in H.
  destruct (t_push_error t) eqn:Hperr; [|discriminate H]. cbn [andb] in H.
  destruct (t_on_eof t) eqn:Heof; try discriminate H. cbn [andb] in H.
  destruct (t_on_read_error t) eqn:Hrerr; try discriminate H. cbn [andb] in H.
  destruct (t_on_shutdown t) eqn:Hsd; [|discriminate H]. cbn [andb] in H.
  destruct (t_exit_codes t) as [a b|] eqn:Hex; try discriminate H.
  destruct a as [|pa]; try discriminate H. destruct b as [|pb]; try discriminate H.
  destruct pb; try discriminate H.
  constructor; reflexivity || assumption.
Qed.

(* What handle_message does with one message whose handler (if any) returns: exactly the
   responses the message is owed, the action its method asks for, the shutdown flag untouched. *)
Lemma handle_ok : forall t, table_ok t = true -> forall st m, outcome_ok m ->
  exists out st', handle t st m = Step out (msg_action m) st'
                  /\ response_ids out = opt_list (answerable m)
                  /\ shutdown_seen st' = shutdown_seen st.
Proof.
  intros t Hok st m Hm. destruct (table_ok_facts t Hok) as [Ha Hf Hl Hpe Hprr Hpr Hperr Heof Hrerr Hsd Hex].
  unfold handle. rewrite Hf. cbn [negb].
  destruct m as [|raw|w].
  - rewrite Hrerr. exists [], st. repeat split.
  - rewrite Hpe. destruct raw as [r|].
    + unfold respond_error. rewrite Hperr. exists [OError r InvalidRequest], st. repeat split.
    + exists [], st. repeat split.
  - cbn [outcome_ok] in Hm. cbn [msg_action answerable request_id].
    destruct (w_method w) as [s|] eqn:Em.
    + pose proof (arms_ok_spec _ Ha s (is_some (w_id w))) as Hs.
      unfold arm_spec in Hs. apply andb_true_iff in Hs. destruct Hs as [Hshape Hact].
      apply action_eqb_eq in Hact.
      destruct (w_id w) as [i|] eqn:Ei; cbn [is_some] in *.
      * destruct (lookup (t_arms t) (Some s) true) as [a|a|c a|e a|a|]; try discriminate; cbn [body_action] in Hact; subst a.
        -- rewrite Hprr. destruct (w_params_ok w).
           ++ unfold respond. rewrite Hpr, Hm. eexists _, st. repeat split.
           ++ unfold respond_error. rewrite Hperr. eexists _, st. repeat split.
        -- unfold respond. rewrite Hpr, Hm. eexists _, st. repeat split.
        -- unfold respond_error. rewrite Hperr. eexists _, st. repeat split.
      * destruct (lookup (t_arms t) (Some s) false) as [a|a|c a|e a|a|]; try discriminate; cbn [body_action] in Hact; subst a;
          try (exists [], st; repeat split; fail).
        rewrite Hm. destruct (w_doc w) as [u|].
        -- eexists [ODiag u], _. repeat split. destruct e; reflexivity.
        -- exists [], st. repeat split.
    + destruct (arms_ok_none _ Ha (is_some (w_id w))) as [Hr [Hact Hnr]].
      destruct (w_id w) as [i|] eqn:Ei; cbn [is_some] in *.
      * specialize (Hnr eq_refl).
        destruct (lookup (t_arms t) None true) as [a|a|c a|e a|a|]; try discriminate; cbn [body_action] in Hact; subst a.
        -- rewrite Hm. destruct (w_doc w) as [u|].
           ++ eexists [ODiag u], _. repeat split. destruct e; reflexivity.
           ++ exists [], st. repeat split.
        -- exists [], st. repeat split.
      * destruct (lookup (t_arms t) None false) as [a|a|c a|e a|a|]; try discriminate; cbn [body_action] in Hact; subst a;
          try (exists [], st; repeat split; fail).
        rewrite Hm. destruct (w_doc w) as [u|].
        -- eexists [ODiag u], _. repeat split. destruct e; reflexivity.
        -- exists [], st. repeat split.
Qed.

(* ------------------------------------------------------------------ *)
(* the action of a message, in the property's vocabulary               *)

Lemma want_action_exit : forall s h, want_action s h = ActExit <-> (s = "exit" /\ h = false).
Proof.
  intros s h. unfold want_action.
  destruct (String.eqb s "shutdown") eqn:Es.
  - apply String.eqb_eq in Es. subst s. split; [discriminate|]. intros [E _]. discriminate.
  - destruct (String.eqb s "exit") eqn:Ee; cbn [andb].
    + apply String.eqb_eq in Ee. subst s. destruct h; cbn [negb]; split; try discriminate; auto.
      intros [_ E]. discriminate.
    + split; [discriminate|]. intros [E _]. subst s. discriminate.
Qed.

Lemma msg_action_exit : forall m, msg_action m = ActExit <-> is_exit_notification m = true.
Proof.
  intros [| |w]; cbn [msg_action is_exit_notification]; try (split; discriminate).
  destruct (w_method w) as [s|]; [|destruct (w_id w); split; discriminate].
  rewrite want_action_exit. destruct (w_id w); cbn [is_some].
  - split; [intros [_ E]; discriminate | discriminate].
  - split; [intros [E _]; subst s; reflexivity | intros E; apply String.eqb_eq in E; auto].
Qed.

Lemma msg_action_shutdown : forall m, msg_action m = ActShutdown <-> is_shutdown m = true.
Proof.
  intros [| |w]; cbn [msg_action is_shutdown]; try (split; discriminate).
  destruct (w_method w) as [s|]; [|split; discriminate].
  unfold want_action. destruct (String.eqb s "shutdown"); [split; reflexivity|].
  destruct (String.eqb s "exit" && negb (is_some (w_id w))); split; discriminate.
Qed.

(* ------------------------------------------------------------------ *)
(* the loop                                                            *)

Lemma run_ok : forall t, table_ok t = true -> forall msgs st,
  Forall outcome_ok (processed msgs) ->
  response_ids (fst (run t st msgs)) = filter_map answerable (processed msgs)
  /\ snd (run t st msgs) = expected_final (shutdown_seen st) msgs.
Proof.
  intros t Hok. pose proof (table_ok_facts t Hok) as F.
  induction msgs as [|m rest IH]; intros st Hall.
  - cbn [run]. rewrite (tf_loop t F), (tf_eof t F). cbn. split; reflexivity.
  - cbn [run processed expected_final] in *. rewrite (tf_loop t F). cbn [negb].
    assert (Hm : outcome_ok m).
    { destruct (is_exit_notification m); inversion Hall; assumption. }
    destruct (handle_ok t Hok st m Hm) as [out [st' [Hh [Hr Hs]]]].
    rewrite Hh.
    destruct (is_exit_notification m) eqn:Ex.
    + apply msg_action_exit in Ex. rewrite Ex. rewrite (tf_exit t F). cbn [fst snd filter_map].
      rewrite Hr, Hs. split; [destruct (answerable m); reflexivity | reflexivity].
    + assert (Hrest : Forall outcome_ok (processed rest)) by (inversion Hall; assumption).
      destruct (msg_action m) eqn:Ea.
      * (* Continue *)
        assert (Hsd : is_shutdown m = false).
        { destruct (is_shutdown m) eqn:E; [|reflexivity]. apply msg_action_shutdown in E. congruence. }
        specialize (IH st' Hrest). destruct (run t st' rest) as [o f]. cbn [fst snd] in *.
        rewrite response_ids_app, Hr. destruct IH as [IH1 IH2]. rewrite IH1, IH2, Hs, Hsd, orb_false_r.
        cbn [filter_map]. split; [destruct (answerable m); reflexivity | reflexivity].
      * (* Shutdown *)
        assert (Hsd : is_shutdown m = true) by (now apply msg_action_shutdown).
        rewrite (tf_sd t F).
        specialize (IH (set_shutdown st') Hrest). destruct (run t (set_shutdown st') rest) as [o f]. cbn [fst snd] in *.
        rewrite response_ids_app, Hr. destruct IH as [IH1 IH2]. rewrite IH1, IH2, Hsd, orb_true_r.
        cbn [filter_map set_shutdown shutdown_seen]. split; [destruct (answerable m); reflexivity | reflexivity].
      * apply msg_action_exit in Ea. congruence.
      * (* ActUnknown is never wanted *)
        exfalso. destruct m as [| |w]; cbn [msg_action] in Ea; try discriminate.
        destruct (w_method w) as [s|]; [|discriminate]. unfold want_action in Ea.
        destruct (String.eqb s "shutdown"); [discriminate|].
        destruct (String.eqb s "exit" && negb (is_some (w_id w))); discriminate.
Qed.

(* messages after the first `exit` notification are never looked at *)
Lemma run_only_processed : forall t, table_ok t = true -> forall msgs st,
  Forall outcome_ok (processed msgs) ->
  run t st msgs = run t st (processed msgs).
Proof.
  intros t Hok. pose proof (table_ok_facts t Hok) as F.
  induction msgs as [|m rest IH]; intros st Hall; [reflexivity|].
  cbn [processed] in *. destruct (is_exit_notification m) eqn:Ex.
  - cbn [run]. rewrite (tf_loop t F). cbn [negb].
    assert (Hm : outcome_ok m) by (inversion Hall; assumption).
    destruct (handle_ok t Hok st m Hm) as [out [st' [Hh _]]]. rewrite Hh.
    apply msg_action_exit in Ex. rewrite Ex. reflexivity.
  - cbn [run]. rewrite (tf_loop t F). cbn [negb].
    assert (Hm : outcome_ok m) by (inversion Hall; assumption).
    assert (Hrest : Forall outcome_ok (processed rest)) by (inversion Hall; assumption).
    destruct (handle t st m) as [out act st'| |]; try reflexivity.
    destruct act; try reflexivity.
    + now rewrite (IH st' Hrest).
    + destruct (t_on_shutdown t); [|reflexivity]. now rewrite (IH (set_shutdown st') Hrest).
Qed.

(* counting form *)
Lemma count_of_equal_lists : forall r (a b : list rawid), a = b -> count_id r a = count_id r b.
Proof. intros; subst; reflexivity. Qed.

(* a panic is the only way to die, and it needs a handler that panics *)
Lemma handle_crash_only_on_panic : forall t st m, handle t st m = Crash ->
  exists w, m = Wellformed w /\ w_outcome w = Panics.
Proof.
  intros t st m H. unfold handle in H. destruct (negb (t_frame_ok t)); [discriminate|].
  destruct m as [|raw|w].
  - destruct (t_on_read_error t); discriminate.
  - destruct (t_on_parse_error t); try discriminate. destruct raw; [|discriminate].
    unfold respond_error in H. destruct (t_push_error t); discriminate.
  - exists w. split; [reflexivity|].
    unfold respond, respond_error in H.
    destruct (w_outcome w); try reflexivity; exfalso;
      destruct (lookup (t_arms t) (w_method w) (is_some (w_id w)));
      destruct (w_id w); destruct (t_prr t); destruct (w_params_ok w);
      destruct (t_push_response t); destruct (t_push_error t); destruct (w_doc w); discriminate.
Qed.

(* ------------------------------------------------------------------ *)
(* single-message corollaries                                          *)

Lemma handle_silent : forall t, table_ok t = true -> forall st m, outcome_ok m -> answerable m = None ->
  forall out act st', handle t st m = Step out act st' -> response_ids out = [].
Proof.
  intros t Hok st m Hm Hn out act st' H.
  destruct (handle_ok t Hok st m Hm) as [out0 [st0 [Hh [Hr _]]]].
  rewrite Hh in H. inversion H; subst. rewrite Hr, Hn. reflexivity.
Qed.

Lemma handle_unknown_method : forall t, table_ok t = true -> forall st w i s,
  w_id w = Some i -> w_method w = Some s -> ~ In s (literals (t_arms t)) ->
  handle t st (Wellformed w) = Step [OError (IdVal i) MethodNotFound] ActContinue st.
Proof.
  intros t Hok st w i s Hi Hs Hn. pose proof (table_ok_facts t Hok) as F.
  unfold handle. rewrite (tf_frame t F), Hi, Hs. cbn [negb is_some].
  rewrite (lookup_other_eq _ s true Hn).
  pose proof (tf_arms t F) as Ha. unfold arms_ok in Ha.
  destruct (forallb _ (literals (t_arms t))); [|discriminate Ha]. cbn [andb] in Ha.
  destruct (existsb (String.eqb "exit") _); [|discriminate Ha]. cbn [andb] in Ha.
  destruct (existsb (String.eqb "shutdown") _); [|discriminate Ha]. cbn [andb] in Ha.
  destruct (lookup_other (t_arms t) true) as [ | |c a| | | ]; try discriminate Ha.
  destruct c, a; try discriminate Ha.
  unfold respond_error. rewrite (tf_perr t F). reflexivity.
Qed.

Lemma handle_malformed : forall t, table_ok t = true -> forall st,
  (forall r, handle t st (Malformed (Some r)) = Step [OError r InvalidRequest] ActContinue st)
  /\ handle t st (Malformed None) = Step [] ActContinue st
  /\ handle t st Garbage = Step [] ActContinue st.
Proof.
  intros t Hok st. pose proof (table_ok_facts t Hok) as F.
  unfold handle, respond_error. rewrite (tf_frame t F), (tf_pe t F), (tf_perr t F), (tf_rerr t F).
  cbn [negb]. repeat split.
Qed.

Lemma remove_doc_not_in : forall u l, ~ In u (remove_doc u l).
Proof.
  intros u l H. unfold remove_doc in H. apply filter_In in H. destruct H as [_ H].
  rewrite N.eqb_refl in H. discriminate.
Qed.
