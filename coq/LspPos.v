(* LspPos -- MODEL of the byte-offset <-> LSP-position conversions of
   /repo/src/lsp.rs and of the LSP specification's meaning of a range edit.

   Definitions only (proofs are in LspPosProps.v).

   A document is the list of its Unicode scalar values (`char`s of the Rust
   `&str`).  Rust addresses a `&str` by BYTE offsets into its UTF-8 encoding;
   slicing at an offset that is not a character boundary panics.  LSP addresses
   a document by (line, character) where `character` counts UTF-16 code units
   and lines end at `\n`, `\r\n` or `\r`.

   Modelled, not verified: the semantics of the Rust std functions used
   (`str` slicing, `rfind`, `find`, `char_indices`, `lines`, `encode_utf16`,
   `len_utf8`, `len_utf16`, `as u32`).  The correspondence check
   (tools/props/C29.py) runs these definitions, extracted, against the real
   functions on all small documents. *)
From Coq Require Import NArith Bool List.
Import ListNotations.
Open Scope N_scope.

Definition doc := list N.

Definition LF : N := 10.
Definition CR : N := 13.

(* char::len_utf8 / char::len_utf16 *)
Definition len_utf8 (c : N) : N :=
  if c <? 128 then 1 else if c <? 2048 then 2 else if c <? 65536 then 3 else 4.
Definition len_utf16 (c : N) : N := if c <? 65536 then 1 else 2.

(* str::len (bytes) and encode_utf16().count() *)
Fixpoint blen (s : doc) : N :=
  match s with [] => 0 | c :: r => len_utf8 c + blen r end.
Fixpoint ulen (s : doc) : N :=
  match s with [] => 0 | c :: r => len_utf16 c + ulen r end.

(* Number of `\n` in s. *)
Fixpoint count_lf (s : doc) : N :=
  match s with [] => 0 | c :: r => (if c =? LF then 1 else 0) + count_lf r end.

(* Split at byte offset o: (s[..o], s[o..]).  None when o is past the end or
   not on a character boundary (where Rust's slicing panics). *)
Fixpoint split_bytes (s : doc) (o : N) {struct s} : option (doc * doc) :=
  if o =? 0 then Some ([], s) else
  match s with
  | [] => None
  | c :: r =>
    if o <? len_utf8 c then None else
    match split_bytes r (o - len_utf8 c) with
    | Some (p, q) => Some (c :: p, q)
    | None => None
    end
  end.

(* `str::is_char_boundary` *)
Definition is_boundary (s : doc) (o : N) : bool :=
  match split_bytes s o with Some _ => true | None => false end.

(* The declarative reading: o is the byte length of a prefix of s. *)
Definition boundary (s : doc) (o : N) : Prop :=
  exists p q, s = p ++ q /\ blen p = o.

(* &s[a..b]; None = panic. *)
Definition slice (s : doc) (a b : N) : option doc :=
  if b <? a then None else
  match split_bytes s a with
  | None => None
  | Some (_, r) =>
    match split_bytes r (b - a) with
    | None => None
    | Some (m, _) => Some m
    end
  end.

(* s.rfind('\n') and s.find('\n'): byte index of the last / first `\n`. *)
Fixpoint rfind_lf (s : doc) : option N :=
  match s with
  | [] => None
  | c :: r =>
    match rfind_lf r with
    | Some i => Some (len_utf8 c + i)
    | None => if c =? LF then Some 0 else None
    end
  end.
Fixpoint find_lf (s : doc) : option N :=
  match s with
  | [] => None
  | c :: r =>
    if c =? LF then Some 0 else
    match find_lf r with Some i => Some (len_utf8 c + i) | None => None end
  end.

(* `x as u32` from usize (64-bit). *)
Definition u32 (x : N) : N := x mod 4294967296.

(* ------------------------------------------------------------------ *)
(* The line number garden's lexer attaches to a byte offset
   (line_numbers::LinePositions: lines are split at `\n` only). *)
Definition line_of (s : doc) (o : N) : N :=
  match split_bytes s o with
  | Some (p, _) => count_lf p
  | None => 0
  end.

(* ------------------------------------------------------------------ *)
(* fn offset_to_lsp_position(src, offset) -> Position

     let offset = offset.min(src.len());
     let before = &src[..offset];
     let line_start = before.rfind('\n').map_or(0, |i| i + 1);
     let line = before.bytes().filter(|b| *b == b'\n').count();
     let character = src[line_start..offset].encode_utf16().count();
     Position { line: line as u32, character: character as u32 }

   (0x0A occurs in UTF-8 only as the encoding of `\n`, so counting bytes equal
   to b'\n' counts `\n` characters.) *)
Inductive pos_result :=
| PPanic
| POk (line character : N).

Definition offset_to_lsp_position (src : doc) (offset : N) : pos_result :=
  let offset := N.min offset (blen src) in
  match slice src 0 offset with
  | None => PPanic
  | Some before =>
    let line_start := match rfind_lf before with None => 0 | Some i => i + 1 end in
    let line := count_lf before in
    match slice src line_start offset with
    | None => PPanic
    | Some seg => POk (u32 line) (u32 (ulen seg))
    end
  end.

(* fn garden_pos_to_lsp_range(src, pos) -> Range: the two conversions of
   pos.start_offset and pos.end_offset.  The line fields of the garden
   position are not used. *)
Record gpos := { start_offset : N; end_offset : N; line_number : N; end_line_number : N }.

Definition garden_pos_to_lsp_range (src : doc) (p : gpos) : option ((N * N) * (N * N)) :=
  match offset_to_lsp_position src (start_offset p), offset_to_lsp_position src (end_offset p) with
  | POk l1 c1, POk l2 c2 => Some ((l1, c1), (l2, c2))
  | _, _ => None
  end.

(* The range garden computes for the byte span [a, b). *)
Definition range_of (src : doc) (a b : N) : option ((N * N) * (N * N)) :=
  garden_pos_to_lsp_range src
    {| start_offset := a; end_offset := b; line_number := 0; end_line_number := 0 |}.

(* BEFORE the fix "LSP ranges take their lines from the offsets" the line was
   the caller's: Position { line: line_number as u32, .. } with
   pos.line_number / pos.end_line_number of the garden position.  Kept only
   to state what was wrong (LspPosProps.stale_end_line_refuted). *)
Definition offset_to_lsp_position_v0 (src : doc) (offset line_number : N) : pos_result :=
  match offset_to_lsp_position src offset with
  | PPanic => PPanic
  | POk _ c => POk (u32 line_number) c
  end.

Definition garden_pos_to_lsp_range_v0 (src : doc) (p : gpos) : option ((N * N) * (N * N)) :=
  match offset_to_lsp_position_v0 src (start_offset p) (line_number p),
        offset_to_lsp_position_v0 src (end_offset p) (end_line_number p) with
  | POk l1 c1, POk l2 c2 => Some ((l1, c1), (l2, c2))
  | _, _ => None
  end.

(* ------------------------------------------------------------------ *)
(* fn line_char_to_offset(src, line, character) -> usize

     let mut line_start = 0;
     for _ in 0..line {
         match src[line_start..].find('\n') {
             Some(i) => line_start += i + 1,
             None => return src.len(),
         }
     }
   `skip_lines rest line` is this loop run on the suffix rest = src[line_start..]
   (the `find` is fused into the recursion): Some (bytes skipped, new suffix), or
   None for the early `return src.len()`. *)
Fixpoint skip_lines (rest : doc) (line : N) {struct rest} : option (N * doc) :=
  if line =? 0 then Some (0, rest) else
  match rest with
  | [] => None
  | c :: r =>
    match skip_lines r (if c =? LF then line - 1 else line) with
    | Some (n, r') => Some (len_utf8 c + n, r')
    | None => None
    end
  end.

(*   let mut units = 0; let mut offset = line_start;
     for (char_idx, ch) in src[line_start..].char_indices() {
         if units >= character || ch == '\n' { return line_start + char_idx; }
         units += ch.len_utf16();
         offset = line_start + char_idx + ch.len_utf8();
     }
     offset
   `walk_units rest units character` = bytes advanced from line_start. *)
Fixpoint walk_units (rest : doc) (units character : N) {struct rest} : N :=
  match rest with
  | [] => 0
  | ch :: r =>
    if (character <=? units) || (ch =? LF) then 0
    else len_utf8 ch + walk_units r (units + len_utf16 ch) character
  end.

Definition line_char_to_offset (src : doc) (line character : N) : N :=
  match skip_lines src line with
  | None => blen src
  | Some (line_start, rest) => line_start + walk_units rest 0 character
  end.

(* ------------------------------------------------------------------ *)
(* str::lines(): split_inclusive('\n'), then from each piece strip one
   trailing "\n" and, only if that was stripped, one trailing "\r".  A final
   piece without "\n" is yielded unchanged (a bare trailing "\r" stays). *)
Fixpoint split_inclusive_lf (s : doc) : list doc :=
  match s with
  | [] => []
  | c :: r =>
    if c =? LF then [c] :: split_inclusive_lf r else
    match split_inclusive_lf r with
    | [] => [[c]]
    | l :: ls => (c :: l) :: ls
    end
  end.

Definition strip_line_ending (l : doc) : doc :=
  match rev l with
  | c1 :: r1 =>
    if c1 =? LF then
      match r1 with
      | c2 :: r2 => if c2 =? CR then rev r2 else rev r1
      | [] => []
      end
    else l
  | [] => l
  end.

Definition rust_lines (s : doc) : list doc := map strip_line_ending (split_inclusive_lf s).

Definition ends_with_lf (s : doc) : bool :=
  match rev s with c :: _ => c =? LF | [] => false end.

(* fn whole_document_range(src) -> Range   (start is always (0,0); this is `end`)

     if src.is_empty() { (0, 0) }
     else if src.ends_with('\n') { (src.lines().count(), 0) }
     else { let line_count = src.lines().count();
            let last_line_length = src.lines().last().map_or(0, |l| l.encode_utf16().count());
            (line_count.saturating_sub(1), last_line_length) }
   then `as u32` on both. *)
Definition whole_document_end (src : doc) : N * N :=
  let '(end_line, end_character) :=
    match src with
    | [] => (0, 0)
    | _ =>
      if ends_with_lf src then (N.of_nat (length (rust_lines src)), 0)
      else
        let line_count := N.of_nat (length (rust_lines src)) in
        let last_line_length := match rev (rust_lines src) with l :: _ => ulen l | [] => 0 end in
        (line_count - 1, last_line_length)      (* N subtraction saturates *)
    end in
  (u32 end_line, u32 end_character).

Definition whole_document_range (src : doc) : (N * N) * (N * N) := ((0, 0), whole_document_end src).

(* ------------------------------------------------------------------ *)
(* The LSP SPECIFICATION's reading of a position (3.17, "Text Documents" /
   "Position"): lines end at `\n`, `\r\n` or `\r`; `character` counts UTF-16
   code units from the line start; a character past the end of the line
   defaults back to the line length (the end-of-line sequence is never part of
   the line); a line past the last line is taken as the end of the document
   (what vscode-languageserver-textdocument does).  A position between the
   two halves of a surrogate pair denotes no character boundary: None.

   spec_offset s line character = byte offset denoted by the position. *)
Fixpoint spec_offset (s : doc) (line character : N) {struct s} : option N :=
  match s with
  | [] => Some 0
  | c :: r =>
    if line =? 0 then
      if (c =? LF) || (c =? CR) then Some 0
      else if character =? 0 then Some 0
      else if character <? len_utf16 c then None
      else option_map (N.add (len_utf8 c)) (spec_offset r 0 (character - len_utf16 c))
    else if c =? LF then option_map (N.add 1) (spec_offset r (line - 1) character)
    else if c =? CR then
      match r with
      | c2 :: r2 =>
        if c2 =? LF then option_map (N.add 2) (spec_offset r2 (line - 1) character)
        else option_map (N.add 1) (spec_offset r (line - 1) character)
      | [] => option_map (N.add 1) (spec_offset r (line - 1) character)
      end
    else option_map (N.add (len_utf8 c)) (spec_offset r line character)
  end.

(* Byte splice: s[..a] ++ t ++ s[b..]; None unless a <= b are boundaries. *)
Definition splice (s : doc) (a b : N) (t : doc) : option doc :=
  if b <? a then None else
  match split_bytes s a, split_bytes s b with
  | Some (p, _), Some (_, q) => Some (p ++ t ++ q)
  | _, _ => None
  end.

(* Applying TextEdit { range, newText } as the specification defines. *)
Definition apply_lsp_edit (s : doc) (range : (N * N) * (N * N)) (t : doc) : option doc :=
  let '((l1, c1), (l2, c2)) := range in
  match spec_offset s l1 c1, spec_offset s l2 c2 with
  | Some a, Some b => splice s a b t
  | _, _ => None
  end.

Definition apply_lsp_edit_opt (s : doc) (range : option ((N * N) * (N * N))) (t : doc) : option doc :=
  match range with Some r => apply_lsp_edit s r t | None => None end.

(* ------------------------------------------------------------------ *)
(* Documents in which every `\r` is immediately followed by `\n`: exactly the
   documents on which "split at \n" (garden) and "split at \n, \r\n, \r" (LSP)
   give the same line starts. *)
Inductive no_lone_cr : doc -> Prop :=
| nlc_nil : no_lone_cr []
| nlc_crlf : forall r, no_lone_cr r -> no_lone_cr (CR :: LF :: r)
| nlc_other : forall c r, c <> CR -> no_lone_cr r -> no_lone_cr (c :: r).

Fixpoint no_lone_cr_b (s : doc) : bool :=
  match s with
  | [] => true
  | c :: r =>
    if c =? CR then
      match r with
      | c2 :: r2 => (c2 =? LF) && no_lone_cr_b r2
      | [] => false
      end
    else no_lone_cr_b r
  end.

(* The text of the `\n`-line that contains the end of s (after the last `\n`). *)
Fixpoint last_line (s : doc) : doc :=
  match s with
  | [] => []
  | c :: r => if count_lf r =? 0 then (if c =? LF then r else c :: r) else last_line r
  end.
