(* Proofs about the LspPos model (C29). *)
From Coq Require Import NArith Bool List Lia Wf_nat.
From Garden Require Import LspPos.
Import ListNotations.
Open Scope N_scope.

Arguments N.add : simpl never.
Arguments N.sub : simpl never.
Arguments N.modulo : simpl never.
Arguments N.min : simpl never.

(* ------------------------------------------------------------------ *)
(* widths *)

Lemma len_utf8_bounds : forall c, 1 <= len_utf8 c <= 4.
Proof.
  intro c; unfold len_utf8.
  destruct (N.ltb_spec c 128), (N.ltb_spec c 2048), (N.ltb_spec c 65536); lia.
Qed.

Lemma len_utf16_bounds : forall c, 1 <= len_utf16 c <= 2.
Proof. intro c; unfold len_utf16; destruct (N.ltb_spec c 65536); lia. Qed.

Lemma len_utf16_le_utf8 : forall c, len_utf16 c <= len_utf8 c.
Proof.
  intro c; unfold len_utf16, len_utf8.
  destruct (N.ltb_spec c 65536), (N.ltb_spec c 128), (N.ltb_spec c 2048); lia.
Qed.

Lemma len_utf8_LF : len_utf8 LF = 1. Proof. reflexivity. Qed.
Lemma len_utf8_CR : len_utf8 CR = 1. Proof. reflexivity. Qed.

Lemma blen_app : forall p q, blen (p ++ q) = blen p + blen q.
Proof. induction p as [|c p IH]; intro q; cbn [blen app]; [lia | rewrite IH; lia]. Qed.

Lemma ulen_app : forall p q, ulen (p ++ q) = ulen p + ulen q.
Proof. induction p as [|c p IH]; intro q; cbn [ulen app]; [lia | rewrite IH; lia]. Qed.

Lemma count_lf_app : forall p q, count_lf (p ++ q) = count_lf p + count_lf q.
Proof. induction p as [|c p IH]; intro q; cbn [count_lf app]; [lia | rewrite IH; lia]. Qed.

Lemma ulen_le_blen : forall s, ulen s <= blen s.
Proof.
  induction s as [|c s IH]; cbn [ulen blen]; [lia|].
  pose proof (len_utf16_le_utf8 c); lia.
Qed.

Lemma count_lf_le_blen : forall s, count_lf s <= blen s.
Proof.
  induction s as [|c s IH]; cbn [count_lf blen]; [lia|].
  pose proof (len_utf8_bounds c). destruct (c =? LF); lia.
Qed.

Lemma u32_small : forall x, x < 4294967296 -> u32 x = x.
Proof. intros x H; unfold u32; now apply N.mod_small. Qed.

(* ------------------------------------------------------------------ *)
(* split_bytes / boundary / slice *)

Lemma split_bytes_0 : forall s, split_bytes s 0 = Some ([], s).
Proof. destruct s; reflexivity. Qed.

Lemma split_bytes_app : forall p q, split_bytes (p ++ q) (blen p) = Some (p, q).
Proof.
  induction p as [|c p IH]; intro q.
  - cbn [app blen]. apply split_bytes_0.
  - cbn [app blen split_bytes]. pose proof (len_utf8_bounds c) as Hc.
    destruct (N.eqb_spec (len_utf8 c + blen p) 0) as [E|_]; [lia|].
    destruct (N.ltb_spec (len_utf8 c + blen p) (len_utf8 c)) as [E|_]; [lia|].
    replace (len_utf8 c + blen p - len_utf8 c) with (blen p) by lia.
    now rewrite IH.
Qed.

Lemma split_bytes_some : forall s o p q, split_bytes s o = Some (p, q) -> s = p ++ q /\ blen p = o.
Proof.
  induction s as [|c s IH]; intros o p q H.
  - cbn [split_bytes] in H. destruct (N.eqb_spec o 0) as [E|E]; [|discriminate].
    inversion H; subst; split; reflexivity.
  - cbn [split_bytes] in H. destruct (N.eqb_spec o 0) as [E|E].
    + inversion H; subst; split; reflexivity.
    + destruct (N.ltb_spec o (len_utf8 c)) as [L|L]; [discriminate|].
      destruct (split_bytes s (o - len_utf8 c)) as [[p' q']|] eqn:Hs; [|discriminate].
      inversion H; subst. apply IH in Hs. destruct Hs as [-> Hb].
      split; [reflexivity|]. cbn [blen]. lia.
Qed.

Lemma boundary_iff : forall s o, boundary s o <-> is_boundary s o = true.
Proof.
  intros s o; unfold boundary, is_boundary; split.
  - intros (p & q & -> & <-). now rewrite split_bytes_app.
  - destruct (split_bytes s o) as [[p q]|] eqn:H; [|discriminate].
    intros _. apply split_bytes_some in H. now exists p, q.
Qed.

Lemma boundary_le : forall s o, boundary s o -> o <= blen s.
Proof. intros s o (p & q & -> & <-). rewrite blen_app. lia. Qed.

Lemma slice_app : forall p m q, slice (p ++ m ++ q) (blen p) (blen p + blen m) = Some m.
Proof.
  intros p m q. unfold slice.
  destruct (N.ltb_spec (blen p + blen m) (blen p)) as [E|_]; [lia|].
  rewrite split_bytes_app.
  replace (blen p + blen m - blen p) with (blen m) by lia.
  now rewrite split_bytes_app.
Qed.

Lemma slice_prefix : forall p q, slice (p ++ q) 0 (blen p) = Some p.
Proof. intros p q. apply (slice_app [] p q). Qed.

(* Two prefixes of the same document are comparable. *)
Lemma prefixes_nest : forall p q1 pb q2, p ++ q1 = pb ++ q2 -> blen p <= blen pb ->
  exists m, pb = p ++ m /\ q1 = m ++ q2.
Proof.
  induction p as [|c p IH]; intros q1 pb q2 E L.
  - exists pb. split; [reflexivity | exact E].
  - destruct pb as [|c' pb].
    + cbn [blen] in L. pose proof (len_utf8_bounds c). lia.
    + cbn [app] in E. inversion E; subst c'. cbn [blen] in L.
      destruct (IH q1 pb q2) as (m & -> & ->); [assumption | lia |].
      exists m. split; reflexivity.
Qed.

(* ------------------------------------------------------------------ *)
(* lines: rfind('\n'), count of '\n', the last `\n`-line *)

Lemma rfind_lf_none : forall s, rfind_lf s = None <-> count_lf s = 0.
Proof.
  induction s as [|c s IH]; cbn [rfind_lf count_lf]; [tauto|].
  destruct (rfind_lf s) as [i|].
  - split; [discriminate|]. intro H.
    assert (count_lf s = 0) as Z by (destruct (c =? LF); lia).
    apply IH in Z. discriminate.
  - destruct (c =? LF).
    + split; [discriminate | lia].
    + split; intros _; [|reflexivity]. assert (count_lf s = 0) by now apply IH. lia.
Qed.

Lemma last_line_no_lf : forall s, count_lf s = 0 -> last_line s = s.
Proof.
  destruct s as [|c s]; [reflexivity|]. cbn [count_lf last_line]. intro H.
  destruct (N.eqb_spec c LF) as [E|E]; [lia|].
  destruct (N.eqb_spec (count_lf s) 0); [reflexivity | lia].
Qed.

Lemma skip_lines_0 : forall r, skip_lines r 0 = Some (0, r).
Proof. destruct r; reflexivity. Qed.

(* p = pre ++ last_line p, where pre is empty or ends with `\n`. *)
Lemma line_decomp : forall p, exists pre,
  p = pre ++ last_line p /\ count_lf (last_line p) = 0 /\ count_lf pre = count_lf p /\
  match rfind_lf p with None => 0 | Some i => i + 1 end = blen pre /\
  forall rest, skip_lines (pre ++ rest) (count_lf pre) = Some (blen pre, rest).
Proof.
  induction p as [|c r IH].
  - exists []. cbn. repeat split; try reflexivity. intro rest; apply skip_lines_0.
  - destruct IH as (pre & Hp & Hl & Hc & Hr & Hs).
    cbn [last_line]. destruct (N.eqb_spec (count_lf r) 0) as [Z|NZ].
    + (* no `\n` in r *)
      assert (rfind_lf r = None) as Rn by now apply rfind_lf_none.
      destruct (N.eqb_spec c LF) as [E|E].
      * subst c. exists [LF]. cbn [app rfind_lf count_lf blen]. rewrite Rn, Z.
        repeat split; try reflexivity.
        intro rest. change (LF =? LF) with true. cbn [skip_lines].
        change (1 + 0 =? 0) with false. cbn iota.
        change (1 + 0 - 1) with 0. rewrite skip_lines_0. reflexivity.
      * exists []. cbn [app rfind_lf count_lf blen]. rewrite Rn, Z.
        destruct (N.eqb_spec c LF) as [E'|_]; [contradiction|].
        repeat split; try reflexivity. intro rest; apply skip_lines_0.
    + (* a `\n` later *)
      destruct (rfind_lf r) as [i|] eqn:Rf.
      2:{ exfalso. apply NZ. now apply rfind_lf_none. }
      exists (c :: pre). cbn [app rfind_lf count_lf blen]. rewrite Rf.
      repeat split.
      * now rewrite <- Hp.
      * exact Hl.
      * now rewrite Hc.
      * lia.
      * intro rest. cbn [skip_lines].
        destruct (N.eqb_spec ((if c =? LF then 1 else 0) + count_lf pre) 0) as [E|_].
        { destruct (c =? LF); lia. }
        replace (if c =? LF then (if c =? LF then 1 else 0) + count_lf pre - 1
                 else (if c =? LF then 1 else 0) + count_lf pre) with (count_lf pre)
          by (destruct (c =? LF); lia).
        now rewrite Hs.
Qed.

Lemma last_line_ulen_le : forall p, ulen (last_line p) <= blen p.
Proof.
  intro p. destruct (line_decomp p) as (pre & Hp & _).
  pose proof (ulen_le_blen (last_line p)).
  rewrite Hp at 2. rewrite blen_app. lia.
Qed.

Lemma walk_units_line : forall seg q u, count_lf seg = 0 ->
  walk_units (seg ++ q) u (u + ulen seg) = blen seg.
Proof.
  induction seg as [|c seg IH]; intros q u H.
  - cbn [app ulen blen]. destruct q as [|c q]; [reflexivity|].
    cbn [walk_units]. destruct (N.leb_spec (u + 0) u) as [_|E]; [reflexivity | lia].
  - cbn [app ulen blen walk_units count_lf] in *.
    pose proof (len_utf16_bounds c).
    destruct (N.eqb_spec c LF) as [E|E]; [lia|].
    destruct (N.leb_spec (u + (len_utf16 c + ulen seg)) u) as [L|_]; [lia|].
    cbn [orb]. replace (u + (len_utf16 c + ulen seg)) with ((u + len_utf16 c) + ulen seg) by lia.
    rewrite IH; [reflexivity | lia].
Qed.

(* ------------------------------------------------------------------ *)
(* The two conversions on a boundary offset *)

Lemma line_of_app : forall p q, line_of (p ++ q) (blen p) = count_lf p.
Proof. intros p q. unfold line_of. now rewrite split_bytes_app. Qed.

Lemma o2p_char : forall p q, blen (p ++ q) < 4294967296 ->
  offset_to_lsp_position (p ++ q) (blen p) = POk (count_lf p) (ulen (last_line p)).
Proof.
  intros p q Hs. unfold offset_to_lsp_position.
  rewrite blen_app in *. rewrite N.min_l by lia.
  rewrite slice_prefix.
  destruct (line_decomp p) as (pre & Hp & Hl & Hc & Hr & _).
  rewrite Hr. pose proof (last_line_ulen_le p) as Hu. pose proof (count_lf_le_blen p) as Hn.
  rewrite (u32_small (count_lf p)) by lia.
  remember (last_line p) as seg eqn:Eseg. clear Eseg. clear Hn. subst p.
  rewrite <- app_assoc, blen_app. rewrite slice_app.
  f_equal. apply u32_small. rewrite blen_app in *. lia.
Qed.

Lemma lc2o_char : forall p q,
  line_char_to_offset (p ++ q) (count_lf p) (ulen (last_line p)) = blen p.
Proof.
  intros p q. unfold line_char_to_offset.
  destruct (line_decomp p) as (pre & Hp & Hl & Hc & _ & Hs).
  remember (last_line p) as seg eqn:Eseg. clear Eseg. subst p.
  rewrite <- app_assoc, <- Hc, Hs.
  replace (ulen seg) with (0 + ulen seg) by lia.
  rewrite walk_units_line by assumption.
  rewrite blen_app. reflexivity.
Qed.

Lemma pos_roundtrip_lemma : forall s o, blen s < 4294967296 -> boundary s o ->
  exists l c, offset_to_lsp_position s o = POk l c /\ line_char_to_offset s l c = o.
Proof.
  intros s o Hs (p & q & -> & <-).
  exists (count_lf p), (ulen (last_line p)). split.
  - now apply o2p_char.
  - apply lc2o_char.
Qed.

(* The line of the position is the lexer's line number of the offset. *)
Lemma o2p_line_is_lexer_line : forall s o l c, blen s < 4294967296 -> boundary s o ->
  offset_to_lsp_position s o = POk l c -> l = line_of s o.
Proof.
  intros s o l c Hs (p & q & -> & <-) H.
  rewrite o2p_char in H by assumption. rewrite line_of_app. now inversion H.
Qed.

(* Off a boundary the conversion panics (Rust: slicing inside a character). *)
Lemma o2p_nonboundary_panics : forall s o, o <= blen s -> ~ boundary s o ->
  offset_to_lsp_position s o = PPanic.
Proof.
  intros s o L NB. unfold offset_to_lsp_position. rewrite N.min_l by assumption.
  unfold slice.
  destruct (N.ltb_spec o 0) as [E|_]; [lia|].
  rewrite split_bytes_0. rewrite N.sub_0_r.
  destruct (split_bytes s o) as [[p q]|] eqn:H; [|reflexivity].
  exfalso. apply NB. apply split_bytes_some in H. now exists p, q.
Qed.

(* Past the end the offset is clamped to the end of the document. *)
Lemma o2p_clamps : forall s o, blen s <= o ->
  offset_to_lsp_position s o = offset_to_lsp_position s (blen s).
Proof.
  intros s o L. unfold offset_to_lsp_position.
  rewrite N.min_r by assumption. now rewrite N.min_id.
Qed.

(* ------------------------------------------------------------------ *)
(* whole_document_range, characterised *)

Lemma ends_with_lf_cons : forall c r, ends_with_lf (c :: r) =
  match r with [] => c =? LF | _ => ends_with_lf r end.
Proof.
  intros c r. unfold ends_with_lf. cbn [rev].
  destruct r as [|d r]; [reflexivity|].
  destruct (rev (d :: r)) as [|x xs] eqn:E; [|reflexivity].
  apply (f_equal (@length N)) in E. rewrite rev_length in E. discriminate.
Qed.

Lemma last_line_LF_cons : forall r, last_line (LF :: r) = last_line r.
Proof.
  intro r. cbn [last_line]. change (LF =? LF) with true.
  destruct (N.eqb_spec (count_lf r) 0) as [Z|_]; [|reflexivity].
  symmetry. now apply last_line_no_lf.
Qed.

Lemma strip_no_lf : forall l, count_lf l = 0 -> strip_line_ending l = l.
Proof.
  intros l H. unfold strip_line_ending.
  destruct (rev l) as [|c1 r1] eqn:E; [reflexivity|].
  destruct (N.eqb_spec c1 LF) as [E1|_]; [|reflexivity].
  exfalso. apply (f_equal (@rev N)) in E. rewrite rev_involutive in E. subst l c1.
  cbn [rev] in H. rewrite count_lf_app in H. cbn in H. lia.
Qed.

Lemma split_inclusive_nonempty : forall c r, split_inclusive_lf (c :: r) <> [].
Proof.
  intros c r. cbn [split_inclusive_lf]. destruct (c =? LF); [discriminate|].
  destruct (split_inclusive_lf r); discriminate.
Qed.

Lemma pieces_char : forall s, s <> [] ->
  (ends_with_lf s = true ->
     N.of_nat (length (split_inclusive_lf s)) = count_lf s /\ last_line s = []) /\
  (ends_with_lf s = false ->
     N.of_nat (length (split_inclusive_lf s)) = count_lf s + 1 /\
     exists init, split_inclusive_lf s = init ++ [last_line s]).
Proof.
  induction s as [|c r IH]; intros NE; [contradiction|].
  rewrite ends_with_lf_cons.
  destruct r as [|d r'].
  - (* single character *)
    cbn [split_inclusive_lf count_lf last_line length].
    change (count_lf [] =? 0) with true. cbn iota.
    destruct (N.eqb_spec c LF) as [E|E]; (split; intro H; try discriminate).
    + split; reflexivity.
    + split; [reflexivity|]. exists []. reflexivity.
  - remember (d :: r') as r eqn:Er.
    assert (r <> []) as NEr by (subst r; discriminate).
    specialize (IH NEr). destruct IH as [IHt IHf].
    assert (split_inclusive_lf r <> []) as NEp by (subst r; apply split_inclusive_nonempty).
    replace (match r with [] => c =? LF | _ :: _ => ends_with_lf r end) with (ends_with_lf r)
      by (subst r; reflexivity).
    destruct (N.eqb_spec c LF) as [E|E].
    + subst c. rewrite last_line_LF_cons.
      cbn [split_inclusive_lf count_lf]. change (LF =? LF) with true. cbn iota. cbn [length].
      split; intro H.
      * destruct (IHt H) as [Hl Hll]. split; [lia | exact Hll].
      * destruct (IHf H) as [Hl (init & Hi)]. split; [lia|].
        exists ([LF] :: init). now rewrite Hi.
    + cbn [split_inclusive_lf count_lf last_line].
      destruct (N.eqb_spec c LF) as [E'|_]; [contradiction|].
      destruct (split_inclusive_lf r) as [|l ls] eqn:Ep; [contradiction|].
      cbn [length] in *.
      split; intro H.
      * destruct (IHt H) as [Hl Hll].
        destruct (N.eqb_spec (count_lf r) 0) as [Z|NZ]; [lia|].
        split; [lia | exact Hll].
      * destruct (IHf H) as [Hl (init & Hi)].
        split; [lia|].
        destruct init as [|i0 init'].
        -- cbn [app] in Hi. inversion Hi; subst l ls. cbn [length] in Hl.
           destruct (N.eqb_spec (count_lf r) 0) as [Z|NZ]; [|lia].
           exists []. cbn [app]. now rewrite (last_line_no_lf r Z).
        -- cbn [app] in Hi. inversion Hi; subst l ls.
           rewrite app_length in Hl. cbn [length] in Hl.
           destruct (N.eqb_spec (count_lf r) 0) as [Z|NZ]; [lia|].
           exists ((c :: i0) :: init'). reflexivity.
Qed.

Lemma whole_document_end_char : forall s,
  whole_document_end s = (u32 (count_lf s), u32 (ulen (last_line s))).
Proof.
  intro s. unfold whole_document_end.
  destruct s as [|c r]; [reflexivity|].
  remember (c :: r) as s eqn:Es.
  assert (s <> []) as NE by (subst s; discriminate).
  destruct (pieces_char s NE) as [Ht Hf].
  unfold rust_lines. rewrite map_length.
  replace (match s with [] => (0, 0) | _ :: _ =>
             if ends_with_lf s
             then (N.of_nat (length (split_inclusive_lf s)), 0)
             else (N.of_nat (length (split_inclusive_lf s)) - 1,
                   match rev (map strip_line_ending (split_inclusive_lf s)) with
                   | [] => 0 | l :: _ => ulen l end) end)
    with (if ends_with_lf s
          then (N.of_nat (length (split_inclusive_lf s)), 0)
          else (N.of_nat (length (split_inclusive_lf s)) - 1,
                match rev (map strip_line_ending (split_inclusive_lf s)) with
                | [] => 0 | l :: _ => ulen l end)) by (subst s; reflexivity).
  destruct (ends_with_lf s) eqn:Ee.
  - destruct (Ht eq_refl) as [Hl Hll]. rewrite Hl, Hll. reflexivity.
  - destruct (Hf eq_refl) as [Hl (init & Hi)]. rewrite Hl, Hi.
    rewrite map_app, rev_app_distr. cbn [map rev app].
    destruct (line_decomp s) as (_ & _ & Hz & _).
    rewrite (strip_no_lf _ Hz).
    replace (count_lf s + 1 - 1) with (count_lf s) by lia. reflexivity.
Qed.

(* On documents below 4 GiB: the end of whole_document_range is the position
   garden computes for the end offset of the document. *)
Lemma whole_document_end_small : forall s, blen s < 4294967296 ->
  whole_document_end s = (count_lf s, ulen (last_line s)).
Proof.
  intros s H. rewrite whole_document_end_char.
  pose proof (count_lf_le_blen s). pose proof (last_line_ulen_le s).
  rewrite !u32_small by lia. reflexivity.
Qed.

(* ------------------------------------------------------------------ *)
(* The LSP specification side *)

Lemma no_lone_cr_iff : forall s, no_lone_cr s <-> no_lone_cr_b s = true.
Proof.
  intro s. split.
  - induction 1 as [|r H IH|c r Hc H IH].
    + reflexivity.
    + cbn [no_lone_cr_b]. change (CR =? CR) with true. change (LF =? LF) with true. exact IH.
    + cbn [no_lone_cr_b]. destruct (N.eqb_spec c CR) as [E|_]; [contradiction | exact IH].
  - remember (length s) as n eqn:Hn. revert s Hn.
    induction n as [n IHn] using lt_wf_ind. intros s Hn H.
    destruct s as [|c r]; [constructor|].
    cbn [no_lone_cr_b] in H. destruct (N.eqb_spec c CR) as [E|E].
    + subst c. destruct r as [|c2 r2]; [discriminate|].
      apply andb_true_iff in H. destruct H as [H1 H2].
      apply N.eqb_eq in H1. subst c2. constructor.
      apply (IHn (length r2)); [subst n; cbn; lia | reflexivity | exact H2].
    + constructor; [exact E|].
      apply (IHn (length r)); [subst n; cbn; lia | reflexivity | exact H].
Qed.

Lemma spec_offset_start : forall s, spec_offset s 0 0 = Some 0.
Proof.
  destruct s as [|c r]; [reflexivity|]. cbn [spec_offset].
  change (0 =? 0) with true. cbn iota. destruct ((c =? LF) || (c =? CR)); reflexivity.
Qed.

Lemma count_lf_pos_skip : forall c r, count_lf (c :: r) <> 0 -> (count_lf (c :: r) =? 0) = false.
Proof. intros c r H. now apply N.eqb_neq. Qed.

(* The heart of the edit theorems: on a prefix without a lone CR, the
   specification's reading of garden's position is the prefix's byte length. *)
Lemma spec_offset_prefix : forall p, no_lone_cr p -> forall q,
  spec_offset (p ++ q) (count_lf p) (ulen (last_line p)) = Some (blen p).
Proof.
  induction 1 as [|r H IH|c r Hc H IH]; intro q.
  - cbn [app count_lf last_line ulen blen]. apply spec_offset_start.
  - (* CR LF r *)
    replace (last_line (CR :: LF :: r)) with (last_line r).
    2:{ cbn [last_line count_lf]. change (CR =? LF) with false. change (LF =? LF) with true. cbn iota.
        destruct (N.eqb_spec (1 + count_lf r) 0) as [E|_]; [lia|].
        destruct (N.eqb_spec (count_lf r) 0) as [Z|_]; [|reflexivity].
        now apply last_line_no_lf. }
    cbn [app count_lf blen spec_offset].
    change (CR =? LF) with false. change (LF =? LF) with true. change (CR =? CR) with true. cbn iota.
    destruct (N.eqb_spec (0 + (1 + count_lf r)) 0) as [E|_]; [lia|].
    replace (0 + (1 + count_lf r) - 1) with (count_lf r) by lia.
    rewrite IH. cbn [option_map]. rewrite len_utf8_CR, len_utf8_LF. f_equal. lia.
  - destruct (N.eqb_spec c LF) as [E|E].
    + subst c. rewrite last_line_LF_cons.
      cbn [app count_lf blen spec_offset]. change (LF =? LF) with true. cbn iota.
      destruct (N.eqb_spec (1 + count_lf r) 0) as [E|_]; [lia|].
      replace (1 + count_lf r - 1) with (count_lf r) by lia.
      rewrite IH. cbn [option_map]. reflexivity.
    + cbn [app count_lf blen last_line spec_offset].
      destruct (N.eqb_spec c LF) as [E'|_]; [contradiction|].
      destruct (N.eqb_spec c CR) as [E'|_]; [contradiction|].
      cbn [orb]. replace (0 + count_lf r) with (count_lf r) by lia.
      destruct (N.eqb_spec (count_lf r) 0) as [Z|NZ].
      * (* the position is on this line: walk over c *)
        cbn [ulen]. pose proof (len_utf16_bounds c) as B.
        destruct (N.eqb_spec (len_utf16 c + ulen r) 0) as [E0|_]; [lia|].
        destruct (N.ltb_spec (len_utf16 c + ulen r) (len_utf16 c)) as [E1|_]; [lia|].
        replace (len_utf16 c + ulen r - len_utf16 c) with (ulen r) by lia.
        specialize (IH q). rewrite Z, (last_line_no_lf r Z) in IH. rewrite IH. reflexivity.
      * rewrite IH. reflexivity.
Qed.

Lemma splice_app : forall p m q t, splice (p ++ m ++ q) (blen p) (blen p + blen m) t = Some (p ++ t ++ q).
Proof.
  intros p m q t. unfold splice.
  destruct (N.ltb_spec (blen p + blen m) (blen p)) as [E|_]; [lia|].
  rewrite split_bytes_app.
  rewrite <- blen_app, app_assoc, split_bytes_app. reflexivity.
Qed.

Lemma whole_range_covers_lemma : forall s t, blen s < 4294967296 -> no_lone_cr s ->
  apply_lsp_edit s (whole_document_range s) t = Some t.
Proof.
  intros s t Hs Hn. unfold whole_document_range, apply_lsp_edit.
  rewrite whole_document_end_small by assumption.
  rewrite spec_offset_start.
  pose proof (spec_offset_prefix s Hn []) as H. rewrite app_nil_r in H. rewrite H.
  pose proof (splice_app [] s [] t) as S. cbn [app blen] in S.
  rewrite app_nil_r in S. rewrite N.add_0_l in S. rewrite S. now rewrite app_nil_r.
Qed.

(* The edit theorem in prefix form: s = p ++ m ++ q, the span is m. *)
Lemma range_of_app : forall p m q, blen (p ++ m ++ q) < 4294967296 ->
  range_of (p ++ m ++ q) (blen p) (blen p + blen m) =
  Some ((count_lf p, ulen (last_line p)), (count_lf (p ++ m), ulen (last_line (p ++ m)))).
Proof.
  intros p m q Hs. unfold range_of, garden_pos_to_lsp_range.
  cbn [start_offset end_offset].
  rewrite o2p_char by assumption.
  rewrite <- blen_app. rewrite app_assoc in *.
  rewrite o2p_char by assumption. reflexivity.
Qed.

(* garden_pos_to_lsp_range depends on the two offsets only. *)
Lemma range_ignores_line_fields : forall s g,
  garden_pos_to_lsp_range s g = range_of s (start_offset g) (end_offset g).
Proof. reflexivity. Qed.

Lemma range_edit_is_splice_app : forall p m q t, blen (p ++ m ++ q) < 4294967296 ->
  no_lone_cr p -> no_lone_cr (p ++ m) ->
  apply_lsp_edit_opt (p ++ m ++ q) (range_of (p ++ m ++ q) (blen p) (blen p + blen m)) t
  = Some (p ++ t ++ q).
Proof.
  intros p m q t Hs Hp Hpm. rewrite range_of_app by assumption.
  unfold apply_lsp_edit_opt, apply_lsp_edit.
  rewrite (spec_offset_prefix p Hp (m ++ q)).
  pose proof (spec_offset_prefix (p ++ m) Hpm q) as H. rewrite <- app_assoc in H. rewrite H.
  rewrite blen_app. apply splice_app.
Qed.

(* Offsets between a CR and its LF. *)
Definition between_cr_lf (s : doc) (o : N) : Prop :=
  exists p q, s = p ++ CR :: LF :: q /\ o = blen p + 1.

Definition between_cr_lf_b (s : doc) (o : N) : bool :=
  if o =? 0 then false else
  match split_bytes s (o - 1) with
  | Some (_, c1 :: c2 :: _) => (c1 =? CR) && (c2 =? LF)
  | _ => false
  end.

Lemma between_cr_lf_iff : forall s o, between_cr_lf s o <-> between_cr_lf_b s o = true.
Proof.
  intros s o. unfold between_cr_lf, between_cr_lf_b. split.
  - intros (p & q & -> & ->).
    destruct (N.eqb_spec (blen p + 1) 0) as [E|_]; [lia|].
    replace (blen p + 1 - 1) with (blen p) by lia.
    rewrite split_bytes_app. reflexivity.
  - destruct (N.eqb_spec o 0) as [E|E]; [discriminate|].
    destruct (split_bytes s (o - 1)) as [[p [|c1 [|c2 q]]]|] eqn:H; try discriminate.
    intro B. apply andb_true_iff in B. destruct B as [B1 B2].
    apply N.eqb_eq in B1. apply N.eqb_eq in B2. subst c1 c2.
    apply split_bytes_some in H. destruct H as [-> Hb].
    exists p, q. split; [reflexivity | lia].
Qed.

Lemma nlc_prefix : forall s, no_lone_cr s -> forall p q, s = p ++ q ->
  ~ between_cr_lf s (blen p) -> no_lone_cr p.
Proof.
  induction 1 as [|r H IH|c r Hc H IH]; intros p q E NB.
  - destruct p; [constructor | discriminate].
  - destruct p as [|c1 p]; [constructor|].
    cbn [app] in E. inversion E as [[E1 E2]]. subst c1.
    destruct p as [|c2 p].
    + (* p = [CR], q = LF :: r : between CR and LF *)
      exfalso. apply NB. exists [], r. cbn [app] in *. subst q. split; reflexivity.
    + cbn [app] in E2. inversion E2 as [[E3 E4]]. subst c2. constructor.
      apply (IH p q E4). intros (p' & q' & Ea & Eb). apply NB.
      exists (CR :: LF :: p'), q'. split.
      * cbn [app]. now rewrite Ea.
      * cbn [blen] in *. lia.
  - destruct p as [|c1 p]; [constructor|].
    cbn [app] in E. inversion E as [[E1 E2]]. subst c1. constructor; [exact Hc|].
    apply (IH p q E2). intros (p' & q' & Ea & Eb). apply NB.
    exists (c :: p'), q'. split.
    + cbn [app]. now rewrite Ea.
    + cbn [blen] in *. lia.
Qed.

Lemma splice_boundaries : forall p m q t,
  splice (p ++ m ++ q) (blen p) (blen (p ++ m)) t = Some (p ++ t ++ q).
Proof. intros. rewrite blen_app. apply splice_app. Qed.

Lemma range_edit_is_splice_lemma : forall s a b t, blen s < 4294967296 -> no_lone_cr s ->
  boundary s a -> boundary s b -> a <= b ->
  ~ between_cr_lf s a -> ~ between_cr_lf s b ->
  apply_lsp_edit_opt s (range_of s a b) t = splice s a b t /\ splice s a b t <> None.
Proof.
  intros s a b t Hs Hn (p & q1 & E1 & Ha) (pb & q2 & E2 & Hb) L Na Nb.
  subst a b. rewrite E1 in E2.
  destruct (prefixes_nest p q1 pb q2 E2 L) as (m & -> & ->).
  assert (no_lone_cr p) as Hp by (apply (nlc_prefix s Hn p (m ++ q2) E1 Na)).
  assert (no_lone_cr (p ++ m)) as Hpm.
  { apply (nlc_prefix s Hn (p ++ m) q2); [now rewrite <- app_assoc | exact Nb]. }
  subst s. rewrite splice_boundaries. rewrite blen_app.
  rewrite range_edit_is_splice_app by assumption. split; [reflexivity | discriminate].
Qed.

(* ------------------------------------------------------------------ *)
(* Witnesses: the hypotheses are necessary *)

Definition ch_a : N := 97.
Definition ch_eacute : N := 233.       (* 2 bytes, 1 unit  *)
Definition ch_euro : N := 8364.        (* 3 bytes, 1 unit  *)
Definition ch_grin : N := 128512.      (* 4 bytes, 2 units *)

(* "a\r": garden says the document ends at (0, 2); for the specification line 0
   is "a" (length 1), so the edit stops before the CR and the CR survives. *)
Lemma whole_range_lone_cr_refuted_lemma :
  apply_lsp_edit [ch_a; CR] (whole_document_range [ch_a; CR]) [] = Some [CR].
Proof. vm_compute. reflexivity. Qed.

(* "a\rb\n": garden says the document ends at (1, 0); for the specification that is
   the start of "b". *)
Lemma whole_range_lone_cr_refuted2_lemma :
  apply_lsp_edit [ch_a; CR; ch_a; LF] (whole_document_range [ch_a; CR; ch_a; LF]) [] = Some [ch_a; LF].
Proof. vm_compute. reflexivity. Qed.

(* "\ra", the span of the `a` (bytes 1..2): garden sends (0,1)-(0,2); for the
   specification line 0 is empty, the edit lands before the CR. *)
Lemma range_edit_lone_cr_refuted_lemma :
  apply_lsp_edit_opt [CR; ch_a] (range_of [CR; ch_a] 1 2) [ch_euro] = Some [ch_euro; CR; ch_a]
  /\ splice [CR; ch_a] 1 2 [ch_euro] = Some [CR; ch_euro].
Proof. split; vm_compute; reflexivity. Qed.

(* "a\r\na", the empty span at byte 2 (between CR and LF). *)
Lemma range_edit_mid_crlf_refuted_lemma :
  apply_lsp_edit_opt [ch_a; CR; LF; ch_a] (range_of [ch_a; CR; LF; ch_a] 2 2) [ch_euro]
    = Some [ch_a; ch_euro; CR; LF; ch_a]
  /\ splice [ch_a; CR; LF; ch_a] 2 2 [ch_euro] = Some [ch_a; CR; ch_euro; LF; ch_a].
Proof. split; vm_compute; reflexivity. Qed.

(* What was wrong before the fix: garden positions do not always carry the line
   of their END offset.  The quick fix "Remove unused value" on
   "{\n1\nb}" spans the line "1\n" (bytes 2..4) but keeps the literal's
   end_line_number 1; with the caller's line numbers the range was (1,0)-(1,0),
   an empty edit, instead of (1,0)-(2,0). *)
Definition stale_doc : doc := [123; LF; 49; LF; 98; 125].
Definition stale_pos : gpos := {| start_offset := 2; end_offset := 4; line_number := 1; end_line_number := 1 |}.

Lemma stale_end_line_refuted_lemma :
  apply_lsp_edit_opt stale_doc (garden_pos_to_lsp_range_v0 stale_doc stale_pos) [] = Some stale_doc
  /\ splice stale_doc 2 4 [] = Some [123; LF; 98; 125]
  /\ apply_lsp_edit_opt stale_doc (garden_pos_to_lsp_range stale_doc stale_pos) [] = Some [123; LF; 98; 125].
Proof. repeat split; vm_compute; reflexivity. Qed.

(* ------------------------------------------------------------------ *)
(* Non-vacuity: concrete documents with 2-, 3- and 4-byte characters, CRLF and a bare CR. *)

Definition sample : doc := [ch_a; ch_eacute; CR; LF; ch_euro; ch_grin; ch_a; LF; ch_grin; CR; ch_eacute].

Example sample_len : blen sample = 21 /\ ulen sample = 13. Proof. split; reflexivity. Qed.

(* offset 12 = after "€😀" on line 1: (1, 3); back: 12.  The bare CR later in the
   document does not matter for the round trip. *)
Example roundtrip_sample :
  boundary sample 12 /\ offset_to_lsp_position sample 12 = POk 1 3
  /\ line_char_to_offset sample 1 3 = 12.
Proof. split; [apply boundary_iff; reflexivity | split; reflexivity]. Qed.

Example roundtrip_sample_after_cr :
  boundary sample 21 /\ offset_to_lsp_position sample 21 = POk 2 4
  /\ line_char_to_offset sample 2 4 = 21.
Proof. split; [apply boundary_iff; reflexivity | split; reflexivity]. Qed.

Example nonboundary_sample : ~ boundary sample 2 /\ offset_to_lsp_position sample 2 = PPanic.
Proof.
  split; [|reflexivity]. intro H. apply boundary_iff in H. discriminate.
Qed.

Definition sample_crlf : doc := [ch_a; ch_eacute; CR; LF; ch_euro; ch_grin; ch_a; LF; ch_grin].

Example sample_crlf_ok : no_lone_cr sample_crlf /\ blen sample_crlf < 4294967296.
Proof. split; [apply no_lone_cr_iff; reflexivity | reflexivity]. Qed.

Example whole_range_sample :
  whole_document_range sample_crlf = ((0, 0), (2, 2)) /\
  apply_lsp_edit sample_crlf (whole_document_range sample_crlf) [ch_euro] = Some [ch_euro].
Proof. split; reflexivity. Qed.

(* the span of "😀a" on line 1 (bytes 8..13) *)
Example range_edit_sample :
  boundary sample_crlf 8 /\ boundary sample_crlf 13 /\
  ~ between_cr_lf sample_crlf 8 /\ ~ between_cr_lf sample_crlf 13 /\
  range_of sample_crlf 8 13 = Some ((1, 1), (1, 4)) /\
  splice sample_crlf 8 13 [ch_eacute] = Some [ch_a; ch_eacute; CR; LF; ch_euro; ch_eacute; LF; ch_grin].
Proof.
  repeat split; try (apply boundary_iff; reflexivity);
    try (intro H; apply between_cr_lf_iff in H; discriminate).
Qed.
