(* Model of garden's explicit-stack evaluator (src/eval.rs: `eval`, `eval_expr`,
   `eval_block`, `eval_if`, `eval_while_body`, `eval_for_in`, `eval_break`,
   `eval_continue`, `eval_call`, `eval_match_cases`, `eval_let`, `eval_assign`,
   `eval_assign_update`, the operator functions) for the core language.

   MODEL FILE: definitions only.  One `step` = one iteration of the `loop` in
   `eval`.  Everything outside the modelled fragment is `EUnsupported` and
   makes the run answer `Unsupported` (never silently a value).

   Stacks are lists with the TOP at the head. *)
From Coq Require Import ZArith NArith Bool List.
From Garden Require Import Base.Int64 Arith gen.Tables.
Import ListNotations.
Open Scope Z_scope.

Definition ident := N.
Definition underscore : ident := 0%N.          (* the symbol `_` *)
Definition text := list N.                     (* chars as scalar values *)

Record meta := { used : bool; pstart : N; pend : N }.

Inductive binop :=
| BInt (o : int_op) | BEq | BNeq | BAnd | BOr | BConcat.

Inductive expr :=
| EInt (m : meta) (z : Z)
| EStr (m : meta) (s : text)
| EVar (m : meta) (x : ident)
| EBin (m : meta) (o : binop) (l r : expr)
| ELet (m : meta) (x : ident) (e : expr)
| EAssign (m : meta) (x : ident) (xpos : N * N) (e : expr)
| EUpd (m : meta) (u : upd_op) (x : ident) (xpos : N * N) (e : expr)
| EIf (m : meta) (c : expr) (t : list expr) (e : option (list expr))
| EWhile (m : meta) (c : expr) (b : list expr)
| EFor (m : meta) (x : ident) (it : expr) (b : list expr)
| EBreak (m : meta)
| EContinue (m : meta)
| EReturn (m : meta) (e : option expr)
| EList (m : meta) (l : list expr)
| ETuple (m : meta) (l : list expr)
| ECall (m : meta) (f : expr) (args : list expr)
| EFun (m : meta) (params : list ident) (body : list expr)
| EParen (m : meta) (e : expr)
| EMatch (m : meta) (s : expr) (cases : list (ident * (N * N) * option ident * list expr))
| EUnsupported (m : meta).

Definition emeta (e : expr) : meta :=
  match e with
  | EInt m _ | EStr m _ | EVar m _ | EBin m _ _ _ | ELet m _ _ | EAssign m _ _ _ | EUpd m _ _ _ _
  | EIf m _ _ _ | EWhile m _ _ | EFor m _ _ _ | EBreak m | EContinue m | EReturn m _ | EList m _
  | ETuple m _ | ECall m _ _ | EFun m _ _ | EParen m _ | EMatch m _ _ | EUnsupported m => m
  end.
Definition epos (e : expr) : N * N := (pstart (emeta e), pend (emeta e)).
Definition eused (e : expr) : bool := used (emeta e).

Inductive builtin := BiPrintln | BiPrint | BiStringRepr.

Inductive value :=
| VInt (z : Z)
| VStr (s : text)
| VEnum (ty : ident) (idx : N) (name : text) (payload : option value)
| VList (l : list value)
| VTuple (l : list value)
| VClosure (env : list (list (ident * value))) (params : list ident) (body : list expr)
| VFun (name : ident) (shown : text)
| VCtor (ty : ident) (idx : N) (name : text)
| VBuiltin (b : builtin).

Definition block := list (ident * value).

(* type names of the prelude enums the machine itself refers to *)
Definition ty_bool : ident := 1%N.
Definition ty_unit : ident := 2%N.
Definition vtrue := VEnum ty_bool 0 [84; 114; 117; 101]%N None.
Definition vfalse := VEnum ty_bool 1 [70; 97; 108; 115; 101]%N None.
Definition vunit := VEnum ty_unit 0 [85; 110; 105; 116]%N None.
Definition vbool (b : bool) := if b then vtrue else vfalse.

Definition as_bool (v : value) : option bool :=
  match v with
  | VEnum ty idx _ _ => if N.eqb ty ty_bool then (if N.eqb idx 0 then Some true else if N.eqb idx 1 then Some false else None) else None
  | _ => None
  end.

Inductive bstate := BWill | BDoneRun | BNot.
Inductive estate := SNot | SPart (b : bstate) | SDone.

Record frame := mkFrame {
  todo : list (estate * expr);       (* exprs_to_eval *)
  vals : list value;                 (* evalled_values *)
  blocks : list block;               (* bindings.block_bindings, innermost first *)
  nextb : block;                     (* bindings_next_block *)
  uses : bool                        (* caller_uses_value *)
}.

Record fundef := { fparams : list ident; fbody : list expr }.

Record prog := {
  globals : list (ident * value);    (* namespace values: prelude + user definitions *)
  funs : list (ident * fundef)       (* bodies of named functions *)
}.

Inductive ekind :=
| KException      (* EvalError::Exception *)
| KInterrupted
| KTickLimit
| KStackLimit.

Record err := { ekind_of : ekind; epos_of : N * N }.

Record state := mkState {
  stack : list frame;                (* current frame first *)
  ticks : N;
  out : list text;                   (* printed chunks, most recent first *)
  interrupted : bool;                (* session.interrupted *)
  tick_limit : option N;
  stack_limit : option N
}.

(* ---- environments ------------------------------------------------------ *)
Fixpoint assoc {A} (x : ident) (l : list (ident * A)) : option A :=
  match l with
  | [] => None
  | (y, v) :: l' => if N.eqb x y then Some v else assoc x l'
  end.

Fixpoint lookup_blocks (x : ident) (bs : list block) : option value :=
  match bs with
  | [] => None
  | b :: bs' => match assoc x b with Some v => Some v | None => lookup_blocks x bs' end
  end.

Definition get_var (p : prog) (f : frame) (x : ident) : option value :=
  match lookup_blocks x (blocks f) with
  | Some v => Some v
  | None => assoc x (globals p)
  end.

Definition add_new (x : ident) (v : value) (bs : list block) : list block :=
  if N.eqb x underscore then bs else
  match bs with
  | [] => []                         (* "Vec of bindings should always be non-empty" *)
  | b :: bs' => ((x, v) :: b) :: bs'
  end.

Fixpoint set_assoc (x : ident) (v : value) (b : block) : block :=
  match b with
  | [] => []
  | (y, w) :: b' => if N.eqb x y then (y, v) :: b' else (y, w) :: set_assoc x v b'
  end.

Fixpoint set_existing (x : ident) (v : value) (bs : list block) : option (list block) :=
  match bs with
  | [] => None                       (* unreachable!() *)
  | b :: bs' =>
      match assoc x b with
      | Some _ => Some (set_assoc x v b :: bs')
      | None => match set_existing x v bs' with Some r => Some (b :: r) | None => None end
      end
  end.

(* ---- display (Value::display) ------------------------------------------ *)
Definition ch (c : N) : text := [c].
Definition dq : N := 34%N.
Definition bslash : N := 92%N.

Fixpoint escape_chars (s : text) : text :=
  match s with
  | [] => []
  | c :: s' =>
      (if N.eqb c dq then [bslash; dq]
       else if N.eqb c 10 then [bslash; 110%N]
       else if N.eqb c bslash then [bslash; bslash]
       else [c]) ++ escape_chars s'
  end.
Definition escape_string (s : text) : text := dq :: escape_chars s ++ [dq].

Fixpoint pos_digits (fuel : nat) (n : N) (acc : text) : text :=
  match fuel with
  | O => acc
  | S f => if N.ltb n 10 then (48 + n)%N :: acc
           else pos_digits f (n / 10)%N ((48 + n mod 10)%N :: acc)
  end.
Definition show_N (n : N) : text := pos_digits 25 n [].
Definition show_Z (z : Z) : text :=
  match z with
  | Z0 => [48%N]
  | Zpos p => show_N (Npos p)
  | Zneg p => 45%N :: show_N (Npos p)
  end.

Definition comma_sp : text := [44; 32]%N.

Fixpoint display (v : value) : text :=
  let fix commas (l : list value) : text :=
    match l with
    | [] => []
    | [x] => display x
    | x :: l' => display x ++ comma_sp ++ commas l'
    end in
  match v with
  | VInt z => show_Z z
  | VStr s => escape_string s
  | VEnum _ _ name None => name
  | VEnum _ _ name (Some p) => name ++ [40%N] ++ display p ++ [41%N]
  | VList l => [91%N] ++ commas l ++ [93%N]
  | VTuple l => [40%N] ++ commas l ++ (match l with [_] => [44%N] | _ => [] end) ++ [41%N]
  | VClosure _ _ _ => [60; 99; 108; 111; 115; 117; 114; 101; 62]%N           (* "<closure>" : position elided *)
  | VFun _ shown => shown
  | VCtor _ _ name => name
  | VBuiltin _ => [60; 98; 117; 105; 108; 116; 105; 110; 62]%N                (* "<builtin>" *)
  end.

(* ---- equality (impl PartialEq for Value_, literal fragment) -------------- *)
Fixpoint text_eqb (a b : text) : bool :=
  match a, b with
  | [], [] => true
  | x :: a', y :: b' => N.eqb x y && text_eqb a' b'
  | _, _ => false
  end.

Fixpoint veq (a b : value) : bool :=
  let fix all2 (l1 l2 : list value) : bool :=
    match l1, l2 with
    | [], [] => true
    | x :: l1', y :: l2' => veq x y && all2 l1' l2'
    | _, _ => false
    end in
  match a, b with
  | VInt x, VInt y => Z.eqb x y
  | VStr x, VStr y => text_eqb x y
  | VEnum t1 i1 _ p1, VEnum t2 i2 _ p2 =>
      N.eqb t1 t2 && N.eqb i1 i2 &&
      match p1, p2 with
      | None, None => true
      | Some x, Some y => veq x y
      | _, _ => false
      end
  | VList l1, VList l2 => all2 l1 l2
  | VTuple l1, VTuple l2 => all2 l1 l2
  | _, _ => false
  end.

(* ---- one evaluation step ------------------------------------------------- *)
Inductive xres :=
| XOk (f : frame) (printed : list text)
| XCall (f : frame) (callee : frame)
| XErr (e : err)
| XPanic
| XUnsupported.

Definition exn (p : N * N) : xres := XErr {| ekind_of := KException; epos_of := p |}.

Definition push_todo (f : frame) (s : estate) (e : expr) : frame :=
  mkFrame ((s, e) :: todo f) (vals f) (blocks f) (nextb f) (uses f).
Definition push_val (f : frame) (v : value) : frame :=
  mkFrame (todo f) (v :: vals f) (blocks f) (nextb f) (uses f).
Definition push_val_if (b : bool) (f : frame) (v : value) : frame := if b then push_val f v else f.
Definition set_vals (f : frame) (vs : list value) : frame :=
  mkFrame (todo f) vs (blocks f) (nextb f) (uses f).
Definition set_blocks (f : frame) (bs : list block) : frame :=
  mkFrame (todo f) (vals f) bs (nextb f) (uses f).
Definition set_todo (f : frame) (t : list (estate * expr)) : frame :=
  mkFrame t (vals f) (blocks f) (nextb f) (uses f).
Definition set_nextb (f : frame) (b : block) : frame :=
  mkFrame (todo f) (vals f) (blocks f) b (uses f).

Definition pop_val (f : frame) : option (value * frame) :=
  match vals f with
  | [] => None
  | v :: vs => Some (v, set_vals f vs)
  end.

(* Bindings::pop_block: pop, then assert!(!is_empty()) *)
Definition pop_block (f : frame) : option frame :=
  match blocks f with
  | _ :: (b :: bs) => Some (set_blocks f (b :: bs))
  | _ => None
  end.

Fixpoint add_all (bs : list block) (l : block) : list block :=
  match l with
  | [] => bs
  | (x, v) :: l' => add_all (add_new x v bs) l'
  end.

(* eval_block *)
Definition eval_block (f : frame) (value_used : bool) (body : list expr) : frame :=
  let bs := add_all ([] :: blocks f) (nextb f) in
  let t := map (fun e => (SNot, e)) body ++ todo f in
  let f1 := mkFrame t (vals f) bs [] (uses f) in
  match body with
  | [] => push_val_if value_used f1 vunit
  | _ => f1
  end.

Fixpoint pop_n (n : nat) (vs : list value) : option (list value * list value) :=
  match n with
  | O => Some ([], vs)
  | S n' => match vs with
            | [] => None
            | v :: vs' => match pop_n n' vs' with
                          | Some (l, r) => Some (v :: l, r)
                          | None => None
                          end
            end
  end.

(* is_running_loop: a loop entry that has started (PartiallyEvaluated).  A
   NotEvaluated loop entry is a later statement of the block being left. *)
Definition is_running_loop (s : estate) (e : expr) : bool :=
  match s, e with
  | SPart _, EWhile _ _ _ => true
  | SPart _, EFor _ _ _ _ => true
  | _, _ => false
  end.

(* pending_step_owns_block: does executing this continuation entry pop a binding block?  If/Match/For
   in EvaluatedSubexpressions pop the branch / terminal block; While/For in
   DoneRunBlock pop the body block. *)
Definition entry_pops (s : estate) (e : expr) : bool :=
  match s, e with
  | SDone, EIf _ _ _ _ => true
  | SDone, EMatch _ _ _ => true
  | SDone, EFor _ _ _ _ => true
  | SPart BDoneRun, EWhile _ _ _ => true
  | SPart BDoneRun, EFor _ _ _ _ => true
  | _, _ => false
  end.

Definition pop_block_list (bs : list block) : option (list block) :=
  match bs with
  | _ :: (b :: bs') => Some (b :: bs')
  | _ => None
  end.

(* eval_break: unwind to the innermost RUNNING loop entry.  Discarded entries
   that own a binding block pop it.  The loop entry is replaced by
   EvaluatedSubexpressions: a While leaving its body pops the body block; a
   For leaving its body pops the saved iteree and index and keeps the body
   block for the EvaluatedSubexpressions step to pop; a For still evaluating
   its iterated value pops the index and pushes a block for that step. *)
Fixpoint break_unwind (t : list (estate * expr)) (bs : list block) (vs : list value)
  : option (list (estate * expr) * list block * list value * option bool) :=
  match t with
  | [] => Some ([], bs, vs, None)
  | (s, e) :: t' =>
      if is_running_loop s e then
        match e with
        | EFor _ _ _ _ =>
            match s with
            | SPart BDoneRun =>
                match vs with
                | _ :: _ :: vs' => Some ((SDone, e) :: t', bs, vs', Some (eused e))
                | _ => None
                end
            | _ =>
                match vs with
                | _ :: vs' => Some ((SDone, e) :: t', [] :: bs, vs', Some (eused e))
                | _ => None
                end
            end
        | _ =>
            match s with
            | SPart BDoneRun =>
                match pop_block_list bs with
                | Some bs1 => Some ((SDone, e) :: t', bs1, vs, Some (eused e))
                | None => None
                end
            | _ => Some ((SDone, e) :: t', bs, vs, Some (eused e))
            end
        end
      else if entry_pops s e then
        match pop_block_list bs with
        | Some bs1 => break_unwind t' bs1 vs
        | None => None
        end
      else break_unwind t' bs vs
  end.

(* `return`: discard every pending step of the frame, popping the blocks they own *)
Fixpoint return_unwind (t : list (estate * expr)) (bs : list block) : option (list block) :=
  match t with
  | [] => Some bs
  | (s, e) :: t' =>
      if entry_pops s e then
        match pop_block_list bs with
        | Some bs1 => return_unwind t' bs1
        | None => None
        end
      else return_unwind t' bs
  end.

Fixpoint continue_unwind (t : list (estate * expr)) (bs : list block)
  : option (list (estate * expr) * list block) :=
  match t with
  | [] => Some ([], bs)
  | (s, e) :: t' =>
      if is_running_loop s e then Some ((s, e) :: t', bs)
      else if entry_pops s e then
        match pop_block_list bs with
        | Some bs1 => continue_unwind t' bs1
        | None => None
        end
      else continue_unwind t' bs
  end.

Definition int_of (v : value) : option Z := match v with VInt z => Some z | _ => None end.
Definition str_of (v : value) : option text := match v with VStr s => Some s | _ => None end.

Definition eval_binop (f : frame) (m : meta) (o : binop) (lpos rpos : N * N) : xres :=
  match vals f with
  | rv :: lv :: vs =>
      let f0 := set_vals f vs in
      match o with
      | BInt io =>
          match int_of lv with
          | None => exn lpos
          | Some a =>
              match int_of rv with
              | None => exn rpos
              | Some b =>
                  match arm_sem true (int_arm io) a b with
                  | Val z => XOk (push_val_if (used m) f0 (VInt z)) []
                  | ValB t => XOk (push_val_if (used m) f0 (vbool t)) []
                  | Exn => exn (pstart m, pend m)
                  | Panic => XPanic
                  end
              end
          end
      | BEq => XOk (push_val_if (used m) f0 (vbool (veq lv rv))) []
      | BNeq => XOk (push_val_if (used m) f0 (vbool (negb (veq lv rv)))) []
      | BAnd | BOr =>
          match as_bool lv with
          | None => exn lpos
          | Some a =>
              match as_bool rv with
              | None => exn rpos
              | Some b => XOk (push_val_if (used m) f0 (vbool (match o with BAnd => a && b | _ => a || b end))) []
              end
          end
      | BConcat =>
          match str_of lv with
          | None => exn lpos
          | Some a =>
              match str_of rv with
              | None => exn rpos
              | Some b => XOk (push_val_if (used m) f0 (VStr (a ++ b))) []
              end
          end
      end
  | _ => XPanic
  end.

Fixpoint zip_params (ps : list ident) (vs : list value) : block :=
  match ps, vs with
  | p :: ps', v :: vs' => if N.eqb p underscore then zip_params ps' vs' else (p, v) :: zip_params ps' vs'
  | _, _ => []
  end.

(* later parameters shadow earlier ones with the same name (FxHashMap insert) *)
Definition param_block (ps : list ident) (vs : list value) : block := rev (zip_params ps vs).

Definition new_frame (bs : list block) (body : list expr) (value_used : bool) : frame :=
  mkFrame (map (fun e => (SNot, e)) body) [vunit] bs [] value_used.

Definition nth_pos (l : list expr) (n : nat) (d : N * N) : N * N :=
  match nth_error l n with Some e => epos e | None => d end.

Definition eval_call (p : prog) (f : frame) (m : meta) (args : list expr) : xres :=
  let n := length args in
  match pop_n n (vals f) with
  | None => XPanic
  | Some (argv, rest) =>
      match rest with
      | [] => XPanic
      | recv :: rest' =>
          let f0 := set_vals f rest' in
          let cpos := (pstart m, pend m) in
          let arity_err expected := if Nat.ltb expected n then exn (nth_pos args expected cpos) else exn cpos in
          match recv with
          | VClosure env params body =>
              if Nat.eqb (length params) n
              then XCall f0 (new_frame (param_block params argv :: env) body (used m))
              else exn cpos
          | VFun name _ =>
              match assoc name (funs p) with
              | None => XUnsupported
              | Some fd =>
                  if Nat.eqb (length (fparams fd)) n
                  then XCall f0 (new_frame [param_block (fparams fd) argv] (fbody fd) (used m))
                  else arity_err (length (fparams fd))
              end
          | VBuiltin b =>
              if Nat.eqb n 1 then
                match argv with
                | [a] =>
                    match b with
                    | BiPrintln => match str_of a with
                                   | Some s => XOk (push_val_if (used m) f0 vunit) [s ++ [10%N]]
                                   | None => exn (nth_pos args 0 cpos)
                                   end
                    | BiPrint => match str_of a with
                                 | Some s => XOk (push_val_if (used m) f0 vunit) [s]
                                 | None => exn (nth_pos args 0 cpos)
                                 end
                    | BiStringRepr => XOk (push_val_if (used m) f0 (VStr (display a))) []
                    end
                | _ => XPanic
                end
              else arity_err 1%nat
          | VCtor ty idx name =>
              if Nat.eqb n 1 then
                match argv with
                | [a] => XOk (push_val_if (used m) f0 (VEnum ty idx name (Some a))) []
                | _ => XPanic
                end
              else arity_err 1%nat
          | _ => exn cpos
          end
      end
  end.

Fixpoint match_cases (p : prog) (f : frame) (value_used : bool) (spos : N * N)
         (vty : ident) (vidx : N) (payload : option value)
         (cases : list (ident * (N * N) * option ident * list expr)) : xres :=
  match cases with
  | [] => exn spos
  | (pat, ppos, binder, body) :: cs =>
      if N.eqb pat underscore then XOk (eval_block f value_used body) []
      else
        match get_var p f pat with
        | None => exn ppos
        | Some pv =>
            let hit (t : ident) (i : N) :=
              if N.eqb vty t && N.eqb vidx i then
                match payload, binder with
                | Some pl, Some x =>
                    let b := if N.eqb x underscore then [] else [(x, pl)] in
                    XOk (eval_block (set_nextb f b) value_used body) []
                | None, None => XOk (eval_block (set_nextb f []) value_used body) []
                | _, _ => match_cases p f value_used spos vty vidx payload cs
                end
              else match_cases p f value_used spos vty vidx payload cs in
            match pv with
            | VEnum t i _ _ => hit t i
            | VCtor t i _ => hit t i
            | _ => exn ppos
            end
        end
  end.

(* eval_expr on the current frame, the entry (s, e) already popped *)
Definition exec (p : prog) (f : frame) (s : estate) (e : expr) : xres :=
  match e with
  | EInt m z => XOk (push_val_if (used m) f (VInt z)) []
  | EStr m t => XOk (push_val_if (used m) f (VStr t)) []
  | EVar m x =>
      match get_var p f x with
      | Some v => XOk (push_val_if (used m) f v) []
      | None => exn (pstart m, pend m)
      end
  | EBin m o l r =>
      match s with
      | SDone => eval_binop f m o (epos l) (epos r)
      | _ => XOk (push_todo (push_todo (push_todo f SDone e) SNot r) SNot l) []
      end
  | ELet m x rhs =>
      match s with
      | SDone =>
          match pop_val f with
          | None => XPanic
          | Some (v, f0) => XOk (push_val_if (used m) (set_blocks f0 (add_new x v (blocks f0))) vunit) []
          end
      | _ => XOk (push_todo (push_todo f SDone e) SNot rhs) []
      end
  | EAssign m x xpos rhs =>
      match s with
      | SDone =>
          match lookup_blocks x (blocks f) with
          | None => exn xpos
          | Some _ =>
              match pop_val f with
              | None => XPanic
              | Some (v, f0) =>
                  match set_existing x v (blocks f0) with
                  | None => XPanic
                  | Some bs => XOk (push_val_if (used m) (set_blocks f0 bs) vunit) []
                  end
              end
          end
      | _ => XOk (push_todo (push_todo f SDone e) SNot rhs) []
      end
  | EUpd m u x xpos rhs =>
      match s with
      | SDone =>
          match get_var p f x with
          | None => exn xpos
          | Some cur =>
              match int_of cur with
              | None => exn (pstart m, pend m)
              | Some a =>
                  match pop_val f with
                  | None => XPanic
                  | Some (rv, f0) =>
                      match int_of rv with
                      | None => exn (pstart m, pend m)
                      | Some b =>
                          match arm_sem true (upd_arm u) a b with
                          | Val z =>
                              match set_existing x (VInt z) (blocks f0) with
                              | None => XPanic
                              | Some bs => XOk (push_val_if (used m) (set_blocks f0 bs) vunit) []
                              end
                          | _ => XPanic
                          end
                      end
                  end
              end
          end
      | _ => XOk (push_todo (push_todo f SDone e) SNot rhs) []
      end
  | EIf m c t el =>
      match s with
      | SNot => XOk (push_todo (push_todo f (SPart BWill) e) SNot c) []
      | SPart _ =>
          let f1 := push_todo f SDone e in
          match pop_val f1 with
          | None => XPanic
          | Some (cv, f2) =>
              match as_bool cv with
              | None => exn (epos c)
              | Some b =>
                  let branch_used := used m && (match el with Some _ => true | None => false end) in
                  if b then XOk (eval_block f2 branch_used t) []
                  else match el with
                       | Some eb => XOk (eval_block f2 branch_used eb) []
                       | None => XOk (set_blocks f2 ([] :: blocks f2)) []
                       end
              end
          end
      | SDone =>
          match pop_block f with
          | None => XPanic
          | Some f1 => XOk (push_val_if (used m && (match el with None => true | Some _ => false end)) f1 vunit) []
          end
      end
  | EWhile m c body =>
      match s with
      | SNot => XOk (push_todo (push_todo f (SPart BWill) e) SNot c) []
      | SPart BWill =>
          match pop_val f with
          | None => XPanic
          | Some (cv, f1) =>
              match as_bool cv with
              | None => exn (epos c)
              | Some true => XOk (eval_block (push_todo f1 (SPart BDoneRun) e) false body) []
              | Some false => XOk (push_val_if (used m) (push_todo f1 SDone e) vunit) []
              end
          end
      | SPart BDoneRun =>
          match pop_block f with
          | None => XPanic
          | Some f1 => XOk (push_todo (push_todo f1 (SPart BWill) e) SNot c) []
          end
      | SPart BNot => XPanic
      | SDone => XOk f []
      end
  | EFor m x it body =>
      match s with
      | SNot => XOk (push_todo (push_todo (push_val f (VInt 0)) (SPart BWill) e) SNot it) []
      | SPart BWill =>
          match vals f with
          | itv :: idxv :: vs =>
              let f1 := set_vals f vs in
              match idxv with
              | VInt idx =>
                  match itv with
                  | VList items =>
                      match nth_error items (Z.to_nat idx) with
                      | None =>
                          XOk (push_val_if (used m) (push_todo (set_blocks f1 ([] :: blocks f1)) SDone e) vunit) []
                      | Some elem =>
                          let f2 := push_todo f1 (SPart BDoneRun) e in
                          let f3 := push_val (push_val f2 (VInt (idx + 1))) itv in
                          let b := if N.eqb x underscore then [] else [(x, elem)] in
                          XOk (eval_block (set_nextb f3 b) false body) []
                      end
                  | _ => exn (epos it)
                  end
              | _ => XPanic
              end
          | _ => XPanic
          end
      | SPart BDoneRun =>
          match pop_block f with
          | None => XPanic
          | Some f1 => XOk (push_todo f1 (SPart BWill) e) []
          end
      | SPart BNot => XPanic
      | SDone =>
          match pop_block f with
          | None => XPanic
          | Some f1 => XOk f1 []
          end
      end
  | EBreak m =>
      match break_unwind (todo f) (blocks f) (vals f) with
      | None => XPanic
      | Some (t, bs, vs, lu) =>
          (* the loop's value (Unit) is pushed when the LOOP's value is used; with no enclosing loop, break's own flag *)
          XOk (push_val_if (match lu with Some u => u | None => used m end) (mkFrame t vs bs (nextb f) (uses f)) vunit) []
      end
  | EContinue m =>
      match continue_unwind (todo f) (blocks f) with
      | None => XPanic
      | Some (t, bs) => XOk (mkFrame t (vals f) bs (nextb f) (uses f)) []
      end
  | EReturn m oe =>
      match s with
      | SDone =>
          match return_unwind (todo f) (blocks f) with
          | Some bs => XOk (set_blocks (set_todo f []) bs) []
          | None => XPanic
          end
      | _ =>
          let f1 := push_todo f SDone e in
          match oe with
          | Some x => XOk (push_todo f1 SNot x) []
          | None => XOk (push_val f1 vunit) []
          end
      end
  | EList m items =>
      match s with
      | SDone =>
          match pop_n (length items) (vals f) with
          | None => XPanic
          | Some (l, rest) => XOk (push_val_if (used m) (set_vals f rest) (VList l)) []
          end
      | _ => XOk (fold_left (fun acc it => push_todo acc SNot it) items (push_todo f SDone e)) []
      end
  | ETuple m items =>
      match s with
      | SDone =>
          match pop_n (length items) (vals f) with
          | None => XPanic
          | Some (l, rest) => XOk (push_val_if (used m) (set_vals f rest) (VTuple l)) []
          end
      | _ => XOk (fold_left (fun acc it => push_todo acc SNot it) items (push_todo f SDone e)) []
      end
  | ECall m fe args =>
      match s with
      | SNot => XOk (push_todo (push_todo f (SPart BNot) e) SNot fe) []
      | SPart _ => XOk (fold_left (fun acc a => push_todo acc SNot a) args (push_todo f SDone e)) []
      | SDone => eval_call p f m args
      end
  | EFun m params body =>
      XOk (push_val_if (used m) f (VClosure (blocks f) params body)) []
  | EParen m inner => XOk (push_todo f SNot inner) []
  | EMatch m sc cases =>
      match s with
      | SNot => XOk (push_todo (push_todo f (SPart BWill) e) SNot sc) []
      | SPart _ =>
          let f1 := push_todo f SDone e in
          match pop_val f1 with
          | None => XPanic
          | Some (sv, f2) =>
              match sv with
              | VEnum ty idx _ payload => match_cases p f2 (used m) (epos sc) ty idx payload cases
              | _ => exn (epos sc)
              end
          end
      | SDone =>
          match pop_block f with
          | None => XPanic
          | Some f1 => XOk f1 []
          end
      end
  | EUnsupported _ => XUnsupported
  end.

Inductive outcome :=
| Next (s : state)
| Done (v : value) (s : state)
| Failed (e : err) (s : state)       (* the state to resume from *)
| Crashed                            (* a Rust panic *)
| Unsupported.

Definition with_stack (s : state) (st : list frame) (t : N) (o : list text) (i : bool) : state :=
  mkState st t o i (tick_limit s) (stack_limit s).

Definition opt_le (lim : option N) (n : N) : bool :=
  match lim with Some l => N.leb l n | None => false end.
Definition opt_lt (lim : option N) (n : N) : bool :=
  match lim with Some l => N.ltb l n | None => false end.

(* One iteration of the loop in `eval`.  On every failure the frame is exactly
   as before the iteration (the popped entry is back, the value stack, the
   binding blocks and the continuation stack are untouched); only `ticks`
   and the interrupt flag have changed. *)
Definition step (p : prog) (s : state) : outcome :=
  match stack s with
  | [] => Crashed
  | f :: rest =>
      match todo f with
      | (es, e) :: t =>
          let tk := (ticks s + 1)%N in
          if interrupted s then
            Failed {| ekind_of := KInterrupted; epos_of := epos e |} (with_stack s (stack s) tk (out s) false)
          else if opt_le (tick_limit s) tk then
            Failed {| ekind_of := KTickLimit; epos_of := epos e |} (with_stack s (stack s) tk (out s) false)
          else if opt_lt (stack_limit s) (N.of_nat (length (stack s))) then
            Failed {| ekind_of := KStackLimit; epos_of := epos e |} (with_stack s (stack s) tk (out s) false)
          else
            match exec p (set_todo f t) es e with
            | XOk f' printed => Next (with_stack s (f' :: rest) tk (printed ++ out s) false)
            | XCall f' callee => Next (with_stack s (callee :: f' :: rest) tk (out s) false)
            | XErr er => Failed er (with_stack s (stack s) tk (out s) false)
            | XPanic => Crashed
            | XUnsupported => Unsupported
            end
      | [] =>
          match rest with
          | [] =>
              match vals f with
              | v :: vs => Done v (with_stack s [set_vals f vs] (ticks s) (out s) (interrupted s))
              | [] => Crashed
              end
          | caller :: rest' =>
              match vals f with
              | v :: _ => Next (with_stack s (push_val_if (uses f) caller v :: rest') (ticks s) (out s) (interrupted s))
              | [] => Crashed
              end
          end
      end
  end.

Inductive run_result :=
| RDone (v : value) (s : state)
| RFailed (e : err) (s : state)
| RCrashed
| RUnsupported
| ROutOfFuel (s : state).

Fixpoint run (p : prog) (fuel : nat) (s : state) : run_result :=
  match fuel with
  | O => ROutOfFuel s
  | S n =>
      match step p s with
      | Next s' => run p n s'
      | Done v s' => RDone v s'
      | Failed e s' => RFailed e s'
      | Crashed => RCrashed
      | Unsupported => RUnsupported
      end
  end.

(* eval_toplevel_exprs: install the expressions in the top frame, then eval.
   (`eval` returns Unit at once when called with nothing to do.) *)
Definition toplevel_frame (exprs : list expr) : frame :=
  mkFrame (map (fun e => (SNot, e)) exprs) [vunit] [[]] [] true.

Definition init_state (exprs : list expr) (tl sl : option N) : state :=
  mkState [toplevel_frame exprs] 0 [] false tl sl.
