(* C25 on the evaluator model: with a tick limit every run ends (value, error,
   limit error) within 2 * limit + depth iterations of the eval loop. *)
From Coq Require Import ZArith NArith Bool List Lia.
From Garden Require Import Base.Int64 Arith gen.Tables Machine.
Import ListNotations.
Open Scope nat_scope.

Definition potential (L : N) (s : state) : nat := 2 * (N.to_nat L - N.to_nat (ticks s)) + length (stack s).

Lemma step_next_potential p L s s' :
  tick_limit s = Some L -> (ticks s <= L)%N -> step p s = Next s' ->
  tick_limit s' = Some L /\ (ticks s' <= L)%N /\ potential L s' < potential L s.
Proof.
  unfold step, potential. intros TL LE H.
  destruct (stack s) as [|f rest] eqn:ES; [discriminate|].
  destruct (todo f) as [|[es e] t].
  - destruct rest as [|caller rest']; destruct (vals f) as [|v vs]; try discriminate.
    inversion H; subst. cbn. repeat split; auto. lia.
  - destruct (interrupted s); [discriminate|].
    rewrite TL in H. cbn [opt_le] in H.
    destruct (N.leb_spec L (ticks s + 1)) as [C|C]; [discriminate|].
    destruct (opt_lt (stack_limit s) (N.of_nat (length (f :: rest)))); [discriminate|].
    destruct (exec p (set_todo f t) es e); try discriminate; inversion H; subst; cbn; repeat split; auto; lia.
Qed.

Theorem run_bounded p L : forall fuel s s',
  tick_limit s = Some L -> (ticks s <= L)%N -> run p fuel s = ROutOfFuel s' -> fuel <= potential L s.
Proof.
  induction fuel as [|fuel IH]; intros s s' TL LE H; [lia|].
  cbn [run] in H. destruct (step p s) as [s1|v s1|e s1| |] eqn:ST; try discriminate.
  destruct (step_next_potential p L s s1 TL LE ST) as (TL1 & LE1 & PO).
  specialize (IH s1 s' TL1 LE1 H). lia.
Qed.

(* a run under a tick limit always finishes: it cannot use up more than 2 * limit + depth iterations *)
Theorem limited_run_finishes p L exprs sl fuel :
  2 * N.to_nat L + 1 < fuel ->
  match run p fuel (init_state exprs (Some L) sl) with ROutOfFuel _ => False | _ => True end.
Proof.
  intros F. destruct (run p fuel (init_state exprs (Some L) sl)) as [| | | |s'] eqn:R; auto.
  apply (run_bounded p L) in R; [|reflexivity|cbn; lia].
  unfold potential, init_state in R. cbn in R. lia.
Qed.
