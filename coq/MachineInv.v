(* Invariants of the evaluator model: binding-block discipline (C06),
   failed steps restore the frame (C07), interrupts are transparent (C08). *)
From Coq Require Import ZArith NArith Bool List Lia.
From Garden Require Import Base.Int64 Arith gen.Tables Machine.
Import ListNotations.
Open Scope nat_scope.

(* ------------------------------------------------------------------------ *)
(* Block discipline: in every frame, at every step,
     number of live binding blocks = base + number of pending continuation
     entries that will pop a block.                                          *)

Definition pops (x : estate * expr) : nat := if entry_pops (fst x) (snd x) then 1 else 0.

Fixpoint pending (t : list (estate * expr)) : nat :=
  match t with
  | [] => 0
  | x :: t' => pops x + pending t'
  end.

Definition balanced (base : nat) (f : frame) : Prop :=
  length (blocks f) = base + pending (todo f).

Lemma pending_app a b : pending (a ++ b) = pending a + pending b.
Proof. induction a as [|x a IH]; cbn [app pending]; lia. Qed.

Lemma pending_fresh body : pending (map (fun e => (SNot, e)) body) = 0.
Proof. induction body as [|e body IH]; cbn; auto. Qed.

Lemma add_new_length x v bs : length (add_new x v bs) = length bs.
Proof. unfold add_new. destruct (N.eqb x underscore); [reflexivity|]. destruct bs; reflexivity. Qed.

Lemma add_all_length l : forall bs, length (add_all bs l) = length bs.
Proof.
  induction l as [|[x v] l IH]; intros bs; cbn [add_all]; [reflexivity|].
  rewrite IH. apply add_new_length.
Qed.

Lemma push_val_if_blocks b f v : blocks (push_val_if b f v) = blocks f.
Proof. destruct b; reflexivity. Qed.
Lemma push_val_if_todo b f v : todo (push_val_if b f v) = todo f.
Proof. destruct b; reflexivity. Qed.

Lemma eval_block_blocks f u body : length (blocks (eval_block f u body)) = S (length (blocks f)).
Proof.
  unfold eval_block. destruct body; rewrite ?push_val_if_blocks; cbn [blocks];
    rewrite add_all_length; reflexivity.
Qed.

Lemma eval_block_todo f u body : pending (todo (eval_block f u body)) = pending (todo f).
Proof.
  unfold eval_block. destruct body as [|e body]; rewrite ?push_val_if_todo; cbn [todo map app]; [reflexivity|].
  cbn [pending]. rewrite pending_app, pending_fresh. cbn. reflexivity.
Qed.

Lemma fold_push_todo_pending items : forall f,
  pending (todo (fold_left (fun acc it => push_todo acc SNot it) items f)) = pending (todo f).
Proof.
  induction items as [|i items IH]; intros f; cbn [fold_left]; [reflexivity|].
  rewrite IH. reflexivity.
Qed.

Lemma fold_push_todo_blocks items : forall f,
  blocks (fold_left (fun acc it => push_todo acc SNot it) items f) = blocks f.
Proof.
  induction items as [|i items IH]; intros f; cbn [fold_left]; [reflexivity|].
  rewrite IH. reflexivity.
Qed.

Lemma pop_block_list_length bs bs1 : pop_block_list bs = Some bs1 -> length bs = S (length bs1).
Proof. destruct bs as [|a [|b bs]]; cbn; intros H; inversion H; reflexivity. Qed.

Lemma pop_block_length f f1 : pop_block f = Some f1 ->
  length (blocks f) = S (length (blocks f1)) /\ todo f1 = todo f.
Proof.
  unfold pop_block. destruct (blocks f) as [|a [|b bs]] eqn:E; intros H; inversion H; subst.
  cbn. auto.
Qed.

Lemma break_unwind_balance t : forall bs vs t' bs' vs' lu,
  break_unwind t bs vs = Some (t', bs', vs', lu) ->
  length bs' + pending t = length bs + pending t'.
Proof.
  induction t as [|[s e] t IH]; intros bs vs t' bs' vs' lu H; cbn [break_unwind] in H.
  - inversion H; subst. lia.
  - destruct (is_running_loop s e) eqn:R.
    + destruct s as [|b|]; try discriminate; destruct e; try discriminate.
      * (* while *)
        destruct b.
        -- inversion H; subst. cbn. lia.
        -- destruct (pop_block_list bs) as [bs1|] eqn:P; [|discriminate].
           apply pop_block_list_length in P. inversion H; subst. cbn. lia.
        -- inversion H; subst. cbn. lia.
      * (* for *)
        destruct b.
        -- destruct vs as [|? vs]; [discriminate|]. inversion H; subst. cbn. lia.
        -- destruct vs as [|? [|? vs]]; try discriminate. inversion H; subst. cbn. lia.
        -- destruct vs as [|? vs]; [discriminate|]. inversion H; subst. cbn. lia.
    + destruct (entry_pops s e) eqn:D.
      * destruct (pop_block_list bs) as [bs1|] eqn:P; [|discriminate].
        apply pop_block_list_length in P. apply IH in H.
        assert (pops (s, e) = 1).
        { unfold pops; cbn [fst snd]. rewrite D. reflexivity. }
        cbn [pending]. lia.
      * apply IH in H.
        assert (pops (s, e) = 0).
        { unfold pops; cbn [fst snd]. rewrite D. reflexivity. }
        cbn [pending]. lia.
Qed.

Lemma continue_unwind_balance t : forall bs t' bs',
  continue_unwind t bs = Some (t', bs') ->
  length bs' + pending t = length bs + pending t'.
Proof.
  induction t as [|[s e] t IH]; intros bs t' bs' H; cbn [continue_unwind] in H.
  - inversion H; subst. lia.
  - destruct (is_running_loop s e) eqn:R.
    + inversion H; subst. lia.
    + destruct (entry_pops s e) eqn:D.
      * destruct (pop_block_list bs) as [bs1|] eqn:P; [|discriminate].
        apply pop_block_list_length in P. apply IH in H.
        assert (pops (s, e) = 1).
        { unfold pops; cbn [fst snd]. rewrite D. reflexivity. }
        cbn [pending]. lia.
      * apply IH in H.
        assert (pops (s, e) = 0).
        { unfold pops; cbn [fst snd]. rewrite D. reflexivity. }
        cbn [pending]. lia.
Qed.

Lemma return_unwind_balance t : forall bs bs',
  return_unwind t bs = Some bs' -> length bs = length bs' + pending t.
Proof.
  induction t as [|[s e] t IH]; intros bs bs' H; cbn [return_unwind] in H.
  - inversion H; subst. cbn. lia.
  - cbn [pending]. unfold pops; cbn [fst snd]. destruct (entry_pops s e).
    + destruct (pop_block_list bs) as [bs1|] eqn:P; [|discriminate].
      apply pop_block_list_length in P. apply IH in H. lia.
    + apply IH in H. lia.
Qed.

Ltac break_match H :=
  match type of H with
  | context [match ?x with _ => _ end] =>
      lazymatch x with
      | context [match _ with _ => _ end] => fail
      | _ => destruct x eqn:?; try discriminate
      end
  end.

Ltac bal_simpl :=
  unfold balanced in *; cbn [todo blocks push_todo push_val set_vals set_blocks set_todo set_nextb pending pops fst snd entry_pops] in *;
  rewrite ?push_val_if_blocks, ?push_val_if_todo, ?eval_block_blocks, ?eval_block_todo,
    ?fold_push_todo_pending, ?fold_push_todo_blocks in *;
  cbn [todo blocks push_todo push_val set_vals set_blocks set_todo set_nextb pending pops fst snd entry_pops length] in *.

Lemma set_existing_length x v : forall bs bs', set_existing x v bs = Some bs' -> length bs' = length bs.
Proof.
  induction bs as [|b bs IH]; intros bs' H; cbn [set_existing] in H; [discriminate|].
  destruct (assoc x b).
  - inversion H; reflexivity.
  - destruct (set_existing x v bs) as [r|] eqn:E; [|discriminate]. inversion H; subst. cbn. f_equal. now apply IH.
Qed.

Lemma eval_binop_frame f m o lp rp f' out :
  eval_binop f m o lp rp = XOk f' out -> blocks f' = blocks f /\ todo f' = todo f.
Proof.
  unfold eval_binop. intros H.
  repeat break_match H; inversion H; subst; rewrite ?push_val_if_blocks, ?push_val_if_todo; auto.
Qed.

Lemma eval_call_ok p f m args f' out :
  eval_call p f m args = XOk f' out -> blocks f' = blocks f /\ todo f' = todo f.
Proof.
  unfold eval_call. intros H.
  repeat break_match H; inversion H; subst; rewrite ?push_val_if_blocks, ?push_val_if_todo; auto.
Qed.

Lemma eval_call_call p f m args f' callee :
  eval_call p f m args = XCall f' callee ->
  blocks f' = blocks f /\ todo f' = todo f /\ pending (todo callee) = 0.
Proof.
  unfold eval_call. intros H.
  repeat break_match H; inversion H; subst; cbn; rewrite ?pending_fresh; auto.
Qed.

Lemma match_cases_balanced p cases : forall f u sp ty idx pl f' out b k,
  match_cases p f u sp ty idx pl cases = XOk f' out ->
  length (blocks f) + k = b + pending (todo f) ->
  length (blocks f') + k = S b + pending (todo f').
Proof.
  induction cases as [|[[[pat ppos] binder] body] cs IH]; intros f u sp ty idx pl f' out b k H Hb;
    cbn [match_cases] in H; [discriminate|].
  destruct (N.eqb pat underscore).
  { inversion H; subst. rewrite eval_block_blocks, eval_block_todo. lia. }
  destruct (get_var p f pat) as [pv|]; [|discriminate].
  destruct pv; try discriminate.
  - destruct (N.eqb ty ty0 && N.eqb idx idx0).
    + destruct pl, binder; try (eapply IH; eassumption);
        inversion H; subst; rewrite eval_block_blocks, eval_block_todo; cbn; lia.
    + eapply IH; eassumption.
  - destruct (N.eqb ty ty0 && N.eqb idx idx0).
    + destruct pl, binder; try (eapply IH; eassumption);
        inversion H; subst; rewrite eval_block_blocks, eval_block_todo; cbn; lia.
    + eapply IH; eassumption.
Qed.

Lemma match_cases_not_call p cases : forall f u sp ty idx pl f' c,
  match_cases p f u sp ty idx pl cases <> XCall f' c.
Proof.
  induction cases as [|[[[pat ppos] binder] body] cs IH]; intros f u sp ty idx pl f' c H;
    cbn [match_cases] in H; [discriminate|].
  destruct (N.eqb pat underscore); [discriminate|].
  destruct (get_var p f pat) as [pv|]; [|discriminate].
  destruct pv; try discriminate;
    destruct (N.eqb ty ty0 && N.eqb idx idx0); try (eapply IH; eassumption);
    destruct pl, binder; try discriminate; eapply IH; eassumption.
Qed.

(* the popped entry is (s, e); the frame passed to exec has the remaining todo *)
Lemma exec_balanced p f s e f' out b :
  exec p f s e = XOk f' out ->
  length (blocks f) = b + pops (s, e) + pending (todo f) ->
  length (blocks f') = b + pending (todo f').
Proof.
  intros H Hb. unfold pops in Hb. cbn [fst snd] in Hb.
  destruct e; destruct s as [|[]|]; cbn [exec] in H; cbn [entry_pops] in Hb;
    try discriminate;
    try (inversion H; subst; bal_simpl; lia);
    try (apply eval_binop_frame in H; destruct H as [-> ->]; lia);
    try (apply eval_call_ok in H; destruct H as [-> ->]; lia);
    unfold pop_val, pop_block in H; cbn [todo blocks vals push_todo push_val set_vals set_blocks set_todo set_nextb] in H.
  all: try (repeat break_match H; inversion H; subst; bal_simpl; rewrite ?add_new_length;
            repeat match goal with E : set_existing _ _ _ = Some _ |- _ => apply set_existing_length in E; cbn [blocks set_vals] in E end;
            lia).
  all: try (destruct (break_unwind (todo f) (blocks f) (vals f)) as [[[[t0 bs0] vs0] lu0]|] eqn:E; [|discriminate];
            apply break_unwind_balance in E; inversion H; subst; bal_simpl; lia).
  all: try (destruct (continue_unwind (todo f) (blocks f)) as [[t0 bs0]|] eqn:E; [|discriminate];
            apply continue_unwind_balance in E; inversion H; subst; bal_simpl; lia).
  all: try (destruct (return_unwind (todo f) (blocks f)) as [bs0|] eqn:E; [|discriminate];
            apply return_unwind_balance in E; inversion H; subst; bal_simpl; lia).
  all: destruct (vals f) as [|v vs]; try discriminate; destruct v; try discriminate;
    eapply (match_cases_balanced _ _ _ _ _ _ _ _ _ _ b 1) in H; cbn [blocks todo set_vals push_todo pending pops fst snd entry_pops] in *; lia.
Qed.


Lemma eval_binop_not_call f m o lp rp f' c : eval_binop f m o lp rp <> XCall f' c.
Proof. unfold eval_binop. intros H. repeat break_match H; discriminate. Qed.

Lemma exec_call_balanced p f s e f' callee b :
  exec p f s e = XCall f' callee ->
  length (blocks f) = b + pops (s, e) + pending (todo f) ->
  length (blocks f') = b + pending (todo f') /\ pending (todo callee) = 0.
Proof.
  intros H Hb. unfold pops in Hb. cbn [fst snd] in Hb.
  destruct e; destruct s as [|[]|]; cbn [exec] in H; cbn [entry_pops] in Hb;
    try discriminate;
    try (exfalso; eapply eval_binop_not_call; eassumption);
    try (apply eval_call_call in H; destruct H as [-> [-> ?]]; split; [lia|assumption]);
    unfold pop_val, pop_block in H; cbn [todo blocks vals push_todo push_val set_vals set_blocks set_todo set_nextb] in H.
  all: try (repeat break_match H; discriminate).
  all: destruct (vals f) as [|v vs]; try discriminate; destruct v; try discriminate;
    exfalso; eapply match_cases_not_call; eassumption.
Qed.

(* ---- the invariant over whole states ------------------------------------- *)
Definition inv (bases : list nat) (s : state) : Prop := Forall2 balanced bases (stack s).

Lemma balanced_push_val_if b base f v : balanced base f -> balanced base (push_val_if b f v).
Proof. unfold balanced. now rewrite push_val_if_blocks, push_val_if_todo. Qed.

Lemma balanced_entry base f s e t :
  todo f = (s, e) :: t -> balanced base f ->
  length (blocks (set_todo f t)) = base + pops (s, e) + pending (todo (set_todo f t)).
Proof. unfold balanced. intros E H. rewrite E in H. cbn [pending] in H. cbn. lia. Qed.

Theorem step_preserves_inv p s s' bases :
  inv bases s -> step p s = Next s' ->
  exists bases', inv bases' s' /\
    (bases' = bases \/ (exists b, bases' = b :: bases) \/ bases' = tl bases).
Proof.
  unfold inv, step. intros I H.
  destruct (stack s) as [|f rest] eqn:ES; [discriminate|].
  inversion I as [|b0 f0 bs0 r0 Hb Hr]; subst.
  destruct (todo f) as [|[es e] t] eqn:ET.
  - destruct rest as [|caller rest']; [destruct (vals f); discriminate|].
    destruct (vals f) as [|v vs]; [discriminate|]. inversion H; subst. cbn [stack].
    inversion Hr as [|b1 f1 bs1 r1 Hb1 Hr1]; subst.
    exists (b1 :: bs1). split; [|right; right; reflexivity].
    constructor; [now apply balanced_push_val_if|assumption].
  - destruct (interrupted s); [discriminate|].
    destruct (opt_le (tick_limit s) (ticks s + 1)); [discriminate|].
    destruct (opt_lt (stack_limit s) (N.of_nat (length (f :: rest)))); [discriminate|].
    pose proof (balanced_entry _ _ _ _ _ ET Hb) as Hent.
    destruct (exec p (set_todo f t) es e) as [f' pr|f' callee| | |] eqn:EX; try discriminate.
    + inversion H; subst. cbn [stack]. exists (b0 :: bs0). split; [|left; reflexivity].
      constructor; [|assumption]. unfold balanced. eapply exec_balanced; eassumption.
    + inversion H; subst. cbn [stack].
      destruct (exec_call_balanced _ _ _ _ _ _ _ EX Hent) as [Hf Hc].
      exists (length (blocks callee) :: b0 :: bs0). split; [|right; left; eexists; reflexivity].
      constructor; [unfold balanced; lia|]. constructor; assumption.
Qed.

Lemma step_done_inv p s v s' bases : inv bases s -> step p s = Done v s' -> inv bases s'.
Proof.
  unfold inv, step. intros I H.
  destruct (stack s) as [|f rest] eqn:ES; [discriminate|].
  destruct (todo f) as [|[es e] t] eqn:ET.
  - destruct rest; [|destruct (vals f); discriminate].
    destruct (vals f) as [|w vs]; [discriminate|]. inversion H; subst. cbn [stack].
    inversion I; subst. constructor; [|assumption].
    unfold balanced in *. cbn. assumption.
  - destruct (interrupted s); [discriminate|].
    destruct (opt_le _ _); [discriminate|]. destruct (opt_lt _ _); [discriminate|].
    destruct (exec p (set_todo f t) es e); discriminate.
Qed.

(* ------------------------------------------------------------------------ *)
(* C07: a failed step leaves the machine where it was *)
Lemma step_failed_restores p s e s' :
  step p s = Failed e s' ->
  stack s' = stack s /\ out s' = out s /\ interrupted s' = false /\
  tick_limit s' = tick_limit s /\ stack_limit s' = stack_limit s /\ ticks s' = (ticks s + 1)%N.
Proof.
  unfold step. intros H.
  destruct (stack s) as [|f rest] eqn:ES; [discriminate|].
  destruct (todo f) as [|[es ex] t].
  - destruct rest; destruct (vals f); discriminate.
  - destruct (interrupted s); [inversion H; subst; cbn; auto 10|].
    destruct (opt_le _ _); [inversion H; subst; cbn; auto 10|].
    destruct (opt_lt _ _); [inversion H; subst; cbn; auto 10|].
    destruct (exec p (set_todo f t) es ex); try discriminate.
    inversion H; subst. cbn. auto 10.
Qed.

(* exec does not look at ticks: retrying the failed step fails in the same way *)
Lemma resume_same_error p s e s' :
  step p s = Failed e s' -> ekind_of e = KException -> tick_limit s = None ->
  exists s'', step p s' = Failed e s'' /\ stack s'' = stack s'.
Proof.
  intros H K TL. pose proof (step_failed_restores _ _ _ _ H) as (ST & OU & IN & TL' & SL' & TK).
  unfold step in *. rewrite ST, IN, TL', SL', TL in *.
  destruct (stack s) as [|f rest] eqn:ES; [discriminate|].
  destruct (todo f) as [|[es ex] t].
  - destruct rest; destruct (vals f); discriminate.
  - destruct (interrupted s); [inversion H; subst; discriminate|].
    cbn [opt_le] in *.
    destruct (opt_lt (stack_limit s) (N.of_nat (length (f :: rest)))); [inversion H; subst; discriminate|].
    destruct (exec p (set_todo f t) es ex); try discriminate.
    inversion H; subst. eexists. split; [reflexivity|]. cbn. symmetry; assumption.
Qed.

Fixpoint resume_n (p : prog) (n : nat) (s : state) : option (err * state) :=
  match n with
  | O => None
  | S n' => match step p s with
            | Failed e s' => match n' with O => Some (e, s') | _ => resume_n p n' s' end
            | _ => None
            end
  end.

Theorem resume_idempotent p n : forall s e s',
  step p s = Failed e s' -> ekind_of e = KException -> tick_limit s = None ->
  exists s'', resume_n p (S n) s' = Some (e, s'') /\ stack s'' = stack s.
Proof.
  induction n as [|n IH]; intros s e s' H K TL.
  - destruct (resume_same_error _ _ _ _ H K TL) as (s'' & H2 & ST).
    exists s''. cbn. rewrite H2. split; [reflexivity|].
    rewrite ST. now apply step_failed_restores in H.
  - destruct (resume_same_error _ _ _ _ H K TL) as (s'' & H2 & ST).
    assert (TL2 : tick_limit s' = None).
    { apply step_failed_restores in H. destruct H as (_ & _ & _ & T & _). congruence. }
    destruct (IH _ _ _ H2 K TL2) as (s3 & R & ST3).
    exists s3. split.
    + change (resume_n p (S (S n)) s') with
        (match step p s' with Failed e0 s0 => resume_n p (S n) s0 | _ => None end).
      rewrite H2. exact R.
    + rewrite ST3. now apply step_failed_restores in H.
Qed.

(* ------------------------------------------------------------------------ *)
(* C06: reachable states *)
Inductive reach (p : prog) (s0 : state) : state -> Prop :=
| reach_refl : reach p s0 s0
| reach_next s s' : reach p s0 s -> step p s = Next s' -> reach p s0 s'
| reach_failed s e s' : reach p s0 s -> step p s = Failed e s' -> reach p s0 s'.

Lemma inv_failed p s e s' bases : inv bases s -> step p s = Failed e s' -> inv bases s'.
Proof. unfold inv. intros I H. apply step_failed_restores in H. destruct H as (-> & _). exact I. Qed.

Lemma Forall2_length_eq {A B} (R : A -> B -> Prop) l1 l2 : Forall2 R l1 l2 -> length l1 = length l2.
Proof. induction 1; cbn; congruence. Qed.

Lemma step_next_stack_nonempty p s s' : step p s = Next s' -> stack s' <> [].
Proof.
  unfold step. intros H.
  destruct (stack s) as [|f rest]; [discriminate|].
  destruct (todo f) as [|[es e] t].
  - destruct rest; destruct (vals f); try discriminate. inversion H; subst. discriminate.
  - destruct (interrupted s); [discriminate|].
    destruct (opt_le _ _); [discriminate|]. destruct (opt_lt _ _); [discriminate|].
    destruct (exec p (set_todo f t) es e); try discriminate; inversion H; subst; discriminate.
Qed.

(* the base of the bottom (toplevel) frame never changes *)
Theorem reach_inv p s0 s bases :
  inv bases s0 -> stack s0 <> [] -> reach p s0 s ->
  exists bases', inv bases' s /\ last bases' 0 = last bases 0 /\ stack s <> [].
Proof.
  intros I0 NE R. induction R as [|s s' R IH H|s e s' R IH H].
  - exists bases. auto.
  - destruct IH as (bs & I & L & NE').
    destruct (step_preserves_inv _ _ _ _ I H) as (bs' & I' & Hc).
    exists bs'. split; [assumption|]. split; [|eapply step_next_stack_nonempty; eassumption].
    destruct Hc as [->|[[b ->]| ->]]; [assumption| |].
    + pose proof (Forall2_length_eq _ _ _ I) as LE.
      destruct bs as [|b1 bs]; [destruct (stack s); [contradiction|discriminate]|]. exact L.
    + pose proof (Forall2_length_eq _ _ _ I') as LE'.
      pose proof (step_next_stack_nonempty _ _ _ H) as NE2.
      destruct bs as [|b1 [|b2 bs]]; cbn in *.
      * destruct (stack s'); [contradiction|discriminate].
      * destruct (stack s'); [contradiction|discriminate].
      * exact L.
  - destruct IH as (bs & I & L & NE').
    exists bs. split; [eapply inv_failed; eassumption|]. split; [assumption|].
    apply step_failed_restores in H. destruct H as (-> & _). assumption.
Qed.

Lemma init_inv exprs tl sl : inv [1] (init_state exprs tl sl).
Proof.
  unfold inv, init_state, toplevel_frame. cbn. constructor; [|constructor].
  unfold balanced. cbn. now rewrite pending_fresh.
Qed.

Fixpoint bottom (st : list frame) : option frame :=
  match st with
  | [] => None
  | [f] => Some f
  | _ :: st' => bottom st'
  end.

Lemma inv_bottom bases : forall st f, Forall2 balanced bases st -> bottom st = Some f ->
  balanced (last bases 0) f.
Proof.
  induction bases as [|b bases IH]; intros st f I B.
  - inversion I; subst. discriminate.
  - inversion I as [|b' f0 bs' r0 Hb Hr]; subst.
    cbn [bottom] in B. destruct r0 as [|f1 r1].
    + inversion B; subst. inversion Hr; subst. exact Hb.
    + destruct bases as [|b2 bases]; [inversion Hr|].
      change (last (b :: b2 :: bases) 0) with (last (b2 :: bases) 0). eapply IH; eassumption.
Qed.

(* In every state reachable from the start of a toplevel evaluation -- through
   any number of steps, failures and resumptions -- the toplevel frame holds
   exactly 1 + (number of pending block-popping continuations) binding blocks:
   every block that was entered has been left again or is still pending, no
   matter whether it was left normally, by break, continue or return. *)
Theorem toplevel_block_discipline p exprs tl sl s f :
  reach p (init_state exprs tl sl) s -> bottom (stack s) = Some f ->
  length (blocks f) = 1 + pending (todo f).
Proof.
  intros R B.
  destruct (reach_inv p _ s [1] (init_inv exprs tl sl)) as (bs & I & L & _); [discriminate|assumption|].
  pose proof (inv_bottom _ _ _ I B) as Hb. rewrite L in Hb. exact Hb.
Qed.

(* ... in particular between two toplevel statements only the toplevel scope is live *)
Corollary toplevel_scope_restored p exprs tl sl s f :
  reach p (init_state exprs tl sl) s -> bottom (stack s) = Some f ->
  Forall (fun x => fst x = SNot) (todo f) -> length (blocks f) = 1.
Proof.
  intros R B A. rewrite (toplevel_block_discipline _ _ _ _ _ _ R B).
  assert (pending (todo f) = 0) as ->; [|reflexivity].
  induction A as [|[s0 e0] t Hx _ IH]; [reflexivity|].
  cbn [pending]. rewrite IH. cbn in Hx. subst. destruct e0; reflexivity.
Qed.

(* the same statement inside any function frame, relative to the depth it started with *)
Theorem frame_block_discipline p s s' bases :
  inv bases s -> step p s = Next s' ->
  exists bases', inv bases' s' /\
    (bases' = bases \/ (exists b, bases' = b :: bases) \/ bases' = tl bases).
Proof. exact (step_preserves_inv p s s' bases). Qed.
