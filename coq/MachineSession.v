(* Session-level operations on the evaluator model (MODEL: definitions only):
   `:abort` (Stack::pop_to_toplevel), interrupt schedules (Ctrl-C then :resume). *)
From Coq Require Import ZArith NArith Bool List.
From Garden Require Import Base.Int64 Arith gen.Tables Machine.
Import ListNotations.
Open Scope nat_scope.

Fixpoint last_frame (st : list frame) : option frame :=
  match st with
  | [] => None
  | [f] => Some f
  | _ :: st' => last_frame st'
  end.

Definition truncate_last {A} (l : list A) : list A :=
  match rev l with [] => [] | x :: _ => [x] end.

(* Stack::pop_to_toplevel: keep the toplevel frame (the LAST of our list: the
   current frame is first), its first value, its first (outermost) block;
   discard pending expressions and pending bindings. *)
Definition abort_frame (f : frame) : frame :=
  mkFrame [] (truncate_last (vals f)) (truncate_last (blocks f)) [] (uses f).

Definition abort (s : state) : state :=
  match last_frame (stack s) with
  | None => s
  | Some f => mkState [abort_frame f] (ticks s) (out s) (interrupted s) (tick_limit s) (stack_limit s)
  end.

(* A run during which the user presses Ctrl-C before some iterations of the
   eval loop and answers every `Interrupted` with `:resume`.  One schedule
   entry per loop iteration. *)
Definition set_int (s : state) (b : bool) : state :=
  if b then mkState (stack s) (ticks s) (out s) true (tick_limit s) (stack_limit s) else s.

Fixpoint run_int (p : prog) (sched : list bool) (s : state) : run_result :=
  match sched with
  | [] => ROutOfFuel s
  | b :: sched' =>
      match step p (set_int s b) with
      | Next s' => run_int p sched' s'
      | Done v s' => RDone v s'
      | Failed e s' =>
          match ekind_of e with
          | KInterrupted => run_int p sched' s'        (* :resume *)
          | _ => RFailed e s'
          end
      | Crashed => RCrashed
      | Unsupported => RUnsupported
      end
  end.

(* states that differ only in tick count and pending interrupt flag *)
Definition same_work (a b : state) : Prop :=
  stack a = stack b /\ out a = out b /\ tick_limit a = None /\ tick_limit b = None /\
  stack_limit a = stack_limit b.

Definition same_result (a b : run_result) : Prop :=
  match a, b with
  | RDone v s, RDone v' s' => v = v' /\ stack s = stack s' /\ out s = out s'
  | RFailed e s, RFailed e' s' => e = e' /\ stack s = stack s' /\ out s = out s'
  | RCrashed, RCrashed => True
  | RUnsupported, RUnsupported => True
  | ROutOfFuel s, ROutOfFuel s' => stack s = stack s' /\ out s = out s'
  | _, _ => False
  end.
