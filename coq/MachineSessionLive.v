(* C08, liveness half: an interrupted run is not only equivalent to SOME prefix of
   the uninterrupted run (MachineSessionProps.interrupted_run_equiv) -- it also gets
   as far: every schedule entry without a Ctrl-C makes one step of progress, except
   at most one (an interrupt flag already pending).  Hence a run that finishes in n
   iterations uninterrupted finishes, with the same result, under every schedule
   that has more than n interrupt-free entries. *)
From Coq Require Import ZArith NArith Bool List Lia.
From Garden Require Import Base.Int64 Arith gen.Tables Machine MachineInv MachineSession MachineSessionProps.
Import ListNotations.
Open Scope nat_scope.

Definition nfalse (sched : list bool) : nat := length (filter negb sched).
Definition b2n (b : bool) : nat := if b then 1 else 0.

Definition out_of_fuel (r : run_result) : bool :=
  match r with ROutOfFuel _ => true | _ => false end.

Lemma nfalse_cons b sched : nfalse (b :: sched) = (if b then 0 else 1) + nfalse sched.
Proof. unfold nfalse. destruct b; cbn; reflexivity. Qed.

Theorem interrupted_run_progress p : forall sched s1 s2,
  same_work s1 s2 -> interrupted s2 = false ->
  exists n, n <= length sched /\
            (out_of_fuel (run_int p sched s1) = true -> nfalse sched <= n + b2n (interrupted s1)) /\
            same_result (run_int p sched s1) (run p n s2).
Proof.
  induction sched as [|b sched IH]; intros s1 s2 W I2.
  - exists 0. cbn. destruct W as (S & O & _). repeat split; auto. intros _. unfold nfalse; cbn; lia.
  - pose proof (same_work_set_int _ _ b W) as W1.
    destruct W1 as (ST & OU & TL1 & TL2 & SL).
    rewrite nfalse_cons.
    cbn [run_int]. unfold step at 1 2.
    rewrite ST, OU, TL1, SL.
    destruct (stack s2) as [|f rest] eqn:ES.
    { exists 1. split; [cbn; lia|]. split; [cbn; discriminate|]. cbn [run]. unfold step. rewrite ES. exact Logic.I. }
    destruct (todo f) as [|[es e] t] eqn:ET.
    + destruct rest as [|caller rest'].
      * destruct (vals f) as [|v vs] eqn:EV.
        -- exists 1. split; [cbn; lia|]. split; [cbn; discriminate|]. cbn [run]. unfold step. rewrite ES, ET, EV. exact Logic.I.
        -- exists 1. split; [cbn; lia|]. split; [cbn; discriminate|]. cbn [run]. unfold step. rewrite ES, ET, EV. cbn. auto.
      * destruct (vals f) as [|v vs] eqn:EV.
        -- exists 1. split; [cbn; lia|]. split; [cbn; discriminate|]. cbn [run]. unfold step. rewrite ES, ET, EV. exact Logic.I.
        -- match goal with |- context [run_int p sched ?x] => set (s1n := x) end.
           set (s2n := with_stack s2 (push_val_if (uses f) caller v :: rest') (ticks s2) (out s2) (interrupted s2)).
           assert (Wn : same_work s1n s2n).
           { unfold same_work, s1n, s2n, with_stack; cbn. rewrite TL1, TL2. auto. }
           assert (FL : b2n (interrupted s1n) <= b2n (interrupted s1) + (if b then 1 else 0)).
           { unfold s1n, with_stack, set_int; destruct b; cbn; destruct (interrupted s1); cbn; lia. }
           destruct (IH s1n s2n Wn) as (n & Hn & P & R). { unfold s2n; cbn. exact I2. }
           exists (S n). split; [cbn; lia|]. split.
           { intros OF. specialize (P OF). destruct b; lia. }
           cbn [run]. unfold step. rewrite ES, ET, EV. exact R.
    + destruct (interrupted (set_int s1 b)) eqn:EI.
      * cbn [ekind_of].
        match goal with |- context [run_int p sched ?x] => set (s1n := x) end.
        assert (Wn : same_work s1n s2).
        { unfold same_work, s1n, with_stack; cbn. rewrite ES. auto. }
        assert (FL : interrupted s1n = false) by (unfold s1n, with_stack; reflexivity).
        assert (FB : (if b then 0 else 1) <= b2n (interrupted s1)).
        { unfold set_int in EI. destruct b; [lia|]. rewrite EI. cbn. lia. }
        destruct (IH s1n s2 Wn I2) as (n & Hn & P & R).
        exists n. split; [cbn; lia|]. split; [|exact R].
        intros OF. specialize (P OF). rewrite FL in P. cbn [b2n] in P. lia.
      * cbn [opt_le].
        assert (B0 : b = false /\ interrupted s1 = false).
        { unfold set_int in EI. destruct b; cbn in EI; [discriminate|auto]. }
        destruct B0 as (Bf & I1).
        assert (STEP2 : step p s2 =
          if opt_lt (stack_limit s2) (N.of_nat (length (f :: rest)))
          then Failed {| ekind_of := KStackLimit; epos_of := epos e |} (with_stack s2 (stack s2) (ticks s2 + 1)%N (out s2) false)
          else match exec p (set_todo f t) es e with
               | XOk f' printed => Next (with_stack s2 (f' :: rest) (ticks s2 + 1)%N (printed ++ out s2) false)
               | XCall f' callee => Next (with_stack s2 (callee :: f' :: rest) (ticks s2 + 1)%N (out s2) false)
               | XErr er => Failed er (with_stack s2 (stack s2) (ticks s2 + 1)%N (out s2) false)
               | XPanic => Crashed
               | XUnsupported => Unsupported
               end).
        { unfold step. rewrite ES, ET, I2, TL2. cbn [opt_le]. reflexivity. }
        destruct (opt_lt (stack_limit s2) (N.of_nat (length (f :: rest)))).
        { exists 1. split; [cbn; lia|]. split; [cbn; discriminate|]. cbn [run]. rewrite STEP2. cbn. rewrite ES. auto. }
        destruct (exec p (set_todo f t) es e) as [f' pr|f' callee|er| |] eqn:EX.
        -- match goal with |- context [run_int p sched ?x] => set (s1n := x) end.
           set (s2n := with_stack s2 (f' :: rest) (ticks s2 + 1)%N (pr ++ out s2) false).
           assert (Wn : same_work s1n s2n).
           { unfold same_work, s1n, s2n, with_stack; cbn. rewrite TL1, TL2. auto. }
           assert (FL : interrupted s1n = false) by (unfold s1n, with_stack; reflexivity).
           destruct (IH s1n s2n Wn eq_refl) as (n & Hn & P & R).
           exists (S n). split; [cbn; lia|]. split.
           { intros OF. specialize (P OF). rewrite FL in P. rewrite Bf, I1. cbn [b2n] in *. lia. }
           cbn [run]. rewrite STEP2. exact R.
        -- match goal with |- context [run_int p sched ?x] => set (s1n := x) end.
           set (s2n := with_stack s2 (callee :: f' :: rest) (ticks s2 + 1)%N (out s2) false).
           assert (Wn : same_work s1n s2n).
           { unfold same_work, s1n, s2n, with_stack; cbn. rewrite TL1, TL2. auto. }
           assert (FL : interrupted s1n = false) by (unfold s1n, with_stack; reflexivity).
           destruct (IH s1n s2n Wn eq_refl) as (n & Hn & P & R).
           exists (S n). split; [cbn; lia|]. split.
           { intros OF. specialize (P OF). rewrite FL in P. rewrite Bf, I1. cbn [b2n] in *. lia. }
           cbn [run]. rewrite STEP2. exact R.
        -- rewrite (exec_err_kind _ _ _ _ _ EX).
           exists 1. split; [cbn; lia|]. split; [cbn; discriminate|]. cbn [run]. rewrite STEP2. cbn. rewrite ES. auto.
        -- exists 1. split; [cbn; lia|]. split; [cbn; discriminate|]. cbn [run]. rewrite STEP2. exact Logic.I.
        -- exists 1. split; [cbn; lia|]. split; [cbn; discriminate|]. cbn [run]. rewrite STEP2. exact Logic.I.
Qed.

(* a finished run stays finished with more fuel *)
Lemma run_mono p : forall n s m, out_of_fuel (run p n s) = false -> n <= m -> run p m s = run p n s.
Proof.
  induction n as [|n IH]; intros s m T L.
  - cbn in T. discriminate.
  - destruct m as [|m]; [lia|]. cbn [run] in *.
    destruct (step p s); try reflexivity. apply IH; [exact T|lia].
Qed.

Lemma same_result_oof a b : same_result a b -> out_of_fuel a = out_of_fuel b.
Proof. destruct a, b; cbn; intros H; try reflexivity; contradiction. Qed.

(* Liveness + equivalence: if the uninterrupted run finishes (value or error) within
   n iterations, then under EVERY schedule with more than n interrupt-free entries
   the interrupted-and-resumed run finishes too, with the same result and output. *)
Theorem interrupted_run_finishes p sched s1 s2 n :
  same_work s1 s2 -> interrupted s2 = false ->
  out_of_fuel (run p n s2) = false ->
  n + b2n (interrupted s1) <= nfalse sched ->
  out_of_fuel (run_int p sched s1) = false /\ same_result (run_int p sched s1) (run p n s2).
Proof.
  intros W I2 T L.
  destruct (interrupted_run_progress p sched s1 s2 W I2) as (m & Hm & P & R).
  destruct (out_of_fuel (run_int p sched s1)) eqn:OF.
  - specialize (P eq_refl).
    assert (NM : n <= m) by lia.
    rewrite <- (run_mono p n s2 m T NM) in T.
    rewrite (same_result_oof _ _ R) in OF. congruence.
  - split; [reflexivity|].
    rewrite (same_result_oof _ _ R) in OF.
    destruct (Nat.le_ge_cases n m) as [NM|NM].
    + rewrite <- (run_mono p n s2 m T NM). exact R.
    + rewrite (run_mono p m s2 n OF NM). exact R.
Qed.
