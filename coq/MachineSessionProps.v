(* Proofs about session-level operations: interrupts are transparent (C08),
   :abort returns to a clean toplevel (C10). *)
From Coq Require Import ZArith NArith Bool List Lia.
From Garden Require Import Base.Int64 Arith gen.Tables Machine MachineInv MachineSession.
Import ListNotations.
Open Scope nat_scope.

Lemma eval_binop_err f m o lp rp er : eval_binop f m o lp rp = XErr er -> ekind_of er = KException.
Proof. unfold eval_binop, exn. intros H. repeat break_match H; inversion H; reflexivity. Qed.

Lemma eval_call_err p f m args er : eval_call p f m args = XErr er -> ekind_of er = KException.
Proof. unfold eval_call, exn. intros H. repeat break_match H; inversion H; reflexivity. Qed.

Lemma match_cases_err p cases : forall f u sp ty idx pl er,
  match_cases p f u sp ty idx pl cases = XErr er -> ekind_of er = KException.
Proof.
  induction cases as [|[[[pat ppos] binder] body] cs IH]; intros f u sp ty idx pl er H;
    cbn [match_cases] in H; unfold exn in H.
  - inversion H; reflexivity.
  - destruct (N.eqb pat underscore); [discriminate|].
    destruct (get_var p f pat) as [pv|]; [|inversion H; reflexivity].
    destruct pv; try (inversion H; reflexivity);
      destruct (N.eqb ty ty0 && N.eqb idx idx0); try (eapply IH; eassumption);
      destruct pl, binder; try discriminate; eapply IH; eassumption.
Qed.

Lemma exec_err_kind p f s e er : exec p f s e = XErr er -> ekind_of er = KException.
Proof.
  intros H.
  destruct e; destruct s as [|[]|]; cbn [exec] in H; unfold exn in H;
    try discriminate;
    try (eapply eval_binop_err; eassumption);
    try (eapply eval_call_err; eassumption);
    unfold pop_val, pop_block in H; cbn [todo blocks vals push_todo push_val set_vals set_blocks set_todo set_nextb] in H.
  all: try (repeat break_match H; inversion H; reflexivity).
  all: destruct (vals f) as [|v vs]; try discriminate; destruct v; try (inversion H; reflexivity);
    eapply match_cases_err; eassumption.
Qed.

Lemma same_work_set_int a b fl : same_work a b -> same_work (set_int a fl) b.
Proof. unfold same_work, set_int. destruct fl; cbn; auto. Qed.

(* For any interrupt schedule -- any number of Ctrl-C presses at any loop
   iterations, each answered by :resume -- the run prints the same output and
   ends with the same value, the same error, or the same pending state as an
   uninterrupted run that simply takes fewer loop iterations. *)
Theorem interrupted_run_equiv p : forall sched s1 s2,
  same_work s1 s2 -> interrupted s2 = false ->
  exists n, n <= length sched /\ same_result (run_int p sched s1) (run p n s2).
Proof.
  induction sched as [|b sched IH]; intros s1 s2 W I2.
  - exists 0. cbn. destruct W as (S & O & _). auto.
  - pose proof (same_work_set_int _ _ b W) as W1.
    destruct W1 as (ST & OU & TL1 & TL2 & SL).
    cbn [run_int]. unfold step at 1.
    rewrite ST, OU, TL1, SL.
    destruct (stack s2) as [|f rest] eqn:ES.
    { exists 1. split; [cbn; lia|]. cbn [run]. unfold step. rewrite ES. exact Logic.I. }
    destruct (todo f) as [|[es e] t] eqn:ET.
    + (* frame return / end of evaluation: the flag is not looked at *)
      destruct rest as [|caller rest'].
      * destruct (vals f) as [|v vs] eqn:EV.
        -- exists 1. split; [cbn; lia|]. cbn [run]. unfold step. rewrite ES, ET, EV. exact Logic.I.
        -- exists 1. split; [cbn; lia|]. cbn [run]. unfold step. rewrite ES, ET, EV. cbn. auto.
      * destruct (vals f) as [|v vs] eqn:EV.
        -- exists 1. split; [cbn; lia|]. cbn [run]. unfold step. rewrite ES, ET, EV. exact Logic.I.
        -- match goal with |- context [run_int p sched ?x] => set (s1n := x) end.
           set (s2n := with_stack s2 (push_val_if (uses f) caller v :: rest') (ticks s2) (out s2) (interrupted s2)).
           assert (Wn : same_work s1n s2n).
           { unfold same_work, s1n, s2n, with_stack; cbn. rewrite TL1, TL2. auto. }
           destruct (IH s1n s2n Wn) as (n & Hn & R). { unfold s2n; cbn. exact I2. }
           exists (S n). split; [cbn; lia|]. cbn [run]. unfold step. rewrite ES, ET, EV. exact R.
    + destruct (interrupted (set_int s1 b)) eqn:EI.
      * (* Ctrl-C: the entry is put back, :resume continues *)
        cbn [ekind_of].
        match goal with |- context [run_int p sched ?x] => set (s1n := x) end.
        assert (Wn : same_work s1n s2).
        { unfold same_work, s1n, with_stack; cbn. rewrite ES. auto. }
        destruct (IH s1n s2 Wn I2) as (n & Hn & R).
        exists n. split; [cbn; lia|]. exact R.
      * cbn [opt_le].
        assert (STEP2 : step p s2 =
          if opt_lt (stack_limit s2) (N.of_nat (length (f :: rest)))
          then Failed {| ekind_of := KStackLimit; epos_of := epos e |} (with_stack s2 (stack s2) (ticks s2 + 1)%N (out s2) false)
          else match exec p (set_todo f t) es e with
               | XOk f' printed => Next (with_stack s2 (f' :: rest) (ticks s2 + 1)%N (printed ++ out s2) false)
               | XCall f' callee => Next (with_stack s2 (callee :: f' :: rest) (ticks s2 + 1)%N (out s2) false)
               | XErr er => Failed er (with_stack s2 (stack s2) (ticks s2 + 1)%N (out s2) false)
               | XPanic => Crashed
               | XUnsupported => Unsupported
               end).
        { unfold step. rewrite ES, ET, I2, TL2. cbn [opt_le]. reflexivity. }
        destruct (opt_lt (stack_limit s2) (N.of_nat (length (f :: rest)))).
        { exists 1. split; [cbn; lia|]. cbn [run]. rewrite STEP2. cbn. rewrite ES. auto. }
        destruct (exec p (set_todo f t) es e) as [f' pr|f' callee|er| |] eqn:EX.
        -- match goal with |- context [run_int p sched ?x] => set (s1n := x) end.
           set (s2n := with_stack s2 (f' :: rest) (ticks s2 + 1)%N (pr ++ out s2) false).
           assert (Wn : same_work s1n s2n).
           { unfold same_work, s1n, s2n, with_stack; cbn. rewrite TL1, TL2. auto. }
           destruct (IH s1n s2n Wn eq_refl) as (n & Hn & R).
           exists (S n). split; [cbn; lia|]. cbn [run]. rewrite STEP2. exact R.
        -- match goal with |- context [run_int p sched ?x] => set (s1n := x) end.
           set (s2n := with_stack s2 (callee :: f' :: rest) (ticks s2 + 1)%N (out s2) false).
           assert (Wn : same_work s1n s2n).
           { unfold same_work, s1n, s2n, with_stack; cbn. rewrite TL1, TL2. auto. }
           destruct (IH s1n s2n Wn eq_refl) as (n & Hn & R).
           exists (S n). split; [cbn; lia|]. cbn [run]. rewrite STEP2. exact R.
        -- rewrite (exec_err_kind _ _ _ _ _ EX).
           exists 1. split; [cbn; lia|]. cbn [run]. rewrite STEP2. cbn. rewrite ES. auto.
        -- exists 1. split; [cbn; lia|]. cbn [run]. rewrite STEP2. exact Logic.I.
        -- exists 1. split; [cbn; lia|]. cbn [run]. rewrite STEP2. exact Logic.I.
Qed.

(* one interrupted iteration loses nothing and repeats nothing *)
Lemma interrupt_is_transparent p s f rest es e t :
  stack s = f :: rest -> todo f = (es, e) :: t -> interrupted s = true ->
  exists s', step p s = Failed {| ekind_of := KInterrupted; epos_of := epos e |} s' /\
             stack s' = stack s /\ out s' = out s /\ interrupted s' = false /\ ticks s' = (ticks s + 1)%N.
Proof.
  intros ES ET EI. unfold step. rewrite ES, ET, EI. eexists. split; [reflexivity|]. cbn. auto.
Qed.

(* ------------------------------------------------------------------------ *)
(* C10 *)
Lemma truncate_last_length {A} (l : list A) : length (truncate_last l) <= 1.
Proof. unfold truncate_last. destruct (rev l); cbn; lia. Qed.

Lemma truncate_last_spec {A} (l : list A) x : l <> [] -> truncate_last l = [last l x].
Proof.
  intros NE. unfold truncate_last.
  destruct l as [|a l] using rev_ind; [contradiction|].
  rewrite rev_app_distr. cbn. now rewrite last_last.
Qed.

Theorem abort_clean s f :
  last_frame (stack s) = Some f ->
  exists f0, stack (abort s) = [f0] /\ todo f0 = [] /\ nextb f0 = [] /\
             vals f0 = truncate_last (vals f) /\ blocks f0 = truncate_last (blocks f) /\
             length (vals f0) <= 1 /\ length (blocks f0) <= 1 /\
             out (abort s) = out s.
Proof.
  intros L. unfold abort. rewrite L. eexists. split; [reflexivity|]. cbn.
  repeat split; auto using truncate_last_length.
Qed.

(* after :abort, :resume has nothing to do: `eval` returns at once *)
Theorem abort_then_resume p s f v :
  last_frame (stack s) = Some f -> truncate_last (vals f) = [v] ->
  interrupted s = false ->
  exists s', step p (abort s) = Done v s' /\ out s' = out s.
Proof.
  intros L V I. unfold abort, step. rewrite L. cbn. rewrite V. eexists. split; reflexivity.
Qed.

(* the toplevel variables survive: the outermost block of the toplevel frame is kept as it is *)
Theorem abort_keeps_toplevel_scope s f b :
  last_frame (stack s) = Some f -> blocks f <> [] ->
  exists f0, stack (abort s) = [f0] /\ blocks f0 = [last (blocks f) b].
Proof.
  intros L NE. unfold abort. rewrite L. eexists. split; [reflexivity|]. cbn.
  now apply truncate_last_spec.
Qed.

(* nothing of the aborted evaluation remains: the state after :abort is a
   function of the toplevel frame's outermost block and first value only *)
Theorem abort_forgets_evaluation s1 s2 f1 f2 :
  last_frame (stack s1) = Some f1 -> last_frame (stack s2) = Some f2 ->
  truncate_last (vals f1) = truncate_last (vals f2) ->
  truncate_last (blocks f1) = truncate_last (blocks f2) ->
  uses f1 = uses f2 ->
  stack (abort s1) = stack (abort s2).
Proof.
  intros L1 L2 V B U. unfold abort. rewrite L1, L2. cbn. unfold abort_frame. now rewrite V, B, U.
Qed.
