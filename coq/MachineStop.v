(* Model of eval-up-to (src/eval.rs: `eval_up_to` for a position inside a
   top-level expression / block, the `stop_at_expr_id` handling in the loop of
   `eval`, `set_observed_expr_value_used` / `set_is_used_expr` of
   src/parser.rs, `assign_var_pos`).

   MODEL FILE: definitions only.  `step_stop` is `Machine.step` extended with
   the stop checks exactly where `eval` has them:
     - after a successful `eval_expr` of the popped entry (state, expr) whose
       expression is the target: if the local `expr_state` is
       EvaluatedSubexpressions afterwards, return the top of the value stack;
       `eval_expr` changes `expr_state` only for Int/String literals,
       variables, fun literals, `break` and `continue`, so otherwise it is the
       state the entry was popped in;
     - the `for` special case: a target `for` popped in a PartiallyEvaluated
       state returns Unit;
     - when a callee frame runs out of expressions and its `caller_expr_id` is
       the target: pop the frame and return its value (no push to the caller).
   Expressions are identified by their source span (unique in a program).
   `caller_expr_id` is not a field of Machine.frame; it is kept in a list that
   runs parallel to the callee frames of the stack. *)
From Coq Require Import ZArith NArith Bool List.
From Garden Require Import Base.Int64 Arith gen.Tables Machine.
Import ListNotations.
Open Scope Z_scope.

Definition pos_eqb (a b : N * N) : bool := N.eqb (fst a) (fst b) && N.eqb (snd a) (snd b).

(* ---- set_observed_expr_value_used ---------------------------------------- *)
Definition set_meta_used (m : meta) (u : bool) : meta := {| used := u; pstart := pstart m; pend := pend m |}.

Definition with_used (u : bool) (e : expr) : expr :=
  match e with
  | EInt m z => EInt (set_meta_used m u) z
  | EStr m s => EStr (set_meta_used m u) s
  | EVar m x => EVar (set_meta_used m u) x
  | EBin m o l r => EBin (set_meta_used m u) o l r
  | ELet m x r => ELet (set_meta_used m u) x r
  | EAssign m x xp r => EAssign (set_meta_used m u) x xp r
  | EUpd m o x xp r => EUpd (set_meta_used m u) o x xp r
  | EIf m c t el => EIf (set_meta_used m u) c t el
  | EWhile m c b => EWhile (set_meta_used m u) c b
  | EFor m x it b => EFor (set_meta_used m u) x it b
  | EBreak m => EBreak (set_meta_used m u)
  | EContinue m => EContinue (set_meta_used m u)
  | EReturn m r => EReturn (set_meta_used m u) r
  | EList m l => EList (set_meta_used m u) l
  | ETuple m l => ETuple (set_meta_used m u) l
  | ECall m f a => ECall (set_meta_used m u) f a
  | EFun m ps b => EFun (set_meta_used m u) ps b
  | EParen m i => EParen (set_meta_used m u) i
  | EMatch m s cs => EMatch (set_meta_used m u) s cs
  | EUnsupported m => EUnsupported (set_meta_used m u)
  end.

(* set_is_used_expr / set_is_used_block (src/parser.rs) *)
Fixpoint set_used_expr (e : expr) (u : bool) {struct e} : expr :=
  let fix blk (l : list expr) (bu : bool) {struct l} : list expr :=
    match l with
    | [] => []
    | x :: l' =>
        let used_ := bu && (match l' with [] => true | _ => false end) in
        with_used used_ (set_used_expr x used_) :: blk l' bu
    end in
  let fix all_true (l : list expr) {struct l} : list expr :=
    match l with
    | [] => []
    | x :: l' => set_used_expr x true :: all_true l'
    end in
  match e with
  | EIf m c t el =>
      let bu := u && (match el with Some _ => true | None => false end) in
      EIf m (set_used_expr c true) (blk t bu) (match el with Some eb => Some (blk eb bu) | None => None end)
  | EWhile m c b => EWhile m (set_used_expr c true) (blk b false)
  | EFor m x it b => EFor m x (set_used_expr it true) (blk b false)
  | EMatch m s cases =>
      EMatch m (set_used_expr s true)
        ((fix cs (l : list (ident * (N * N) * option ident * list expr)) :=
            match l with
            | [] => []
            | (pat, body) :: l' => (pat, blk body u) :: cs l'
            end) cases)
  | ELet m x r => ELet m x (set_used_expr r true)
  | EAssign m x xp r => EAssign m x xp (set_used_expr r true)
  | EUpd m o x xp r => EUpd m o x xp (set_used_expr r true)
  | EReturn m (Some r) => EReturn m (Some (set_used_expr r true))
  | EBin m o l r => EBin m o (set_used_expr l true) (set_used_expr r true)
  | ECall m f args => ECall m (set_used_expr f true) (all_true args)
  | ETuple m l => ETuple m (all_true l)
  | EList m l => EList m (all_true l)
  | EParen m i => EParen m (set_used_expr i true)
  | EFun m ps body => EFun m ps (blk body true)
  | _ => e
  end.

(* ObservedExprValueUsedVisitor: the first expression with the target span (outermost
   first) gets value_is_used = true and set_is_used_expr(.., true); no descent below it *)
Fixpoint mark (t : N * N) (e : expr) {struct e} : expr :=
  if pos_eqb (epos e) t then with_used true (set_used_expr e true) else
  let fix ml (l : list expr) {struct l} : list expr :=
    match l with
    | [] => []
    | x :: l' => mark t x :: ml l'
    end in
  match e with
  | EBin m o l r => EBin m o (mark t l) (mark t r)
  | ELet m x r => ELet m x (mark t r)
  | EAssign m x xp r => EAssign m x xp (mark t r)
  | EUpd m o x xp r => EUpd m o x xp (mark t r)
  | EIf m c th el => EIf m (mark t c) (ml th) (match el with Some eb => Some (ml eb) | None => None end)
  | EWhile m c b => EWhile m (mark t c) (ml b)
  | EFor m x it b => EFor m x (mark t it) (ml b)
  | EReturn m (Some r) => EReturn m (Some (mark t r))
  | EList m l => EList m (ml l)
  | ETuple m l => ETuple m (ml l)
  | ECall m f a => ECall m (mark t f) (ml a)
  | EFun m ps b => EFun m ps (ml b)
  | EParen m i => EParen m (mark t i)
  | EMatch m s cases =>
      EMatch m (mark t s)
        ((fix cs (l : list (ident * (N * N) * option ident * list expr)) :=
            match l with
            | [] => []
            | (pat, body) :: l' => (pat, ml body) :: cs l'
            end) cases)
  | _ => e
  end.

(* find the expression with a given span (outermost first) *)
Fixpoint find_expr (t : N * N) (e : expr) {struct e} : option expr :=
  if pos_eqb (epos e) t then Some e else
  let fix fl (l : list expr) {struct l} : option expr :=
    match l with
    | [] => None
    | x :: l' => match find_expr t x with Some r => Some r | None => fl l' end
    end in
  let orelse (a b : option expr) := match a with Some r => Some r | None => b end in
  match e with
  | EBin _ _ l r => orelse (find_expr t l) (find_expr t r)
  | ELet _ _ r | EAssign _ _ _ r | EUpd _ _ _ _ r | EParen _ r | EReturn _ (Some r) => find_expr t r
  | EIf _ c th el => orelse (find_expr t c) (orelse (fl th) (match el with Some eb => fl eb | None => None end))
  | EWhile _ c b => orelse (find_expr t c) (fl b)
  | EFor _ _ it b => orelse (find_expr t it) (fl b)
  | EList _ l | ETuple _ l | EFun _ _ l => fl l
  | ECall _ f a => orelse (find_expr t f) (fl a)
  | EMatch _ s cases =>
      orelse (find_expr t s)
        ((fix cs (l : list (ident * (N * N) * option ident * list expr)) :=
            match l with
            | [] => None
            | (_, body) :: l' => match fl body with Some r => Some r | None => cs l' end
            end) cases)
  | _ => None
  end.

Fixpoint find_in (t : N * N) (l : list expr) : option expr :=
  match l with
  | [] => None
  | x :: l' => match find_expr t x with Some r => Some r | None => find_in t l' end
  end.

(* ---- the evaluation loop with stop_at_expr_id ------------------------------ *)
Record sstate := mkS {
  base : state;
  callers : list (N * N)      (* caller_expr_id of the callee frames, innermost first *)
}.

Inductive sout :=
| ONext (s : sstate)
| OStopped (v : value) (s : sstate)       (* `return Ok(v)` from a stop check *)
| OFinished (v : value) (s : state)
| OFailed (e : err) (s : sstate)
| OCrashed
| OUnsupported.

(* the local `expr_state` after a successful eval_expr is EvaluatedSubexpressions *)
Definition done_after (es : estate) (e : expr) : bool :=
  match e with
  | EInt _ _ | EStr _ _ | EVar _ _ | EFun _ _ _ | EBreak _ | EContinue _ => true
  | _ => match es with SDone => true | _ => false end
  end.

Definition is_for_part (es : estate) (e : expr) : bool :=
  match e, es with
  | EFor _ _ _ _, SPart _ => true
  | _, _ => false
  end.

(* "__ERROR: no expressions evaluated. This is a bug." *)
Definition error_value : value :=
  VStr [95; 95; 69; 82; 82; 79; 82; 58; 32; 110; 111; 32; 101; 120; 112; 114; 101; 115; 115; 105; 111; 110; 115; 32;
        101; 118; 97; 108; 117; 97; 116; 101; 100; 46; 32; 84; 104; 105; 115; 32; 105; 115; 32; 97; 32; 98; 117;
        103; 46]%N.

Definition top_or_err (f : frame) : value :=
  match vals f with v :: _ => v | [] => error_value end.

(* what happens after eval_expr returned Ok(None) *)
Definition after_ok (t : N * N) (cs : list (N * N)) (s' : state) (f' : frame) (es : estate) (e : expr) : sout :=
  if pos_eqb (epos e) t then
    if done_after es e then OStopped (top_or_err f') (mkS s' cs)
    else if is_for_part es e then OStopped vunit (mkS s' cs)
    else ONext (mkS s' cs)
  else ONext (mkS s' cs).

Definition step_stop (t : N * N) (p : prog) (ss : sstate) : sout :=
  let s := base ss in
  match stack s with
  | [] => OCrashed
  | f :: rest =>
      match todo f with
      | (es, e) :: td =>
          let tk := (ticks s + 1)%N in
          if interrupted s then
            OFailed {| ekind_of := KInterrupted; epos_of := epos e |} (mkS (with_stack s (stack s) tk (out s) false) (callers ss))
          else if opt_le (tick_limit s) tk then
            OFailed {| ekind_of := KTickLimit; epos_of := epos e |} (mkS (with_stack s (stack s) tk (out s) false) (callers ss))
          else if opt_lt (stack_limit s) (N.of_nat (length (stack s))) then
            OFailed {| ekind_of := KStackLimit; epos_of := epos e |} (mkS (with_stack s (stack s) tk (out s) false) (callers ss))
          else
            match exec p (set_todo f td) es e with
            | XOk f' printed =>
                after_ok t (callers ss) (with_stack s (f' :: rest) tk (printed ++ out s) false) f' es e
            | XCall f' callee =>
                ONext (mkS (with_stack s (callee :: f' :: rest) tk (out s) false) (epos e :: callers ss))
            | XErr er => OFailed er (mkS (with_stack s (stack s) tk (out s) false) (callers ss))
            | XPanic => OCrashed
            | XUnsupported => OUnsupported
            end
      | [] =>
          match rest with
          | [] =>
              match vals f with
              | v :: vs => OFinished v (with_stack s [set_vals f vs] (ticks s) (out s) (interrupted s))
              | [] => OCrashed
              end
          | caller :: rest' =>
              match vals f with
              | v :: _ =>
                  match callers ss with
                  | c :: cs =>
                      if pos_eqb c t
                      then OStopped v (mkS (with_stack s (caller :: rest') (ticks s) (out s) (interrupted s)) cs)
                      else ONext (mkS (with_stack s (push_val_if (uses f) caller v :: rest') (ticks s) (out s) (interrupted s)) cs)
                  | [] =>
                      ONext (mkS (with_stack s (push_val_if (uses f) caller v :: rest') (ticks s) (out s) (interrupted s)) [])
                  end
              | [] => OCrashed
              end
          end
      end
  end.

Inductive stop_result :=
| TStopped (n : nat) (v : value) (s : sstate)    (* stopped by the n-th step *)
| TDone (v : value) (s : state)
| TFailed (e : err) (s : sstate)
| TCrashed
| TUnsupported
| TOutOfFuel (s : sstate).

(* k = number of steps already taken *)
Fixpoint run_stop (t : N * N) (p : prog) (fuel : nat) (k : nat) (ss : sstate) : stop_result :=
  match fuel with
  | O => TOutOfFuel ss
  | S n =>
      match step_stop t p ss with
      | ONext ss' => run_stop t p n (S k) ss'
      | OStopped v ss' => TStopped (S k) v ss'
      | OFinished v s' => TDone v s'
      | OFailed e ss' => TFailed e ss'
      | OCrashed => TCrashed
      | OUnsupported => TUnsupported
      end
  end.

(* n plain steps *)
Fixpoint plain_iter (p : prog) (n : nat) (s : state) : option state :=
  match n with
  | O => Some s
  | S n' => match step p s with Next s' => plain_iter p n' s' | _ => None end
  end.

(* ---- eval_up_to for a position inside a top-level expression / block -------- *)
(* The expression found at the position is looked through parentheses
   (`(e)` never reaches EvaluatedSubexpressions itself: eval_expr replaces it by `e`). *)
Fixpoint unparen (e : expr) : expr :=
  match e with
  | EParen _ i => unparen i
  | _ => e
  end.

Inductive upto_result :=
| UValue (v : value) (n : nat)
| UNoExpression
| UError (e : err)
| UCrashed
| UUnsupported
| UOutOfFuel.

(* assign_var_pos: for an assignment / update / `for` found at the position the
   reported value is the variable's value after the stop *)
Definition reported (p : prog) (found : expr) (v : value) (ss : sstate) : value :=
  let var_now x :=
    match stack (base ss) with
    | f :: _ => match get_var p f x with Some w => w | None => v end
    | [] => v
    end in
  match found with
  | EAssign _ x _ _ => var_now x
  | EUpd _ _ x _ _ => var_now x
  | EFor _ x _ _ => var_now x
  | _ => v
  end.

(* `fixed` = look through parentheses (the repaired eval_up_to); with fixed = false
   the target is the parenthesised expression itself, as in the unrepaired code *)
Definition eval_up_to (fixed : bool) (p : prog) (exprs : list expr) (t : N * N) (tl sl : option N) (fuel : nat) : upto_result :=
  match find_in t exprs with
  | None => UNoExpression
  | Some found0 =>
      let found := if fixed then unparen found0 else found0 in
      let t' := epos found in
      let marked := map (mark t') exprs in
      match run_stop t' p fuel 0 (mkS (init_state marked tl sl) []) with
      | TStopped n v ss => UValue (reported p found v ss) n
      | TDone v s => UValue (reported p found v (mkS s [])) 0
      | TFailed e _ => UError e
      | TCrashed => UCrashed
      | TUnsupported => UUnsupported
      | TOutOfFuel _ => UOutOfFuel
      end
  end.
