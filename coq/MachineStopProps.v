(* Proofs about the eval-up-to model (MachineStop.v). *)
From Coq Require Import ZArith NArith Bool List Lia.
From Garden Require Import Base.Int64 Arith gen.Tables Machine MachineInv MachineStop.
Import ListNotations.
Open Scope nat_scope.

(* ------------------------------------------------------------------------ *)
(* 1. The stop machine follows the plain machine until it stops.             *)

Fixpoint iter_stop (t : N * N) (p : prog) (n : nat) (ss : sstate) : option sstate :=
  match n with
  | O => Some ss
  | S n' => match step_stop t p ss with ONext ss' => iter_stop t p n' ss' | _ => None end
  end.

(* the plain step that a stopping step replaces: either the same state (stop
   after an expression), or the frame return without the push to the caller *)
Definition stop_of_plain (s1 : state) (v : value) (ss' : sstate) : Prop :=
  base ss' = s1 \/
  (exists f caller rest',
      stack s1 = push_val_if (uses f) caller v :: rest' /\
      base ss' = with_stack s1 (caller :: rest') (ticks s1) (out s1) (interrupted s1)).

Lemma after_ok_cases t cs s' f' es e :
  after_ok t cs s' f' es e = ONext (mkS s' cs) \/
  exists v, after_ok t cs s' f' es e = OStopped v (mkS s' cs).
Proof.
  unfold after_ok. destruct (pos_eqb (epos e) t); [|now left].
  destruct (done_after es e); [right; eauto|].
  destruct (is_for_part es e); [right; eauto|now left].
Qed.

Lemma step_stop_plain t p ss :
  match step_stop t p ss with
  | ONext ss' => step p (base ss) = Next (base ss')
  | OStopped v ss' => exists s1, step p (base ss) = Next s1 /\ stop_of_plain s1 v ss'
  | OFinished v s' => step p (base ss) = Done v s'
  | OFailed e ss' => step p (base ss) = Failed e (base ss')
  | OCrashed => step p (base ss) = Crashed
  | OUnsupported => step p (base ss) = Unsupported
  end.
Proof.
  unfold step_stop, step. destruct (stack (base ss)) as [|f rest] eqn:ST; [reflexivity|].
  destruct (todo f) as [|[es e] td] eqn:TD.
  - destruct rest as [|caller rest'].
    + destruct (vals f); reflexivity.
    + destruct (vals f) as [|v vs]; [reflexivity|].
      destruct (callers ss) as [|c cs]; [reflexivity|].
      destruct (pos_eqb c t); [|reflexivity].
      eexists. split; [reflexivity|]. right. exists f, caller, rest'. split; reflexivity.
  - destruct (interrupted (base ss)); [reflexivity|].
    destruct (opt_le _ _); [reflexivity|].
    destruct (opt_lt _ _); [reflexivity|].
    destruct (exec p (set_todo f td) es e) as [f' pr|f' callee|er| |]; try reflexivity.
    destruct (after_ok_cases t (callers ss) (with_stack (base ss) (f' :: rest) (ticks (base ss) + 1)%N (pr ++ out (base ss)) false) f' es e)
      as [E|[v E]]; rewrite E; [reflexivity|].
    eexists. split; [reflexivity|]. now left.
Qed.

Lemma iter_stop_plain t p : forall n ss ss',
  iter_stop t p n ss = Some ss' -> plain_iter p n (base ss) = Some (base ss').
Proof.
  induction n as [|n IH]; intros ss ss' H; cbn [iter_stop plain_iter] in *.
  - inversion H; reflexivity.
  - pose proof (step_stop_plain t p ss) as P.
    destruct (step_stop t p ss); try discriminate. rewrite P. now apply IH.
Qed.

Lemma iter_stop_add t p : forall a b ss,
  iter_stop t p (a + b) ss = match iter_stop t p a ss with Some s1 => iter_stop t p b s1 | None => None end.
Proof.
  induction a as [|a IH]; intros b ss; cbn [iter_stop Nat.add]; [reflexivity|].
  destruct (step_stop t p ss); try reflexivity. apply IH.
Qed.

Lemma run_stop_stopped t p : forall fuel k ss n v ss',
  run_stop t p fuel k ss = TStopped n v ss' ->
  exists j spre, n = k + S j /\ iter_stop t p j ss = Some spre /\ step_stop t p spre = OStopped v ss'.
Proof.
  induction fuel as [|fuel IH]; intros k ss n v ss' H; cbn [run_stop] in H; [discriminate|].
  destruct (step_stop t p ss) as [s1|v1 s1|v1 s1|e1 s1| |] eqn:E; try discriminate.
  - apply IH in H. destruct H as (j & spre & -> & I & S1).
    exists (S j), spre. split; [lia|]. split; [|exact S1]. cbn [iter_stop]. now rewrite E.
  - inversion H; subst. exists 0, ss. split; [lia|]. split; [reflexivity|exact E].
Qed.

Lemma run_stop_iter t p : forall j fuel k ss spre,
  iter_stop t p j ss = Some spre -> j <= fuel ->
  run_stop t p fuel k ss = run_stop t p (fuel - j) (k + j) spre.
Proof.
  induction j as [|j IH]; intros fuel k ss spre H L; cbn [iter_stop] in H.
  - inversion H; subst. now rewrite Nat.sub_0_r, Nat.add_0_r.
  - destruct fuel as [|fuel]; [lia|]. cbn [run_stop].
    destruct (step_stop t p ss); try discriminate.
    rewrite (IH fuel (S k) _ _ H) by lia. f_equal. lia.
Qed.

(* A run that stops by its n-th step went through the states of the plain
   run for n-1 steps; the n-th plain step exists and the stopped state is its
   result (or, for a stop at a call's return, its result without the push). *)
Lemma stop_prefix_is_plain t p fuel ss n v ss' :
  run_stop t p fuel 0 ss = TStopped n v ss' ->
  exists spre s1,
    1 <= n /\
    iter_stop t p (n - 1) ss = Some spre /\
    plain_iter p (n - 1) (base ss) = Some (base spre) /\
    step p (base spre) = Next s1 /\
    plain_iter p n (base ss) = Some s1 /\
    stop_of_plain s1 v ss' /\
    (forall i si, i <= n - 1 -> iter_stop t p i ss = Some si -> plain_iter p i (base ss) = Some (base si)).
Proof.
  intros H. apply run_stop_stopped in H. destruct H as (j & spre & -> & I & S1).
  pose proof (step_stop_plain t p spre) as P. rewrite S1 in P. destruct P as (s1 & P1 & P2).
  exists spre, s1. replace (0 + S j - 1) with j by lia.
  pose proof (iter_stop_plain _ _ _ _ _ I) as PI.
  repeat split; auto; try lia.
  - replace (0 + S j) with (j + 1) by lia.
    clear - PI P1. revert PI. generalize (base ss). induction j as [|j IH]; intros s PI; cbn [plain_iter Nat.add] in *.
    + inversion PI; subst. now rewrite P1.
    + destruct (step p s); try discriminate. now apply IH.
  - intros i si _ Hi. now apply iter_stop_plain in Hi.
Qed.

(* ------------------------------------------------------------------------ *)
(* 2. Paths of the stop machine over a fixed continuation.                    *)

Definition bad (o : sout) : Prop :=
  match o with OFailed _ _ | OCrashed => True | _ => False end.

Definition cont := list (estate * expr).

(* the top frame still has work to do before the continuation T *)
Definition above (T : cont) (rest : list frame) (ss : sstate) : Prop :=
  exists f X, stack (base ss) = f :: rest /\ todo f = X ++ T /\ X <> [].

Inductive ipath (t : N * N) (p : prog) (P : sstate -> Prop) : sstate -> nat -> sstate -> Prop :=
| ip0 ss : ipath t p P ss 0 ss
| ipS ss ss1 j ss2 : P ss -> step_stop t p ss = ONext ss1 -> ipath t p P ss1 j ss2 -> ipath t p P ss (S j) ss2.

Lemma ipath_trans t p P a j1 b j2 c :
  ipath t p P a j1 b -> ipath t p P b j2 c -> ipath t p P a (j1 + j2) c.
Proof.
  induction 1 as [|a a1 j b Pa S1 _ IH]; intros H2; cbn [Nat.add]; [exact H2|].
  econstructor; eauto.
Qed.

Lemma ipath_weaken t p (P Q : sstate -> Prop) a j b :
  (forall x, P x -> Q x) -> ipath t p P a j b -> ipath t p Q a j b.
Proof. intros PQ. induction 1; econstructor; eauto. Qed.

Lemma ipath_iter t p P a j b : ipath t p P a j b -> iter_stop t p j a = Some b.
Proof. induction 1 as [|a a1 j b _ S1 _ IH]; cbn [iter_stop]; [reflexivity|]. now rewrite S1. Qed.

Lemma ipath_inside t p P a j b : ipath t p P a j b ->
  forall i, i < j -> exists si, iter_stop t p i a = Some si /\ P si.
Proof.
  induction 1 as [|a a1 j b Pa S1 _ IH]; intros i Hi; [lia|].
  destruct i as [|i]; [exists a; split; [reflexivity|exact Pa]|].
  destruct (IH i) as (si & I & Psi); [lia|]. exists si. split; [|exact Psi]. cbn [iter_stop]. now rewrite S1.
Qed.

Lemma above_app Y T rest ss : above (Y ++ T) rest ss -> above T rest ss.
Proof.
  intros (f & X & ST & TD & NE). exists f, (X ++ Y). split; [exact ST|]. split.
  - now rewrite <- app_assoc.
  - destruct X; [congruence|discriminate].
Qed.

Lemma above_head f rest ss x T : stack (base ss) = f :: rest -> todo f = x :: T -> above T rest ss.
Proof. intros ST TD. exists f, [x]. split; [exact ST|]. split; [exact TD|discriminate]. Qed.

Definition reach (t : N * N) (p : prog) (T : cont) (rest : list frame) (ss : sstate) (Fin : sstate -> Prop) : Prop :=
  exists j x, ipath t p (above T rest) ss j x /\ Fin x.

Lemma reach_step t p T rest ss ss1 Fin :
  above T rest ss -> step_stop t p ss = ONext ss1 -> reach t p T rest ss1 Fin -> reach t p T rest ss Fin.
Proof. intros A S1 (j & x & I & F). exists (S j), x. split; [econstructor; eauto|exact F]. Qed.

Lemma reach_path t p T rest ss j ss1 Fin :
  ipath t p (above T rest) ss j ss1 -> reach t p T rest ss1 Fin -> reach t p T rest ss Fin.
Proof. intros I (j2 & x & I2 & F). exists (j + j2), x. split; [eapply ipath_trans; eauto|exact F]. Qed.

Lemma ipath_above_app t p Y T rest a j b :
  ipath t p (above (Y ++ T) rest) a j b -> ipath t p (above T rest) a j b.
Proof. apply ipath_weaken. intros x. apply above_app. Qed.

(* the three ways the evaluation of an entry can end *)
Definition FinFail (t : N * N) (p : prog) (T : cont) (rest : list frame) : sstate -> Prop :=
  fun pre => above T rest pre /\ bad (step_stop t p pre).

Definition pushed (u : bool) (V V' : list value) : Prop :=
  if u then exists v, V' = v :: V else V' = V.

Definition FinComp (T : cont) (rest : list frame) (cs : list (N * N)) (u : bool) (V : list value) : sstate -> Prop :=
  fun ss' => exists f', stack (base ss') = f' :: rest /\ todo f' = T /\ pushed u V (vals f') /\ callers ss' = cs.

Definition FinStop (t : N * N) (p : prog) (T : cont) (rest : list frame) (cs : list (N * N)) (V : list value) : sstate -> Prop :=
  fun pre => above T rest pre /\
    exists v ss' f', step_stop t p pre = OStopped v ss' /\
      stack (base ss') = f' :: rest /\ todo f' = T /\ vals f' = v :: V /\ callers ss' = cs.

Lemma fail_app t p Y T rest ss :
  reach t p (Y ++ T) rest ss (FinFail t p (Y ++ T) rest) -> reach t p T rest ss (FinFail t p T rest).
Proof.
  intros (j & x & I & A & B). exists j, x. split; [now apply ipath_above_app in I|].
  split; [now apply above_app in A|exact B].
Qed.

(* ------------------------------------------------------------------------ *)
(* 3. The fragment: literals, variables, fun literals, operators, let,
      assignment, update, parentheses, if / if-else, match, list and tuple literals.
      `frag t e` also records what the parser's value_is_used pass guarantees
      (operands / right-hand sides / conditions / items are used; in a block
      only the last expression may be used) and that no PROPER subexpression
      of e has the span t.                                                     *)

Fixpoint block_flags (u : bool) (l : list expr) : bool :=
  match l with
  | [] => true
  | [x] => Bool.eqb (eused x) u
  | x :: l' => negb (eused x) && block_flags u l'
  end.

Definition count_used (l : list expr) : nat := length (filter eused l).

Inductive frag (t : N * N) : expr -> Prop :=
| F_Int m z : frag t (EInt m z)
| F_Str m s : frag t (EStr m s)
| F_Var m x : frag t (EVar m x)
| F_Fun m ps b : frag t (EFun m ps b)
| F_Bin m o l r : frag t l -> frag t r -> eused l = true -> eused r = true -> epos l <> t -> epos r <> t ->
    frag t (EBin m o l r)
| F_Paren m i : frag t i -> eused i = used m -> epos i <> t -> frag t (EParen m i)
| F_Let m x r : frag t r -> eused r = true -> epos r <> t -> frag t (ELet m x r)
| F_Assign m x xp r : frag t r -> eused r = true -> epos r <> t -> frag t (EAssign m x xp r)
| F_Upd m o x xp r : frag t r -> eused r = true -> epos r <> t -> frag t (EUpd m o x xp r)
| F_If m c th : frag t c -> eused c = true -> epos c <> t -> fseq t th -> block_flags false th = true ->
    frag t (EIf m c th None)
| F_IfElse m c th eb : frag t c -> eused c = true -> epos c <> t -> fseq t th -> fseq t eb ->
    block_flags (used m) th = true -> block_flags (used m) eb = true ->
    frag t (EIf m c th (Some eb))
| F_List m l : fseq t (rev l) -> forallb eused l = true -> frag t (EList m l)
| F_Tuple m l : fseq t (rev l) -> forallb eused l = true -> frag t (ETuple m l)
| F_Match m sc cases : frag t sc -> eused sc = true -> epos sc <> t -> fcases t (used m) cases ->
    frag t (EMatch m sc cases)
with fseq (t : N * N) : list expr -> Prop :=
| FS_nil : fseq t []
| FS_cons x l : frag t x -> epos x <> t -> fseq t l -> fseq t (x :: l)
with fcases (t : N * N) : bool -> list (ident * (N * N) * option ident * list expr) -> Prop :=
| FC_nil u : fcases t u []
| FC_cons u pat body cs : fseq t body -> block_flags u body = true -> fcases t u cs ->
    fcases t u ((pat, body) :: cs).

Scheme frag_mut := Minimality for frag Sort Prop
  with fseq_mut := Minimality for fseq Sort Prop
  with fcases_mut := Minimality for fcases Sort Prop.
Combined Scheme frag_fseq_ind from frag_mut, fseq_mut, fcases_mut.

Definition not_paren (e : expr) : Prop := match e with EParen _ _ => False | _ => True end.

Definition econtract (t : N * N) (p : prog) (e : expr) : Prop :=
  (epos e = t -> eused e = true /\ not_paren e) ->
  forall ss f rest T,
    stack (base ss) = f :: rest -> todo f = (SNot, e) :: T ->
    reach t p T rest ss (FinFail t p T rest) \/
    (epos e <> t /\ reach t p T rest ss (FinComp T rest (callers ss) (eused e) (vals f))) \/
    (epos e = t /\ reach t p T rest ss (FinStop t p T rest (callers ss) (vals f))).

Definition scontract (t : N * N) (p : prog) (L : list expr) : Prop :=
  forall ss f rest T,
    stack (base ss) = f :: rest -> todo f = map (fun e => (SNot, e)) L ++ T ->
    reach t p T rest ss (FinFail t p T rest) \/
    reach t p T rest ss (fun ss' => exists f' W, stack (base ss') = f' :: rest /\ todo f' = T /\
                                     vals f' = W ++ vals f /\ length W = count_used L /\ callers ss' = callers ss).

(* ---- single steps ---- *)
Lemma step_stop_entry t p ss f rest es e T' :
  stack (base ss) = f :: rest -> todo f = (es, e) :: T' ->
  bad (step_stop t p ss) \/
  step_stop t p ss =
    match exec p (set_todo f T') es e with
    | XOk f' printed =>
        after_ok t (callers ss) (with_stack (base ss) (f' :: rest) (ticks (base ss) + 1)%N (printed ++ out (base ss)) false) f' es e
    | XCall f' callee =>
        ONext (mkS (with_stack (base ss) (callee :: f' :: rest) (ticks (base ss) + 1)%N (out (base ss)) false) (epos e :: callers ss))
    | XErr er => OFailed er (mkS (with_stack (base ss) (stack (base ss)) (ticks (base ss) + 1)%N (out (base ss)) false) (callers ss))
    | XPanic => OCrashed
    | XUnsupported => OUnsupported
    end.
Proof.
  intros ST TD. unfold step_stop. rewrite ST, TD.
  destruct (interrupted (base ss)); [left; exact I|].
  destruct (opt_le _ _); [left; exact I|].
  destruct (opt_lt _ _); [left; exact I|].
  right. rewrite <- ST. reflexivity.
Qed.

(* a step that is not a completion: the entry is replaced by f' *)
Lemma step_inner t p ss f rest es e T' f' pr :
  stack (base ss) = f :: rest -> todo f = (es, e) :: T' ->
  exec p (set_todo f T') es e = XOk f' pr ->
  done_after es e = false -> is_for_part es e = false ->
  bad (step_stop t p ss) \/
  exists ss', step_stop t p ss = ONext ss' /\ stack (base ss') = f' :: rest /\ callers ss' = callers ss.
Proof.
  intros ST TD EX D F. destruct (step_stop_entry t p ss f rest es e T' ST TD) as [B|E]; [now left|].
  right. rewrite EX in E. unfold after_ok in E. rewrite D, F in E.
  destruct (pos_eqb (epos e) t); eexists; (split; [exact E|]); split; reflexivity.
Qed.

Lemma pos_eqb_eq a b : pos_eqb a b = true <-> a = b.
Proof.
  unfold pos_eqb. destruct a as [a1 a2], b as [b1 b2]; cbn [fst snd]. rewrite andb_true_iff, !N.eqb_eq.
  split; [intros [-> ->]; reflexivity|intros H; inversion H; auto].
Qed.

(* the completing step *)
Lemma step_final t p ss f rest es e T V :
  stack (base ss) = f :: rest -> todo f = (es, e) :: T -> done_after es e = true ->
  (epos e = t -> eused e = true) ->
  match exec p (set_todo f T) es e with
  | XOk f' _ => todo f' = T /\ pushed (eused e) V (vals f')
  | XCall _ _ | XUnsupported => False
  | _ => True
  end ->
  bad (step_stop t p ss) \/
  (epos e <> t /\ exists ss' f', step_stop t p ss = ONext ss' /\ stack (base ss') = f' :: rest /\ todo f' = T /\
                                 pushed (eused e) V (vals f') /\ callers ss' = callers ss) \/
  (epos e = t /\ exists v ss' f', step_stop t p ss = OStopped v ss' /\ stack (base ss') = f' :: rest /\ todo f' = T /\
                                  vals f' = v :: V /\ callers ss' = callers ss).
Proof.
  intros ST TD D U EX. destruct (step_stop_entry t p ss f rest es e T ST TD) as [B|E]; [now left|].
  destruct (exec p (set_todo f T) es e) as [f' pr|f' callee|er| |]; try contradiction.
  - destruct EX as [TD' PU]. unfold after_ok in E. rewrite D in E.
    destruct (pos_eqb (epos e) t) eqn:PE.
    + apply pos_eqb_eq in PE. right. right. split; [exact PE|].
      rewrite (U PE) in PU. destruct PU as [v PV].
      exists (top_or_err f'). eexists. exists f'. split; [exact E|].
      unfold top_or_err. rewrite PV. repeat split; auto.
    + right. left. split.
      * intros C. apply pos_eqb_eq in C. congruence.
      * eexists. exists f'. split; [exact E|]. repeat split; auto.
  - left. rewrite E. exact I.
  - left. rewrite E. exact I.
Qed.

(* from the state just before the completing step to the contract's conclusion *)
Lemma conclude t p T rest ss0 j ss f es e V cs :
  ipath t p (above T rest) ss0 j ss ->
  stack (base ss) = f :: rest -> todo f = (es, e) :: T -> callers ss = cs ->
  ( bad (step_stop t p ss) \/
    (epos e <> t /\ exists ss' f', step_stop t p ss = ONext ss' /\ stack (base ss') = f' :: rest /\ todo f' = T /\
                                   pushed (eused e) V (vals f') /\ callers ss' = callers ss) \/
    (epos e = t /\ exists v ss' f', step_stop t p ss = OStopped v ss' /\ stack (base ss') = f' :: rest /\ todo f' = T /\
                                    vals f' = v :: V /\ callers ss' = callers ss) ) ->
  reach t p T rest ss0 (FinFail t p T rest) \/
  (epos e <> t /\ reach t p T rest ss0 (FinComp T rest cs (eused e) V)) \/
  (epos e = t /\ reach t p T rest ss0 (FinStop t p T rest cs V)).
Proof.
  intros I ST TD CS H. pose proof (above_head _ _ _ _ _ ST TD) as A.
  destruct H as [B|[[NE (ss' & f' & S1 & ST' & TD' & PU & CS')]|[EQ (v & ss' & f' & S1 & ST' & TD' & VV & CS')]]].
  - left. exists j, ss. split; [exact I|]. split; assumption.
  - right. left. split; [exact NE|]. exists (j + 1), ss'. split.
    + eapply ipath_trans; [exact I|]. econstructor; [exact A|exact S1|constructor].
    + exists f'. repeat split; auto. congruence.
  - right. right. split; [exact EQ|]. exists j, ss. split; [exact I|]. split; [exact A|].
    exists v, ss', f'. repeat split; auto. congruence.
Qed.

Lemma pushed_push_val_if u f v : pushed u (vals f) (vals (push_val_if u f v)).
Proof. destruct u; cbn; eauto. Qed.

Lemma eval_binop_shape f m o lp rp rv lv vs :
  vals f = rv :: lv :: vs ->
  match eval_binop f m o lp rp with
  | XOk f' _ => todo f' = todo f /\ pushed (used m) vs (vals f')
  | XCall _ _ | XUnsupported => False
  | _ => True
  end.
Proof.
  intros H. unfold eval_binop. rewrite H.
  assert (P : forall v, todo (push_val_if (used m) (set_vals f vs) v) = todo f /\
                        pushed (used m) vs (vals (push_val_if (used m) (set_vals f vs) v))).
  { intros v. rewrite push_val_if_todo. split; [reflexivity|]. apply (pushed_push_val_if (used m) (set_vals f vs) v). }
  destruct o as [io| | | | |].
  - destruct (int_of lv); [|exact I]. destruct (int_of rv); [|exact I].
    destruct (arm_sem true (int_arm io) z z0); try exact I; apply P.
  - apply P.
  - apply P.
  - destruct (as_bool lv); [|exact I]. destruct (as_bool rv); [|exact I]. apply P.
  - destruct (as_bool lv); [|exact I]. destruct (as_bool rv); [|exact I]. apply P.
  - destruct (str_of lv); [|exact I]. destruct (str_of rv); [|exact I]. apply P.
Qed.

(* ---- stages of an evaluation ---- *)
Definition concl (t : N * N) (p : prog) (T : cont) (rest : list frame) (cs : list (N * N)) (e : expr)
           (V : list value) (ss : sstate) : Prop :=
  reach t p T rest ss (FinFail t p T rest) \/
  (epos e <> t /\ reach t p T rest ss (FinComp T rest cs (eused e) V)) \/
  (epos e = t /\ reach t p T rest ss (FinStop t p T rest cs V)).

Lemma concl_path t p T rest cs e V ss j ss1 :
  ipath t p (above T rest) ss j ss1 -> concl t p T rest cs e V ss1 -> concl t p T rest cs e V ss.
Proof.
  intros I [F|[[NE C]|[EQ S]]].
  - left. eapply reach_path; eauto.
  - right. left. split; [exact NE|]. eapply reach_path; eauto.
  - right. right. split; [exact EQ|]. eapply reach_path; eauto.
Qed.

Lemma above_cons f rest ss x Y T : stack (base ss) = f :: rest -> todo f = x :: Y ++ T -> above T rest ss.
Proof. intros ST TD. exists f, (x :: Y). split; [exact ST|]. split; [exact TD|discriminate]. Qed.

Lemma step_stage t p T rest ss f es e T' :
  stack (base ss) = f :: rest -> todo f = (es, e) :: T' -> above T rest ss ->
  done_after es e = false -> is_for_part es e = false ->
  match exec p (set_todo f T') es e with XCall _ _ | XUnsupported => False | _ => True end ->
  reach t p T rest ss (FinFail t p T rest) \/
  exists f' pr ss', exec p (set_todo f T') es e = XOk f' pr /\
                    ipath t p (above T rest) ss 1 ss' /\ stack (base ss') = f' :: rest /\ callers ss' = callers ss.
Proof.
  intros ST TD A D F EX.
  destruct (exec p (set_todo f T') es e) as [f' pr|f' callee|er| |] eqn:E; try contradiction.
  - destruct (step_inner t p ss f rest es e T' f' pr ST TD E D F) as [B|(ss' & S1 & ST' & CS)].
    + left. exists 0, ss. split; [constructor|]. split; assumption.
    + right. exists f', pr, ss'. split; [reflexivity|]. split; [|split; assumption].
      econstructor; [exact A|exact S1|constructor].
  - left. exists 0, ss. split; [constructor|]. split; [exact A|].
    destruct (step_stop_entry t p ss f rest es e T' ST TD) as [B|E2]; [exact B|]. rewrite E in E2. rewrite E2. exact I.
  - left. exists 0, ss. split; [constructor|]. split; [exact A|].
    destruct (step_stop_entry t p ss f rest es e T' ST TD) as [B|E2]; [exact B|]. rewrite E in E2. rewrite E2. exact I.
Qed.

Lemma sub_eval t p e Y T rest ss f :
  econtract t p e -> epos e <> t ->
  stack (base ss) = f :: rest -> todo f = (SNot, e) :: Y ++ T ->
  reach t p T rest ss (FinFail t p T rest) \/
  exists j ss' f', ipath t p (above T rest) ss j ss' /\ stack (base ss') = f' :: rest /\ todo f' = Y ++ T /\
                   pushed (eused e) (vals f) (vals f') /\ callers ss' = callers ss.
Proof.
  intros C NE ST TD. destruct (C (fun H => match NE H with end) ss f rest (Y ++ T) ST TD) as [F|[[_ R]|[EQ _]]].
  - left. now apply (fail_app t p Y T).
  - right. destruct R as (j & ss' & I & f' & ST' & TD' & PU & CS).
    exists j, ss', f'. split; [now apply ipath_above_app in I|]. repeat split; auto.
  - contradiction.
Qed.

Lemma sub_seq t p L Y T rest ss f :
  scontract t p L ->
  stack (base ss) = f :: rest -> todo f = map (fun e => (SNot, e)) L ++ Y ++ T ->
  reach t p T rest ss (FinFail t p T rest) \/
  exists j ss' f' W, ipath t p (above T rest) ss j ss' /\ stack (base ss') = f' :: rest /\ todo f' = Y ++ T /\
                     vals f' = W ++ vals f /\ length W = count_used L /\ callers ss' = callers ss.
Proof.
  intros C ST TD. destruct (C ss f rest (Y ++ T) ST TD) as [F|R].
  - left. now apply (fail_app t p Y T).
  - right. destruct R as (j & ss' & I & f' & W & ST' & TD' & VV & LW & CS).
    exists j, ss', f', W. split; [now apply ipath_above_app in I|]. repeat split; auto.
Qed.

Lemma count_used_cons x l : count_used (x :: l) = (if eused x then 1 else 0) + count_used l.
Proof. unfold count_used. cbn [filter]. destruct (eused x); reflexivity. Qed.

Lemma block_flags_count u l : block_flags u l = true ->
  count_used l = match l with [] => 0 | _ => if u then 1 else 0 end.
Proof.
  induction l as [|x l IH]; intros H; [reflexivity|].
  rewrite count_used_cons. destruct l as [|y l].
  - cbn [block_flags] in H. apply Bool.eqb_prop in H. rewrite H. unfold count_used. cbn. destruct u; reflexivity.
  - change (block_flags u (x :: y :: l)) with (negb (eused x) && block_flags u (y :: l)) in H.
    apply andb_true_iff in H. destruct H as [H1 H2]. rewrite (IH H2).
    destruct (eused x); [discriminate|]. reflexivity.
Qed.

Lemma forallb_count l : forallb eused l = true -> count_used l = length l.
Proof.
  induction l as [|x l IH]; intros H; [reflexivity|]. cbn [forallb] in H. apply andb_true_iff in H. destruct H as [H1 H2].
  rewrite count_used_cons, H1, (IH H2). reflexivity.
Qed.

Lemma count_used_rev l : count_used (rev l) = count_used l.
Proof.
  induction l as [|x l IH]; [reflexivity|]. cbn [rev]. unfold count_used in *.
  rewrite filter_app, app_length, IH. cbn [filter]. destruct (eused x); cbn [length]; lia.
Qed.

Lemma pop_n_app : forall W V, pop_n (length W) (W ++ V) = Some (W, V).
Proof. induction W as [|w W IH]; intros V; cbn [length pop_n app]; [reflexivity|]. now rewrite IH. Qed.

Lemma fold_push_todo items : forall f,
  todo (fold_left (fun acc it => push_todo acc SNot it) items f) = map (fun e => (SNot, e)) (rev items) ++ todo f
  /\ vals (fold_left (fun acc it => push_todo acc SNot it) items f) = vals f.
Proof.
  induction items as [|i items IH]; intros f; cbn [fold_left rev map app]; [split; reflexivity|].
  destruct (IH (push_todo f SNot i)) as [A B]. rewrite A, B. cbn [push_todo todo vals].
  rewrite map_app, <- app_assoc. split; reflexivity.
Qed.

(* ---- the contracts hold on the fragment ---- *)
Ltac atomic_case HU ST TD :=
  match goal with
  | |- concl ?t ?p ?T ?rest ?cs ?e ?V ?ss =>
      apply (conclude t p T rest ss 0 ss _ SNot e V cs (ip0 _ _ _ _) ST TD eq_refl);
      apply (step_final t p ss _ rest SNot e T V ST TD eq_refl); [intros HE; apply (HU HE)|]
  end.

Lemma econtract_unfold t p e :
  ((epos e = t -> eused e = true /\ not_paren e) ->
   forall ss f rest T, stack (base ss) = f :: rest -> todo f = (SNot, e) :: T ->
     concl t p T rest (callers ss) e (vals f) ss) -> econtract t p e.
Proof. intros H HU ss f rest T ST TD. exact (H HU ss f rest T ST TD). Qed.

Section Contracts.
Variable t : N * N.
Variable p : prog.

Lemma c_int m z : econtract t p (EInt m z).
Proof.
  apply econtract_unfold. intros HU ss f rest T ST TD. atomic_case HU ST TD.
  cbn [exec]. rewrite push_val_if_todo. split; [reflexivity|]. apply (pushed_push_val_if (used m) (set_todo f T)).
Qed.

Lemma c_str m s : econtract t p (EStr m s).
Proof.
  apply econtract_unfold. intros HU ss f rest T ST TD. atomic_case HU ST TD.
  cbn [exec]. rewrite push_val_if_todo. split; [reflexivity|]. apply (pushed_push_val_if (used m) (set_todo f T)).
Qed.

Lemma c_fun m ps b : econtract t p (EFun m ps b).
Proof.
  apply econtract_unfold. intros HU ss f rest T ST TD. atomic_case HU ST TD.
  cbn [exec]. rewrite push_val_if_todo. split; [reflexivity|]. apply (pushed_push_val_if (used m) (set_todo f T)).
Qed.

Lemma c_var m x : econtract t p (EVar m x).
Proof.
  apply econtract_unfold. intros HU ss f rest T ST TD. atomic_case HU ST TD.
  cbn [exec]. destruct (get_var p (set_todo f T) x); [|exact I].
  rewrite push_val_if_todo. split; [reflexivity|]. apply (pushed_push_val_if (used m) (set_todo f T)).
Qed.

Lemma c_bin m o l r :
  econtract t p l -> econtract t p r -> eused l = true -> eused r = true -> epos l <> t -> epos r <> t ->
  econtract t p (EBin m o l r).
Proof.
  intros Cl Cr Ul Ur Nl Nr. apply econtract_unfold. intros HU ss f rest T ST TD.
  set (e := EBin m o l r) in *.
  destruct (step_stage t p T rest ss f SNot e T ST TD (above_head _ _ _ _ _ ST TD) eq_refl eq_refl I)
    as [F|(f1 & pr & ss1 & EX & I1 & ST1 & CS1)]; [left; exact F|].
  cbn [exec e] in EX. inversion EX; subst f1 pr; clear EX.
  destruct (sub_eval t p l [(SNot, r); (SDone, e)] T rest ss1 _ Cl Nl ST1 eq_refl)
    as [F|(j2 & ss2 & f2 & I2 & ST2 & TD2 & PU2 & CS2)]; [left; eapply reach_path; eauto|].
  rewrite Ul in PU2. destruct PU2 as [vl VL]. cbn [vals push_todo set_todo] in VL.
  destruct (sub_eval t p r [(SDone, e)] T rest ss2 f2 Cr Nr ST2 TD2)
    as [F|(j3 & ss3 & f3 & I3 & ST3 & TD3 & PU3 & CS3)];
    [left; eapply reach_path; [exact (ipath_trans _ _ _ _ _ _ _ _ I1 I2)|exact F]|].
  rewrite Ur in PU3. destruct PU3 as [vr VR]. rewrite VL in VR.
  apply (conclude t p T rest ss _ ss3 f3 SDone e (vals f) (callers ss)
           (ipath_trans _ _ _ _ _ _ _ _ I1 (ipath_trans _ _ _ _ _ _ _ _ I2 I3)) ST3 TD3); [congruence|].
  apply (step_final t p ss3 f3 rest SDone e T (vals f) ST3 TD3 eq_refl); [intros HE; apply (HU HE)|].
  cbn [exec e]. apply (eval_binop_shape (set_todo f3 T) m o (epos l) (epos r) vr vl (vals f)). exact VR.
Qed.


Lemma c_paren m i :
  econtract t p i -> eused i = used m -> epos i <> t -> econtract t p (EParen m i).
Proof.
  intros Ci Ui Ni. apply econtract_unfold. intros HU ss f rest T ST TD.
  set (e := EParen m i) in *.
  destruct (step_stage t p T rest ss f SNot e T ST TD (above_head _ _ _ _ _ ST TD) eq_refl eq_refl I)
    as [F|(f1 & pr & ss1 & EX & I1 & ST1 & CS1)]; [left; exact F|].
  cbn [exec e] in EX. inversion EX; subst f1 pr; clear EX.
  destruct (sub_eval t p i [] T rest ss1 _ Ci Ni ST1 eq_refl)
    as [F|(j2 & ss2 & f2 & I2 & ST2 & TD2 & PU2 & CS2)]; [left; eapply reach_path; eauto|].
  cbn [vals push_todo set_todo app] in *.
  destruct (pos_eqb (epos e) t) eqn:PE.
  - apply pos_eqb_eq in PE. destruct (HU PE) as [_ []].
  - right. left. split; [intros C; apply pos_eqb_eq in C; congruence|].
    exists (1 + j2), ss2. split; [exact (ipath_trans _ _ _ _ _ _ _ _ I1 I2)|].
    exists f2. repeat split; auto; [|congruence]. change (pushed (used m) (vals f) (vals f2)). rewrite <- Ui. exact PU2.
Qed.

Lemma c_let m x r :
  econtract t p r -> eused r = true -> epos r <> t -> econtract t p (ELet m x r).
Proof.
  intros Cr Ur Nr. apply econtract_unfold. intros HU ss f rest T ST TD.
  set (e := ELet m x r) in *.
  destruct (step_stage t p T rest ss f SNot e T ST TD (above_head _ _ _ _ _ ST TD) eq_refl eq_refl I)
    as [F|(f1 & pr & ss1 & EX & I1 & ST1 & CS1)]; [left; exact F|].
  cbn [exec e] in EX. inversion EX; subst f1 pr; clear EX.
  destruct (sub_eval t p r [(SDone, e)] T rest ss1 _ Cr Nr ST1 eq_refl)
    as [F|(j2 & ss2 & f2 & I2 & ST2 & TD2 & PU2 & CS2)]; [left; eapply reach_path; eauto|].
  rewrite Ur in PU2. destruct PU2 as [v VL]. cbn [vals push_todo set_todo] in VL.
  apply (conclude t p T rest ss _ ss2 f2 SDone e (vals f) (callers ss)
           (ipath_trans _ _ _ _ _ _ _ _ I1 I2) ST2 TD2); [congruence|].
  apply (step_final t p ss2 f2 rest SDone e T (vals f) ST2 TD2 eq_refl); [intros HE; apply (HU HE)|].
  cbn [exec e]. unfold pop_val. cbn [vals set_todo]. rewrite VL.
  rewrite push_val_if_todo. split; [reflexivity|].
  apply (pushed_push_val_if (used m) (set_blocks (set_vals (set_todo f2 T) (vals f)) _)).
Qed.

Lemma c_assign m x xp r :
  econtract t p r -> eused r = true -> epos r <> t -> econtract t p (EAssign m x xp r).
Proof.
  intros Cr Ur Nr. apply econtract_unfold. intros HU ss f rest T ST TD.
  set (e := EAssign m x xp r) in *.
  destruct (step_stage t p T rest ss f SNot e T ST TD (above_head _ _ _ _ _ ST TD) eq_refl eq_refl I)
    as [F|(f1 & pr & ss1 & EX & I1 & ST1 & CS1)]; [left; exact F|].
  cbn [exec e] in EX. inversion EX; subst f1 pr; clear EX.
  destruct (sub_eval t p r [(SDone, e)] T rest ss1 _ Cr Nr ST1 eq_refl)
    as [F|(j2 & ss2 & f2 & I2 & ST2 & TD2 & PU2 & CS2)]; [left; eapply reach_path; eauto|].
  rewrite Ur in PU2. destruct PU2 as [v VL]. cbn [vals push_todo set_todo] in VL.
  apply (conclude t p T rest ss _ ss2 f2 SDone e (vals f) (callers ss)
           (ipath_trans _ _ _ _ _ _ _ _ I1 I2) ST2 TD2); [congruence|].
  apply (step_final t p ss2 f2 rest SDone e T (vals f) ST2 TD2 eq_refl); [intros HE; apply (HU HE)|].
  cbn [exec e]. destruct (lookup_blocks x (blocks (set_todo f2 T))); [|exact I].
  unfold pop_val. cbn [vals set_todo]. rewrite VL.
  destruct (set_existing x v _); [|exact I].
  rewrite push_val_if_todo. split; [reflexivity|].
  apply (pushed_push_val_if (used m) (set_blocks (set_vals (set_todo f2 T) (vals f)) _)).
Qed.

Lemma c_upd m o x xp r :
  econtract t p r -> eused r = true -> epos r <> t -> econtract t p (EUpd m o x xp r).
Proof.
  intros Cr Ur Nr. apply econtract_unfold. intros HU ss f rest T ST TD.
  set (e := EUpd m o x xp r) in *.
  destruct (step_stage t p T rest ss f SNot e T ST TD (above_head _ _ _ _ _ ST TD) eq_refl eq_refl I)
    as [F|(f1 & pr & ss1 & EX & I1 & ST1 & CS1)]; [left; exact F|].
  cbn [exec e] in EX. inversion EX; subst f1 pr; clear EX.
  destruct (sub_eval t p r [(SDone, e)] T rest ss1 _ Cr Nr ST1 eq_refl)
    as [F|(j2 & ss2 & f2 & I2 & ST2 & TD2 & PU2 & CS2)]; [left; eapply reach_path; eauto|].
  rewrite Ur in PU2. destruct PU2 as [v VL]. cbn [vals push_todo set_todo] in VL.
  apply (conclude t p T rest ss _ ss2 f2 SDone e (vals f) (callers ss)
           (ipath_trans _ _ _ _ _ _ _ _ I1 I2) ST2 TD2); [congruence|].
  apply (step_final t p ss2 f2 rest SDone e T (vals f) ST2 TD2 eq_refl); [intros HE; apply (HU HE)|].
  cbn [exec e]. destruct (get_var p (set_todo f2 T) x) as [cur|]; [|exact I].
  destruct (int_of cur); [|exact I].
  unfold pop_val. cbn [vals set_todo]. rewrite VL.
  destruct (int_of v); [|exact I].
  destruct (arm_sem true (upd_arm o) z z0); try exact I.
  destruct (set_existing x _ _); [|exact I].
  rewrite push_val_if_todo. split; [reflexivity|].
  apply (pushed_push_val_if (used m) (set_blocks (set_vals (set_todo f2 T) (vals f)) _)).
Qed.

End Contracts.

Lemma eval_block_shape f u body :
  todo (eval_block f u body) = map (fun e => (SNot, e)) body ++ todo f /\
  vals (eval_block f u body) = (match body with [] => if u then vunit :: vals f else vals f | _ => vals f end) /\
  uses (eval_block f u body) = uses f.
Proof.
  unfold eval_block. destruct body as [|x body].
  - destruct u; cbn; auto.
  - cbn. auto.
Qed.

Lemma pop_block_vals f f1 : pop_block f = Some f1 -> vals f1 = vals f /\ todo f1 = todo f.
Proof.
  unfold pop_block. destruct (blocks f) as [|a [|b bs]]; intros H; inversion H; subst. cbn. auto.
Qed.

Section Contracts2.
Variable t : N * N.
Variable p : prog.

Lemma block_stage body bu e T rest ss3 f3 V :
  scontract t p body -> block_flags bu body = true ->
  stack (base ss3) = f3 :: rest ->
  todo f3 = map (fun x => (SNot, x)) body ++ [(SDone, e)] ++ T ->
  vals f3 = (match body with [] => if bu then vunit :: V else V | _ => V end) ->
  reach t p T rest ss3 (FinFail t p T rest) \/
  exists j ss4 f4, ipath t p (above T rest) ss3 j ss4 /\ stack (base ss4) = f4 :: rest /\
                   todo f4 = (SDone, e) :: T /\ pushed bu V (vals f4) /\ callers ss4 = callers ss3.
Proof.
  intros C BF ST TD VV.
  destruct (sub_seq t p body [(SDone, e)] T rest ss3 f3 C ST TD)
    as [F|(j & ss4 & f4 & W & I & ST4 & TD4 & V4 & LW & CS)]; [left; exact F|].
  right. exists j, ss4, f4. repeat split; auto.
  rewrite (block_flags_count bu body BF) in LW. rewrite V4, VV.
  destruct body as [|x body].
  - destruct W; [|discriminate]. cbn [app]. destruct bu; cbn; [exists vunit|]; reflexivity.
  - destruct bu; cbn in *.
    + destruct W as [|w [|w2 W]]; try discriminate. exists w; reflexivity.
    + destruct W; [reflexivity|discriminate].
Qed.

Lemma if_final m c th el cs ss0 j ss4 f4 rest T V :
  ipath t p (above T rest) ss0 j ss4 -> stack (base ss4) = f4 :: rest ->
  todo f4 = (SDone, EIf m c th el) :: T -> callers ss4 = cs ->
  (epos (EIf m c th el) = t -> eused (EIf m c th el) = true) ->
  (match el with None => vals f4 = V | Some _ => pushed (used m) V (vals f4) end) ->
  concl t p T rest cs (EIf m c th el) V ss0.
Proof.
  intros IP ST TD CS HU VV.
  apply (conclude t p T rest ss0 j ss4 f4 SDone (EIf m c th el) V cs IP ST TD CS).
  apply (step_final t p ss4 f4 rest SDone _ T V ST TD eq_refl HU).
  cbn [exec]. destruct (pop_block (set_todo f4 T)) as [f1|] eqn:PB; [|exact I].
  apply pop_block_vals in PB. destruct PB as [PV PT]. cbn [set_todo vals todo] in PV, PT.
  rewrite push_val_if_todo. split; [exact PT|].
  change (eused (EIf m c th el)) with (used m).
  destruct el.
  - rewrite andb_false_r. cbn [push_val_if]. rewrite PV. exact VV.
  - rewrite andb_true_r. rewrite <- VV, <- PV. apply pushed_push_val_if.
Qed.

Lemma c_if m c th :
  econtract t p c -> eused c = true -> epos c <> t -> scontract t p th -> block_flags false th = true ->
  econtract t p (EIf m c th None).
Proof.
  intros Cc Uc Nc Cth BF. apply econtract_unfold. intros HU ss f rest T ST TD.
  set (e := EIf m c th None) in *.
  destruct (step_stage t p T rest ss f SNot e T ST TD (above_head _ _ _ _ _ ST TD) eq_refl eq_refl I)
    as [F|(f1 & pr & ss1 & EX & I1 & ST1 & CS1)]; [left; exact F|].
  cbn [exec e] in EX. inversion EX; subst f1 pr; clear EX.
  destruct (sub_eval t p c [(SPart BWill, e)] T rest ss1 _ Cc Nc ST1 eq_refl)
    as [F|(j2 & ss2 & f2 & I2 & ST2 & TD2 & PU2 & CS2)]; [left; eapply reach_path; eauto|].
  rewrite Uc in PU2. destruct PU2 as [cv VL]. cbn [vals push_todo set_todo] in VL.
  pose proof (ipath_trans _ _ _ _ _ _ _ _ I1 I2) as I12.
  assert (EXS : match exec p (set_todo f2 T) (SPart BWill) e with XCall _ _ | XUnsupported => False | _ => True end).
  { cbn [exec e]. unfold pop_val. cbn [vals push_todo set_todo]. rewrite VL.
    destruct (as_bool cv) as [[|]|]; exact I. }
  destruct (step_stage t p T rest ss2 f2 (SPart BWill) e T ST2 TD2 (above_head _ _ _ _ _ ST2 TD2) eq_refl eq_refl EXS)
    as [F|(f3 & pr & ss3 & EX & I3 & ST3 & CS3)]; [left; eapply reach_path; eauto|].
  clear EXS. cbn [exec e] in EX. unfold pop_val in EX. cbn [vals push_todo set_todo] in EX. rewrite VL in EX.
  pose proof (ipath_trans _ _ _ _ _ _ _ _ I12 I3) as I123.
  rewrite andb_false_r in EX.
  destruct (as_bool cv) as [[|]|]; [| |discriminate]; inversion EX; subst f3 pr; clear EX.
  - (* then branch *)
    match type of ST3 with stack _ = eval_block ?g _ _ :: _ => pose proof (eval_block_shape g false th) as (ET & EV & _) end.
    cbn [todo vals set_vals push_todo set_todo] in ET, EV.
    destruct (block_stage th false e T rest ss3 _ (vals f) Cth BF ST3 ET)
      as [F|(j4 & ss4 & f4 & I4 & ST4 & TD4 & PU4 & CS4)].
    { rewrite EV. destruct th; reflexivity. }
    { left; eapply reach_path; eauto. }
    apply (if_final m c th None (callers ss) ss _ ss4 f4 rest T (vals f) (ipath_trans _ _ _ _ _ _ _ _ I123 I4) ST4 TD4);
      [congruence|intros HE; apply (HU HE)|exact PU4].
  - (* condition false, no else: an empty block *)
    apply (if_final m c th None (callers ss) ss _ ss3 _ rest T (vals f) I123 ST3 eq_refl);
      [congruence|intros HE; apply (HU HE)|reflexivity].
Qed.

Lemma c_ifelse m c th eb :
  econtract t p c -> eused c = true -> epos c <> t -> scontract t p th -> scontract t p eb ->
  block_flags (used m) th = true -> block_flags (used m) eb = true ->
  econtract t p (EIf m c th (Some eb)).
Proof.
  intros Cc Uc Nc Cth Ceb BF1 BF2. apply econtract_unfold. intros HU ss f rest T ST TD.
  set (e := EIf m c th (Some eb)) in *.
  destruct (step_stage t p T rest ss f SNot e T ST TD (above_head _ _ _ _ _ ST TD) eq_refl eq_refl I)
    as [F|(f1 & pr & ss1 & EX & I1 & ST1 & CS1)]; [left; exact F|].
  cbn [exec e] in EX. inversion EX; subst f1 pr; clear EX.
  destruct (sub_eval t p c [(SPart BWill, e)] T rest ss1 _ Cc Nc ST1 eq_refl)
    as [F|(j2 & ss2 & f2 & I2 & ST2 & TD2 & PU2 & CS2)]; [left; eapply reach_path; eauto|].
  rewrite Uc in PU2. destruct PU2 as [cv VL]. cbn [vals push_todo set_todo] in VL.
  pose proof (ipath_trans _ _ _ _ _ _ _ _ I1 I2) as I12.
  assert (EXS : match exec p (set_todo f2 T) (SPart BWill) e with XCall _ _ | XUnsupported => False | _ => True end).
  { cbn [exec e]. unfold pop_val. cbn [vals push_todo set_todo]. rewrite VL.
    destruct (as_bool cv) as [[|]|]; exact I. }
  destruct (step_stage t p T rest ss2 f2 (SPart BWill) e T ST2 TD2 (above_head _ _ _ _ _ ST2 TD2) eq_refl eq_refl EXS)
    as [F|(f3 & pr & ss3 & EX & I3 & ST3 & CS3)]; [left; eapply reach_path; eauto|].
  clear EXS. cbn [exec e] in EX. unfold pop_val in EX. cbn [vals push_todo set_todo] in EX. rewrite VL in EX.
  pose proof (ipath_trans _ _ _ _ _ _ _ _ I12 I3) as I123.
  rewrite andb_true_r in EX.
  destruct (as_bool cv) as [[|]|]; [| |discriminate]; inversion EX; subst f3 pr; clear EX.
  - match type of ST3 with stack _ = eval_block ?g _ _ :: _ => pose proof (eval_block_shape g (used m) th) as (ET & EV & _) end.
    cbn [todo vals set_vals push_todo set_todo] in ET, EV.
    destruct (block_stage th (used m) e T rest ss3 _ (vals f) Cth BF1 ST3 ET EV)
      as [F|(j4 & ss4 & f4 & I4 & ST4 & TD4 & PU4 & CS4)]; [left; eapply reach_path; eauto|].
    apply (if_final m c th (Some eb) (callers ss) ss _ ss4 f4 rest T (vals f) (ipath_trans _ _ _ _ _ _ _ _ I123 I4) ST4 TD4);
      [congruence|intros HE; apply (HU HE)|exact PU4].
  - match type of ST3 with stack _ = eval_block ?g _ _ :: _ => pose proof (eval_block_shape g (used m) eb) as (ET & EV & _) end.
    cbn [todo vals set_vals push_todo set_todo] in ET, EV.
    destruct (block_stage eb (used m) e T rest ss3 _ (vals f) Ceb BF2 ST3 ET EV)
      as [F|(j4 & ss4 & f4 & I4 & ST4 & TD4 & PU4 & CS4)]; [left; eapply reach_path; eauto|].
    apply (if_final m c th (Some eb) (callers ss) ss _ ss4 f4 rest T (vals f) (ipath_trans _ _ _ _ _ _ _ _ I123 I4) ST4 TD4);
      [congruence|intros HE; apply (HU HE)|exact PU4].
Qed.

Lemma c_listlike (mk : meta -> list expr -> expr) (mkv : list value -> value) m l :
  (forall f es, exec p f es (mk m l) =
     match es with
     | SDone => match pop_n (length l) (vals f) with
                | None => XPanic
                | Some (w, rest) => XOk (push_val_if (used m) (set_vals f rest) (mkv w)) []
                end
     | _ => XOk (fold_left (fun acc it => push_todo acc SNot it) l (push_todo f SDone (mk m l))) []
     end) ->
  (forall es, done_after es (mk m l) = match es with SDone => true | _ => false end) ->
  (forall es, is_for_part es (mk m l) = false) ->
  eused (mk m l) = used m ->
  (not_paren (mk m l)) ->
  scontract t p (rev l) -> forallb eused l = true -> econtract t p (mk m l).
Proof.
  intros EXE DA FP EU NP Cl Ul. apply econtract_unfold. intros HU ss f rest T ST TD.
  set (e := mk m l) in *.
  assert (EXS : match exec p (set_todo f T) SNot e with XCall _ _ | XUnsupported => False | _ => True end).
  { unfold e. rewrite EXE. exact I. }
  destruct (step_stage t p T rest ss f SNot e T ST TD (above_head _ _ _ _ _ ST TD) (DA SNot) (FP SNot) EXS)
    as [F|(f1 & pr & ss1 & EX & I1 & ST1 & CS1)]; [left; exact F|].
  clear EXS. unfold e in EX. rewrite EXE in EX. fold e in EX. inversion EX; subst f1 pr; clear EX.
  destruct (fold_push_todo l (push_todo (set_todo f T) SDone e)) as [FT FV].
  cbn [todo vals push_todo set_todo] in FT, FV.
  destruct (sub_seq t p (rev l) [(SDone, e)] T rest ss1 _ Cl ST1 FT)
    as [F|(j2 & ss2 & f2 & W & I2 & ST2 & TD2 & V2 & LW & CS2)]; [left; eapply reach_path; eauto|].
  rewrite FV in V2. rewrite count_used_rev, (forallb_count l Ul) in LW.
  apply (conclude t p T rest ss _ ss2 f2 SDone e (vals f) (callers ss)
           (ipath_trans _ _ _ _ _ _ _ _ I1 I2) ST2 TD2); [congruence|].
  apply (step_final t p ss2 f2 rest SDone e T (vals f) ST2 TD2 (DA SDone)); [intros HE; apply (HU HE)|].
  unfold e. rewrite EXE. cbn [vals set_todo]. rewrite V2, <- LW, pop_n_app.
  rewrite push_val_if_todo. split; [reflexivity|]. fold e. rewrite EU.
  apply (pushed_push_val_if (used m) (set_vals (set_todo f2 T) (vals f))).
Qed.

Lemma c_list m l : scontract t p (rev l) -> forallb eused l = true -> econtract t p (EList m l).
Proof.
  apply (c_listlike EList VList m l); try reflexivity; try exact I.
Qed.

Lemma c_tuple m l : scontract t p (rev l) -> forallb eused l = true -> econtract t p (ETuple m l).
Proof.
  apply (c_listlike ETuple VTuple m l); try reflexivity; try exact I.
Qed.

Lemma s_nil : scontract t p [].
Proof.
  intros ss f rest T ST TD. right. exists 0, ss. split; [constructor|].
  exists f, []. repeat split; auto.
Qed.

Lemma s_cons x l : econtract t p x -> epos x <> t -> scontract t p l -> scontract t p (x :: l).
Proof.
  intros Cx Nx Cl ss f rest T ST TD. cbn [map app] in TD.
  destruct (sub_eval t p x (map (fun e => (SNot, e)) l) T rest ss f Cx Nx ST TD)
    as [F|(j1 & ss1 & f1 & I1 & ST1 & TD1 & PU1 & CS1)]; [left; exact F|].
  destruct (Cl ss1 f1 rest T ST1 TD1) as [F|(j2 & ss2 & I2 & f2 & W & ST2 & TD2 & V2 & LW & CS2)];
    [left; eapply reach_path; eauto|].
  right. exists (j1 + j2), ss2. split; [eapply ipath_trans; eauto|].
  rewrite count_used_cons. unfold pushed in PU1. destruct (eused x).
  - destruct PU1 as [v PV]. exists f2, (W ++ [v]). repeat split; auto; try congruence.
    + rewrite V2, PV, <- app_assoc. reflexivity.
    + rewrite app_length. cbn [length]. lia.
  - exists f2, W. repeat split; auto; congruence.
Qed.

(* every case body satisfies the sequence contract and the block flags *)
Definition ccontract (u : bool) (cases : list (ident * (N * N) * option ident * list expr)) : Prop :=
  forall body, In body (map snd cases) -> scontract t p body /\ block_flags u body = true.

Lemma match_cases_shape cases : forall f u sp ty idx pl,
  match match_cases p f u sp ty idx pl cases with
  | XOk f' pr => exists body g, In body (map snd cases) /\ f' = eval_block g u body /\
                                todo g = todo f /\ vals g = vals f
  | XErr _ => True
  | _ => False
  end.
Proof.
  induction cases as [|[[[pat ppos] binder] body] cs IH]; intros f u sp ty idx pl; cbn [match_cases]; [exact I|].
  assert (HIT : forall g, todo g = todo f -> vals g = vals f ->
                exists body0 g0, In body0 (map snd (((pat, ppos, binder), body) :: cs)) /\
                                 eval_block g u body = eval_block g0 u body0 /\ todo g0 = todo f /\ vals g0 = vals f).
  { intros g TG VG. exists body, g. split; [now left|auto]. }
  assert (REC : match match_cases p f u sp ty idx pl cs with
                | XOk f' pr => exists body0 g, In body0 (map snd (((pat, ppos, binder), body) :: cs)) /\ f' = eval_block g u body0 /\
                                               todo g = todo f /\ vals g = vals f
                | XErr _ => True | _ => False end).
  { specialize (IH f u sp ty idx pl). destruct (match_cases p f u sp ty idx pl cs); auto.
    destruct IH as (b0 & g & IN & E & TG & VG). exists b0, g. split; [now right|auto]. }
  destruct (N.eqb pat underscore); [apply HIT; reflexivity|].
  destruct (get_var p f pat) as [pv|]; [|exact I].
  destruct pv; try exact I;
    (destruct (N.eqb ty ty0 && N.eqb idx idx0); [|exact REC]);
    destruct pl, binder; try exact REC; apply HIT; reflexivity.
Qed.

Lemma c_match m sc cases :
  econtract t p sc -> eused sc = true -> epos sc <> t -> ccontract (used m) cases ->
  econtract t p (EMatch m sc cases).
Proof.
  intros Cc Uc Nc CC. apply econtract_unfold. intros HU ss f rest T ST TD.
  set (e := EMatch m sc cases) in *.
  destruct (step_stage t p T rest ss f SNot e T ST TD (above_head _ _ _ _ _ ST TD) eq_refl eq_refl I)
    as [F|(f1 & pr & ss1 & EX & I1 & ST1 & CS1)]; [left; exact F|].
  cbn [exec e] in EX. inversion EX; subst f1 pr; clear EX.
  destruct (sub_eval t p sc [(SPart BWill, e)] T rest ss1 _ Cc Nc ST1 eq_refl)
    as [F|(j2 & ss2 & f2 & I2 & ST2 & TD2 & PU2 & CS2)]; [left; eapply reach_path; eauto|].
  rewrite Uc in PU2. destruct PU2 as [sv VL]. cbn [vals push_todo set_todo] in VL.
  pose proof (ipath_trans _ _ _ _ _ _ _ _ I1 I2) as I12.
  assert (EXS : match exec p (set_todo f2 T) (SPart BWill) e with XCall _ _ | XUnsupported => False | _ => True end).
  { cbn [exec e]. unfold pop_val. cbn [vals push_todo set_todo]. rewrite VL.
    destruct sv; try exact I.
    match goal with |- context [match_cases p ?g ?u ?sp ?ty ?ix ?pl cases] =>
      pose proof (match_cases_shape cases g u sp ty ix pl) as MS; destruct (match_cases p g u sp ty ix pl cases); auto end. }
  destruct (step_stage t p T rest ss2 f2 (SPart BWill) e T ST2 TD2 (above_head _ _ _ _ _ ST2 TD2) eq_refl eq_refl EXS)
    as [F|(f3 & pr & ss3 & EX & I3 & ST3 & CS3)]; [left; eapply reach_path; eauto|].
  clear EXS. cbn [exec e] in EX. unfold pop_val in EX. cbn [vals push_todo set_todo] in EX. rewrite VL in EX.
  pose proof (ipath_trans _ _ _ _ _ _ _ _ I12 I3) as I123.
  destruct sv; try discriminate.
  match type of EX with match_cases p ?g ?u ?sp ?ty0 ?ix ?pl cases = _ =>
    pose proof (match_cases_shape cases g u sp ty0 ix pl) as MS; rewrite EX in MS end.
  destruct MS as (body & g & IN & -> & TG & VG). cbn [todo vals set_vals push_todo set_todo] in TG, VG.
  destruct (CC body IN) as [Cb BF].
  pose proof (eval_block_shape g (used m) body) as (ET & EV & _). rewrite TG in ET. rewrite VG in EV.
  destruct (block_stage body (used m) e T rest ss3 _ (vals f) Cb BF ST3 ET EV)
    as [F|(j4 & ss4 & f4 & I4 & ST4 & TD4 & PU4 & CS4)]; [left; eapply reach_path; eauto|].
  apply (conclude t p T rest ss _ ss4 f4 SDone e (vals f) (callers ss)
           (ipath_trans _ _ _ _ _ _ _ _ I123 I4) ST4 TD4); [congruence|].
  apply (step_final t p ss4 f4 rest SDone e T (vals f) ST4 TD4 eq_refl); [intros HE; apply (HU HE)|].
  cbn [exec e]. destruct (pop_block (set_todo f4 T)) as [f5|] eqn:PB; [|exact I].
  apply pop_block_vals in PB. destruct PB as [PV PT]. cbn [set_todo vals todo] in PV, PT.
  split; [exact PT|]. rewrite PV. exact PU4.
Qed.

Lemma cc_nil u : ccontract u [].
Proof. intros body []. Qed.

Lemma cc_cons u pat body cs : scontract t p body -> block_flags u body = true -> ccontract u cs ->
  ccontract u ((pat, body) :: cs).
Proof. intros Cb BF CC b [<-|IN]; [split; assumption|now apply CC]. Qed.

Theorem frag_contracts :
  (forall e, frag t e -> econtract t p e) /\ (forall L, fseq t L -> scontract t p L) /\
  (forall u cases, fcases t u cases -> ccontract u cases).
Proof.
  apply frag_fseq_ind; intros.
  - apply c_int.
  - apply c_str.
  - apply c_var.
  - apply c_fun.
  - apply c_bin; assumption.
  - apply c_paren; assumption.
  - apply c_let; assumption.
  - apply c_assign; assumption.
  - apply c_upd; assumption.
  - apply c_if; assumption.
  - apply c_ifelse; assumption.
  - apply c_list; assumption.
  - apply c_tuple; assumption.
  - apply c_match; assumption.
  - apply s_nil.
  - apply s_cons; assumption.
  - apply cc_nil.
  - apply cc_cons; assumption.
Qed.

End Contracts2.
(* ------------------------------------------------------------------------ *)
(* 4. The theorems about eval-up-to.                                          *)

Definition above_state (T : cont) (rest : list frame) (s : state) : Prop :=
  exists f X, stack s = f :: rest /\ todo f = X ++ T /\ X <> [].

Lemma iter_stop_prefix t p : forall a b ss y,
  iter_stop t p b ss = Some y -> a <= b -> exists x, iter_stop t p a ss = Some x /\ iter_stop t p (b - a) x = Some y.
Proof.
  intros a b ss y H L. replace b with (a + (b - a)) in H by lia. rewrite iter_stop_add in H.
  destruct (iter_stop t p a ss) as [x|]; [|discriminate]. exists x. split; [reflexivity|exact H].
Qed.

Lemma iter_stop_continues t p a b ss x y :
  iter_stop t p a ss = Some x -> iter_stop t p b ss = Some y -> a < b -> exists z, step_stop t p x = ONext z.
Proof.
  intros Ha Hb L. destruct (iter_stop_prefix t p a b ss y Hb) as (x' & Hx & Hr); [lia|].
  rewrite Ha in Hx. inversion Hx; subst x'. destruct (b - a) as [|k] eqn:E; [lia|].
  cbn [iter_stop] in Hr. destruct (step_stop t p x); try discriminate. eauto.
Qed.

Lemma step_stop_entry_stop t p ss f rest x T' v ss' :
  stack (base ss) = f :: rest -> todo f = x :: T' -> step_stop t p ss = OStopped v ss' ->
  step p (base ss) = Next (base ss').
Proof.
  intros ST TD. unfold step_stop, step. rewrite ST, TD. destruct x as [es e].
  destruct (interrupted (base ss)); [discriminate|].
  destruct (opt_le _ _); [discriminate|]. destruct (opt_lt _ _); [discriminate|].
  destruct (exec p (set_todo f T') es e) as [f' pr|f' callee|er| |]; try discriminate.
  unfold after_ok. destruct (pos_eqb (epos e) t); [|discriminate].
  destruct (done_after es e); [intros H; inversion H; reflexivity|].
  destruct (is_for_part es e); [intros H; inversion H; reflexivity|discriminate].
Qed.

Lemma bad_not_next t p x z : bad (step_stop t p x) -> step_stop t p x = ONext z -> False.
Proof. intros B E. rewrite E in B. exact B. Qed.

(* An evaluation of a target expression in the fragment either fails or ends
   in the stop, exactly when the continuation is back to T with one more value. *)
Theorem target_evaluation t p e ss f rest T :
  frag t e -> epos e = t -> eused e = true -> not_paren e ->
  stack (base ss) = f :: rest -> todo f = (SNot, e) :: T ->
  reach t p T rest ss (FinFail t p T rest) \/
  reach t p T rest ss (FinStop t p T rest (callers ss) (vals f)).
Proof.
  intros FR PE UE NP ST TD.
  destruct (proj1 (frag_contracts t p) e FR (fun _ => conj UE NP) ss f rest T ST TD) as [F|[[NE _]|[_ S]]]; auto.
  contradiction.
Qed.

Theorem stop_at_first_value t p fuel ss0 n v ssf m s_m e f rest T :
  run_stop t p fuel 0 ss0 = TStopped n v ssf ->
  plain_iter p m (base ss0) = Some s_m -> m < n ->
  stack s_m = f :: rest -> todo f = (SNot, e) :: T ->
  epos e = t -> eused e = true -> not_paren e -> frag t e ->
  exists f',
    stack (base ssf) = f' :: rest /\ todo f' = T /\ vals f' = v :: vals f /\
    plain_iter p n (base ss0) = Some (base ssf) /\
    (forall i, m <= i < n -> exists si, plain_iter p i (base ss0) = Some si /\ above_state T rest si).
Proof.
  intros RUN PM LT ST TD PE UE NP FR.
  apply run_stop_stopped in RUN. destruct RUN as (j & spre & -> & IJ & SJ). cbn [Nat.add] in *.
  destruct (iter_stop_prefix t p m j ss0 spre IJ) as (sm & IM & IR); [lia|].
  pose proof (iter_stop_plain _ _ _ _ _ IM) as PM'. rewrite PM in PM'. inversion PM'; subst s_m. clear PM'.
  destruct (target_evaluation t p e sm f rest T FR PE UE NP ST TD) as [(j' & x & IP & A & B)|(j' & x & IP & A & (v' & ss' & f' & SX & ST' & TD' & VV & CS))].
  - (* the evaluation fails: impossible, the run went on and stopped *)
    exfalso. pose proof (ipath_iter _ _ _ _ _ _ IP) as IX.
    destruct (Nat.lt_trichotomy j' (j - m)) as [L|[E|G]].
    + destruct (iter_stop_continues t p j' (j - m) sm x spre IX IR L) as (z & Z). eapply bad_not_next; eauto.
    + subst j'. rewrite IR in IX. inversion IX; subst x. rewrite SJ in B. exact B.
    + destruct (iter_stop_continues t p (j - m) j' sm spre x IR IX G) as (z & Z). congruence.
  - pose proof (ipath_iter _ _ _ _ _ _ IP) as IX.
    assert (E : j' = j - m).
    { destruct (Nat.lt_trichotomy j' (j - m)) as [L|[E|G]]; [|exact E|].
      - destruct (iter_stop_continues t p j' (j - m) sm x spre IX IR L) as (z & Z). congruence.
      - destruct (iter_stop_continues t p (j - m) j' sm spre x IR IX G) as (z & Z). congruence. }
    subst j'. rewrite IR in IX. inversion IX; subst x. rewrite SJ in SX. inversion SX; subst v' ss'.
    exists f'. repeat split; auto.
    + destruct A as (fa & X & STa & TDa & NEa). destruct X as [|xa X]; [congruence|].
      pose proof (step_stop_entry_stop t p spre fa rest xa (X ++ T) v ssf STa TDa SJ) as PS.
      pose proof (iter_stop_plain _ _ _ _ _ IJ) as PJ.
      replace (S j) with (j + 1) by lia. clear - PJ PS. revert PJ. generalize (base ss0).
      induction j as [|j IH]; intros s PJ; cbn [plain_iter Nat.add] in *.
      * inversion PJ; subst. now rewrite PS.
      * destruct (step p s); try discriminate. now apply IH.
    + intros i [Li Ui].
      assert (AI : exists si, iter_stop t p (i - m) sm = Some si /\ above T rest si).
      { destruct (Nat.eq_dec (i - m) (j - m)) as [E|NE].
        - rewrite E. exists spre. split; [exact IR|exact A].
        - apply (ipath_inside _ _ _ _ _ _ IP). lia. }
      destruct AI as (si & ISI & ASI). exists (base si). split; [|exact ASI].
      replace i with (m + (i - m)) by lia.
      assert (IT : iter_stop t p (m + (i - m)) ss0 = Some si) by (rewrite iter_stop_add, IM; exact ISI).
      now apply iter_stop_plain in IT.
Qed.


(* ------------------------------------------------------------------------ *)
(* 5. Examples: the hypotheses are satisfiable; the parenthesis defect.        *)

Definition mm (u : bool) (a b : N) : meta := {| used := u; pstart := a; pend := b |}.

(* { let y = 2   let z = (y + 1)   z * 2 }   with the spans the parser gives *)
Definition ex_bin : expr := EBin (mm true 29 34) (BInt OAdd) (EVar (mm true 29 30) 10%N) (EInt (mm true 33 34) 1%Z).
Definition ex_prog : prog := {| globals := []; funs := [] |}.
Definition ex_exprs : list expr :=
  [ ELet (mm false 6 15) 10%N (EInt (mm true 14 15) 2%Z);
    ELet (mm false 20 35) 11%N (EParen (mm true 28 35) ex_bin);
    EBin (mm true 40 45) (BInt OMul) (EVar (mm true 40 41) 11%N) (EInt (mm true 44 45) 2%Z) ].

Lemma ex_frag : frag (29, 34)%N ex_bin.
Proof. unfold ex_bin. apply F_Bin; try constructor; try reflexivity; cbn; intros H; discriminate H. Qed.

Lemma ex_hypotheses :
  exists n ssf s_m f rest T,
    run_stop (29, 34)%N ex_prog 100 0 (mkS (init_state ex_exprs None None) []) = TStopped n (VInt 3) ssf /\
    plain_iter ex_prog 5 (init_state ex_exprs None None) = Some s_m /\ 5 < n /\
    stack s_m = f :: rest /\ todo f = (SNot, ex_bin) :: T /\
    epos ex_bin = (29, 34)%N /\ eused ex_bin = true /\ not_paren ex_bin /\ frag (29, 34)%N ex_bin.
Proof.
  eexists. eexists. eexists. eexists. eexists. eexists.
  split; [vm_compute; reflexivity|].
  split; [vm_compute; reflexivity|].
  split; [vm_compute; lia|].
  split; [reflexivity|]. split; [reflexivity|].
  split; [reflexivity|]. split; [reflexivity|]. split; [exact I|exact ex_frag].
Qed.

(* eval-up-to on `(y + 1)`: the unrepaired code never stops at the parenthesised
   expression and reports the value of the whole block (6); looking through the
   parentheses reports 3. *)
Lemma ex_paren_unfixed : eval_up_to false ex_prog ex_exprs (28, 35)%N None None 100 = UValue (VInt 6) 0.
Proof. vm_compute. reflexivity. Qed.

Lemma ex_paren_fixed : exists n, eval_up_to true ex_prog ex_exprs (28, 35)%N None None 100 = UValue (VInt 3) n.
Proof. eexists. vm_compute. reflexivity. Qed.
