(* Eval-up-to from the initial state of a program, and call targets
   (MachineStop.v; continues MachineStopProps.v). *)
From Coq Require Import ZArith NArith Bool List Lia.
From Garden Require Import Base.Int64 Arith gen.Tables Machine MachineInv MachineStop MachineStopProps.
Import ListNotations.
Open Scope nat_scope.

(* ------------------------------------------------------------------------ *)
(* 1. Where non-fresh continuation entries come from.                         *)

(* every entry of `new` that is not NotEvaluated is an entry for e itself or
   was already a non-fresh entry of `old` *)
Definition nf_sub (old new : cont) (e : expr) : Prop :=
  forall es' e', In (es', e') new -> es' <> SNot ->
    e' = e \/ exists es'', In (es'', e') old /\ es'' <> SNot.

Lemma nf_refl old e : nf_sub old old e.
Proof. intros es' e' IN NS. right. eauto. Qed.

Lemma nf_cons_self old new e s : nf_sub old new e -> nf_sub old ((s, e) :: new) e.
Proof. intros H es' e' [E|IN] NS; [inversion E; now left|eauto]. Qed.

Lemma nf_cons_fresh old new e x : nf_sub old new e -> nf_sub old ((SNot, x) :: new) e.
Proof. intros H es' e' [E|IN] NS; [inversion E; congruence|eauto]. Qed.

Lemma nf_app_fresh old new e l : nf_sub old new e -> nf_sub old (map (fun x => (SNot, x)) l ++ new) e.
Proof.
  intros H es' e' IN NS. apply in_app_iff in IN. destruct IN as [IN|IN]; [|eauto].
  apply in_map_iff in IN. destruct IN as (x & E & _). inversion E; congruence.
Qed.

Lemma eval_block_todo_eq f u body :
  todo (eval_block f u body) = map (fun e => (SNot, e)) body ++ todo f.
Proof. unfold eval_block. destruct body; rewrite ?push_val_if_todo; reflexivity. Qed.

Lemma fold_push_nf items : forall f old e,
  nf_sub old (todo f) e -> nf_sub old (todo (fold_left (fun acc it => push_todo acc SNot it) items f)) e.
Proof.
  induction items as [|i items IH]; intros f old e H; cbn [fold_left]; [exact H|].
  apply IH. cbn [push_todo todo]. now apply nf_cons_fresh.
Qed.

Lemma break_unwind_nf e : forall t bs vs t' bs' vs' lu,
  break_unwind t bs vs = Some (t', bs', vs', lu) -> nf_sub t t' e.
Proof.
  induction t as [|[s x] t IH]; intros bs vs t' bs' vs' lu H; cbn [break_unwind] in H.
  - inversion H; subst. apply nf_refl.
  - destruct (is_running_loop s x) eqn:RL.
    + assert (NS : s <> SNot) by (destruct s; [discriminate|congruence|congruence]).
      assert (G : t' = (SDone, x) :: t -> nf_sub ((s, x) :: t) t' e).
      { intros ->. intros es' e' [E|IN] N1; right.
        - inversion E; subst. exists s. split; [now left|exact NS].
        - exists es'. split; [now right|exact N1]. }
      destruct x; try discriminate;
        repeat break_match H; inversion H; subst; apply G; reflexivity.
    + assert (G : nf_sub t t' e -> nf_sub ((s, x) :: t) t' e).
      { intros K es' e' IN N1. destruct (K es' e' IN N1) as [->|(es'' & I2 & N2)]; [now left|].
        right. exists es''. split; [now right|exact N2]. }
      destruct (entry_pops s x).
      * destruct (pop_block_list bs); [|discriminate]. apply G. eapply IH; eauto.
      * apply G. eapply IH; eauto.
Qed.

Lemma continue_unwind_nf e : forall t bs t' bs',
  continue_unwind t bs = Some (t', bs') -> nf_sub t t' e.
Proof.
  induction t as [|[s x] t IH]; intros bs t' bs' H; cbn [continue_unwind] in H.
  - inversion H; subst. apply nf_refl.
  - destruct (is_running_loop s x).
    + inversion H; subst. apply nf_refl.
    + assert (G : nf_sub t t' e -> nf_sub ((s, x) :: t) t' e).
      { intros K es' e' IN N1. destruct (K es' e' IN N1) as [->|(es'' & I2 & N2)]; [now left|].
        right. exists es''. split; [now right|exact N2]. }
      destruct (entry_pops s x).
      * destruct (pop_block_list bs); [|discriminate]. apply G. eapply IH; eauto.
      * apply G. eapply IH; eauto.
Qed.

Lemma match_cases_nf p e cases : forall f u sp ty idx pl f' out,
  match_cases p f u sp ty idx pl cases = XOk f' out -> nf_sub (todo f) (todo f') e.
Proof.
  induction cases as [|[[[pat ppos] binder] body] cs IH]; intros f u sp ty idx pl f' out H;
    cbn [match_cases] in H; [discriminate|].
  assert (EB : forall g b, todo g = todo f -> nf_sub (todo f) (todo (eval_block g u b)) e).
  { intros g b E. rewrite eval_block_todo_eq, E. apply nf_app_fresh, nf_refl. }
  destruct (N.eqb pat underscore); [inversion H; subst; now apply EB|].
  destruct (get_var p f pat) as [pv|]; [|discriminate].
  destruct pv; try discriminate;
    destruct (N.eqb ty ty0 && N.eqb idx idx0); try (eapply IH; eassumption);
    destruct pl, binder; try (eapply IH; eassumption); inversion H; subst; now apply EB.
Qed.

Ltac nf_done :=
  rewrite ?push_val_if_todo, ?eval_block_todo_eq;
  cbn [todo push_todo push_val set_vals set_blocks set_todo set_nextb];
  repeat (first [apply nf_cons_self | apply nf_cons_fresh | apply nf_app_fresh | apply fold_push_nf]);
  cbn [todo push_todo push_val set_vals set_blocks set_todo set_nextb];
  repeat (first [apply nf_cons_self | apply nf_cons_fresh | apply nf_app_fresh]);
  try apply nf_refl.

Lemma nf_nil old e : nf_sub old [] e.
Proof. intros es' e' []. Qed.

Lemma exec_nf_ok p f es e f' out :
  exec p f es e = XOk f' out -> nf_sub (todo f) (todo f') e.
Proof.
  intros H.
  destruct e; destruct es as [|[]|]; cbn [exec] in H;
    try discriminate;
    try (inversion H; subst; nf_done; fail);
    try (apply eval_binop_frame in H; destruct H as [_ ->]; apply nf_refl);
    try (apply eval_call_ok in H; destruct H as [_ ->]; apply nf_refl);
    unfold pop_val, pop_block in H; cbn [todo blocks vals push_todo push_val set_vals set_blocks set_todo set_nextb] in H.
  all: try (repeat break_match H; inversion H; subst; nf_done; fail).
  all: try (destruct (break_unwind (todo f) (blocks f) (vals f)) as [[[[t0 bs0] vs0] lu0]|] eqn:E; [|discriminate];
            apply (break_unwind_nf e0) in E || idtac).
  all: try (match goal with E : break_unwind _ _ _ = Some _ |- nf_sub _ _ ?ee =>
              apply (break_unwind_nf ee) in E; inversion H; subst; rewrite push_val_if_todo; exact E end).
  all: try (destruct (continue_unwind (todo f) (blocks f)) as [[t0 bs0]|] eqn:E; [|discriminate];
            match goal with |- nf_sub _ _ ?ee => apply (continue_unwind_nf ee) in E; inversion H; subst; exact E end).
  all: try (destruct (return_unwind (todo f) (blocks f)) as [bs0|] eqn:E; [|discriminate];
            inversion H; subst; apply nf_nil).
  all: try (destruct (vals f) as [|v vs]; try discriminate; destruct v; try discriminate;
            match goal with |- nf_sub _ _ ?ee => apply (match_cases_nf _ ee) in H end;
            cbn [todo set_vals push_todo] in H;
            intros es' e' IN NS; destruct (H es' e' IN NS) as [->|(es'' & [E|I2] & N2)];
            [now left|inversion E; now left|right; eauto]).
Qed.

Definition all_fresh (t : cont) : Prop := forall es' e', In (es', e') t -> es' = SNot.

Lemma fresh_map l : all_fresh (map (fun e => (SNot, e)) l).
Proof. intros es' e' IN. apply in_map_iff in IN. destruct IN as (x & E & _). now inversion E. Qed.

Lemma eval_call_call_nf p f m args f' callee :
  eval_call p f m args = XCall f' callee -> todo f' = todo f /\ all_fresh (todo callee).
Proof.
  unfold eval_call. intros H.
  repeat break_match H; inversion H; subst; cbn [todo set_vals new_frame]; split; try reflexivity; apply fresh_map.
Qed.

Lemma exec_nf_call p f es e f' callee :
  exec p f es e = XCall f' callee -> nf_sub (todo f) (todo f') e /\ all_fresh (todo callee).
Proof.
  intros H.
  destruct e; destruct es as [|[]|]; cbn [exec] in H;
    try discriminate;
    try (exfalso; eapply eval_binop_not_call; eassumption);
    try (apply eval_call_call_nf in H; destruct H as [-> ?]; split; [apply nf_refl|assumption]);
    unfold pop_val, pop_block in H; cbn [todo blocks vals push_todo push_val set_vals set_blocks set_todo set_nextb] in H.
  all: try (repeat break_match H; discriminate).
  all: destruct (vals f) as [|v vs]; try discriminate; destruct v; try discriminate;
    exfalso; eapply match_cases_not_call; eassumption.
Qed.

(* ------------------------------------------------------------------------ *)
(* 2. History: every non-fresh entry of a reachable state belongs to an
      expression whose evaluation began (entry (NotEvaluated, e) on top of the
      current frame) at an earlier step of the run.                           *)

Definition top_entry (s : state) : option (estate * expr) :=
  match stack s with
  | f :: _ => match todo f with x :: _ => Some x | [] => None end
  | [] => None
  end.

Definition began (p : prog) (s0 : state) (i : nat) (e : expr) : Prop :=
  exists m s_m, m < i /\ plain_iter p m s0 = Some s_m /\ top_entry s_m = Some (SNot, e).

Definition hist_inv (p : prog) (s0 : state) (i : nat) (s : state) : Prop :=
  forall f es e, In f (stack s) -> In (es, e) (todo f) -> es <> SNot -> began p s0 i e.

Lemma began_mono p s0 i j e : began p s0 i e -> i <= j -> began p s0 j e.
Proof. intros (m & s_m & L & P & T) LE. exists m, s_m. split; [lia|auto]. Qed.

Lemma plain_iter_snoc p : forall n s0 s s', plain_iter p n s0 = Some s -> step p s = Next s' ->
  plain_iter p (S n) s0 = Some s'.
Proof.
  induction n as [|n IH]; intros s0 s s' H ST; cbn [plain_iter] in *.
  - inversion H; subst. now rewrite ST.
  - destruct (step p s0) eqn:E; try discriminate. eapply IH; eauto.
Qed.

Lemma hist_step p s0 i s s' :
  plain_iter p i s0 = Some s -> hist_inv p s0 i s -> step p s = Next s' -> hist_inv p s0 (S i) s'.
Proof.
  intros PI HI ST. unfold step in ST.
  destruct (stack s) as [|f rest] eqn:ES; [discriminate|].
  destruct (todo f) as [|[es e] t] eqn:ET.
  - (* frame return *)
    destruct rest as [|caller rest']; [destruct (vals f); discriminate|].
    destruct (vals f) as [|v vs]; [discriminate|]. inversion ST; subst. cbn [stack with_stack].
    intros g es1 e1 [<-|IN] I2 NS.
    + rewrite push_val_if_todo in I2. eapply began_mono; [eapply (HI caller); eauto|lia].
      rewrite ES. right. now left.
    + eapply began_mono; [eapply (HI g); eauto|lia]. rewrite ES. right. now right.
  - destruct (interrupted s); [discriminate|].
    destruct (opt_le (tick_limit s) (ticks s + 1)); [discriminate|].
    destruct (opt_lt (stack_limit s) (N.of_nat (length (f :: rest)))); [discriminate|].
    assert (TOP : top_entry s = Some (es, e)) by (unfold top_entry; rewrite ES, ET; reflexivity).
    assert (SELF : began p s0 (S i) e).
    { destruct es.
      - exists i, s. split; [lia|]. split; assumption.
      - eapply began_mono; [eapply (HI f); [rewrite ES; now left|rewrite ET; now left|discriminate]|lia].
      - eapply began_mono; [eapply (HI f); [rewrite ES; now left|rewrite ET; now left|discriminate]|lia]. }
    assert (OLD : forall f', nf_sub t (todo f') e -> forall es1 e1, In (es1, e1) (todo f') -> es1 <> SNot -> began p s0 (S i) e1).
    { intros f' NF es1 e1 I1 N1. destruct (NF es1 e1 I1 N1) as [->|(es2 & I2 & N2)]; [exact SELF|].
      eapply began_mono; [eapply (HI f); [rewrite ES; now left|rewrite ET; right; exact I2|exact N2]|lia]. }
    assert (REST : forall g es1 e1, In g rest -> In (es1, e1) (todo g) -> es1 <> SNot -> began p s0 (S i) e1).
    { intros g es1 e1 IG I1 N1. eapply began_mono; [eapply (HI g); eauto|lia]. rewrite ES. now right. }
    destruct (exec p (set_todo f t) es e) as [f' pr|f' callee| | |] eqn:EX; try discriminate.
    + inversion ST; subst. cbn [stack with_stack]. apply exec_nf_ok in EX. cbn [todo set_todo] in EX.
      intros g es1 e1 [<-|IN] I1 N1; [eapply OLD; eauto|eapply REST; eauto].
    + inversion ST; subst. cbn [stack with_stack]. apply exec_nf_call in EX. destruct EX as [NF FR]. cbn [todo set_todo] in NF.
      intros g es1 e1 [<-|[<-|IN]] I1 N1.
      * exfalso. apply N1. eapply FR; eauto.
      * eapply OLD; eauto.
      * eapply REST; eauto.
Qed.

Lemma hist_run p s0 : (forall f, In f (stack s0) -> all_fresh (todo f)) ->
  forall i s, plain_iter p i s0 = Some s -> hist_inv p s0 i s.
Proof.
  intros FR. induction i as [|i IH]; intros s PI.
  - cbn in PI. inversion PI; subst. intros f es e IF IE NS. exfalso. apply NS. eapply FR; eauto.
  - (* split the last step off *)
    assert (EX : exists s1, plain_iter p i s0 = Some s1 /\ step p s1 = Next s).
    { clear IH FR. revert s0 PI. induction i as [|i IH]; intros s0 PI; cbn [plain_iter] in *.
      - destruct (step p s0) eqn:E; try discriminate. inversion PI; subst. eauto.
      - destruct (step p s0) eqn:E; try discriminate. destruct (IH _ PI) as (sx & P1 & S1). eauto. }
    destruct EX as (s1 & P1 & S1). eapply hist_step; eauto.
Qed.

(* ------------------------------------------------------------------------ *)
(* 3. From the start of the run: a stop after an expression.                  *)

Definition begins_b (t : N * N) (s : state) : bool :=
  match top_entry s with
  | Some (SNot, e) => pos_eqb (epos e) t
  | _ => false
  end.

Definition begins_at (t : N * N) (p : prog) (s0 : state) (m : nat) : bool :=
  match plain_iter p m s0 with Some s => begins_b t s | None => false end.

Lemma least_true (P : nat -> bool) : forall k, P k = true ->
  exists m, m <= k /\ P m = true /\ forall m', m' < m -> P m' = false.
Proof.
  induction k as [k IH] using lt_wf_ind. intros Pk.
  destruct (existsb P (seq 0 k)) eqn:E.
  - apply existsb_exists in E. destruct E as (j & IN & Pj). apply in_seq in IN.
    destruct (IH j) as (m & L & Pm & MIN); [lia|exact Pj|]. exists m. split; [lia|auto].
  - exists k. split; [lia|]. split; [exact Pk|]. intros m' L.
    destruct (P m') eqn:Pm'; [|reflexivity].
    assert (existsb P (seq 0 k) = true) by (apply existsb_exists; exists m'; split; [apply in_seq; lia|exact Pm']).
    congruence.
Qed.

Lemma entry_stop_shape t p ss f rest es e td v ss' :
  stack (base ss) = f :: rest -> todo f = (es, e) :: td -> step_stop t p ss = OStopped v ss' ->
  epos e = t /\ (es = SNot \/ es <> SNot).
Proof.
  intros ST TD. unfold step_stop. rewrite ST, TD.
  destruct (interrupted (base ss)); [discriminate|].
  destruct (opt_le _ _); [discriminate|]. destruct (opt_lt _ _); [discriminate|].
  destruct (exec p (set_todo f td) es e); try discriminate.
  unfold after_ok. destruct (pos_eqb (epos e) t) eqn:PE; [|discriminate].
  intros _. split; [now apply pos_eqb_eq|]. destruct es; [now left|right; discriminate|right; discriminate].
Qed.

(* If the run from a fresh start stops after an expression (not at a call's
   return), an evaluation of an expression with the target span began at some
   earlier step; m is the FIRST step at which one begins. *)
Theorem entry_stop_began t p fuel ss0 n v ssf spre :
  (forall f, In f (stack (base ss0)) -> all_fresh (todo f)) ->
  run_stop t p fuel 0 ss0 = TStopped n v ssf ->
  iter_stop t p (n - 1) ss0 = Some spre -> top_entry (base spre) <> None ->
  exists m s_m f rest e T,
    m < n /\ plain_iter p m (base ss0) = Some s_m /\
    stack s_m = f :: rest /\ todo f = (SNot, e) :: T /\ epos e = t /\
    (forall m', m' < m -> begins_at t p (base ss0) m' = false).
Proof.
  intros FR RUN IS TE.
  apply run_stop_stopped in RUN. destruct RUN as (j & spre' & -> & IJ & SJ). cbn [Nat.add] in *.
  replace (S j - 1) with j in IS by lia. rewrite IJ in IS. inversion IS; subst spre'. clear IS.
  pose proof (iter_stop_plain _ _ _ _ _ IJ) as PJ.
  unfold top_entry in TE. destruct (stack (base spre)) as [|f rest] eqn:ST; [congruence|].
  destruct (todo f) as [|[es e] td] eqn:TD; [congruence|]. clear TE.
  destruct (entry_stop_shape t p spre f rest es e td v ssf ST TD SJ) as [PE ES].
  assert (K : exists k, k <= j /\ begins_at t p (base ss0) k = true).
  { destruct ES as [->|NS].
    - exists j. split; [lia|]. unfold begins_at. rewrite PJ. unfold begins_b, top_entry. rewrite ST, TD.
      now apply pos_eqb_eq.
    - pose proof (hist_run p (base ss0) FR j (base spre) PJ) as HI.
      destruct (HI f es e) as (m & s_m & L & PM & TM); [rewrite ST; now left|rewrite TD; now left|exact NS|].
      exists m. split; [lia|]. unfold begins_at. rewrite PM. unfold begins_b. rewrite TM. now apply pos_eqb_eq. }
  destruct K as (k & LK & BK).
  destruct (least_true (begins_at t p (base ss0)) k BK) as (m & LM & BM & MIN).
  unfold begins_at in BM. destruct (plain_iter p m (base ss0)) as [s_m|] eqn:PM; [|discriminate].
  unfold begins_b, top_entry in BM. destruct (stack s_m) as [|fm restm] eqn:STM; [discriminate|].
  destruct (todo fm) as [|[esm em] Tm] eqn:TDM; [discriminate|]. destruct esm; try discriminate.
  exists m, s_m, fm, restm, em, Tm. apply pos_eqb_eq in BM. repeat split; auto. lia.
Qed.

(* ... and when that expression is in the fragment, the stop is the completion
   of exactly that first-begun evaluation *)
Theorem stop_at_first_value_from_start_entry t p fuel ss0 n v ssf spre :
  (forall f, In f (stack (base ss0)) -> all_fresh (todo f)) ->
  run_stop t p fuel 0 ss0 = TStopped n v ssf ->
  iter_stop t p (n - 1) ss0 = Some spre -> top_entry (base spre) <> None ->
  exists m s_m f rest e T,
    m < n /\ plain_iter p m (base ss0) = Some s_m /\
    stack s_m = f :: rest /\ todo f = (SNot, e) :: T /\ epos e = t /\
    (forall m', m' < m -> begins_at t p (base ss0) m' = false) /\
    (eused e = true -> not_paren e -> frag t e ->
     exists f',
       stack (base ssf) = f' :: rest /\ todo f' = T /\ vals f' = v :: vals f /\
       plain_iter p n (base ss0) = Some (base ssf) /\
       (forall i, m <= i < n -> exists si, plain_iter p i (base ss0) = Some si /\ above_state T rest si)).
Proof.
  intros FR RUN IS TE.
  destruct (entry_stop_began t p fuel ss0 n v ssf spre FR RUN IS TE) as (m & s_m & f & rest & e & T & L & PM & ST & TD & PE & MIN).
  exists m, s_m, f, rest, e, T. repeat split; auto.
  intros UE NP FRG. eapply stop_at_first_value; eauto.
Qed.

(* ------------------------------------------------------------------------ *)
(* 4. Calls: the stop at a call's return.                                     *)

Definition depth (ss : sstate) : nat := length (stack (base ss)).

Inductive step_kind (t : N * N) (p : prog) (ss ss' : sstate) : Prop :=
| K_same f rest f' :
    stack (base ss) = f :: rest -> stack (base ss') = f' :: rest -> callers ss' = callers ss ->
    step_kind t p ss ss'
| K_call f rest es e td f' callee :
    stack (base ss) = f :: rest -> todo f = (es, e) :: td ->
    exec p (set_todo f td) es e = XCall f' callee ->
    stack (base ss') = callee :: f' :: rest -> callers ss' = epos e :: callers ss ->
    step_kind t p ss ss'
| K_ret f caller rest' v :
    stack (base ss) = f :: caller :: rest' -> todo f = [] ->
    stack (base ss') = push_val_if (uses f) caller v :: rest' -> callers ss' = tl (callers ss) ->
    step_kind t p ss ss'.

Lemma step_kinds t p ss ss' : step_stop t p ss = ONext ss' -> step_kind t p ss ss'.
Proof.
  unfold step_stop. destruct (stack (base ss)) as [|f rest] eqn:ST; [discriminate|].
  destruct (todo f) as [|[es e] td] eqn:TD.
  - destruct rest as [|caller rest']; [destruct (vals f); discriminate|].
    destruct (vals f) as [|v vs]; [discriminate|].
    destruct (callers ss) as [|c cs] eqn:CS.
    + intros H. inversion H; subst. eapply K_ret; eauto; cbn; try rewrite CS; reflexivity.
    + destruct (pos_eqb c t); [discriminate|]. intros H. inversion H; subst.
      eapply K_ret; eauto; cbn; try rewrite CS; reflexivity.
  - destruct (interrupted (base ss)); [discriminate|].
    destruct (opt_le _ _); [discriminate|]. destruct (opt_lt _ _); [discriminate|].
    destruct (exec p (set_todo f td) es e) as [f' pr|f' callee|er| |] eqn:EX; try discriminate.
    + unfold after_ok. intros H.
      assert (E : ss' = mkS (with_stack (base ss) (f' :: rest) (ticks (base ss) + 1)%N (pr ++ out (base ss)) false) (callers ss)).
      { destruct (pos_eqb (epos e) t); [|now inversion H].
        destruct (done_after es e); [discriminate|]. destruct (is_for_part es e); [discriminate|]. now inversion H. }
      subst ss'. eapply K_same; eauto; reflexivity.
    + intros H. inversion H; subst. eapply K_call; eauto; reflexivity.
Qed.

Section Run.
Variable t : N * N.
Variable p : prog.
Variable ss0 : sstate.

Definition at_step (i : nat) (s : sstate) : Prop := iter_stop t p i ss0 = Some s.

Lemma at_step_fun i a b : at_step i a -> at_step i b -> a = b.
Proof. unfold at_step. congruence. Qed.

Lemma at_step_S i s : at_step (S i) s -> exists s1, at_step i s1 /\ step_stop t p s1 = ONext s.
Proof.
  unfold at_step. intros H. replace (S i) with (i + 1) in H by lia. rewrite iter_stop_add in H.
  destruct (iter_stop t p i ss0) as [s1|]; [|discriminate]. exists s1. split; [reflexivity|].
  cbn [iter_stop] in H. destruct (step_stop t p s1); try discriminate. now inversion H.
Qed.

Lemma at_step_le i j s : at_step i s -> j <= i -> exists sj, at_step j sj.
Proof.
  intros H L. destruct (iter_stop_prefix t p j i ss0 s H L) as (x & Hx & _). exists x. exact Hx.
Qed.

(* the call that created the current frame *)
Definition opened_by (m i d : nat) : Prop :=
  m < i /\
  (exists sm sm1, at_step m sm /\ at_step (S m) sm1 /\ depth sm1 = d /\
     exists f rest es e td f' callee,
       stack (base sm) = f :: rest /\ todo f = (es, e) :: td /\
       exec p (set_todo f td) es e = XCall f' callee /\
       stack (base sm1) = callee :: f' :: rest /\ callers sm1 = epos e :: callers sm) /\
  (forall j sj, m < j <= i -> at_step j sj -> d <= depth sj).

Lemma last_call : depth ss0 = 1 ->
  forall i si, at_step i si -> 2 <= depth si -> exists m, opened_by m i (depth si).
Proof.
  intros D0. induction i as [i IH] using lt_wf_ind. intros si AI D2.
  destruct i as [|i].
  - unfold at_step in AI. cbn in AI. inversion AI; subst. lia.
  - destruct (at_step_S i si AI) as (s1 & A1 & S1).
    pose proof (step_kinds t p s1 si S1) as K. destruct K as [f rest f' ST ST' CS|f rest es e td f' callee ST TD EX ST' CS|f caller rest' v ST TD ST' CS].
    + (* same depth *)
      assert (DE : depth si = depth s1) by (unfold depth; rewrite ST, ST'; reflexivity).
      destruct (IH i (Nat.lt_succ_diag_r i) s1 A1) as (m & L & C & G); [lia|].
      exists m. split; [lia|]. split; [rewrite DE; exact C|].
      intros j sj [L1 L2] AJ. destruct (Nat.eq_dec j (S i)) as [->|NE].
      * rewrite (at_step_fun _ _ _ AJ AI). lia.
      * rewrite DE. apply (G j sj); [lia|exact AJ].
    + (* this step is the call *)
      exists i. split; [lia|]. split.
      * exists s1, si. repeat split; auto. exists f, rest, es, e, td, f', callee. repeat split; auto.
      * intros j sj [L1 L2] AJ. assert (j = S i) by lia. subst j. rewrite (at_step_fun _ _ _ AJ AI). lia.
    + (* a return: look at the call that opened the returning frame, then at the state before that call *)
      assert (D1 : depth s1 = S (depth si)) by (unfold depth; rewrite ST, ST'; reflexivity).
      destruct (IH i (Nat.lt_succ_diag_r i) s1 A1) as (m1 & L1 & C1 & G1); [lia|].
      destruct C1 as (sm & sm1 & AM & AM1 & DM1 & fm & restm & esm & em & tdm & fm' & calleem & STM & TDM & EXM & STM1 & CSM).
      assert (DM : depth sm = depth si).
      { unfold depth in *. rewrite STM1 in DM1. rewrite STM. cbn [length] in *. lia. }
      destruct (IH m1) with (si := sm) as (m0 & L0 & C0 & G0); [lia|exact AM|lia|].
      exists m0. split; [lia|]. split; [rewrite <- DM; exact C0|].
      intros j sj [La Lb] AJ.
      destruct (le_lt_dec j m1) as [LE|GT].
      * rewrite <- DM. apply (G0 j sj); [lia|exact AJ].
      * destruct (Nat.eq_dec j (S i)) as [->|NE].
        -- rewrite (at_step_fun _ _ _ AJ AI). lia.
        -- assert (S (depth si) <= depth sj); [|lia]. rewrite <- D1. apply (G1 j sj); [lia|exact AJ].
Qed.

(* while the depth stays above a tail of the stack, that tail (and the
   corresponding tail of the caller ids) is untouched *)
Lemma tail_stable tail ctail : forall k a sa X Y,
  at_step a sa -> stack (base sa) = X ++ tail -> callers sa = Y ++ ctail -> length X = S (length Y) ->
  forall sb, at_step (a + k) sb ->
  (forall j sj, a <= j <= a + k -> at_step j sj -> S (length tail) <= depth sj) ->
  exists X' Y', stack (base sb) = X' ++ tail /\ callers sb = Y' ++ ctail /\ length X' = S (length Y').
Proof.
  induction k as [|k IH]; intros a sa X Y AA ST CS LN sb AB DP.
  - rewrite Nat.add_0_r in AB. rewrite (at_step_fun _ _ _ AB AA). eauto.
  - replace (a + S k) with (S (a + k)) in AB by lia.
    destruct (at_step_S _ _ AB) as (s1 & A1 & S1).
    destruct (IH a sa X Y AA ST CS LN s1 A1) as (X1 & Y1 & ST1 & CS1 & LN1).
    { intros j sj [L1 L2] AJ. apply (DP j sj); [lia|exact AJ]. }
    pose proof (step_kinds t p s1 sb S1) as K.
    destruct K as [f rest f' STa STb CSb|f rest es e td f' callee STa TD EX STb CSb|f caller rest' v STa TD STb CSb].
    + destruct X1 as [|x X1]; [cbn in LN1; lia|]. rewrite ST1 in STa. cbn [app] in STa. inversion STa; subst.
      exists (f' :: X1), Y1. rewrite STb, CSb, CS1. repeat split; auto.
    + destruct X1 as [|x X1]; [cbn in LN1; lia|]. rewrite ST1 in STa. cbn [app] in STa. inversion STa; subst.
      exists (callee :: f' :: X1), (epos e :: Y1). rewrite STb, CSb, CS1. cbn [app length] in *. repeat split; auto.
    + destruct X1 as [|x [|x2 X1]]; [cbn in LN1; lia| |].
      * (* the bottom frame above the tail returns: the depth drops below the bound *)
        exfalso. rewrite ST1 in STa. cbn [app] in STa.
        assert (DB : S (length tail) <= depth sb) by (apply (DP (S (a + k)) sb); [lia|exact AB]).
        unfold depth in DB. rewrite STb in DB. inversion STa; subst. cbn [length] in DB. lia.
      * rewrite ST1 in STa. cbn [app] in STa. inversion STa; subst.
        destruct Y1 as [|y Y1]; [cbn in LN1; lia|].
        exists (push_val_if (uses f) caller v :: X1), Y1. rewrite STb, CSb, CS1. cbn [app length tl] in *. repeat split; auto.
Qed.
End Run.

Lemma exec_call_shape p f es e f' callee :
  exec p f es e = XCall f' callee ->
  es = SDone /\ (exists m fe args, e = ECall m fe args /\ uses callee = used m) /\ todo f' = todo f.
Proof.
  intros H.
  destruct e; destruct es as [|[]|]; cbn [exec] in H;
    try discriminate;
    try (exfalso; eapply eval_binop_not_call; eassumption);
    unfold pop_val, pop_block in H; cbn [todo blocks vals push_todo push_val set_vals set_blocks set_todo set_nextb] in H.
  all: try (repeat break_match H; discriminate).
  all: try (destruct (vals f) as [|v vs]; try discriminate; destruct v; try discriminate;
            exfalso; eapply match_cases_not_call; eassumption).
  split; [reflexivity|]. split.
  - exists m, e, args. split; [reflexivity|]. unfold eval_call in H.
    repeat break_match H; inversion H; subst; reflexivity.
  - apply eval_call_call_nf in H. tauto.
Qed.

(* A stop at a call's return is the return of a call whose call expression has
   the target span: the call was made at some earlier step m; from then on
   the callee's frames stay above the caller's frame and the frames below it,
   which are untouched; the stopped value is the value the callee's frame
   returns, and the plain run's next step pushes exactly that value onto the
   caller's frame. *)
Theorem return_stop_is_call_completion t p fuel ss0 n v ssf spre :
  depth ss0 = 1 ->
  run_stop t p fuel 0 ss0 = TStopped n v ssf ->
  iter_stop t p (n - 1) ss0 = Some spre -> top_entry (base spre) = None ->
  exists m sm fm rest e td f' callee fb,
    S m < n /\ iter_stop t p m ss0 = Some sm /\ plain_iter p m (base ss0) = Some (base sm) /\
    stack (base sm) = fm :: rest /\ todo fm = (SDone, e) :: td /\ epos e = t /\
    (exists mm fe args, e = ECall mm fe args /\ uses callee = used mm) /\
    exec p (set_todo fm td) SDone e = XCall f' callee /\ todo f' = td /\
    (forall j, m < j < n -> exists sj X, plain_iter p j (base ss0) = Some sj /\ stack sj = X ++ f' :: rest /\ X <> []) /\
    stack (base spre) = fb :: f' :: rest /\ todo fb = [] /\ (exists vs, vals fb = v :: vs) /\
    stack (base ssf) = f' :: rest /\
    (exists s_n, plain_iter p n (base ss0) = Some s_n /\ stack s_n = push_val_if (uses fb) f' v :: rest).
Proof.
  intros D0 RUN IS TE.
  apply run_stop_stopped in RUN. destruct RUN as (j & spre' & -> & IJ & SJ). cbn [Nat.add] in *.
  replace (S j - 1) with j in IS by lia. rewrite IJ in IS. inversion IS; subst spre'. clear IS.
  pose proof (iter_stop_plain _ _ _ _ _ IJ) as PJ.
  (* shape of the stopping step *)
  pose proof SJ as SJ0. unfold step_stop in SJ. unfold top_entry in TE.
  destruct (stack (base spre)) as [|fb rest0] eqn:ST; [discriminate|].
  destruct (todo fb) as [|x td0] eqn:TDB; [|congruence]. clear TE.
  destruct rest0 as [|caller rest']; [destruct (vals fb); discriminate|].
  destruct (vals fb) as [|v0 vs0] eqn:VB; [discriminate|].
  destruct (callers spre) as [|c cs] eqn:CSP; [discriminate|].
  destruct (pos_eqb c t) eqn:PC; [|discriminate]. inversion SJ; subst v0 ssf. clear SJ.
  apply pos_eqb_eq in PC.
  assert (D2 : 2 <= depth spre) by (unfold depth; rewrite ST; cbn; lia).
  destruct (last_call t p ss0 D0 j spre IJ D2) as (m & LM & C & G).
  destruct C as (sm & sm1 & AM & AM1 & DM1 & fm & rest & es & e & td & f' & callee & STM & TDM & EXM & STM1 & CSM).
  destruct (exec_call_shape _ _ _ _ _ _ EXM) as (-> & ESH & TDF). cbn [todo set_todo] in TDF.
  (* the tail f' :: rest is stable from step m+1 on *)
  assert (TS : forall j', S m <= j' <= j -> forall sj, at_step t p ss0 j' sj ->
               exists X' Y', stack (base sj) = X' ++ f' :: rest /\ callers sj = Y' ++ epos e :: callers sm /\ length X' = S (length Y')).
  { intros j' [La Lb] sj AJ.
    apply (tail_stable t p ss0 (f' :: rest) (epos e :: callers sm) (j' - S m) (S m) sm1 [callee] []); auto.
    - replace (S m + (j' - S m)) with j' by lia. exact AJ.
    - intros j2 sj2 [Lc Ld] AJ2. replace (S (length (f' :: rest))) with (depth spre).
      + apply (G j2 sj2); [lia|exact AJ2].
      + rewrite <- DM1. unfold depth. rewrite STM1. reflexivity. }
  destruct (TS j) with (sj := spre) as (X' & Y' & STX & CSX & LNX); [lia|exact IJ|].
  assert (LX : length X' = 1).
  { assert (depth spre = S (length (f' :: rest))) by (rewrite <- DM1; unfold depth; rewrite STM1; reflexivity).
    unfold depth in H. rewrite STX, app_length in H. lia. }
  destruct X' as [|x1 [|x2 X']]; try (cbn in LX; lia).
  destruct Y' as [|y Y']; [|cbn in LNX; lia].
  rewrite ST in STX. cbn [app] in STX. inversion STX; subst x1 caller rest'. clear STX.
  rewrite CSP in CSX. cbn [app] in CSX. inversion CSX; subst c cs. clear CSX.
  exists m, sm, fm, rest, e, td, f', callee, fb.
  split; [lia|]. split; [exact AM|]. split; [now apply iter_stop_plain in AM|].
  split; [exact STM|]. split; [exact TDM|]. split; [congruence|]. split; [exact ESH|]. split; [exact EXM|].
  split; [exact TDF|]. split.
  { intros j' [La Lb].
    destruct (at_step_le t p ss0 j j' spre IJ) as (sj & AJ); [lia|].
    destruct (TS j') with (sj := sj) as (X2 & Y2 & ST2 & _ & LN2); [lia|exact AJ|].
    exists (base sj), X2. split; [now apply iter_stop_plain in AJ|]. split; [exact ST2|].
    destruct X2; [cbn in LN2; lia|discriminate]. }
  split; [reflexivity|]. split; [exact TDB|]. split; [eauto|]. split; [reflexivity|].
  pose proof (step_stop_plain t p spre) as P. rewrite SJ0 in P. destruct P as (s1 & P1 & _).
  exists s1. split.
  - replace (S j) with (j + 1) by lia. clear - PJ P1. revert PJ. generalize (base ss0).
    induction j as [|j IH]; intros s PJ; cbn [plain_iter Nat.add] in *.
    + inversion PJ; subst. now rewrite P1.
    + destruct (step p s); try discriminate. now apply IH.
  - unfold step in P1. rewrite ST, TDB, VB in P1. inversion P1; subst. reflexivity.
Qed.

(* ------------------------------------------------------------------------ *)
(* 5. From the initial state of a program.                                    *)

Lemma init_fresh exprs tl sl : forall f, In f (stack (init_state exprs tl sl)) -> all_fresh (todo f).
Proof. intros f [<-|[]]. cbn [toplevel_frame todo]. apply fresh_map. Qed.

(* Whatever the program: a stopped run of eval-up-to's machine from the initial
   state is (a) the plain run up to the stopping step (stop_prefix_is_plain) and
   (b) stops EITHER after an expression with the target span whose evaluation
   began at a first step m (and, when that expression is in the fragment,
   exactly at the completion of that first evaluation, with the value it
   pushed), OR at the return of a call whose call expression has the target
   span, with the value the call returns. *)
Theorem stop_from_init t p fuel exprs tl sl n v ssf :
  let ss0 := mkS (init_state exprs tl sl) [] in
  run_stop t p fuel 0 ss0 = TStopped n v ssf ->
  (exists m s_m f rest e T,
     m < n /\ plain_iter p m (base ss0) = Some s_m /\
     stack s_m = f :: rest /\ todo f = (SNot, e) :: T /\ epos e = t /\
     (forall m', m' < m -> begins_at t p (base ss0) m' = false) /\
     (eused e = true -> not_paren e -> frag t e ->
      exists f',
        stack (base ssf) = f' :: rest /\ todo f' = T /\ vals f' = v :: vals f /\
        plain_iter p n (base ss0) = Some (base ssf) /\
        (forall i, m <= i < n -> exists si, plain_iter p i (base ss0) = Some si /\ above_state T rest si)))
  \/
  (exists m sm fm rest e td f' callee fb spre,
     S m < n /\ iter_stop t p m ss0 = Some sm /\ plain_iter p m (base ss0) = Some (base sm) /\
     stack (base sm) = fm :: rest /\ todo fm = (SDone, e) :: td /\ epos e = t /\
     (exists mm fe args, e = ECall mm fe args /\ uses callee = used mm) /\
     exec p (set_todo fm td) SDone e = XCall f' callee /\ todo f' = td /\
     (forall j, m < j < n -> exists sj X, plain_iter p j (base ss0) = Some sj /\ stack sj = X ++ f' :: rest /\ X <> []) /\
     iter_stop t p (n - 1) ss0 = Some spre /\
     stack (base spre) = fb :: f' :: rest /\ todo fb = [] /\ (exists vs, vals fb = v :: vs) /\
     stack (base ssf) = f' :: rest /\
     (exists s_n, plain_iter p n (base ss0) = Some s_n /\ stack s_n = push_val_if (uses fb) f' v :: rest)).
Proof.
  intros ss0 RUN.
  destruct (run_stop_stopped _ _ _ _ _ _ _ _ RUN) as (j & spre & EN & IJ & SJ). cbn [Nat.add] in EN.
  assert (IS : iter_stop t p (n - 1) ss0 = Some spre) by (subst n; replace (S j - 1) with j by lia; exact IJ).
  destruct (top_entry (base spre)) as [x|] eqn:TE.
  - left. assert (TN : top_entry (base spre) <> None) by congruence.
    exact (stop_at_first_value_from_start_entry t p fuel ss0 n v ssf spre (init_fresh exprs tl sl) RUN IS TN).
  - right.
    destruct (return_stop_is_call_completion t p fuel ss0 n v ssf spre eq_refl RUN IS TE)
      as (m & sm & fm & rest & e & td & f' & callee & fb & H).
    exists m, sm, fm, rest, e, td, f', callee, fb, spre. intuition.
Qed.

(* ------------------------------------------------------------------------ *)
(* 6. Example: a call target.   fun f(x) { x + 1 }   f(2)                      *)
Definition exc_f : ident := 20%N.
Definition exc_x : ident := 21%N.
Definition exc_prog : prog :=
  {| globals := [(exc_f, VFun exc_f [])];
     funs := [(exc_f, {| fparams := [exc_x];
                         fbody := [EBin (mm true 11 16) (BInt OAdd) (EVar (mm true 11 12) exc_x) (EInt (mm true 15 16) 1%Z)] |})] |}.
Definition exc_call : expr := ECall (mm true 19 23) (EVar (mm true 19 20) exc_f) [EInt (mm true 21 22) 2%Z].

Lemma exc_stops : exists n ssf,
  run_stop (19, 23)%N exc_prog 100 0 (mkS (init_state [exc_call] None None) []) = TStopped n (VInt 3) ssf /\
  stack (base ssf) = [mkFrame [] [vunit] [[]] [] true].
Proof. eexists. eexists. split; vm_compute; reflexivity. Qed.

(* ------------------------------------------------------------------------ *)
(* 7. A `for` loop as the target: the special case of `eval`.                  *)

Lemma eval_block_blocks_eq g u body : blocks (eval_block g u body) = add_all ([] :: blocks g) (nextb g).
Proof. unfold eval_block. destruct body; rewrite ?push_val_if_blocks; reflexivity. Qed.

(* eval-up-to on `for x in it { body }` (target = the loop, iterated expression
   in the fragment): the machine evaluates `it`, enters the first iteration and
   stops there with Unit -- eval_up_to then reports the value of x
   (MachineStop.reported) --; with an empty list it stops after the loop's
   terminating step.  In the stopped state x is bound to the first element. *)
Theorem for_target_stops_in_first_iteration t p m x it body ss f rest T :
  frag t it -> eused it = true -> epos it <> t -> epos (EFor m x it body) = t ->
  stack (base ss) = f :: rest -> todo f = (SNot, EFor m x it body) :: T ->
  reach t p T rest ss (FinFail t p T rest) \/
  reach t p T rest ss (fun pre => above T rest pre /\
    exists f2 itv f3 pr ss',
      stack (base pre) = f2 :: rest /\ todo f2 = (SPart BWill, EFor m x it body) :: T /\
      vals f2 = itv :: VInt 0 :: vals f /\
      exec p (set_todo f2 T) (SPart BWill) (EFor m x it body) = XOk f3 pr /\
      step_stop t p pre = OStopped vunit ss' /\ stack (base ss') = f3 :: rest /\ callers ss' = callers ss /\
      (forall elem items, itv = VList (elem :: items) -> N.eqb x underscore = false ->
         get_var p f3 x = Some elem)).
Proof.
  intros FR Ui Ni PE ST TD. set (e := EFor m x it body) in *.
  pose proof (proj1 (frag_contracts t p) it FR) as Ci.
  destruct (step_stage t p T rest ss f SNot e T ST TD (above_head _ _ _ _ _ ST TD) eq_refl eq_refl I)
    as [F|(f1 & pr & ss1 & EX & I1 & ST1 & CS1)]; [left; exact F|].
  cbn [exec e] in EX. inversion EX; subst f1 pr; clear EX.
  destruct (sub_eval t p it [(SPart BWill, e)] T rest ss1 _ Ci Ni ST1 eq_refl)
    as [F|(j2 & ss2 & f2 & I2 & ST2 & TD2 & PU2 & CS2)]; [left; eapply reach_path; eauto|].
  rewrite Ui in PU2. destruct PU2 as [itv VL]. cbn [vals push_todo push_val set_todo] in VL.
  pose proof (ipath_trans _ _ _ _ _ _ _ _ I1 I2) as I12.
  pose proof (above_head _ _ _ _ _ ST2 TD2) as A2.
  destruct (step_stop_entry t p ss2 f2 rest (SPart BWill) e T ST2 TD2) as [B|E].
  { left. exists (1 + j2), ss2. split; [exact I12|]. split; assumption. }
  assert (PT : pos_eqb (epos e) t = true) by (apply pos_eqb_eq; exact PE).
  destruct (exec p (set_todo f2 T) (SPart BWill) e) as [f3 pr|f3 callee|er| |] eqn:EX.
  - right. exists (1 + j2), ss2. split; [exact I12|]. split; [exact A2|].
    unfold after_ok in E. rewrite PT in E. cbn [done_after is_for_part e] in E.
    exists f2, itv, f3, pr. eexists. split; [exact ST2|]. split; [exact TD2|]. split; [exact VL|].
    split; [exact EX|]. split; [exact E|]. split; [reflexivity|]. split; [cbn; congruence|].
    intros elem items -> NU. cbn [exec e] in EX. cbn [vals set_todo] in EX. rewrite VL in EX.
    cbn [nth_error Z.to_nat] in EX. rewrite NU in EX. inversion EX; subst f3 pr.
    unfold get_var. rewrite eval_block_blocks_eq. cbn [nextb set_nextb add_all blocks]. unfold add_new. rewrite NU.
    cbn [lookup_blocks assoc]. rewrite N.eqb_refl. reflexivity.
  - exfalso. cbn [exec e] in EX. cbn [vals set_todo] in EX. rewrite VL in EX.
    destruct itv; try discriminate. destruct (nth_error l (Z.to_nat 0)); discriminate.
  - left. exists (1 + j2), ss2. split; [exact I12|]. split; [exact A2|]. rewrite E. exact I.
  - left. exists (1 + j2), ss2. split; [exact I12|]. split; [exact A2|]. rewrite E. exact I.
  - exfalso. cbn [exec e] in EX. cbn [vals set_todo] in EX. rewrite VL in EX.
    destruct itv; try discriminate. destruct (nth_error l (Z.to_nat 0)); discriminate.
Qed.

(* for x in [1, 2] {}  : eval-up-to on the loop reports the first value of x *)
Definition exf : expr :=
  EFor (mm true 0 20) 30%N (EList (mm true 9 15) [EInt (mm true 10 11) 1%Z; EInt (mm true 13 14) 2%Z]) [].

Lemma exf_reports : exists n, eval_up_to true ex_prog [exf] (0, 20)%N None None 100 = UValue (VInt 1) n.
Proof. eexists. vm_compute. reflexivity. Qed.
