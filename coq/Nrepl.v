(* Nrepl.v -- MODEL (definitions only) of the concurrency skeleton of /repo/src/nrepl.rs.

   One client connection.  Threads: the connection's READER (serve_connection /
   handle_message), one WORKER per session (session_worker), at most one output
   FLUSHER per session (spawn_output_flusher, alive only while its eval runs) and
   the WRITER (writer_thread).  Shared state: per-session mpsc request queue,
   per-session `interrupted` AtomicBool, per-request stdout/stderr Mutex<String>
   buffers, the flusher's stop channel, the connection's FIFO response channel.

   One `step` = one interaction of one thread with shared state (channel
   send/recv, mutex-protected buffer take/push, atomic store/load, thread
   spawn/join).  The evaluation is abstract: while a worker is in [WRun] the
   evaluator may check the flag ([WACheck], eval.rs `eval` loop: load, and on
   `true` store(false) + return Interrupted -- the load/store pair is one step,
   see NOTE 1), print a token to a stream ([WAPrint]), or finish ([WAFinish]).

   `pv : ver` selects the code:
   [VAsFound] = nrepl.rs as found (close only sets the interrupt flag, the worker
                unconditionally clears it after every dequeue);
   [VFix1]    = with fix-1 (a per-session `closed` flag, set before the interrupt
                flag by close; the worker re-raises the interrupt flag after its
                reset when `closed` is set);
   [VFix2]    = the current code, fix-1 + fix-2: every session has a counter
                `pending` (requests enqueued and not finished) under a mutex; the
                reader increments it in the critical section that sends the
                request; `interrupt` (and the SIGINT broadcast) raise the flag only
                if pending > 0, in one critical section; the worker no longer clears
                the flag on dequeue; when it has sent the last response of a request
                it decrements pending and, if it is now 0, clears the flag (one
                critical section, [WADone]).  A critical section is ONE step (A-MUTEX).

   ASSUMPTIONS built into the model (named in Properties/C30.v, C31.v):
   A-FIFO    std::sync::mpsc channels are FIFO and linearizable; a send that
             happens-before another send is received first.
   A-MUTEX   Mutex<String> gives mutual exclusion: push_str and mem::take are atomic.
   A-SEQCST  AtomicBool SeqCst loads/stores are totally ordered.
   A-NOPANIC the evaluator does not panic (C02) -- a worker never dies mid-request.
   A-WRITER  the socket stays writable (writer_thread never returns early).
   A-IDS     the client gives every request a distinct id; the model names the
             k-th request read by the reader `k`.
   Not modelled: connection teardown (EOF), several connections (they share
   nothing but the listener), bencode framing, the contents of values.

   NOTE 1  eval.rs:7140-7141 is `if load() { store(false); .. return Interrupted }`.
           A store(true) landing between the two is absorbed; the outcome
           (Interrupted, flag false) is the same as if it had landed just before
           the load, so the pair is modelled as one atomic step.
   NOTE 2  [FATimeout] is enabled even after the stop channel was dropped: a
           superset of recv_timeout's behaviour (which reports Disconnected once
           it observes the drop).  All theorems hold for the superset. *)
From Coq Require Import List Arith Bool.
Import ListNotations.

Inductive ver := VAsFound | VFix1 | VFix2.
Definition has_closed (pv : ver) : bool := match pv with VAsFound => false | _ => true end.
Definition counts (pv : ver) : bool := match pv with VFix2 => true | _ => false end.

Definition rid := nat.   (* request id = index of the request in the reader's input *)
Definition sid := nat.   (* session id: `garden-(k+1)` is session k *)
Definition tok := nat.   (* an abstract piece of printed text *)
Definition def := nat.   (* an abstract top-level definition *)

Inductive stream := SOut | SErr.
Inductive status := StDone | StEvalError | StInterrupted | StUnknownSession | StSessionClosed.

(* Messages on the response channel.  Every message carries the request id
   (base_msg); worker/flusher messages also carry the session (base_msg copies
   the request's `session`). *)
Inductive msg :=
| MOut (k : sid) (r : rid) (x : stream) (t : list tok)   (* {"out"|"err": captured} *)
| MText (k : sid) (r : rid)                              (* value / error text / warnings: no status *)
| MDone (r : rid) (st : status).                         (* the message whose status has "done" *)

Inductive kind := KEval | KSimple.   (* eval, load-file | completions, lookup *)
Inductive op :=
| OClone | OPlain                     (* clone | describe, ls-sessions, unknown op, missing op *)
| OSess (k : sid) (kd : kind)         (* session-bound op, dispatched to the worker *)
| OInterrupt (k : sid) | OClose (k : sid).

Inductive result := ROk (nvals : nat) | RErr | RInterrupted.

(* reader program counter *)
Inductive rpc :=
| RIdle
| RGot (r : rid) (o : op)             (* read_message returned; handle_message starts *)
| RCloseFlag (r : rid) (k : sid)      (* fix-1 only: closed stored, interrupt flag next *)
| RCloseDrop (r : rid) (k : sid)      (* flag stored; sessions.remove (drops request_tx) next *)
| RSend (r : rid) (st : status).      (* conn.send(done message) next *)

(* worker program counter *)
Inductive wpc :=
| WIdle                               (* blocked in request_rx.recv() *)
| WExited                             (* recv() returned Err: loop left *)
| WDequeued (r : rid) (kd : kind)     (* recv() returned the request *)
| WResetting (r : rid) (kd : kind)    (* fix-1 only: flag cleared, `closed` load next *)
| WReflag (r : rid) (kd : kind)       (* fix-1, fix-2: saw closed, store(true) next *)
| WReady (r : rid) (kd : kind)        (* flag handled, fresh buffers made *)
| WWarned (r : rid)                   (* diagnostics message sent *)
| WRun (r : rid)                      (* flusher spawned, evaluator running *)
| WStop (r : rid) (res : result)      (* evaluator returned; drop(flush_stop_tx) next *)
| WJoin (r : rid) (res : result)      (* flusher.join() next *)
| WDrain (r : rid) (res : result) (x : stream)                       (* final drain: take buffer x next *)
| WDrainSend (r : rid) (res : result) (x : stream) (t : list tok)    (* send the drained text next *)
| WSend (r : rid) (n : nat) (st : status)    (* `for r in responses`: n status-less messages, then done *)
| WFinishing.                         (* fix-2: all responses sent; finish_request() next *)

(* flusher program counter *)
Inductive fpc := FWait | FTake (x : stream) | FSend (x : stream) (t : list tok) | FExited.

Record session := {
  s_open : bool;                 (* the reader still holds request_tx (session is in the table) *)
  s_closed : bool;               (* fix-1: `closed` AtomicBool *)
  s_queue : list (rid * kind);   (* request channel, oldest first *)
  s_flag : bool;                 (* `interrupted` AtomicBool *)
  s_out : list tok;              (* stdout_buf, oldest first *)
  s_err : list tok;              (* stderr_buf *)
  s_w : wpc;
  s_fl : option (rid * fpc);     (* flusher thread with its copy of base_msg's id *)
  s_stop : bool;                 (* flush_stop_tx dropped *)
  s_env : list def;              (* the worker's Env: definitions visible to evals *)
  s_pending : nat                (* fix-2: SessionInterrupt.pending (always 0 in the older variants) *)
}.

Definition new_session : session :=
  {| s_open := true; s_closed := false; s_queue := []; s_flag := false; s_out := []; s_err := [];
     s_w := WIdle; s_fl := None; s_stop := false; s_env := []; s_pending := 0 |}.

Definition set_open s v := {| s_open := v; s_closed := s_closed s; s_queue := s_queue s; s_flag := s_flag s; s_out := s_out s; s_err := s_err s; s_w := s_w s; s_fl := s_fl s; s_stop := s_stop s; s_env := s_env s; s_pending := s_pending s |}.
Definition set_closed s v := {| s_open := s_open s; s_closed := v; s_queue := s_queue s; s_flag := s_flag s; s_out := s_out s; s_err := s_err s; s_w := s_w s; s_fl := s_fl s; s_stop := s_stop s; s_env := s_env s; s_pending := s_pending s |}.
Definition set_queue s v := {| s_open := s_open s; s_closed := s_closed s; s_queue := v; s_flag := s_flag s; s_out := s_out s; s_err := s_err s; s_w := s_w s; s_fl := s_fl s; s_stop := s_stop s; s_env := s_env s; s_pending := s_pending s |}.
Definition set_flag s v := {| s_open := s_open s; s_closed := s_closed s; s_queue := s_queue s; s_flag := v; s_out := s_out s; s_err := s_err s; s_w := s_w s; s_fl := s_fl s; s_stop := s_stop s; s_env := s_env s; s_pending := s_pending s |}.
Definition set_out s v := {| s_open := s_open s; s_closed := s_closed s; s_queue := s_queue s; s_flag := s_flag s; s_out := v; s_err := s_err s; s_w := s_w s; s_fl := s_fl s; s_stop := s_stop s; s_env := s_env s; s_pending := s_pending s |}.
Definition set_err s v := {| s_open := s_open s; s_closed := s_closed s; s_queue := s_queue s; s_flag := s_flag s; s_out := s_out s; s_err := v; s_w := s_w s; s_fl := s_fl s; s_stop := s_stop s; s_env := s_env s; s_pending := s_pending s |}.
Definition set_w s v := {| s_open := s_open s; s_closed := s_closed s; s_queue := s_queue s; s_flag := s_flag s; s_out := s_out s; s_err := s_err s; s_w := v; s_fl := s_fl s; s_stop := s_stop s; s_env := s_env s; s_pending := s_pending s |}.
Definition set_fl s v := {| s_open := s_open s; s_closed := s_closed s; s_queue := s_queue s; s_flag := s_flag s; s_out := s_out s; s_err := s_err s; s_w := s_w s; s_fl := v; s_stop := s_stop s; s_env := s_env s; s_pending := s_pending s |}.
Definition set_stop s v := {| s_open := s_open s; s_closed := s_closed s; s_queue := s_queue s; s_flag := s_flag s; s_out := s_out s; s_err := s_err s; s_w := s_w s; s_fl := s_fl s; s_stop := v; s_env := s_env s; s_pending := s_pending s |}.
Definition set_env s v := {| s_open := s_open s; s_closed := s_closed s; s_queue := s_queue s; s_flag := s_flag s; s_out := s_out s; s_err := s_err s; s_w := s_w s; s_fl := s_fl s; s_stop := s_stop s; s_env := v; s_pending := s_pending s |}.
Definition set_pending s v := {| s_open := s_open s; s_closed := s_closed s; s_queue := s_queue s; s_flag := s_flag s; s_out := s_out s; s_err := s_err s; s_w := s_w s; s_fl := s_fl s; s_stop := s_stop s; s_env := s_env s; s_pending := v |}.

Definition buf (s : session) (x : stream) : list tok := match x with SOut => s_out s | SErr => s_err s end.
Definition set_buf (s : session) (x : stream) (v : list tok) : session :=
  match x with SOut => set_out s v | SErr => set_err s v end.

Definition status_of (res : result) : status :=
  match res with ROk _ => StDone | RErr => StEvalError | RInterrupted => StInterrupted end.
(* number of status-less messages in `responses`: the value message(s), or the error text *)
Definition ntext (res : result) : nat := match res with ROk n => n | _ => 1 end.
Definition after_drain (r : rid) (res : result) (x : stream) : wpc :=
  match x with SOut => WDrain r res SErr | SErr => WSend r (ntext res) (status_of res) end.
Definition fnext (x : stream) : fpc := match x with SOut => FTake SErr | SErr => FWait end.

(* what a step of a worker / flusher does outside its own session record *)
Inductive eff :=
| ENone
| ESend (m : msg)                          (* response_tx.send *)
| EPrint (r : rid) (x : stream) (t : tok)  (* ghost: the eval of request r printed t on x *)
| EDef (d : def).                          (* ghost: a definition was loaded into this session's Env *)

Inductive begin_kind := BSimple | BParseErr | BWarn | BSpawn.

Inductive wact :=
| WADequeue | WAExit
| WAReset           (* as found, fix-1: interrupted.store(false); fresh stdout/stderr buffers *)
| WALoadClosed      (* fix-1, fix-2: closed.load() *)
| WAReflag          (* fix-1, fix-2: interrupted.store(true) *)
| WADone            (* fix-2: finish_request(): lock; pending -= 1; if pending == 0 { flag.store(false) } *)
| WABegin (b : begin_kind)
| WADefine (d : def)                (* load_toplevel_items_with_stubs adds a definition *)
| WASees (d : def)                  (* the eval resolves a name to definition d *)
| WACheck                           (* eval loop: check (and consume) the interrupt flag *)
| WAPrint (x : stream) (t : tok)    (* print/println/eprintln: lock buffer, push_str *)
| WAFinish (res : result)           (* evaluator returns Ok / Err other than Interrupted *)
| WAStopFl                          (* drop(flush_stop_tx) *)
| WAJoin                            (* flusher.join() returns *)
| WATake                            (* flush_output_buffer: lock, mem::take *)
| WASend.                           (* response_tx.send of the next message *)

Definition memb (d : def) (l : list def) : bool := existsb (Nat.eqb d) l.

Definition worker_step (pv : ver) (k : sid) (s : session) (a : wact) : option (session * eff) :=
  match a, s_w s with
  | WADequeue, WIdle =>
      match s_queue s with
      | (r, kd) :: q => Some (set_w (set_queue s q) (WDequeued r kd), ENone)
      | [] => None
      end
  | WAExit, WIdle =>
      match s_queue s with
      | [] => if s_open s then None else Some (set_w s WExited, ENone)
      | _ => None
      end
  | WAReset, WDequeued r kd =>
      if counts pv then None else
      Some (set_w (set_err (set_out (set_flag s false) []) []) (if has_closed pv then WResetting r kd else WReady r kd), ENone)
  | WALoadClosed, WDequeued r kd =>
      if counts pv then
        Some (set_w (set_err (set_out s []) []) (if s_closed s then WReflag r kd else WReady r kd), ENone)
      else None
  | WALoadClosed, WResetting r kd =>
      Some (set_w s (if s_closed s then WReflag r kd else WReady r kd), ENone)
  | WAReflag, WReflag r kd => Some (set_w (set_flag s true) (WReady r kd), ENone)
  | WABegin BSimple, WReady r KSimple => Some (set_w s (WSend r 0 StDone), ENone)
  | WABegin BParseErr, WReady r KEval => Some (set_w s (WSend r 1 StEvalError), ENone)
  | WABegin BWarn, WReady r KEval => Some (set_w s (WWarned r), ESend (MText k r))
  | WABegin BSpawn, WReady r KEval => Some (set_w (set_fl (set_stop s false) (Some (r, FWait))) (WRun r), ENone)
  | WABegin BSpawn, WWarned r => Some (set_w (set_fl (set_stop s false) (Some (r, FWait))) (WRun r), ENone)
  | WADefine d, WReady r KEval => Some (set_env s (d :: s_env s), EDef d)
  | WASees d, WRun r => if memb d (s_env s) then Some (s, ENone) else None
  | WACheck, WRun r =>
      if s_flag s then Some (set_w (set_flag s false) (WStop r RInterrupted), ENone) else Some (s, ENone)
  | WAPrint x t, WRun r => Some (set_buf s x (buf s x ++ [t]), EPrint r x t)
  | WAFinish res, WRun r =>
      match res with RInterrupted => None | _ => Some (set_w s (WStop r res), ENone) end
  | WAStopFl, WStop r res => Some (set_w (set_stop s true) (WJoin r res), ENone)
  | WAJoin, WJoin r res =>
      match s_fl s with
      | Some (_, FExited) => Some (set_w (set_fl s None) (WDrain r res SOut), ENone)
      | _ => None
      end
  | WATake, WDrain r res x =>
      match buf s x with
      | [] => Some (set_w s (after_drain r res x), ENone)
      | t => Some (set_w (set_buf s x []) (WDrainSend r res x t), ENone)
      end
  | WASend, WDrainSend r res x t => Some (set_w s (after_drain r res x), ESend (MOut k r x t))
  | WASend, WSend r (S n) st => Some (set_w s (WSend r n st), ESend (MText k r))
  | WASend, WSend r O st => Some (set_w s (if counts pv then WFinishing else WIdle), ESend (MDone r st))
  | WADone, WFinishing =>
      match pred (s_pending s) with
      | O => Some (set_w (set_pending (set_flag s false) 0) WIdle, ENone)
      | S p => Some (set_w (set_pending s (S p)) WIdle, ENone)
      end
  | _, _ => None
  end.

Inductive fact := FATimeout | FAStop | FATake | FASend.

Definition flusher_step (k : sid) (s : session) (a : fact) : option (session * eff) :=
  match s_fl s with
  | None => None
  | Some (r, pc) =>
      match a, pc with
      | FATimeout, FWait => Some (set_fl s (Some (r, FTake SOut)), ENone)
      | FAStop, FWait => if s_stop s then Some (set_fl s (Some (r, FExited)), ENone) else None
      | FATake, FTake x =>
          match buf s x with
          | [] => Some (set_fl s (Some (r, fnext x)), ENone)
          | t => Some (set_fl (set_buf s x []) (Some (r, FSend x t)), ENone)
          end
      | FASend, FSend x t => Some (set_fl s (Some (r, fnext x)), ESend (MOut k r x t))
      | _, _ => None
      end
  end.

Record state := {
  st_next : rid;                 (* number of requests read so far *)
  st_rd : rpc;
  st_sess : list session;        (* session k at index k; closed sessions stay (worker may still run) *)
  st_chan : list msg;            (* response channel, oldest first *)
  st_wire : list msg;            (* written to the socket, NEWEST first *)
  (* ghost history variables: never read by `step` *)
  st_sent : list msg;            (* every message ever sent on the response channel, NEWEST first *)
  st_printed : list (sid * rid * stream * tok);   (* every print, NEWEST first *)
  st_defs : list (sid * def)     (* every definition loaded, with its session *)
}.

Definition init : state :=
  {| st_next := 0; st_rd := RIdle; st_sess := []; st_chan := []; st_wire := [];
     st_sent := []; st_printed := []; st_defs := [] |}.

Fixpoint upd {A} (k : nat) (v : A) (l : list A) : list A :=
  match l, k with
  | [], _ => []
  | _ :: t, O => v :: t
  | h :: t, S k' => h :: upd k' v t
  end.

Definition apply_eff (st : state) (k : sid) (s' : session) (e : eff) : state :=
  let ss := upd k s' (st_sess st) in
  match e with
  | ENone => {| st_next := st_next st; st_rd := st_rd st; st_sess := ss; st_chan := st_chan st; st_wire := st_wire st;
                st_sent := st_sent st; st_printed := st_printed st; st_defs := st_defs st |}
  | ESend m => {| st_next := st_next st; st_rd := st_rd st; st_sess := ss; st_chan := st_chan st ++ [m]; st_wire := st_wire st;
                  st_sent := m :: st_sent st; st_printed := st_printed st; st_defs := st_defs st |}
  | EPrint r x t => {| st_next := st_next st; st_rd := st_rd st; st_sess := ss; st_chan := st_chan st; st_wire := st_wire st;
                       st_sent := st_sent st; st_printed := (k, r, x, t) :: st_printed st; st_defs := st_defs st |}
  | EDef d => {| st_next := st_next st; st_rd := st_rd st; st_sess := ss; st_chan := st_chan st; st_wire := st_wire st;
                 st_sent := st_sent st; st_printed := st_printed st; st_defs := (k, d) :: st_defs st |}
  end.

(* reader: set the reader pc / the session list *)
Definition rd_set (st : state) (pc : rpc) (ss : list session) : state :=
  {| st_next := st_next st; st_rd := pc; st_sess := ss; st_chan := st_chan st; st_wire := st_wire st;
     st_sent := st_sent st; st_printed := st_printed st; st_defs := st_defs st |}.

Definition open_sess (st : state) (k : sid) : option session :=
  match nth_error (st_sess st) k with
  | Some s => if s_open s then Some s else None
  | None => None
  end.

Inductive ract :=
| RAEnq        (* dispatch_to_session: request_tx.send *)
| RAUnknown    (* session not in the table *)
| RAFlag       (* interrupted.store(true): interrupt op (fix-2: only with pending > 0), or close_session *)
| RAIgnore     (* fix-2: interrupt op finds pending == 0: nothing stored *)
| RAClosed     (* fix-1: closed.store(true) in close_session *)
| RADrop       (* sessions.remove(id): drops request_tx *)
| RANew        (* new_session: spawn the worker, insert into the table *)
| RAPlain      (* ops answered by the reader alone *)
| RASend.      (* conn.send(done) *)

Definition op_session (o : op) : option sid :=
  match o with OSess k _ => Some k | OInterrupt k => Some k | OClose k => Some k | _ => None end.

Definition reader_step (pv : ver) (st : state) (a : ract) : option state :=
  match a, st_rd st with
  | RAEnq, RGot r (OSess k kd) =>
      match open_sess st k with
      | Some s => Some (rd_set st RIdle
                    (upd k (set_pending (set_queue s (s_queue s ++ [(r, kd)]))
                                        (if counts pv then S (s_pending s) else s_pending s)) (st_sess st)))
      | None => None
      end
  | RAUnknown, RGot r o =>
      match op_session o with
      | Some k => match open_sess st k with
                  | Some _ => None
                  | None => Some (rd_set st (RSend r StUnknownSession) (st_sess st))
                  end
      | None => None
      end
  | RAFlag, RGot r (OInterrupt k) =>
      match open_sess st k with
      | Some s =>
          if counts pv && Nat.eqb (s_pending s) 0 then None
          else Some (rd_set st (RSend r StDone) (upd k (set_flag s true) (st_sess st)))
      | None => None
      end
  | RAIgnore, RGot r (OInterrupt k) =>
      match open_sess st k with
      | Some s =>
          if counts pv && Nat.eqb (s_pending s) 0 then Some (rd_set st (RSend r StDone) (st_sess st))
          else None
      | None => None
      end
  | RAFlag, RGot r (OClose k) =>
      if has_closed pv then None else
      match open_sess st k with
      | Some s => Some (rd_set st (RCloseDrop r k) (upd k (set_flag s true) (st_sess st)))
      | None => None
      end
  | RAClosed, RGot r (OClose k) =>
      if has_closed pv then
        match open_sess st k with
        | Some s => Some (rd_set st (RCloseFlag r k) (upd k (set_closed s true) (st_sess st)))
        | None => None
        end
      else None
  | RAFlag, RCloseFlag r k =>
      match nth_error (st_sess st) k with
      | Some s => Some (rd_set st (RCloseDrop r k) (upd k (set_flag s true) (st_sess st)))
      | None => None
      end
  | RADrop, RCloseDrop r k =>
      match nth_error (st_sess st) k with
      | Some s => Some (rd_set st (RSend r StSessionClosed) (upd k (set_open s false) (st_sess st)))
      | None => None
      end
  | RANew, RGot r OClone => Some (rd_set st (RSend r StDone) (st_sess st ++ [new_session]))
  | RAPlain, RGot r OPlain => Some (rd_set st (RSend r StDone) (st_sess st))
  | RASend, RSend r s =>
      Some {| st_next := st_next st; st_rd := RIdle; st_sess := st_sess st;
              st_chan := st_chan st ++ [MDone r s]; st_wire := st_wire st;
              st_sent := MDone r s :: st_sent st; st_printed := st_printed st; st_defs := st_defs st |}
  | _, _ => None
  end.

Inductive label :=
| LRecv (o : op)                  (* reader: read_message returns the next request *)
| LReader (a : ract)
| LWorker (k : sid) (a : wact)
| LFlusher (k : sid) (a : fact)
| LWriter                         (* writer: rx.recv() + write_message + flush *)
| LSigint (k : sid).              (* sigint_watchdog: interrupt() of session k *)

Definition step (pv : ver) (st : state) (l : label) : option state :=
  match l with
  | LRecv o =>
      match st_rd st with
      | RIdle => Some {| st_next := S (st_next st); st_rd := RGot (st_next st) o; st_sess := st_sess st;
                         st_chan := st_chan st; st_wire := st_wire st;
                         st_sent := st_sent st; st_printed := st_printed st; st_defs := st_defs st |}
      | _ => None
      end
  | LReader a => reader_step pv st a
  | LWorker k a =>
      match nth_error (st_sess st) k with
      | Some s => match worker_step pv k s a with
                  | Some (s', e) => Some (apply_eff st k s' e)
                  | None => None
                  end
      | None => None
      end
  | LFlusher k a =>
      match nth_error (st_sess st) k with
      | Some s => match flusher_step k s a with
                  | Some (s', e) => Some (apply_eff st k s' e)
                  | None => None
                  end
      | None => None
      end
  | LWriter =>
      match st_chan st with
      | m :: c => Some {| st_next := st_next st; st_rd := st_rd st; st_sess := st_sess st;
                          st_chan := c; st_wire := m :: st_wire st;
                          st_sent := st_sent st; st_printed := st_printed st; st_defs := st_defs st |}
      | [] => None
      end
  | LSigint k =>
      match nth_error (st_sess st) k with
      | Some s =>
          if counts pv && Nat.eqb (s_pending s) 0 then Some st      (* fix-2: idle session: nothing stored *)
          else Some (rd_set st (st_rd st) (upd k (set_flag s true) (st_sess st)))
      | None => None
      end
  end.

Definition enabled (pv : ver) (st : state) (l : label) : bool :=
  match step pv st l with Some _ => true | None => false end.

(* replay a trace; None = some label was not enabled *)
Fixpoint exec (pv : ver) (st : state) (tr : list label) : option state :=
  match tr with
  | [] => Some st
  | l :: tr' => match step pv st l with Some st' => exec pv st' tr' | None => None end
  end.

(* replay with the index of the first rejected label *)
Fixpoint exec_at (pv : ver) (st : state) (tr : list label) (i : nat) : state * option nat :=
  match tr with
  | [] => (st, None)
  | l :: tr' => match step pv st l with Some st' => exec_at pv st' tr' (S i) | None => (st, Some i) end
  end.

Definition reachable (pv : ver) (st : state) : Prop := exists tr, exec pv init tr = Some st.

(* ---- observation functions used by the theorems ---- *)

Definition mid (m : msg) : rid := match m with MOut _ r _ _ => r | MText _ r => r | MDone r _ => r end.

Definition stream_eqb (a b : stream) : bool :=
  match a, b with SOut, SOut => true | SErr, SErr => true | _, _ => false end.

(* number of `done` messages for request r *)
Fixpoint done_cnt (r : rid) (l : list msg) : nat :=
  match l with
  | [] => 0
  | MDone r' _ :: t => (if Nat.eqb r' r then 1 else 0) + done_cnt r t
  | _ :: t => done_cnt r t
  end.

(* chronological concatenation of the out/err text for (session k, request r,
   stream x) in a NEWEST-first message list *)
Fixpoint toks (k : sid) (r : rid) (x : stream) (l : list msg) : list tok :=
  match l with
  | [] => []
  | MOut k' r' x' t :: older =>
      toks k r x older ++ (if Nat.eqb k' k && Nat.eqb r' r && stream_eqb x' x then t else [])
  | _ :: older => toks k r x older
  end.

(* chronological list of what request r of session k printed on x (NEWEST-first log) *)
Fixpoint ptoks (k : sid) (r : rid) (x : stream) (l : list (sid * rid * stream * tok)) : list tok :=
  match l with
  | [] => []
  | (k', r', x', t) :: older =>
      ptoks k r x older ++ (if Nat.eqb k' k && Nat.eqb r' r && stream_eqb x' x then [t] else [])
  end.

(* the request a worker is holding *)
Definition cur (pc : wpc) : option rid :=
  match pc with
  | WIdle | WExited | WFinishing => None
  | WDequeued r _ | WResetting r _ | WReflag r _ | WReady r _ | WWarned r | WRun r
  | WStop r _ | WJoin r _ | WDrain r _ _ | WDrainSend r _ _ _ | WSend r _ _ => Some r
  end.

(* nothing left to do except reading more input (or exiting closed workers) *)
Definition sess_quiet (s : session) : bool :=
  match s_w s, s_queue s with
  | WIdle, [] => true
  | WExited, [] => true
  | _, _ => false
  end.
Definition quiescent (st : state) : bool :=
  match st_rd st, st_chan st with
  | RIdle, [] => forallb sess_quiet (st_sess st)
  | _, _ => false
  end.

(* labels that are the system's own moves (not client input, not SIGINT) *)
Definition internal (l : label) : bool :=
  match l with
  | LRecv _ | LSigint _ => false
  | LWorker _ WAExit => false
  | _ => true
  end.

(* label l stores `true` into session k's interrupt flag *)
Definition is_flagset (k : sid) (st : state) (l : label) : bool :=
  match l with
  | LSigint k' => Nat.eqb k' k
  | LReader RAFlag =>
      match st_rd st with
      | RGot _ (OInterrupt k') | RGot _ (OClose k') | RCloseFlag _ k' => Nat.eqb k' k
      | _ => false
      end
  | LWorker k' WAReflag => Nat.eqb k' k
  | _ => false
  end.

Definition flag_of (st : state) (k : sid) : option bool :=
  match nth_error (st_sess st) k with Some s => Some (s_flag s) | None => None end.
Definition wpc_of (st : state) (k : sid) : option wpc :=
  match nth_error (st_sess st) k with Some s => Some (s_w s) | None => None end.

Definition pending_of (st : state) (k : sid) : option nat :=
  match nth_error (st_sess st) k with Some s => Some (s_pending s) | None => None end.

(* the worker holds a request or still has to account for one *)
Definition busy (pc : wpc) : nat := match pc with WIdle | WExited => 0 | _ => 1 end.
