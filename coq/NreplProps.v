(* NreplProps.v -- invariants of the transition system of Nrepl.v, proved by
   induction over arbitrary traces (= all interleavings, unbounded inputs),
   for both code variants (pv = false: as found; pv = true: with fix-1). *)
From Coq Require Import List Arith Bool Lia.
Import ListNotations.
From Garden Require Import Nrepl.


(* ------------------------------------------------------------------ *)
(* list helpers                                                        *)

Lemma nth_upd_same : forall A (l : list A) k v, k < length l -> nth_error (upd k v l) k = Some v.
Proof. induction l; intros [|k] v H; simpl in *; try lia; auto. apply IHl; lia. Qed.

Lemma nth_upd_other : forall A (l : list A) k j v, j <> k -> nth_error (upd k v l) j = nth_error l j.
Proof. induction l; intros [|k] [|j] v H; simpl; auto; try congruence. Qed.

Lemma nth_lt : forall A (l : list A) k v, nth_error l k = Some v -> k < length l.
Proof. intros. apply nth_error_Some. congruence. Qed.

Lemma nth_upd : forall A (l : list A) k j v s, nth_error l k = Some s ->
  nth_error (upd k v l) j = if Nat.eqb j k then Some v else nth_error l j.
Proof.
  intros. destruct (Nat.eqb_spec j k).
  - subst. apply nth_upd_same. eapply nth_lt; eauto.
  - apply nth_upd_other; auto.
Qed.

Fixpoint sumf (f : session -> nat) (l : list session) : nat :=
  match l with [] => 0 | s :: t => f s + sumf f t end.

Lemma sum_upd : forall f l k s s', nth_error l k = Some s -> sumf f (upd k s' l) + f s = sumf f l + f s'.
Proof.
  induction l; intros [|k] s s' H; simpl in *; try discriminate.
  - inversion H; subst. lia.
  - specialize (IHl _ _ s' H). lia.
Qed.

Lemma sum_app : forall f a b, sumf f (a ++ b) = sumf f a + sumf f b.
Proof. induction a; simpl; intros; auto. rewrite IHa. lia. Qed.

Lemma sum_ge : forall f l k s, nth_error l k = Some s -> f s <= sumf f l.
Proof.
  induction l; intros [|k] s H; simpl in *; try discriminate.
  - inversion H; subst. lia.
  - specialize (IHl _ _ H). lia.
Qed.

Lemma done_cnt_app : forall r a b, done_cnt r (a ++ b) = done_cnt r a + done_cnt r b.
Proof. induction a as [|m a IH]; simpl; intros; auto. destruct m; rewrite ?IH; lia. Qed.

Lemma toks_app : forall k r x a b, toks k r x (a ++ b) = toks k r x b ++ toks k r x a.
Proof.
  induction a as [|m a IH]; simpl; intros. - now rewrite app_nil_r.
  - destruct m; rewrite ?IH, ?app_assoc; auto.
Qed.

Lemma toks_no_id : forall k r x l, (forall m, In m l -> mid m <> r) -> toks k r x l = [].
Proof.
  induction l as [|m l IH]; simpl; intros H; auto.
  destruct m; try (apply IH; intros; apply H; auto).
  rewrite IH by (intros; apply H; auto). simpl.
  destruct (Nat.eqb_spec r0 r).
  - exfalso. apply (H (MOut k0 r0 x0 t)); auto.
  - rewrite andb_false_r. reflexivity.
Qed.

Lemma stream_eqb_refl : forall x, stream_eqb x x = true.
Proof. destruct x; reflexivity. Qed.

(* ------------------------------------------------------------------ *)
(* per-session bookkeeping                                             *)

Fixpoint cntq (r : rid) (q : list (rid * kind)) : nat :=
  match q with [] => 0 | (r', _) :: t => (if Nat.eqb r' r then 1 else 0) + cntq r t end.

Lemma cntq_app : forall r a b, cntq r (a ++ b) = cntq r a + cntq r b.
Proof. induction a as [|[r' kd] a IH]; simpl; intros; auto. rewrite IH. lia. Qed.

Definition cur_cnt (r : rid) (pc : wpc) : nat :=
  match cur pc with Some r' => if Nat.eqb r' r then 1 else 0 | None => 0 end.

(* how many times request r is held by session s (queued or being processed) *)
Definition sess_cnt (r : rid) (s : session) : nat := cntq r (s_queue s) + cur_cnt r (s_w s).

Definition rd_cnt (r : rid) (pc : rpc) : nat :=
  match pc with
  | RIdle => 0
  | RGot r' _ | RCloseFlag r' _ | RCloseDrop r' _ | RSend r' _ => if Nat.eqb r' r then 1 else 0
  end.

Definition live_cnt (r : rid) (st : state) : nat := rd_cnt r (st_rd st) + sumf (sess_cnt r) (st_sess st).

(* text taken from a buffer but not yet sent *)
Definition flinfl (s : session) (x : stream) : list tok :=
  match s_fl s with Some (_, FSend x' t) => if stream_eqb x' x then t else [] | _ => [] end.
Definition winfl (s : session) (x : stream) : list tok :=
  match s_w s with WDrainSend _ _ x' t => if stream_eqb x' x then t else [] | _ => [] end.
(* printed by request r but not yet on the response channel *)
Definition pend (s : session) (r : rid) (x : stream) : list tok :=
  match cur (s_w s) with
  | Some r' => if Nat.eqb r' r then flinfl s x ++ buf s x ++ winfl s x else []
  | None => []
  end.

(* which threads/buffers exist at which worker pc *)
Definition swf (s : session) : Prop :=
  match s_w s with
  | WRun r | WStop r _ | WJoin r _ => exists pc, s_fl s = Some (r, pc)
  | WDrain _ _ SOut => s_fl s = None
  | WDrain _ _ SErr => s_fl s = None /\ s_out s = []
  | WDrainSend _ _ SOut _ => s_fl s = None /\ s_out s = []
  | WDrainSend _ _ SErr _ => s_fl s = None /\ s_out s = [] /\ s_err s = []
  | _ => s_fl s = None /\ s_out s = [] /\ s_err s = []
  end.

Definition eff_done (r : rid) (e : eff) : nat := match e with ESend m => done_cnt r [m] | _ => 0 end.
Definition eff_toks (k : sid) (r : rid) (x : stream) (e : eff) : list tok :=
  match e with ESend m => toks k r x [m] | _ => [] end.
Definition eff_ptoks (k : sid) (r : rid) (x : stream) (e : eff) : list tok :=
  match e with EPrint r0 x0 t => ptoks k r x [(k, r0, x0, t)] | _ => [] end.

Ltac inv_step H :=
  repeat match type of H with
         | context [match ?x with _ => _ end] => destruct x eqn:?; try discriminate
         end;
  inversion H; subst; clear H.
Ltac rw_pc := repeat match goal with E : s_w ?s = _ |- context [s_w ?s] => rewrite E end.

Ltac rw_eqs := repeat match goal with
  | E : s_w ?s = _ |- context [s_w ?s] => rewrite E
  | E : s_fl ?s = _ |- context [s_fl ?s] => rewrite E
  | E : s_out ?s = _ |- context [s_out ?s] => rewrite E
  | E : s_err ?s = _ |- context [s_err ?s] => rewrite E
  end.
Ltac split_all := repeat match goal with
  | H : _ /\ _ |- _ => destruct H
  | H : exists _, _ |- _ => destruct H
  | x : stream |- _ => destruct x
  end.
Ltac case_goal := repeat match goal with
  | |- context [Nat.eqb ?a ?b] => destruct (Nat.eqb a b) eqn:?; simpl
  | |- context [if ?b then _ else _] => destruct b eqn:?; simpl
  | |- context [match ?x with _ => _ end] => destruct x eqn:?; simpl
  end.
Ltac inj_some := repeat match goal with
  | H : Some _ = Some _ |- _ => inversion H; subst; clear H
  | H : Some _ = None |- _ => discriminate H
  | H : None = Some _ |- _ => discriminate H
  end.
Ltac eqb_simp :=
  repeat match goal with
         | |- context [Nat.eqb ?a ?a] => rewrite Nat.eqb_refl
         | |- context [stream_eqb ?a ?a] => rewrite stream_eqb_refl
         | H : context [Nat.eqb ?a ?a] |- _ => rewrite Nat.eqb_refl in H
         end.

(* ---- worker: local facts ---- *)

Lemma worker_swf : forall pv k s a s' e, swf s -> worker_step pv k s a = Some (s', e) -> swf s'.
Proof.
  intros pv k s a s' e W H. unfold worker_step in H. unfold swf in *.
  inv_step H; split_all; simpl in *; split_all; rw_eqs; simpl;
    repeat split; eauto; try congruence.
Qed.

Lemma worker_cnt : forall pv k s a s' e r, worker_step pv k s a = Some (s', e) ->
  sess_cnt r s' + eff_done r e = sess_cnt r s.
Proof.
  intros pv k s a s' e r H. unfold worker_step in H. unfold sess_cnt, cur_cnt.
  inv_step H; split_all; simpl in *; rw_eqs; simpl;
    repeat match goal with E : s_queue ?s = _ |- context [s_queue ?s] => rewrite E end; simpl; try lia.
Qed.

Lemma worker_sender_live : forall pv k s a s' m, worker_step pv k s a = Some (s', ESend m) ->
  sess_cnt (mid m) s >= 1.
Proof.
  intros pv k s a s' m H. unfold worker_step in H. unfold sess_cnt, cur_cnt.
  inv_step H; simpl in *; rw_eqs; simpl; eqb_simp; lia.
Qed.

Lemma worker_out : forall pv k s a s' e r x, swf s -> worker_step pv k s a = Some (s', e) ->
  eff_toks k r x e ++ pend s' r x = pend s r x ++ eff_ptoks k r x e.
Proof.
  intros pv k s a s' e r x W H. unfold worker_step in H. unfold swf in W.
  unfold pend, flinfl, winfl, eff_toks, eff_ptoks.
  inv_step H; split_all; simpl in *; split_all; rw_eqs; simpl; eqb_simp; simpl;
    case_goal; rewrite ?app_nil_r, <- ?app_assoc; simpl in *; auto; try congruence.
Qed.

Lemma worker_tag : forall pv k s a s' m, worker_step pv k s a = Some (s', ESend m) ->
  forall j r x, j <> k -> toks j r x [m] = [].
Proof.
  intros pv k s a s' m H j r x Hj. unfold worker_step in H.
  inv_step H; simpl; auto; apply Nat.eqb_neq in Hj; rewrite Nat.eqb_sym, Hj; reflexivity.
Qed.

Lemma worker_env : forall pv k s a s' e d, worker_step pv k s a = Some (s', e) ->
  In d (s_env s') -> In d (s_env s) \/ e = EDef d.
Proof.
  intros pv k s a s' e d H. unfold worker_step in H.
  inv_step H; split_all; simpl; auto. intros [->|]; auto.
Qed.

(* ---- flusher: local facts ---- *)

Lemma flusher_swf : forall k s a s' e, swf s -> flusher_step k s a = Some (s', e) -> swf s'.
Proof.
  intros k s a s' e W H. unfold flusher_step in H. unfold swf in *.
  inv_step H; split_all; simpl in *; destruct (s_w s) eqn:Ew; split_all; simpl in *; split_all;
    try congruence; eauto;
    inj_some; eauto.
Qed.

Lemma flusher_cnt : forall k s a s' e r, flusher_step k s a = Some (s', e) ->
  sess_cnt r s' + eff_done r e = sess_cnt r s.
Proof.
  intros k s a s' e r H. unfold flusher_step in H. unfold sess_cnt, cur_cnt.
  inv_step H; split_all; simpl; lia.
Qed.

Lemma flusher_sender_live : forall k s a s' m, swf s -> flusher_step k s a = Some (s', ESend m) ->
  sess_cnt (mid m) s >= 1.
Proof.
  intros k s a s' m W H. unfold flusher_step in H. unfold sess_cnt, cur_cnt. unfold swf in W.
  inv_step H; simpl in *; destruct (s_w s) eqn:Ew; split_all; simpl in *; split_all; try congruence;
    inj_some;
    eqb_simp; lia.
Qed.

Lemma flusher_out : forall k s a s' e r x, swf s -> flusher_step k s a = Some (s', e) ->
  eff_toks k r x e ++ pend s' r x = pend s r x ++ eff_ptoks k r x e.
Proof.
  intros k s a s' e r x W H. unfold flusher_step in H. unfold swf in W.
  unfold pend, flinfl, winfl, eff_toks, eff_ptoks.
  inv_step H; split_all; simpl in *; destruct (s_w s) eqn:Ew; split_all; simpl in *; split_all; try congruence;
    inj_some;
    rw_eqs; simpl; eqb_simp; simpl;
    case_goal; rewrite ?app_nil_r, <- ?app_assoc; simpl in *; auto; try congruence.
Qed.

Lemma flusher_tag : forall k s a s' m, flusher_step k s a = Some (s', ESend m) ->
  forall j r x, j <> k -> toks j r x [m] = [].
Proof.
  intros k s a s' m H j r x Hj. unfold flusher_step in H.
  inv_step H; simpl; auto; apply Nat.eqb_neq in Hj; rewrite Nat.eqb_sym, Hj; reflexivity.
Qed.

Lemma flusher_env : forall k s a s' e d, flusher_step k s a = Some (s', e) ->
  In d (s_env s') -> In d (s_env s) \/ e = EDef d.
Proof.
  intros k s a s' e d H. unfold flusher_step in H.
  inv_step H; split_all; simpl; auto.
Qed.

(* ------------------------------------------------------------------ *)
(* the global invariant                                                *)

(* every message was sent when its request had no `done` yet *)
Fixpoint wf_sent (l : list msg) : Prop :=
  match l with [] => True | m :: older => done_cnt (mid m) older = 0 /\ wf_sent older end.

Record Inv (st : state) : Prop := {
  inv_tie : rev (st_sent st) = rev (st_wire st) ++ st_chan st;
  inv_cnt : forall r, live_cnt r st + done_cnt r (st_sent st) = if r <? st_next st then 1 else 0;
  inv_swf : forall k s, nth_error (st_sess st) k = Some s -> swf s;
  inv_wfs : wf_sent (st_sent st);
  inv_out : forall k s r x, nth_error (st_sess st) k = Some s ->
      ptoks k r x (st_printed st) = toks k r x (st_sent st) ++ pend s r x;
  inv_fresh : forall j r x, length (st_sess st) <= j ->
      ptoks j r x (st_printed st) = [] /\ toks j r x (st_sent st) = [];
  inv_env : forall k s d, nth_error (st_sess st) k = Some s -> In d (s_env s) -> In (k, d) (st_defs st)
}.

Record local_ok (k : sid) (s s' : session) (e : eff) : Prop := {
  lo_swf : swf s';
  lo_cnt : forall r, sess_cnt r s' + eff_done r e = sess_cnt r s;
  lo_live : forall m, e = ESend m -> sess_cnt (mid m) s >= 1;
  lo_out : forall r x, eff_toks k r x e ++ pend s' r x = pend s r x ++ eff_ptoks k r x e;
  lo_tag : forall m, e = ESend m -> forall j r x, j <> k -> toks j r x [m] = [];
  lo_env : forall d, In d (s_env s') -> In d (s_env s) \/ e = EDef d
}.

Lemma toks_cons : forall k r x m l, toks k r x (m :: l) = toks k r x l ++ toks k r x [m].
Proof. intros. destruct m; simpl; rewrite ?app_nil_r; auto. Qed.

Lemma done_cnt_cons : forall r m l, done_cnt r (m :: l) = done_cnt r [m] + done_cnt r l.
Proof. intros. destruct m; simpl; lia. Qed.

Lemma upd_length : forall A (l : list A) k v, length (upd k v l) = length l.
Proof. induction l; intros [|k] v; simpl; auto. Qed.

Lemma cnt_le1 : forall st r, Inv st -> live_cnt r st + done_cnt r (st_sent st) <= 1.
Proof. intros st r I. rewrite (inv_cnt st I). destruct (r <? st_next st); lia. Qed.

Lemma init_inv : Inv init.
Proof.
  constructor; simpl; auto; intros; try (destruct k; discriminate).
Qed.

Lemma local_preserves : forall st k s s' e,
  Inv st -> nth_error (st_sess st) k = Some s -> local_ok k s s' e -> Inv (apply_eff st k s' e).
Proof.
  intros st k s s' e I Hk L.
  assert (Hlive : forall m, e = ESend m -> done_cnt (mid m) (st_sent st) = 0).
  { intros m ->. pose proof (lo_live _ _ _ _ L m eq_refl) as H1. pose proof (cnt_le1 st (mid m) I) as H2.
    pose proof (sum_ge (sess_cnt (mid m)) _ _ _ Hk). unfold live_cnt in H2. lia. }
  assert (Hcnt : forall r, live_cnt r (apply_eff st k s' e) + eff_done r e = live_cnt r st).
  { intros r. unfold live_cnt. pose proof (sum_upd (sess_cnt r) _ _ _ s' Hk) as H1.
    pose proof (lo_cnt _ _ _ _ L r). destruct e; simpl in *; lia. }
  assert (Hss : st_sess (apply_eff st k s' e) = upd k s' (st_sess st)) by (destruct e; reflexivity).
  assert (Ht : forall j r x, toks j r x (st_sent (apply_eff st k s' e)) = toks j r x (st_sent st) ++ eff_toks j r x e).
  { intros. destruct e; simpl; rewrite ?app_nil_r; auto. destruct m; simpl; rewrite ?app_nil_r; auto. }
  assert (Hp : forall j r x, ptoks j r x (st_printed (apply_eff st k s' e)) =
                             ptoks j r x (st_printed st) ++ match e with EPrint r0 x0 t => ptoks j r x [(k, r0, x0, t)] | _ => [] end).
  { intros. destruct e; simpl; rewrite ?app_nil_r; auto. }
  assert (Htag : forall j r x, j <> k -> eff_toks j r x e = []).
  { intros j r x Hj. destruct e; simpl; auto. apply (lo_tag _ _ _ _ L m eq_refl j r x Hj). }
  assert (Hptag : forall j r x, j <> k -> match e with EPrint r0 x0 t => ptoks j r x [(k, r0, x0, t)] | _ => [] end = []).
  { intros j r x Hj. destruct e; simpl; auto. apply Nat.eqb_neq in Hj. rewrite (Nat.eqb_sym k j), Hj. reflexivity. }
  constructor.
  - destruct e; simpl; try apply (inv_tie st I). rewrite (inv_tie st I), app_assoc. reflexivity.
  - intros r. specialize (Hcnt r). pose proof (inv_cnt st I r) as H1.
    assert (Hn : st_next (apply_eff st k s' e) = st_next st) by (destruct e; reflexivity).
    assert (Hs : done_cnt r (st_sent (apply_eff st k s' e)) = eff_done r e + done_cnt r (st_sent st)).
    { destruct e; simpl; auto. destruct m; simpl; lia. }
    rewrite Hn, Hs. lia.
  - intros j sj Hj. rewrite Hss, (nth_upd _ _ _ j s' _ Hk) in Hj. destruct (Nat.eqb j k).
    + inversion Hj; subst. apply (lo_swf _ _ _ _ L).
    + apply (inv_swf st I _ _ Hj).
  - destruct e; simpl; try apply (inv_wfs st I). split; [apply Hlive; auto | apply (inv_wfs st I)].
  - intros j sj r x Hj. rewrite Hss, (nth_upd _ _ _ j s' _ Hk) in Hj. rewrite Ht, Hp.
    destruct (Nat.eqb_spec j k).
    + inversion Hj; subst. pose proof (lo_out _ _ _ _ L r x) as Ho. pose proof (inv_out st I _ _ r x Hk) as Hi.
      rewrite Hi, <- !app_assoc. f_equal. symmetry. exact Ho.
    + rewrite (Htag j r x n), (Hptag j r x n), !app_nil_r. apply (inv_out st I _ _ r x Hj).
  - intros j r x Hlen. rewrite Hss, upd_length in Hlen.
    destruct (inv_fresh st I j r x Hlen) as [F1 F2]. pose proof (nth_lt _ _ _ _ Hk) as Hlt.
    assert (Hne : j <> k) by lia.
    rewrite Ht, Hp, (Htag j r x Hne), (Hptag j r x Hne), F1, F2. auto.
  - intros j sj d Hj Hd. rewrite Hss, (nth_upd _ _ _ j s' _ Hk) in Hj. destruct (Nat.eqb_spec j k).
    + inversion Hj; subst. destruct (lo_env _ _ _ _ L _ Hd) as [Hd'| ->].
      * pose proof (inv_env st I _ _ _ Hk Hd'). destruct e; simpl; auto.
      * simpl. auto.
    + pose proof (inv_env st I _ _ _ Hj Hd). destruct e; simpl; auto.
Qed.

Lemma worker_local_ok : forall pv k s a s' e, swf s -> worker_step pv k s a = Some (s', e) -> local_ok k s s' e.
Proof.
  intros. constructor; intros; subst.
  - eapply worker_swf; eauto.
  - eapply worker_cnt; eauto.
  - eapply worker_sender_live; eauto.
  - eapply worker_out; eauto.
  - eapply worker_tag; eauto.
  - eapply worker_env; eauto.
Qed.

Lemma flusher_local_ok : forall k s a s' e, swf s -> flusher_step k s a = Some (s', e) -> local_ok k s s' e.
Proof.
  intros. constructor; intros; subst.
  - eapply flusher_swf; eauto.
  - eapply flusher_cnt; eauto.
  - eapply flusher_sender_live; eauto.
  - eapply flusher_out; eauto.
  - eapply flusher_tag; eauto.
  - eapply flusher_env; eauto.
Qed.

(* ---- reader / writer / sigint steps ---- *)

Lemma rd_sess_preserves : forall st k s s' pc',
  Inv st -> nth_error (st_sess st) k = Some s ->
  s_w s' = s_w s -> s_fl s' = s_fl s -> s_out s' = s_out s -> s_err s' = s_err s -> s_env s' = s_env s ->
  (forall r, rd_cnt r pc' + sess_cnt r s' = rd_cnt r (st_rd st) + sess_cnt r s) ->
  Inv (rd_set st pc' (upd k s' (st_sess st))).
Proof.
  intros st k s s' pc' I Hk Ew Ef Eo Ee Eenv Hc.
  assert (Hpend : forall r x, pend s' r x = pend s r x).
  { intros. unfold pend, flinfl, winfl, buf. rewrite Ew, Ef, Eo, Ee. reflexivity. }
  constructor; simpl.
  - apply (inv_tie st I).
  - intros r. pose proof (inv_cnt st I r) as H1. unfold live_cnt in *. simpl.
    pose proof (sum_upd (sess_cnt r) _ _ _ s' Hk). specialize (Hc r). lia.
  - intros j sj Hj. rewrite (nth_upd _ _ _ j s' _ Hk) in Hj. destruct (Nat.eqb j k).
    + inversion Hj; subst. pose proof (inv_swf st I _ _ Hk) as W. unfold swf in *.
      rewrite Ew, Ef, Eo, Ee. exact W.
    + apply (inv_swf st I _ _ Hj).
  - apply (inv_wfs st I).
  - intros j sj r x Hj. rewrite (nth_upd _ _ _ j s' _ Hk) in Hj. destruct (Nat.eqb_spec j k).
    + inversion Hj; subst. rewrite Hpend. apply (inv_out st I _ _ r x Hk).
    + apply (inv_out st I _ _ r x Hj).
  - intros j r x Hlen. rewrite upd_length in Hlen. apply (inv_fresh st I j r x Hlen).
  - intros j sj d Hj Hd. rewrite (nth_upd _ _ _ j s' _ Hk) in Hj. destruct (Nat.eqb_spec j k).
    + inversion Hj; subst. rewrite Eenv in Hd. apply (inv_env st I _ _ _ Hk Hd).
    + apply (inv_env st I _ _ _ Hj Hd).
Qed.

Lemma rd_pc_preserves : forall st pc',
  Inv st -> (forall r, rd_cnt r pc' = rd_cnt r (st_rd st)) -> Inv (rd_set st pc' (st_sess st)).
Proof.
  intros st pc' I Hc. constructor; simpl; try apply I.
  intros r. pose proof (inv_cnt st I r) as H1. unfold live_cnt in *. simpl. rewrite Hc. exact H1.
Qed.

Lemma nth_app_one : forall A (l : list A) v j s, nth_error (l ++ [v]) j = Some s ->
  nth_error l j = Some s \/ (j = length l /\ s = v).
Proof.
  intros A l v j s H. destruct (lt_dec j (length l)).
  - rewrite nth_error_app1 in H by auto. auto.
  - rewrite nth_error_app2 in H by lia. destruct (j - length l) eqn:E; simpl in H.
    + inversion H; subst. right. split; auto; lia.
    + destruct n0; discriminate.
Qed.

Lemma open_sess_some : forall st k s, open_sess st k = Some s -> nth_error (st_sess st) k = Some s.
Proof. unfold open_sess. intros st k s H. destruct (nth_error (st_sess st) k); try discriminate. destruct (s_open s0); congruence. Qed.

Lemma reader_preserves : forall pv st a st', Inv st -> reader_step pv st a = Some st' -> Inv st'.
Proof.
  intros pv st a st' I H. unfold reader_step in H.
  destruct a; destruct (st_rd st) eqn:Erd; try discriminate.
  - (* RAEnq *) destruct o; try discriminate. destruct (open_sess st k) eqn:Eo; try discriminate.
    inversion H; subst; clear H. apply open_sess_some in Eo.
    eapply rd_sess_preserves; eauto. intros r0. rewrite Erd. unfold sess_cnt. simpl.
    rewrite cntq_app. simpl. lia.
  - (* RAUnknown *) destruct (op_session o); try discriminate. destruct (open_sess st s); try discriminate.
    inversion H; subst; clear H. apply rd_pc_preserves; auto. intros; rewrite Erd; reflexivity.
  - (* RAFlag, RGot *) destruct o; try discriminate.
    + destruct (open_sess st k) eqn:Eo; try discriminate.
      destruct (counts pv && (s_pending s =? 0)); try discriminate.
      inversion H; subst; clear H. apply open_sess_some in Eo.
      eapply rd_sess_preserves; eauto. intros r0. rewrite Erd. reflexivity.
    + destruct (has_closed pv); try discriminate. destruct (open_sess st k) eqn:Eo; try discriminate.
      inversion H; subst; clear H. apply open_sess_some in Eo.
      eapply rd_sess_preserves; eauto. intros r0. rewrite Erd. reflexivity.
  - (* RAFlag, RCloseFlag *) destruct (nth_error (st_sess st) k) eqn:Eo; try discriminate.
    inversion H; subst; clear H. eapply rd_sess_preserves; eauto. intros r0. rewrite Erd. reflexivity.
  - (* RAIgnore *) destruct o; try discriminate. destruct (open_sess st k) eqn:Eo; try discriminate.
    destruct (counts pv && (s_pending s =? 0)); try discriminate.
    inversion H; subst; clear H. apply rd_pc_preserves; auto. intros; rewrite Erd; reflexivity.
  - (* RAClosed *) destruct o; try discriminate. destruct (has_closed pv); try discriminate.
    destruct (open_sess st k) eqn:Eo; try discriminate. inversion H; subst; clear H. apply open_sess_some in Eo.
    eapply rd_sess_preserves; eauto. intros r0. rewrite Erd. reflexivity.
  - (* RADrop *) destruct (nth_error (st_sess st) k) eqn:Eo; try discriminate.
    inversion H; subst; clear H. eapply rd_sess_preserves; eauto. intros r0. rewrite Erd. reflexivity.
  - (* RANew *) destruct o; try discriminate. inversion H; subst; clear H.
    constructor; simpl; try apply I.
    + intros r0. pose proof (inv_cnt st I r0) as H1. unfold live_cnt in *. simpl. rewrite sum_app. simpl.
      rewrite Erd in H1. simpl in H1. change (sess_cnt r0 new_session) with 0. lia.
    + intros j sj Hj. apply nth_app_one in Hj. destruct Hj as [Hj|[_ ->]].
      * apply (inv_swf st I _ _ Hj).
      * unfold swf. simpl. auto.
    + intros j sj r0 x Hj. apply nth_app_one in Hj. destruct Hj as [Hj|[-> ->]].
      * apply (inv_out st I _ _ r0 x Hj).
      * destruct (inv_fresh st I (length (st_sess st)) r0 x (le_n _)) as [F1 F2]. rewrite F1, F2. reflexivity.
    + intros j r0 x Hlen. rewrite app_length in Hlen. simpl in Hlen. apply (inv_fresh st I j r0 x). lia.
    + intros j sj d Hj Hd. apply nth_app_one in Hj. destruct Hj as [Hj|[-> ->]].
      * apply (inv_env st I _ _ _ Hj Hd).
      * simpl in Hd. contradiction.
  - (* RAPlain *) destruct o; try discriminate. inversion H; subst; clear H.
    apply rd_pc_preserves; auto. intros; rewrite Erd; reflexivity.
  - (* RASend *) inversion H; subst; clear H.
    assert (Hd : done_cnt r (st_sent st) = 0).
    { pose proof (cnt_le1 st r I) as H2. unfold live_cnt in H2. rewrite Erd in H2. simpl in H2.
      rewrite Nat.eqb_refl in H2. lia. }
    constructor; simpl; try apply I.
    + rewrite (inv_tie st I), app_assoc. reflexivity.
    + intros r0. pose proof (inv_cnt st I r0) as H1. unfold live_cnt in *. simpl. rewrite Erd in H1. simpl in H1. lia.
    + split; [exact Hd | apply (inv_wfs st I)].
Qed.

Lemma step_preserves : forall pv st l st', Inv st -> step pv st l = Some st' -> Inv st'.
Proof.
  intros pv st l st' I H. destruct l; simpl in H.
  - (* LRecv *) destruct (st_rd st) eqn:Erd; try discriminate. inversion H; subst; clear H.
    constructor; simpl; try apply I.
    intros r. pose proof (inv_cnt st I r) as H1. unfold live_cnt in *. simpl. rewrite Erd in H1. simpl in H1.
    destruct (Nat.eqb_spec (st_next st) r).
    + subst. rewrite Nat.ltb_irrefl in H1. destruct (Nat.ltb_spec (st_next st) (S (st_next st))); lia.
    + destruct (Nat.ltb_spec r (st_next st)); destruct (Nat.ltb_spec r (S (st_next st))); lia.
  - eapply reader_preserves; eauto.
  - destruct (nth_error (st_sess st) k) eqn:Ek; try discriminate.
    destruct (worker_step pv k s a) as [[s' e]|] eqn:Ew; try discriminate. inversion H; subst; clear H.
    eapply local_preserves; eauto. eapply worker_local_ok; eauto. apply (inv_swf st I _ _ Ek).
  - destruct (nth_error (st_sess st) k) eqn:Ek; try discriminate.
    destruct (flusher_step k s a) as [[s' e]|] eqn:Ew; try discriminate. inversion H; subst; clear H.
    eapply local_preserves; eauto. eapply flusher_local_ok; eauto. apply (inv_swf st I _ _ Ek).
  - (* LWriter *) destruct (st_chan st) eqn:Ec; try discriminate. inversion H; subst; clear H.
    constructor; simpl; try apply I.
    rewrite (inv_tie st I), Ec, <- app_assoc. reflexivity.
  - (* LSigint *) destruct (nth_error (st_sess st) k) eqn:Ek; try discriminate.
    destruct (counts pv && (s_pending s =? 0)); inversion H; subst; clear H; auto.
    eapply rd_sess_preserves; eauto.
Qed.

Lemma exec_preserves : forall pv tr st st', Inv st -> exec pv st tr = Some st' -> Inv st'.
Proof.
  induction tr as [|l tr IH]; simpl; intros st st' I H.
  - inversion H; subst; auto.
  - destruct (step pv st l) eqn:E; try discriminate. eapply IH; [|eauto]. eapply step_preserves; eauto.
Qed.

Theorem reachable_inv : forall pv st, reachable pv st -> Inv st.
Proof. intros pv st [tr H]. eapply exec_preserves; [apply init_inv | eauto]. Qed.

(* ------------------------------------------------------------------ *)
(* C30: consequences of the invariant                                  *)

Lemma sent_split : forall st, Inv st -> st_sent st = rev (st_chan st) ++ st_wire st.
Proof.
  intros st I. pose proof (inv_tie st I) as H. apply (f_equal (@rev msg)) in H.
  rewrite rev_involutive, rev_app_distr, rev_involutive in H. exact H.
Qed.

Lemma sum_zero : forall f l, (forall s, In s l -> f s = 0) -> sumf f l = 0.
Proof. induction l; simpl; intros H; auto. rewrite (H a), IHl; auto. Qed.

Lemma sum_zero_nth : forall f l k s, sumf f l = 0 -> nth_error l k = Some s -> f s = 0.
Proof. intros f l k s H Hk. pose proof (sum_ge f l k s Hk). lia. Qed.

Lemma in_done_cnt : forall r s l, In (MDone r s) l -> done_cnt r l >= 1.
Proof.
  induction l as [|m l IH]; simpl; intros H; [contradiction|]. destruct H as [->|H].
  - rewrite Nat.eqb_refl. lia.
  - specialize (IH H). destruct m; lia.
Qed.

Lemma wf_sent_app : forall a b, wf_sent (a ++ b) -> (forall m, In m a -> done_cnt (mid m) b = 0) /\ wf_sent b.
Proof.
  induction a as [|m a IH]; simpl; intros b H.
  - split; auto. intros; contradiction.
  - destruct H as [H0 H]. destruct (IH b H) as [H1 H2]. split; auto.
    intros m' [->|Hin]; auto. rewrite done_cnt_app in H0. lia.
Qed.

Lemma one_done_sent : forall pv st r, reachable pv st -> done_cnt r (st_sent st) <= 1.
Proof. intros pv st r R. pose proof (cnt_le1 st r (reachable_inv pv st R)). lia. Qed.

Lemma one_done_wire : forall pv st r, reachable pv st -> done_cnt r (st_wire st) <= 1.
Proof.
  intros pv st r R. pose proof (one_done_sent pv st r R) as H.
  rewrite (sent_split st (reachable_inv pv st R)), done_cnt_app in H. lia.
Qed.

Lemma quiescent_live0 : forall st r, quiescent st = true -> live_cnt r st = 0.
Proof.
  intros st r Q. unfold quiescent in Q. destruct (st_rd st) eqn:Erd; try discriminate.
  destruct (st_chan st); try discriminate. unfold live_cnt. rewrite Erd. simpl.
  apply sum_zero. intros s Hs. rewrite forallb_forall in Q. specialize (Q s Hs).
  unfold sess_quiet in Q. unfold sess_cnt, cur_cnt.
  destruct (s_w s); try discriminate; destruct (s_queue s); try discriminate; reflexivity.
Qed.

Lemma exactly_one_done_quiescent : forall pv st r, reachable pv st -> quiescent st = true ->
  r < st_next st -> done_cnt r (st_wire st) = 1.
Proof.
  intros pv st r R Q Hr. pose proof (reachable_inv pv st R) as I.
  pose proof (inv_cnt st I r) as H. rewrite (quiescent_live0 st r Q) in H.
  destruct (Nat.ltb_spec r (st_next st)); try lia.
  rewrite (sent_split st I) in H. unfold quiescent in Q.
  destruct (st_rd st); try discriminate. destruct (st_chan st); try discriminate. simpl in H. exact H.
Qed.

Lemma no_done_unreceived : forall pv st r, reachable pv st -> st_next st <= r -> done_cnt r (st_sent st) = 0.
Proof.
  intros pv st r R Hr. pose proof (inv_cnt st (reachable_inv pv st R) r) as H.
  destruct (Nat.ltb_spec r (st_next st)); lia.
Qed.

Lemma done_last_sent : forall pv st a r s older, reachable pv st ->
  st_sent st = a ++ MDone r s :: older -> forall m, In m a -> mid m <> r.
Proof.
  intros pv st a r s older R E m Hm Heq. pose proof (inv_wfs st (reachable_inv pv st R)) as W.
  rewrite E in W. destruct (wf_sent_app a _ W) as [H _]. specialize (H m Hm).
  simpl in H. rewrite Heq, Nat.eqb_refl in H. lia.
Qed.

Lemma done_last_wire : forall pv st a r s older, reachable pv st ->
  st_wire st = a ++ MDone r s :: older -> forall m, In m a -> mid m <> r.
Proof.
  intros pv st a r s older R E m Hm. pose proof (sent_split st (reachable_inv pv st R)) as S.
  rewrite E, app_assoc in S. eapply (done_last_sent pv st _ r s older R S). apply in_or_app. auto.
Qed.

Lemma output_before_done_sent : forall pv st pre r s older k x, reachable pv st ->
  st_sent st = pre ++ MDone r s :: older ->
  ptoks k r x (st_printed st) = toks k r x older.
Proof.
  intros pv st pre r s older k x R E. pose proof (reachable_inv pv st R) as I.
  assert (Hpre : toks k r x pre = []).
  { apply toks_no_id. intros m Hm. eapply done_last_sent; eauto. }
  assert (Hsent : toks k r x (st_sent st) = toks k r x older).
  { rewrite E, toks_app. simpl. rewrite Hpre, app_nil_r. reflexivity. }
  assert (Hlive : live_cnt r st = 0).
  { pose proof (cnt_le1 st r I) as H. assert (done_cnt r (st_sent st) >= 1).
    { rewrite E. apply in_done_cnt with (s := s). apply in_or_app. right. left. reflexivity. } lia. }
  destruct (nth_error (st_sess st) k) as [sk|] eqn:Ek.
  - rewrite (inv_out st I k sk r x Ek), Hsent.
    assert (Hc : sess_cnt r sk = 0).
    { unfold live_cnt in Hlive. apply (sum_zero_nth (sess_cnt r) (st_sess st) k sk); auto. lia. }
    unfold pend. unfold sess_cnt, cur_cnt in Hc. destruct (cur (s_w sk)); [|apply app_nil_r].
    destruct (Nat.eqb r0 r); [lia | apply app_nil_r].
  - apply nth_error_None in Ek. destruct (inv_fresh st I k r x Ek) as [F1 F2].
    rewrite F1. rewrite Hsent in F2. auto.
Qed.

Lemma output_before_done_wire : forall pv st a r s older k x, reachable pv st ->
  st_wire st = a ++ MDone r s :: older ->
  ptoks k r x (st_printed st) = toks k r x older.
Proof.
  intros pv st a r s older k x R E. pose proof (sent_split st (reachable_inv pv st R)) as S.
  rewrite E, app_assoc in S. eapply output_before_done_sent; eauto.
Qed.

(* ---- isolation ---- *)

Lemma upd_frame : forall A (l : list A) k j v, j <> k -> nth_error (upd k v l) j = nth_error l j.
Proof. intros. apply nth_upd_other; auto. Qed.

Lemma worker_frame : forall pv st k a st' j, step pv st (LWorker k a) = Some st' -> j <> k ->
  nth_error (st_sess st') j = nth_error (st_sess st) j.
Proof.
  intros pv st k a st' j H Hj. simpl in H. destruct (nth_error (st_sess st) k); try discriminate.
  destruct (worker_step pv k s a) as [[s' e]|]; try discriminate. inversion H; subst.
  destruct e; simpl; apply nth_upd_other; auto.
Qed.

Lemma flusher_frame : forall pv st k a st' j, step pv st (LFlusher k a) = Some st' -> j <> k ->
  nth_error (st_sess st') j = nth_error (st_sess st) j.
Proof.
  intros pv st k a st' j H Hj. simpl in H. destruct (nth_error (st_sess st) k); try discriminate.
  destruct (flusher_step k s a) as [[s' e]|]; try discriminate. inversion H; subst.
  destruct e; simpl; apply nth_upd_other; auto.
Qed.

Lemma defs_step : forall pv st l st' k d, step pv st l = Some st' -> In (k, d) (st_defs st') ->
  In (k, d) (st_defs st) \/ l = LWorker k (WADefine d).
Proof.
  intros pv st l st' k d H Hin. destruct l; simpl in H.
  - destruct (st_rd st); try discriminate. inversion H; subst; auto.
  - unfold reader_step in H. inv_step H; simpl in *; auto.
  - destruct (nth_error (st_sess st) k0); try discriminate.
    destruct (worker_step pv k0 s a) as [[s' e]|] eqn:Ew; try discriminate. inversion H; subst.
    destruct e; simpl in *; auto. destruct Hin as [Heq|]; auto. inversion Heq; subst.
    right. unfold worker_step in Ew. inv_step Ew. reflexivity.
  - destruct (nth_error (st_sess st) k0); try discriminate.
    destruct (flusher_step k0 s a) as [[s' e]|] eqn:Ew; try discriminate. inversion H; subst.
    destruct e; simpl in *; auto. unfold flusher_step in Ew. inv_step Ew.
  - destruct (st_chan st); try discriminate. inversion H; subst; auto.
  - destruct (nth_error (st_sess st) k0); try discriminate.
    match type of H with context [if ?b then _ else _] => destruct b end; inversion H; subst; auto.
Qed.

Lemma defs_provenance : forall pv tr st st' k d, exec pv st tr = Some st' -> In (k, d) (st_defs st') ->
  In (k, d) (st_defs st) \/ In (LWorker k (WADefine d)) tr.
Proof.
  induction tr as [|l tr IH]; simpl; intros st st' k d H Hin.
  - inversion H; subst; auto.
  - destruct (step pv st l) eqn:E; try discriminate. destruct (IH _ _ _ _ H Hin) as [H1|H1]; auto.
    destruct (defs_step _ _ _ _ _ _ E H1); auto.
Qed.

Lemma sees_only_own_defs : forall pv tr st k d st', exec pv init tr = Some st ->
  step pv st (LWorker k (WASees d)) = Some st' -> In (LWorker k (WADefine d)) tr.
Proof.
  intros pv tr st k d st' Hx Hs. pose proof (reachable_inv pv st (ex_intro _ tr Hx)) as I.
  simpl in Hs. destruct (nth_error (st_sess st) k) eqn:Ek; try discriminate.
  destruct (worker_step pv k s (WASees d)) as [[s' e]|] eqn:Ew; [|unfold worker_step in Ew; rewrite Ew in Hs; discriminate].
  unfold worker_step in Ew. destruct (s_w s); try discriminate. destruct (memb d (s_env s)) eqn:Em; try discriminate.
  unfold memb in Em. apply existsb_exists in Em. destruct Em as [d' [Hin Heq]]. apply Nat.eqb_eq in Heq. subst d'.
  pose proof (inv_env st I k s d Ek Hin) as Hd.
  destruct (defs_provenance pv tr init st k d Hx Hd) as [H|H]; auto. simpl in H. contradiction.
Qed.

(* ------------------------------------------------------------------ *)
(* C31: the interrupt flag                                             *)

(* what a reader step may do to a session record *)
Definition rd_change (s s' : session) (flagset : bool) : Prop :=
  s' = s \/ (exists q p, s' = set_pending (set_queue s q) p) \/ (s' = set_flag s true /\ flagset = true) \/
  s' = set_closed s true \/ s' = set_open s false.

(* how session k evolves under one step *)
Definition sess_change (pv : ver) (st : state) (l : label) (k : sid) (s s' : session) : Prop :=
  match l with
  | LWorker k' a => if Nat.eqb k' k then exists e, worker_step pv k s a = Some (s', e) else s' = s
  | LFlusher k' a => if Nat.eqb k' k then exists e, flusher_step k s a = Some (s', e) else s' = s
  | LReader _ => rd_change s s' (is_flagset k st l)
  | LSigint k' => if Nat.eqb k' k then (s' = set_flag s true \/ s' = s) else s' = s
  | LRecv _ | LWriter => s' = s
  end.

Lemma nth_app_l : forall A (l : list A) v k s, nth_error l k = Some s -> nth_error (l ++ [v]) k = Some s.
Proof. intros. rewrite nth_error_app1; auto. eapply nth_lt; eauto. Qed.

Ltac upd_case k0 k Hk0 :=
  rewrite (nth_upd _ _ _ k _ _ Hk0); destruct (Nat.eqb_spec k k0); [subst k0 | ].

Lemma step_session : forall pv st l st' k s, step pv st l = Some st' -> nth_error (st_sess st) k = Some s ->
  exists s', nth_error (st_sess st') k = Some s' /\ sess_change pv st l k s s'.
Proof.
  intros pv st l st' k s H Hk. destruct l; simpl in H.
  - destruct (st_rd st); try discriminate. inversion H; subst. simpl. eauto.
  - unfold sess_change, is_flagset. unfold reader_step in H.
    destruct a; destruct (st_rd st) eqn:Erd; try discriminate;
      repeat match type of H with
             | context [open_sess st ?j] => let E := fresh "Eo" in destruct (open_sess st j) eqn:E; try discriminate; try apply open_sess_some in E
             | context [match ?x with _ => _ end] => destruct x eqn:?; try discriminate
             end; inversion H; subst; clear H; simpl;
      try (eexists; split; [eassumption | left; reflexivity]);
      try (match goal with Hj : nth_error (st_sess st) ?j = Some ?sj |- context [upd ?j _ _] =>
             rewrite (nth_upd _ _ _ k _ _ Hj); destruct (Nat.eqb_spec k j);
             [ subst; rewrite Hk in Hj; inversion Hj; subst; eexists; split; [reflexivity|]
             | eexists; split; [eassumption | left; reflexivity] ] end);
      try (eexists; split; [apply nth_app_l; eassumption | left; reflexivity]);
      unfold rd_change; rewrite ?Nat.eqb_refl; eauto 7.
  - destruct (nth_error (st_sess st) k0) eqn:Ek0; try discriminate.
    destruct (worker_step pv k0 s0 a) as [[s' e]|] eqn:Ew; try discriminate. inversion H; subst; clear H.
    assert (Hss : st_sess (apply_eff st k0 s' e) = upd k0 s' (st_sess st)) by (destruct e; reflexivity).
    rewrite Hss. unfold sess_change. rewrite (nth_upd _ _ _ k _ _ Ek0). rewrite (Nat.eqb_sym k0 k).
    destruct (Nat.eqb_spec k k0).
    + subst. rewrite Hk in Ek0. inversion Ek0; subst. eauto.
    + eauto.
  - destruct (nth_error (st_sess st) k0) eqn:Ek0; try discriminate.
    destruct (flusher_step k0 s0 a) as [[s' e]|] eqn:Ew; try discriminate. inversion H; subst; clear H.
    assert (Hss : st_sess (apply_eff st k0 s' e) = upd k0 s' (st_sess st)) by (destruct e; reflexivity).
    rewrite Hss. unfold sess_change. rewrite (nth_upd _ _ _ k _ _ Ek0). rewrite (Nat.eqb_sym k0 k).
    destruct (Nat.eqb_spec k k0).
    + subst. rewrite Hk in Ek0. inversion Ek0; subst. eauto.
    + eauto.
  - destruct (st_chan st); try discriminate. inversion H; subst. simpl. eauto.
  - destruct (nth_error (st_sess st) k0) eqn:Ek0; try discriminate.
    match type of H with context [if ?b then _ else _] => destruct b end; inversion H; subst; clear H; simpl.
    + exists s. split; auto. destruct (Nat.eqb k0 k); auto.
    + rewrite (nth_upd _ _ _ k _ _ Ek0). rewrite (Nat.eqb_sym k0 k). destruct (Nat.eqb_spec k k0).
      * subst. rewrite Hk in Ek0. inversion Ek0; subst. eauto.
      * eauto.
Qed.

Lemma flusher_same : forall k s a s' e, flusher_step k s a = Some (s', e) ->
  s_flag s' = s_flag s /\ s_w s' = s_w s /\ s_closed s' = s_closed s.
Proof. intros k s a s' e H. unfold flusher_step in H. inv_step H; split_all; simpl; auto. Qed.

Lemma worker_flag_true : forall pv k s a s' e, worker_step pv k s a = Some (s', e) ->
  s_flag s = true -> a <> WAReset -> a <> WACheck -> a <> WADone -> s_flag s' = true.
Proof. intros pv k s a s' e H F N1 N2 N3. unfold worker_step in H. inv_step H; split_all; simpl; auto; congruence. Qed.

(* finish_request keeps the flag while another request of the session is pending *)
Lemma worker_done_keeps : forall pv k s s' e, worker_step pv k s WADone = Some (s', e) ->
  2 <= s_pending s -> s_flag s' = s_flag s.
Proof.
  intros pv k s s' e H P. unfold worker_step in H. destruct (s_w s); try discriminate.
  destruct (s_pending s) as [|[|p]]; try lia. simpl in H. inversion H; subst. reflexivity.
Qed.

Lemma worker_flag_false : forall pv k s a s' e, worker_step pv k s a = Some (s', e) ->
  s_flag s = false -> a <> WAReflag -> s_flag s' = false.
Proof. intros pv k s a s' e H F N1. unfold worker_step in H. inv_step H; split_all; simpl; auto; congruence. Qed.

Lemma worker_closed_same : forall pv k s a s' e, worker_step pv k s a = Some (s', e) -> s_closed s' = s_closed s.
Proof. intros pv k s a s' e H. unfold worker_step in H. inv_step H; split_all; simpl; auto. Qed.

Lemma rd_change_same : forall s s' b, rd_change s s' b -> s_w s' = s_w s /\ (s_flag s = true -> s_flag s' = true) /\
  (b = false -> s_flag s' = s_flag s) /\ (s_closed s = true -> s_closed s' = true).
Proof.
  intros s s' b [->|[[q [p ->]]|[[-> Hb]|[->| ->]]]]; simpl; repeat split; auto; congruence.
Qed.

(* only the worker's own reset (old protocol), check and finish_request clear the flag *)
Lemma flag_stays_true : forall pv st l st' k, step pv st l = Some st' -> flag_of st k = Some true ->
  l <> LWorker k WAReset -> l <> LWorker k WACheck -> l <> LWorker k WADone -> flag_of st' k = Some true.
Proof.
  intros pv st l st' k H F N1 N2 N3. unfold flag_of in *. destruct (nth_error (st_sess st) k) as [s|] eqn:Ek; try discriminate.
  destruct (step_session pv st l st' k s H Ek) as [s' [Ek' C]]. rewrite Ek'. inversion F as [F'].
  f_equal. destruct l; simpl in C; subst; auto.
  - apply rd_change_same in C. destruct C as [_ [C _]]. rewrite F'. auto.
  - destruct (Nat.eqb_spec k0 k); subst; auto. destruct C as [e C].
    rewrite F'. eapply worker_flag_true; eauto; congruence.
  - destruct (Nat.eqb_spec k0 k); subst; auto. destruct C as [e C].
    apply flusher_same in C. destruct C as [C _]. congruence.
  - destruct (Nat.eqb k0 k); [destruct C|]; subst; auto.
Qed.

(* only stores of `true` (interrupt, close, SIGINT, fix-1 re-raise) set it *)
Lemma flag_stays_false : forall pv st l st' k, step pv st l = Some st' -> flag_of st k = Some false ->
  is_flagset k st l = false -> flag_of st' k = Some false.
Proof.
  intros pv st l st' k H F N. unfold flag_of in *. destruct (nth_error (st_sess st) k) as [s|] eqn:Ek; try discriminate.
  destruct (step_session pv st l st' k s H Ek) as [s' [Ek' C]]. rewrite Ek'. inversion F as [F'].
  f_equal. destruct l; simpl in C; subst; auto.
  - apply rd_change_same in C. destruct C as [_ [_ [C _]]]. rewrite F'. rewrite <- F'. auto.
  - destruct (Nat.eqb_spec k0 k); subst; auto. destruct C as [e C].
    rewrite F'. eapply worker_flag_false; eauto. intros ->. simpl in N. rewrite Nat.eqb_refl in N. discriminate.
  - destruct (Nat.eqb_spec k0 k); subst; auto. destruct C as [e C].
    apply flusher_same in C. destruct C as [C _]. congruence.
  - simpl in N. rewrite N in C. subst; auto.
Qed.

Lemma flag_true_until : forall pv tr st st' k, exec pv st tr = Some st' -> flag_of st k = Some true ->
  (forall l, In l tr -> l <> LWorker k WAReset /\ l <> LWorker k WACheck /\ l <> LWorker k WADone) ->
  flag_of st' k = Some true.
Proof.
  induction tr as [|l tr IH]; simpl; intros st st' k H F N.
  - inversion H; subst; auto.
  - destruct (step pv st l) eqn:E; try discriminate. eapply IH; eauto.
    destruct (N l (or_introl eq_refl)) as [N1 [N2 N3]]. eapply flag_stays_true; eauto.
Qed.

Lemma check_outcome : forall pv st k s r, nth_error (st_sess st) k = Some s -> s_w s = WRun r ->
  exists st', step pv st (LWorker k WACheck) = Some st' /\
    (if s_flag s then wpc_of st' k = Some (WStop r RInterrupted) /\ flag_of st' k = Some false
     else wpc_of st' k = Some (WRun r) /\ flag_of st' k = Some false).
Proof.
  intros pv st k s r Ek Ew. simpl. rewrite Ek. unfold worker_step. rewrite Ew.
  pose proof (nth_lt _ _ _ _ Ek) as Hlt.
  destruct (s_flag s) eqn:Ef; eexists; (split; [reflexivity|]); unfold wpc_of, flag_of; simpl;
    rewrite nth_upd_same by auto; simpl; rewrite ?Ew, ?Ef; auto.
Qed.

(* C31 interrupt_running *)
Lemma interrupt_running_lemma : forall pv st tr st' k r,
  flag_of st k = Some true -> exec pv st tr = Some st' ->
  (forall l, In l tr -> l <> LWorker k WAReset /\ l <> LWorker k WACheck /\ l <> LWorker k WADone) ->
  wpc_of st' k = Some (WRun r) ->
  exists st'', step pv st' (LWorker k WACheck) = Some st'' /\
               wpc_of st'' k = Some (WStop r RInterrupted) /\ flag_of st'' k = Some false.
Proof.
  intros pv st tr st' k r F H N W. pose proof (flag_true_until pv tr st st' k H F N) as F'.
  unfold wpc_of, flag_of in *. destruct (nth_error (st_sess st') k) as [s|] eqn:Ek; try discriminate.
  inversion W as [W']. inversion F' as [F'']. destruct (check_outcome pv st' k s r Ek W') as [st'' [Hs Ho]].
  rewrite F'' in Ho. exists st''. unfold wpc_of, flag_of in Ho. tauto.
Qed.

(* the result an eval ended with is the status of its `done` *)
Definition stat_of_pc (pc : wpc) : option (rid * status) :=
  match pc with
  | WStop r res | WJoin r res | WDrain r res _ | WDrainSend r res _ _ => Some (r, status_of res)
  | WSend r _ s => Some (r, s)
  | _ => None
  end.

Lemma worker_stat : forall pv k s a s' e r sx, worker_step pv k s a = Some (s', e) ->
  stat_of_pc (s_w s) = Some (r, sx) ->
  stat_of_pc (s_w s') = Some (r, sx) \/ e = ESend (MDone r sx).
Proof.
  intros pv k s a s' e r sx H St. unfold worker_step in H.
  inv_step H; split_all; simpl in *; rw_eqs; inj_some; auto; try discriminate;
    try (match goal with E : s_w ?s = _, H : stat_of_pc (s_w ?s) = _ |- _ => rewrite E in H; simpl in H; inj_some end; auto);
    try (destruct res; simpl; auto).
Qed.

Lemma stat_live : forall s r sx, stat_of_pc (s_w s) = Some (r, sx) -> sess_cnt r s >= 1.
Proof.
  intros s r sx. unfold sess_cnt, cur_cnt. destruct (s_w s); simpl; intros; try discriminate; inj_some;
    rewrite Nat.eqb_refl; lia.
Qed.

Lemma sent_grows_step : forall pv st l st', step pv st l = Some st' ->
  st_sent st' = st_sent st \/ exists m, st_sent st' = m :: st_sent st.
Proof.
  intros pv st l st' H. destruct l; simpl in H.
  - destruct (st_rd st); try discriminate. inversion H; subst; auto.
  - unfold reader_step in H. inv_step H; simpl; eauto.
  - destruct (nth_error (st_sess st) k); try discriminate.
    destruct (worker_step pv k s a) as [[s' e]|]; try discriminate. inversion H; subst. destruct e; simpl; eauto.
  - destruct (nth_error (st_sess st) k); try discriminate.
    destruct (flusher_step k s a) as [[s' e]|]; try discriminate. inversion H; subst. destruct e; simpl; eauto.
  - destruct (st_chan st); try discriminate. inversion H; subst; auto.
  - destruct (nth_error (st_sess st) k); try discriminate.
    match type of H with context [if ?b then _ else _] => destruct b end; inversion H; subst; auto.
Qed.

Lemma sent_grows : forall pv tr st st', exec pv st tr = Some st' -> exists ext, st_sent st' = ext ++ st_sent st.
Proof.
  induction tr as [|l tr IH]; simpl; intros st st' H.
  - inversion H; subst. exists []. reflexivity.
  - destruct (step pv st l) eqn:E; try discriminate. destruct (IH _ _ H) as [ext Hx].
    destruct (sent_grows_step _ _ _ _ E) as [Hs|[m Hs]]; rewrite Hs in Hx.
    + eauto.
    + exists (ext ++ [m]). rewrite <- app_assoc. exact Hx.
Qed.

Lemma done_status_fixed : forall pv st r sx tr st' s', Inv st ->
  (exists pre, st_sent st = MDone r sx :: pre /\ done_cnt r pre = 0) ->
  exec pv st tr = Some st' -> In (MDone r s') (st_sent st') -> s' = sx.
Proof.
  intros pv st r sx tr st' s' I [pre [Hs Hz]] H Hin.
  pose proof (exec_preserves pv tr st st' I H) as I'. pose proof (cnt_le1 st' r I') as Hle.
  destruct (sent_grows pv tr st st' H) as [ext Hx]. rewrite Hx, Hs in Hin, Hle.
  rewrite done_cnt_app in Hle. simpl in Hle. rewrite Nat.eqb_refl in Hle.
  apply in_app_or in Hin. destruct Hin as [Hin|[Hin|Hin]].
  - apply in_done_cnt in Hin. lia.
  - inversion Hin; auto.
  - apply in_done_cnt in Hin. lia.
Qed.

Lemma status_carried : forall pv tr st st' k pc r sx s', Inv st ->
  wpc_of st k = Some pc -> stat_of_pc pc = Some (r, sx) ->
  exec pv st tr = Some st' -> In (MDone r s') (st_sent st') -> s' = sx.
Proof.
  induction tr as [|l tr IH]; simpl; intros st st' k pc r sx s' I W St H Hin.
  - inversion H; subst. exfalso. unfold wpc_of in W. destruct (nth_error (st_sess st') k) as [s|] eqn:Ek; try discriminate.
    assert (W' : s_w s = pc) by congruence. pose proof (cnt_le1 st' r I) as Hle. apply in_done_cnt in Hin.
    pose proof (sum_ge (sess_cnt r) _ _ _ Ek) as Hge. unfold live_cnt in Hle.
    assert (sess_cnt r s >= 1).
    { apply (stat_live s r sx). congruence. }
    lia.
  - destruct (step pv st l) as [st1|] eqn:E; try discriminate.
    pose proof (step_preserves pv st l st1 I E) as I1.
    unfold wpc_of in W. destruct (nth_error (st_sess st) k) as [s|] eqn:Ek; try discriminate. assert (W' : s_w s = pc) by congruence.
    destruct (step_session pv st l st1 k s E Ek) as [s1 [Ek1 C]].
    assert (Hcase : stat_of_pc (s_w s1) = Some (r, sx) \/
                    (exists pre, st_sent st1 = MDone r sx :: pre /\ done_cnt r pre = 0)).
    { destruct l; simpl in C; subst; auto.
      - apply rd_change_same in C. destruct C as [C _]. rewrite C. auto.
      - destruct (Nat.eqb_spec k0 k); subst; auto. destruct C as [e C].
        assert (St' : stat_of_pc (s_w s) = Some (r, sx)) by congruence.
        destruct (worker_stat pv k s a s1 e r sx C St') as [Hc|Hc]; auto.
        right. simpl in E. rewrite Ek, C in E. inversion E; subst. simpl. eexists; split; [reflexivity|].
        pose proof (cnt_le1 st r I) as Hle. pose proof (sum_ge (sess_cnt r) _ _ _ Ek) as Hge. unfold live_cnt in Hle.
        assert (sess_cnt r s >= 1).
        { apply (stat_live s r sx). congruence. }
        lia.
      - destruct (Nat.eqb_spec k0 k); subst; auto. destruct C as [e C].
        apply flusher_same in C. destruct C as [_ [C _]]. rewrite C. auto.
      - destruct (Nat.eqb k0 k); [destruct C|]; subst; auto. }
    destruct Hcase as [Hc|Hc].
    + eapply (IH st1 st' k (s_w s1)); eauto. unfold wpc_of. rewrite Ek1. reflexivity.
    + eapply done_status_fixed; eauto.
Qed.

(* an eval stopped by the flag check reports `interrupted` *)
Lemma interrupted_status_lemma : forall pv st tr st' k r s', reachable pv st ->
  wpc_of st k = Some (WStop r RInterrupted) ->
  exec pv st tr = Some st' -> In (MDone r s') (st_sent st') -> s' = StInterrupted.
Proof.
  intros. eapply (status_carried pv tr st st' k (WStop r RInterrupted) r StInterrupted); eauto.
  eapply reachable_inv; eauto.
Qed.

(* ---- flag stays down ---- *)

(* no store of `true` into session k's flag along the trace *)
Fixpoint no_flagset (pv : ver) (k : sid) (st : state) (tr : list label) : bool :=
  match tr with
  | [] => true
  | l :: tr' => negb (is_flagset k st l) &&
                match step pv st l with Some st1 => no_flagset pv k st1 tr' | None => true end
  end.

Lemma flag_false_until : forall pv tr st st' k, exec pv st tr = Some st' -> flag_of st k = Some false ->
  no_flagset pv k st tr = true -> flag_of st' k = Some false.
Proof.
  induction tr as [|l tr IH]; simpl; intros st st' k H F N.
  - inversion H; subst; auto.
  - destruct (step pv st l) eqn:E; try discriminate. apply andb_prop in N. destruct N as [N1 N2].
    apply negb_true_iff in N1. eapply IH; eauto. eapply flag_stays_false; eauto.
Qed.

(* ---- close (fix-1) ---- *)

Definition rd_mid_close (k : sid) (pc : rpc) : bool :=
  match pc with RCloseFlag _ k' => Nat.eqb k' k | _ => false end.
Definition must_flag (pc : wpc) : bool :=
  match pc with WReady _ _ | WWarned _ | WRun _ => true | _ => false end.

(* once close has stored both flags, an eval of that session that is past
   its reset sequence and not yet stopped has the interrupt flag raised *)
Definition closeI (st : state) : Prop :=
  forall k s, nth_error (st_sess st) k = Some s -> s_closed s = true ->
    rd_mid_close k (st_rd st) = false -> must_flag (s_w s) = true -> s_flag s = true.

Lemma worker_close : forall k s a s' e, worker_step VFix2 k s a = Some (s', e) ->
  (s_closed s = true -> must_flag (s_w s) = true -> s_flag s = true) ->
  s_closed s' = true -> must_flag (s_w s') = true -> s_flag s' = true.
Proof.
  intros k s a s' e H P. unfold worker_step in H.
  inv_step H; split_all; simpl in *; rw_eqs; intros; auto; try discriminate; try congruence;
    try (match goal with E : s_w ?s = _, P : _ -> must_flag (s_w ?s) = true -> _ |- _ => rewrite E in P; simpl in P; auto end);
    try (exfalso; match goal with P : _ -> true = true -> false = true |- _ => specialize (P ltac:(assumption) eq_refl); discriminate end).
Qed.

Lemma reader_close_facts : forall st a st' k s s', reader_step VFix2 st a = Some st' ->
  nth_error (st_sess st) k = Some s -> nth_error (st_sess st') k = Some s' ->
  s_w s' = s_w s /\
  (s_closed s' = true -> rd_mid_close k (st_rd st') = false ->
     s_flag s' = true \/ (s_closed s = true /\ rd_mid_close k (st_rd st) = false /\ s_flag s' = s_flag s)).
Proof.
  intros st a st' k s s' H Ek Ek'. unfold reader_step in H.
  revert H. destruct a; destruct (st_rd st) eqn:Erd; intros H; try discriminate;
    repeat match type of H with
           | context [open_sess st ?j] => let E := fresh "Eo" in destruct (open_sess st j) eqn:E; try discriminate; try apply open_sess_some in E
           | context [match ?x with _ => _ end] => destruct x eqn:?; try discriminate
           end; inversion H; subst; clear H; simpl in *;
    repeat match goal with
           | Hj : nth_error (st_sess st) ?j = Some ?sj, Hk' : nth_error (upd ?j _ _) k = Some _ |- _ =>
               rewrite (nth_upd _ _ _ k _ _ Hj) in Hk'; destruct (Nat.eqb_spec k j);
               [subst; rewrite Ek in Hj; inversion Hj; subst; inversion Hk'; subst; simpl in * | rewrite Ek in Hk'; inversion Hk'; subst]
           end;
    try (rewrite Ek in Ek'; inversion Ek'; subst);
    try (rewrite (nth_app_l _ _ _ _ _ Ek) in Ek'; inversion Ek'; subst);
    rewrite ?Nat.eqb_refl; split; auto; intros; auto; try discriminate;
    try (right; repeat split; auto; apply Nat.eqb_neq; auto; fail).
Qed.

Lemma closeI_step : forall st l st', closeI st -> step VFix2 st l = Some st' -> closeI st'.
Proof.
  intros st l st' CI H k s' Ek' Hc Hm Hf.
  destruct (nth_error (st_sess st) k) as [s|] eqn:Ek.
  - destruct (step_session VFix2 st l st' k s H Ek) as [s1 [Ek1 C]]. rewrite Ek' in Ek1. inversion Ek1; subst s1. clear Ek1.
    specialize (CI k s Ek).
    destruct l; simpl in C.
    + subst. simpl in H. revert H. destruct (st_rd st) eqn:Erd; intros H; try discriminate. inversion H; subst. simpl in *.
      apply CI; auto.
    + simpl in H. destruct (reader_close_facts st a st' k s s' H Ek Ek') as [Hw Hcl].
      destruct (Hcl Hc Hm) as [Hfl|[Hc0 [Hm0 Hf0]]]; auto. rewrite Hf0. apply CI; auto. rewrite <- Hw. auto.
    + destruct (Nat.eqb_spec k0 k).
      * subst. destruct C as [e C]. simpl in H. rewrite Ek, C in H. inversion H; subst.
        assert (Hrd : st_rd (apply_eff st k s' e) = st_rd st) by (destruct e; reflexivity). rewrite Hrd in Hm.
        eapply worker_close; eauto.
      * subst. simpl in H. destruct (nth_error (st_sess st) k0); try discriminate.
        destruct (worker_step VFix2 k0 s0 a) as [[s1 e]|]; try discriminate. inversion H; subst.
        assert (Hrd : st_rd (apply_eff st k0 s1 e) = st_rd st) by (destruct e; reflexivity). rewrite Hrd in Hm. auto.
    + assert (Hrd : st_rd st' = st_rd st).
      { simpl in H. destruct (nth_error (st_sess st) k0); try discriminate.
        destruct (flusher_step k0 s0 a) as [[s1 e]|]; try discriminate. inversion H; subst. destruct e; reflexivity. }
      rewrite Hrd in Hm. destruct (Nat.eqb_spec k0 k).
      * subst. destruct C as [e0 C]. apply flusher_same in C. destruct C as [C1 [C2 C3]]. rewrite C1. apply CI; congruence.
      * subst. auto.
    + subst. simpl in H. destruct (st_chan st); try discriminate. inversion H; subst. simpl in *. auto.
    + assert (Hrd : st_rd st' = st_rd st).
      { simpl in H. destruct (nth_error (st_sess st) k0); try discriminate.
        match type of H with context [if ?b then _ else _] => destruct b end; inversion H; subst; reflexivity. }
      rewrite Hrd in Hm. destruct (Nat.eqb k0 k); [destruct C|]; subst; simpl in *; auto.
  - (* session k is new in st': it is not closed *)
    exfalso. destruct l; simpl in H.
    + destruct (st_rd st); try discriminate. inversion H; subst. simpl in *. congruence.
    + unfold reader_step in H.
      revert H. destruct a; destruct (st_rd st) eqn:Erd; intros H; try discriminate;
        repeat match type of H with
               | context [open_sess st ?j] => let E := fresh "Eo" in destruct (open_sess st j) eqn:E; try discriminate; try apply open_sess_some in E
               | context [match ?x with _ => _ end] => destruct x eqn:?; try discriminate
               end; inversion H; subst; clear H; simpl in *;
        repeat match goal with
               | Hj : nth_error (st_sess st) ?j = Some ?sj, Hk' : nth_error (upd ?j _ _) k = Some _ |- _ =>
                   rewrite (nth_upd _ _ _ k _ _ Hj) in Hk'; destruct (Nat.eqb_spec k j); [subst; congruence | congruence]
               end; try congruence.
      apply nth_app_one in Ek'. destruct Ek' as [Ek'|[_ ->]]; [congruence | simpl in Hc; discriminate].
    + destruct (nth_error (st_sess st) k0) eqn:Ek0; try discriminate.
      destruct (worker_step VFix2 k0 s a) as [[s1 e]|]; try discriminate. inversion H; subst.
      assert (Hss : st_sess (apply_eff st k0 s1 e) = upd k0 s1 (st_sess st)) by (destruct e; reflexivity).
      rewrite Hss, (nth_upd _ _ _ k _ _ Ek0) in Ek'. destruct (Nat.eqb_spec k k0); [subst; congruence | congruence].
    + destruct (nth_error (st_sess st) k0) eqn:Ek0; try discriminate.
      destruct (flusher_step k0 s a) as [[s1 e]|]; try discriminate. inversion H; subst.
      assert (Hss : st_sess (apply_eff st k0 s1 e) = upd k0 s1 (st_sess st)) by (destruct e; reflexivity).
      rewrite Hss, (nth_upd _ _ _ k _ _ Ek0) in Ek'. destruct (Nat.eqb_spec k k0); [subst; congruence | congruence].
    + destruct (st_chan st); try discriminate. inversion H; subst. simpl in *. congruence.
    + destruct (nth_error (st_sess st) k0) eqn:Ek0; try discriminate.
      match type of H with context [if ?b then _ else _] => destruct b end; inversion H; subst; simpl in *; try congruence.
      rewrite (nth_upd _ _ _ k _ _ Ek0) in Ek'. destruct (Nat.eqb_spec k k0); [subst; congruence | congruence].
Qed.

Lemma closeI_exec : forall tr st st', closeI st -> exec VFix2 st tr = Some st' -> closeI st'.
Proof.
  induction tr as [|l tr IH]; simpl; intros st st' CI H.
  - inversion H; subst; auto.
  - destruct (step VFix2 st l) eqn:E; try discriminate. eapply IH; [|eauto]. eapply closeI_step; eauto.
Qed.

Lemma closeI_reachable : forall st, reachable VFix2 st -> closeI st.
Proof.
  intros st [tr H]. eapply closeI_exec; [|eauto]. intros k s Ek. destruct k; discriminate.
Qed.

(* C31 close_stops_running (code with fix-1) *)
Lemma close_stops_running_lemma : forall st k s r, reachable VFix2 st ->
  nth_error (st_sess st) k = Some s -> s_closed s = true -> rd_mid_close k (st_rd st) = false ->
  s_w s = WRun r ->
  exists st', step VFix2 st (LWorker k WACheck) = Some st' /\ wpc_of st' k = Some (WStop r RInterrupted).
Proof.
  intros st k s r R Ek Hc Hm Hw. pose proof (closeI_reachable st R k s Ek Hc Hm) as F.
  rewrite Hw in F. specialize (F eq_refl).
  destruct (check_outcome VFix2 st k s r Ek Hw) as [st' [Hs Ho]]. rewrite F in Ho. exists st'. tauto.
Qed.

(* the close handler really reaches such a state: after its two stores the
   session is closed and the reader is past the flag store *)
Lemma close_sets_both : forall st st1 st2 r k, st_rd st = RGot r (OClose k) ->
  step VFix2 st (LReader RAClosed) = Some st1 -> step VFix2 st1 (LReader RAFlag) = Some st2 ->
  exists s, nth_error (st_sess st2) k = Some s /\ s_closed s = true /\ s_flag s = true /\
            rd_mid_close k (st_rd st2) = false.
Proof.
  intros st st1 st2 r k Erd H1 H2. simpl in H1. unfold reader_step in H1. rewrite Erd in H1. simpl in H1.
  destruct (open_sess st k) eqn:Eo; try discriminate. apply open_sess_some in Eo. inversion H1; subst; clear H1.
  simpl in H2. unfold reader_step in H2. simpl in H2.
  pose proof (nth_lt _ _ _ _ Eo) as Hlt. rewrite nth_upd_same in H2 by auto. inversion H2; subst; clear H2. simpl.
  eexists. rewrite nth_upd_same by (rewrite upd_length; auto). split; [reflexivity|]. simpl. auto.
Qed.

(* ------------------------------------------------------------------ *)
(* fix-2: the pending counter                                          *)

(* per session: the counter counts what is queued or in the worker's hands;
   an idle, open (not closed) session has its flag down *)
Definition sess_v2 (s : session) : Prop :=
  s_pending s = length (s_queue s) + busy (s_w s) /\
  (s_pending s = 0 -> s_closed s = false -> s_flag s = false).

Definition v2I (st : state) : Prop :=
  forall k s, nth_error (st_sess st) k = Some s ->
    sess_v2 s /\ (rd_mid_close k (st_rd st) = true -> s_closed s = true).

Lemma worker_v2 : forall k s a s' e, worker_step VFix2 k s a = Some (s', e) -> sess_v2 s ->
  sess_v2 s' /\ s_closed s' = s_closed s.
Proof.
  intros k s a s' e H [P I]. unfold worker_step in H. cbn [counts has_closed] in H. unfold sess_v2.
  inv_step H; split_all; simpl in *; rw_eqs; simpl in *;
    repeat match goal with E : s_queue ?s = _ |- _ => rewrite E in * end; simpl in *;
    repeat match goal with E : s_w ?s = _ |- _ => rewrite E in * end; simpl in *;
    repeat split; intros; auto; try lia; try congruence;
    try (apply I; auto; lia).
Qed.

Lemma flusher_v2 : forall k s a s' e, flusher_step k s a = Some (s', e) -> sess_v2 s ->
  sess_v2 s' /\ s_closed s' = s_closed s.
Proof.
  intros k s a s' e H [P I]. unfold flusher_step in H. unfold sess_v2.
  inv_step H; split_all; simpl in *; repeat split; auto.
Qed.

Lemma reader_v2 : forall st a st' k s', v2I st -> reader_step VFix2 st a = Some st' ->
  nth_error (st_sess st') k = Some s' ->
  sess_v2 s' /\ (rd_mid_close k (st_rd st') = true -> s_closed s' = true).
Proof.
  intros st a st' k s' VI H Ek'. unfold reader_step in H. cbn [counts has_closed] in H. unfold sess_v2.
  revert H. destruct a; destruct (st_rd st) eqn:Erd; intros H; try discriminate;
    repeat match type of H with
           | context [open_sess st ?j] => let E := fresh "Eo" in destruct (open_sess st j) eqn:E; try discriminate; try apply open_sess_some in E
           | context [match ?x with _ => _ end] => destruct x eqn:?; try discriminate
           end; inversion H; subst; clear H; simpl in *;
    repeat match goal with
           | Hj : nth_error (st_sess st) ?j = Some ?sj, Hk' : nth_error (upd ?j _ _) k = Some _ |- _ =>
               rewrite (nth_upd _ _ _ k _ _ Hj) in Hk'; destruct (Nat.eqb_spec k j);
               [subst; inversion Hk'; subst; simpl in *; destruct (VI _ _ Hj) as [[P I] Cl]
               | destruct (VI _ _ Hk') as [[P I] Cl]]
           end;
    try (apply nth_app_one in Ek'; destruct Ek' as [Ek'|[_ ->]]; [destruct (VI _ _ Ek') as [[P I] Cl] | simpl]);
    try (destruct (VI _ _ Ek') as [[P I] Cl]);
    rewrite ?Erd in *; simpl in *; rewrite ?Nat.eqb_refl in *; rewrite ?app_length in *; simpl in *;
    repeat split; intros; auto; try lia; try congruence; try discriminate;
    try (apply I; auto; lia);
    try (match goal with H : (_ =? _) = true |- _ => apply Nat.eqb_eq in H; subst; congruence end);
    try (match goal with H : (?a =? ?b) = true, n : ?b <> ?a |- _ => apply Nat.eqb_eq in H; congruence end);
    try (match goal with Hb : (?x =? 0) = false, H0 : ?x = 0 |- _ => rewrite H0 in Hb; discriminate end);
    try (match goal with Cl : true = true -> ?c = true, H0 : ?c = false |- _ => rewrite (Cl eq_refl) in H0; discriminate end).
Qed.

Lemma v2I_step : forall st l st', v2I st -> step VFix2 st l = Some st' -> v2I st'.
Proof.
  intros st l st' VI H k s' Ek'. destruct l; simpl in H.
  - revert H. destruct (st_rd st) eqn:Erd; intros H; try discriminate. inversion H; subst. simpl in *.
    destruct (VI _ _ Ek') as [V C]. split; auto. intros; discriminate.
  - eapply reader_v2; eauto.
  - destruct (nth_error (st_sess st) k0) eqn:Ek0; try discriminate.
    destruct (worker_step VFix2 k0 s a) as [[s1 e]|] eqn:Ew; try discriminate. inversion H; subst; clear H.
    assert (Hss : st_sess (apply_eff st k0 s1 e) = upd k0 s1 (st_sess st)) by (destruct e; reflexivity).
    assert (Hrd : st_rd (apply_eff st k0 s1 e) = st_rd st) by (destruct e; reflexivity).
    rewrite Hss, (nth_upd _ _ _ k _ _ Ek0) in Ek'. rewrite Hrd. destruct (Nat.eqb_spec k k0).
    + inversion Ek'; subst. destruct (VI _ _ Ek0) as [V C]. destruct (worker_v2 _ _ _ _ _ Ew V) as [V' Cs].
      split; auto. rewrite Cs. auto.
    + apply (VI _ _ Ek').
  - destruct (nth_error (st_sess st) k0) eqn:Ek0; try discriminate.
    destruct (flusher_step k0 s a) as [[s1 e]|] eqn:Ew; try discriminate. inversion H; subst; clear H.
    assert (Hss : st_sess (apply_eff st k0 s1 e) = upd k0 s1 (st_sess st)) by (destruct e; reflexivity).
    assert (Hrd : st_rd (apply_eff st k0 s1 e) = st_rd st) by (destruct e; reflexivity).
    rewrite Hss, (nth_upd _ _ _ k _ _ Ek0) in Ek'. rewrite Hrd. destruct (Nat.eqb_spec k k0).
    + inversion Ek'; subst. destruct (VI _ _ Ek0) as [V C]. destruct (flusher_v2 _ _ _ _ _ Ew V) as [V' Cs].
      split; auto. rewrite Cs. auto.
    + apply (VI _ _ Ek').
  - destruct (st_chan st); try discriminate. inversion H; subst. simpl in *. apply (VI _ _ Ek').
  - destruct (nth_error (st_sess st) k0) eqn:Ek0; try discriminate. cbn [counts andb] in H.
    destruct (s_pending s =? 0) eqn:Ep; inversion H; subst; clear H.
    + apply (VI _ _ Ek').
    + simpl in *. rewrite (nth_upd _ _ _ k _ _ Ek0) in Ek'. destruct (Nat.eqb_spec k k0).
      * inversion Ek'; subst. destruct (VI _ _ Ek0) as [[P I] C]. unfold sess_v2. simpl. repeat split; auto.
        intros H0. rewrite H0 in Ep. discriminate.
      * apply (VI _ _ Ek').
Qed.

Lemma v2I_exec : forall tr st st', v2I st -> exec VFix2 st tr = Some st' -> v2I st'.
Proof.
  induction tr as [|l tr IH]; simpl; intros st st' VI H.
  - inversion H; subst; auto.
  - destruct (step VFix2 st l) eqn:E; try discriminate. eapply IH; [|eauto]. eapply v2I_step; eauto.
Qed.

Lemma v2I_reachable : forall st, reachable VFix2 st -> v2I st.
Proof. intros st [tr H]. eapply v2I_exec; [|eauto]. intros k s Ek. destruct k; discriminate. Qed.

(* the flag survives every step that is not a check of session k, (old protocol)
   a reset of k, or a finish_request of k that leaves the session idle *)
Definition keeps_flag (k : sid) (st : state) (l : label) : bool :=
  match l with
  | LWorker k' WACheck | LWorker k' WAReset => negb (Nat.eqb k' k)
  | LWorker k' WADone =>
      negb (Nat.eqb k' k) || match pending_of st k with Some p => 2 <=? p | None => true end
  | _ => true
  end.

Fixpoint holds_flag (pv : ver) (k : sid) (st : state) (tr : list label) : bool :=
  match tr with
  | [] => true
  | l :: tr' => keeps_flag k st l &&
                match step pv st l with Some st1 => holds_flag pv k st1 tr' | None => true end
  end.

Lemma flag_kept : forall pv st l st' k, step pv st l = Some st' -> flag_of st k = Some true ->
  keeps_flag k st l = true -> flag_of st' k = Some true.
Proof.
  intros pv st l st' k H F K.
  assert (Hd : (l <> LWorker k WAReset /\ l <> LWorker k WACheck /\ l <> LWorker k WADone) \/
               (l = LWorker k WADone /\ exists p, pending_of st k = Some p /\ 2 <= p)).
  { destruct l; try (left; repeat split; discriminate).
    destruct a; try (left; repeat split; discriminate); simpl in K.
    - left. repeat split; try discriminate. intros E. inversion E; subst. rewrite Nat.eqb_refl in K. discriminate.
    - destruct (Nat.eqb_spec k0 k); [subst|left; repeat split; congruence]. simpl in K.
      right. split; auto. unfold pending_of, flag_of in *. destruct (nth_error (st_sess st) k); try discriminate.
      eexists; split; eauto. apply Nat.leb_le; auto.
    - left. repeat split; try discriminate. intros E. inversion E; subst. rewrite Nat.eqb_refl in K. discriminate. }
  destruct Hd as [[N1 [N2 N3]]|[-> [p [Hp Hle]]]].
  - eapply flag_stays_true; eauto.
  - unfold flag_of, pending_of in *. destruct (nth_error (st_sess st) k) as [s|] eqn:Ek; try discriminate.
    change (step pv st (LWorker k WADone)) with
      (match nth_error (st_sess st) k with
       | Some s => match worker_step pv k s WADone with Some (s', e) => Some (apply_eff st k s' e) | None => None end
       | None => None end) in H.
    rewrite Ek in H. destruct (worker_step pv k s WADone) as [[s' e]|] eqn:Ew; try discriminate.
    inversion H; subst. assert (Hn : nth_error (st_sess (apply_eff st k s' e)) k = Some s').
    { destruct e; simpl; apply nth_upd_same; eapply nth_lt; eauto. }
    rewrite Hn. f_equal.
    rewrite (worker_done_keeps _ _ _ _ _ Ew); [congruence | inversion Hp; subst; auto].
Qed.

Lemma flag_held : forall pv tr st st' k, exec pv st tr = Some st' -> flag_of st k = Some true ->
  holds_flag pv k st tr = true -> flag_of st' k = Some true.
Proof.
  induction tr as [|l tr IH]; simpl; intros st st' k H F K.
  - inversion H; subst; auto.
  - destruct (step pv st l) eqn:E; try discriminate. apply andb_prop in K. destruct K as [K1 K2].
    eapply IH; eauto. eapply flag_kept; eauto.
Qed.

(* fix-2: an interrupt for a session with a request queued or in the worker's
   hands is accepted: the flag is raised, RAIgnore is not possible *)
Lemma interrupt_accepted_lemma : forall st r k s, reachable VFix2 st ->
  st_rd st = RGot r (OInterrupt k) -> open_sess st k = Some s ->
  (s_queue s <> [] \/ busy (s_w s) = 1) ->
  step VFix2 st (LReader RAIgnore) = None /\
  exists st', step VFix2 st (LReader RAFlag) = Some st' /\ flag_of st' k = Some true /\
              st_rd st' = RSend r StDone.
Proof.
  intros st r k s R Erd Eo Hq. pose proof (open_sess_some _ _ _ Eo) as Ek.
  destruct (v2I_reachable st R k s Ek) as [[P _] _].
  assert (Hp : (s_pending s =? 0) = false).
  { apply Nat.eqb_neq. destruct Hq as [Hq|Hq]; [destruct (s_queue s); [congruence|simpl in P; lia] | lia]. }
  simpl. unfold reader_step. rewrite Erd, Eo. cbn [counts andb]. rewrite Hp. split; auto.
  eexists. split; [reflexivity|]. unfold flag_of. simpl. rewrite nth_upd_same by (eapply nth_lt; eauto). auto.
Qed.

(* ... and from any state where the flag is up, as long as no check of that
   session consumed it and the session did not go idle, it is still up: the next
   check of whichever eval of the session runs then ends that eval *)
Lemma interrupt_reaches_lemma : forall pv st tr st' k r,
  flag_of st k = Some true -> exec pv st tr = Some st' -> holds_flag pv k st tr = true ->
  wpc_of st' k = Some (WRun r) ->
  exists st'', step pv st' (LWorker k WACheck) = Some st'' /\
               wpc_of st'' k = Some (WStop r RInterrupted) /\ flag_of st'' k = Some false.
Proof.
  intros pv st tr st' k r F H K W. pose proof (flag_held pv tr st st' k H F K) as F'.
  unfold wpc_of, flag_of in *. destruct (nth_error (st_sess st') k) as [s|] eqn:Ek; try discriminate.
  assert (W' : s_w s = WRun r) by congruence. assert (F'' : s_flag s = true) by congruence.
  destruct (check_outcome pv st' k s r Ek W') as [st'' [Hs Ho]].
  rewrite F'' in Ho. exists st''. unfold wpc_of, flag_of in Ho. tauto.
Qed.

(* finish_request does not clear the flag while another request is queued *)
Lemma done_with_queue_keeps : forall st k s, reachable VFix2 st -> nth_error (st_sess st) k = Some s ->
  s_w s = WFinishing -> s_queue s <> [] -> 2 <= s_pending s.
Proof.
  intros st k s R Ek Hw Hq. destruct (v2I_reachable st R k s Ek) as [[P _] _]. rewrite Hw in P. simpl in P.
  destruct (s_queue s); [congruence | simpl in P; lia].
Qed.

(* fix-2: an interrupt for an idle session stores nothing *)
Lemma idle_interrupt_ignored_lemma : forall st r k s, reachable VFix2 st ->
  st_rd st = RGot r (OInterrupt k) -> open_sess st k = Some s ->
  s_queue s = [] -> busy (s_w s) = 0 ->
  step VFix2 st (LReader RAFlag) = None /\
  (s_closed s = false -> s_flag s = false) /\
  exists st', step VFix2 st (LReader RAIgnore) = Some st' /\ st_sess st' = st_sess st /\
              st_rd st' = RSend r StDone.
Proof.
  intros st r k s R Erd Eo Hq Hb. pose proof (open_sess_some _ _ _ Eo) as Ek.
  destruct (v2I_reachable st R k s Ek) as [[P I] _]. rewrite Hq, Hb in P. simpl in P.
  simpl. unfold reader_step. rewrite Erd, Eo. cbn [counts andb]. rewrite P. simpl.
  repeat split; auto. eexists. split; [reflexivity|]. auto.
Qed.

(* fix-2: idle and open => flag down (this is what makes a late or idle interrupt harmless) *)
Lemma idle_flag_down : forall st k s, reachable VFix2 st -> nth_error (st_sess st) k = Some s ->
  s_queue s = [] -> busy (s_w s) = 0 -> s_closed s = false -> s_flag s = false.
Proof.
  intros st k s R Ek Hq Hb Hc. destruct (v2I_reachable st R k s Ek) as [[P I] _].
  apply I; auto. rewrite P, Hq, Hb. reflexivity.
Qed.

(* with the flag down and no new store, every check passes *)
Lemma check_passes_lemma : forall pv st tr st' k r, flag_of st k = Some false ->
  exec pv st tr = Some st' -> no_flagset pv k st tr = true -> wpc_of st' k = Some (WRun r) ->
  exists st'', step pv st' (LWorker k WACheck) = Some st'' /\ wpc_of st'' k = Some (WRun r).
Proof.
  intros pv st tr st' k r F H N W. pose proof (flag_false_until pv tr st st' k H F N) as F'.
  unfold wpc_of, flag_of in *. destruct (nth_error (st_sess st') k) as [s|] eqn:Ek; try discriminate.
  assert (W' : s_w s = WRun r) by congruence. assert (F'' : s_flag s = false) by congruence.
  destruct (check_outcome pv st' k s r Ek W') as [st'' [Hs Ho]]. rewrite F'' in Ho. exists st''.
  unfold wpc_of in Ho. tauto.
Qed.

(* ------------------------------------------------------------------ *)
(* concrete traces (vm_compute)                                        *)

(* what the worker of session k does between taking a request and spawning the flusher *)
Definition pickup (pv : ver) (k : sid) : list label :=
  match pv with
  | VAsFound => [LWorker k WADequeue; LWorker k WAReset]
  | VFix1 => [LWorker k WADequeue; LWorker k WAReset; LWorker k WALoadClosed]
  | VFix2 => [LWorker k WADequeue; LWorker k WALoadClosed]
  end.
(* ... and after its last response *)
Definition wrapup (pv : ver) (k : sid) : list label :=
  match pv with VFix2 => [LWorker k WADone] | _ => [] end.

(* one session; request 1 = eval that prints "7" on stdout and "8","9" on
   stderr; the flusher takes "7" and "8" mid-eval, the final drain takes "9" *)
Definition demo_trace : list label :=
  [ LRecv OClone; LReader RANew; LReader RASend; LWriter;
    LRecv (OSess 0 KEval); LReader RAEnq ] ++ pickup VFix2 0 ++
  [ LWorker 0 (WABegin BSpawn);
    LWorker 0 WACheck; LWorker 0 (WAPrint SOut 7); LWorker 0 (WAPrint SErr 8);
    LFlusher 0 FATimeout; LFlusher 0 FATake;
    LFlusher 0 FASend; LFlusher 0 FATake; LWorker 0 (WAPrint SErr 9); LFlusher 0 FASend;
    LWorker 0 WACheck; LWorker 0 (WAFinish (ROk 1)); LWorker 0 WAStopFl; LFlusher 0 FAStop; LWorker 0 WAJoin;
    LWorker 0 WATake; LWorker 0 WATake; LWorker 0 WASend; LWorker 0 WASend; LWorker 0 WASend ] ++ wrapup VFix2 0 ++
  [ LWriter; LWriter; LWriter; LWriter; LWriter ].

Definition demo_state : state :=
  match exec VFix2 init demo_trace with Some st => st | None => init end.

Lemma demo_ok : exec VFix2 init demo_trace = Some demo_state /\ quiescent demo_state = true /\
  st_wire demo_state = [MDone 1 StDone; MText 0 1; MOut 0 1 SErr [9]; MOut 0 1 SErr [8]; MOut 0 1 SOut [7]; MDone 0 StDone] /\
  ptoks 0 1 SErr (st_printed demo_state) = [8; 9] /\ ptoks 0 1 SOut (st_printed demo_state) = [7].
Proof. vm_compute. repeat split. Qed.

Lemma demo_reachable : reachable VFix2 demo_state.
Proof. exists demo_trace. apply demo_ok. Qed.

(* eval started, interrupt handled while it runs: interrupted at the next check (all variants) *)
Definition interrupt_trace (pv : ver) : list label :=
  [ LRecv OClone; LReader RANew; LReader RASend;
    LRecv (OSess 0 KEval); LReader RAEnq ] ++ pickup pv 0 ++
  [ LWorker 0 (WABegin BSpawn); LWorker 0 WACheck;
    LRecv (OInterrupt 0); LReader RAFlag; LReader RASend ].

Lemma interrupt_demo : forall pv,
  match exec pv init (interrupt_trace pv) with
  | Some st => flag_of st 0 = Some true /\ wpc_of st 0 = Some (WRun 1) /\
               match step pv st (LWorker 0 WACheck) with
               | Some st' => wpc_of st' 0 = Some (WStop 1 RInterrupted)
               | None => False
               end
  | None => False
  end.
Proof. destruct pv; vm_compute; repeat split. Qed.

(* THE LOST INTERRUPT of the old protocol (as found and fix-1): the interrupt is
   handled after the eval was queued but before the worker's reset; the reset
   erases it and the eval's checks see `false`. *)
Definition early_interrupt_trace (pv : ver) : list label :=
  [ LRecv OClone; LReader RANew; LReader RASend;
    LRecv (OSess 0 KEval); LReader RAEnq;
    LRecv (OInterrupt 0); LReader RAFlag; LReader RASend ] ++ pickup pv 0 ++
  [ LWorker 0 (WABegin BSpawn) ].

Lemma interrupt_lost_old_protocol : forall pv, counts pv = false ->
  match exec pv init (early_interrupt_trace pv) with
  | Some st => wpc_of st 0 = Some (WRun 1) /\ flag_of st 0 = Some false /\
               In (MDone 2 StDone) (st_sent st) /\          (* the interrupt itself was acknowledged *)
               match step pv st (LWorker 0 WACheck) with
               | Some st' => wpc_of st' 0 = Some (WRun 1)    (* the eval runs on *)
               | None => False
               end
  | None => False
  end.
Proof. destruct pv; intros H; try discriminate; vm_compute; auto. Qed.

(* the same client schedule with fix-2: the flag is still up when the eval starts *)
Lemma early_interrupt_stops_eval_fix2 :
  match exec VFix2 init (early_interrupt_trace VFix2) with
  | Some st => wpc_of st 0 = Some (WRun 1) /\ flag_of st 0 = Some true /\
               match step VFix2 st (LWorker 0 WACheck) with
               | Some st' => wpc_of st' 0 = Some (WStop 1 RInterrupted)
               | None => False
               end
  | None => False
  end.
Proof. vm_compute; auto. Qed.

(* fix-2: interrupt while idle, then an eval: the interrupt stores nothing (RAFlag
   is not even enabled), the eval's check passes *)
Definition idle_interrupt_trace : list label :=
  [ LRecv OClone; LReader RANew; LReader RASend;
    LRecv (OInterrupt 0); LReader RAIgnore; LReader RASend;
    LRecv (OSess 0 KEval); LReader RAEnq ] ++ pickup VFix2 0 ++ [ LWorker 0 (WABegin BSpawn) ].

Lemma idle_interrupt_demo :
  match exec VFix2 init idle_interrupt_trace with
  | Some st => wpc_of st 0 = Some (WRun 2) /\ flag_of st 0 = Some false
  | None => False
  end /\
  exec VFix2 init [ LRecv OClone; LReader RANew; LReader RASend; LRecv (OInterrupt 0); LReader RAFlag ] = None.
Proof. vm_compute; auto. Qed.

(* fix-2: a LATE interrupt (after the eval's last check) is accepted, never
   observed, and cleared by finish_request: the next eval starts with the flag down *)
Definition late_interrupt_trace : list label :=
  [ LRecv OClone; LReader RANew; LReader RASend;
    LRecv (OSess 0 KEval); LReader RAEnq ] ++ pickup VFix2 0 ++
  [ LWorker 0 (WABegin BSpawn); LWorker 0 WACheck; LWorker 0 (WAFinish (ROk 1));
    LRecv (OInterrupt 0); LReader RAFlag; LReader RASend;
    LWorker 0 WAStopFl; LFlusher 0 FAStop; LWorker 0 WAJoin; LWorker 0 WATake; LWorker 0 WATake;
    LWorker 0 WASend; LWorker 0 WASend; LWorker 0 WADone;
    LRecv (OSess 0 KEval); LReader RAEnq ] ++ pickup VFix2 0 ++ [ LWorker 0 (WABegin BSpawn) ].

Lemma late_interrupt_demo :
  match exec VFix2 init late_interrupt_trace with
  | Some st => wpc_of st 0 = Some (WRun 3) /\ flag_of st 0 = Some false /\ In (MDone 1 StDone) (st_sent st)
  | None => False
  end.
Proof. vm_compute; auto. Qed.

(* THE close DEFECT (code as found): close handled before the worker's
   reset.  The session is closed (acknowledged `session-closed`), the eval then
   starts, its flag is false, it is not stopped, and no later request can reach
   it (the session is no longer in the table). *)
Definition close_race_trace : list label :=
  [ LRecv OClone; LReader RANew; LReader RASend;
    LRecv (OSess 0 KEval); LReader RAEnq;
    LRecv (OClose 0); LReader RAFlag; LReader RADrop; LReader RASend ] ++ pickup VAsFound 0 ++
  [ LWorker 0 (WABegin BSpawn); LWorker 0 WACheck ].

Lemma close_stops_running_refuted_asis :
  exists st, exec VAsFound init close_race_trace = Some st /\
    In (MDone 2 StSessionClosed) (st_sent st) /\
    open_sess st 0 = None /\
    wpc_of st 0 = Some (WRun 1) /\ flag_of st 0 = Some false /\
    (forall st', step VAsFound st (LWorker 0 WACheck) = Some st' -> wpc_of st' 0 = Some (WRun 1)).
Proof.
  eexists. split; [vm_compute; reflexivity|]. repeat split; try (vm_compute; auto; fail).
  intros st' H. vm_compute in H. inversion H; subst. reflexivity.
Qed.

(* the same schedule on the current code: the worker raises the flag, the first check stops the eval *)
Definition close_race_trace_fixed : list label :=
  [ LRecv OClone; LReader RANew; LReader RASend;
    LRecv (OSess 0 KEval); LReader RAEnq;
    LRecv (OClose 0); LReader RAClosed; LReader RAFlag; LReader RADrop; LReader RASend ] ++ pickup VFix2 0 ++
  [ LWorker 0 WAReflag; LWorker 0 (WABegin BSpawn); LWorker 0 WACheck ].

Lemma close_race_fixed :
  exists st, exec VFix2 init close_race_trace_fixed = Some st /\ wpc_of st 0 = Some (WStop 1 RInterrupted).
Proof. eexists. split; vm_compute; reflexivity. Qed.

(* a closed-session state satisfying the hypotheses of close_stops_running *)
Lemma close_hyp_satisfiable :
  exists st s, reachable VFix2 st /\ nth_error (st_sess st) 0 = Some s /\ s_closed s = true /\
    rd_mid_close 0 (st_rd st) = false /\ s_w s = WRun 1.
Proof.
  pose (tr := [ LRecv OClone; LReader RANew; LReader RASend;
    LRecv (OSess 0 KEval); LReader RAEnq ] ++ pickup VFix2 0 ++ [ LWorker 0 (WABegin BSpawn);
    LRecv (OClose 0); LReader RAClosed; LReader RAFlag ]).
  destruct (exec VFix2 init tr) as [st|] eqn:E; [|vm_compute in E; discriminate].
  exists st. vm_compute in E. inversion E; subst. eexists. split; [exists tr; vm_compute; reflexivity|].
  vm_compute. repeat split.
Qed.

(* an interrupt-accepted state satisfying the hypotheses of interrupt_reaches_queued_eval:
   the eval is queued, the worker has not dequeued it *)
Lemma accept_hyp_satisfiable :
  exists st s, reachable VFix2 st /\ st_rd st = RGot 2 (OInterrupt 0) /\ open_sess st 0 = Some s /\
    s_queue s <> [] /\ s_w s = WIdle.
Proof.
  pose (tr := [ LRecv OClone; LReader RANew; LReader RASend; LRecv (OSess 0 KEval); LReader RAEnq; LRecv (OInterrupt 0) ]).
  destruct (exec VFix2 init tr) as [st|] eqn:E; [|vm_compute in E; discriminate].
  exists st. vm_compute in E. inversion E; subst. eexists. split; [exists tr; vm_compute; reflexivity|].
  vm_compute. repeat split. discriminate.
Qed.

(* a quiescent state has no enabled internal move *)
Lemma quiescent_stuck : forall pv st l, reachable pv st -> quiescent st = true -> internal l = true ->
  enabled pv st l = false.
Proof.
  intros pv st l R Q Il. pose proof (reachable_inv pv st R) as I. unfold enabled. unfold quiescent in Q.
  destruct (st_rd st) eqn:Erd; try discriminate. destruct (st_chan st) eqn:Ec; try discriminate.
  destruct l; simpl in Il; try discriminate; simpl.
  - unfold reader_step. rewrite Erd. destruct a; reflexivity.
  - destruct (nth_error (st_sess st) k) eqn:Ek; auto.
    rewrite forallb_forall in Q. specialize (Q s (nth_error_In _ _ Ek)). unfold sess_quiet in Q.
    unfold worker_step. destruct (s_w s); try discriminate; destruct (s_queue s); try discriminate;
      destruct a; try discriminate; try reflexivity; destruct b; reflexivity.
  - destruct (nth_error (st_sess st) k) eqn:Ek; auto.
    rewrite forallb_forall in Q. specialize (Q s (nth_error_In _ _ Ek)). unfold sess_quiet in Q.
    pose proof (inv_swf st I k s Ek) as W. unfold swf in W.
    assert (Hfl : s_fl s = None).
    { destruct (s_w s); try discriminate; destruct W as [W _]; exact W. }
    unfold flusher_step. rewrite Hfl. reflexivity.
  - rewrite Ec. reflexivity.
Qed.
