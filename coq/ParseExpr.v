(* Model of the operator-chain part of src/parser.rs (`parse_expression`,
   `parse_expression_with`): an operand, then a loop that applies each infix
   operator to the expression so far.  MODEL: definitions only.

   Tokens are abstract (the lexer is modelled and checked separately in
   Lex.v); the operator table (token text <-> kind) and the SHAPE of the
   binary-operator arm are regenerated from parser.rs (gen/ParserShape.v). *)
From Coq Require Import ZArith NArith Bool List.
Import ListNotations.

(* the 21 binary operator kinds, in the order of BinaryOperatorKind *)
Inductive opk :=
| KAdd | KAddFloat | KSubtract | KSubtractFloat | KMultiply | KMultiplyFloat | KDivide | KDivideFloat
| KModulo | KExponent | KEqual | KNotEqual | KLessThan | KLessThanOrEqual | KGreaterThan
| KGreaterThanOrEqual | KAnd | KOr | KBitwiseAnd | KBitwiseOr | KStringConcat.

Inductive tok :=
| TInt (z : Z) | TVar (x : N) | TOp (o : opk) | TLP | TRP | TOther.

Inductive pexpr :=
| PInt (z : Z) | PVar (x : N) | PBin (o : opk) (l r : pexpr) | PParen (e : pexpr).

(* How the binary-operator arm of the loop is written (translator output). *)
Record arm_shape := {
  rhs_stops_at_operators : bool;   (* the right operand is parsed with allow_binary_ops = false *)
  rotates_once : bool;             (* the old code: recursive right operand + one-level rotation *)
  guarded_by_flag : bool           (* the arm is only taken when allow_binary_ops *)
}.

Section WithShape.
Variable sh : arm_shape.

(* every call consumes one unit of fuel *)
Fixpoint parse (fuel : nat) (allow : bool) (ts : list tok) {struct fuel} : option (pexpr * list tok) :=
  match fuel with
  | O => None
  | S f =>
      match atom f ts with
      | Some (e, ts1) => ploop f allow e ts1
      | None => None
      end
  end
with atom (fuel : nat) (ts : list tok) {struct fuel} : option (pexpr * list tok) :=
  match fuel with
  | O => None
  | S f =>
      match ts with
      | TInt z :: r => Some (PInt z, r)
      | TVar x :: r => Some (PVar x, r)
      | TLP :: r =>
          match parse f true r with
          | Some (e, TRP :: r') => Some (PParen e, r')
          | _ => None
          end
      | _ => None
      end
  end
with ploop (fuel : nat) (allow : bool) (e : pexpr) (ts : list tok) {struct fuel} : option (pexpr * list tok) :=
  match fuel with
  | O => None
  | S f =>
      match ts with
      | TOp o :: r =>
          if allow || negb (guarded_by_flag sh) then
            match parse f (negb (rhs_stops_at_operators sh)) r with
            | Some (rhs, r') =>
                if rotates_once sh then
                  match rhs with
                  | PBin o2 l2 r2 => ploop f allow (PBin o2 (PBin o e l2) r2) r'
                  | _ => ploop f allow (PBin o e rhs) r'
                  end
                else ploop f allow (PBin o e rhs) r'
            | None => None
            end
          else Some (e, ts)
      | _ => Some (e, ts)
      end
  end.

End WithShape.

Definition good_shape : arm_shape :=
  {| rhs_stops_at_operators := true; rotates_once := false; guarded_by_flag := true |}.
Definition old_shape : arm_shape :=
  {| rhs_stops_at_operators := false; rotates_once := true; guarded_by_flag := true |}.

Definition shape_eqb (a b : arm_shape) : bool :=
  Bool.eqb (rhs_stops_at_operators a) (rhs_stops_at_operators b) &&
  Bool.eqb (rotates_once a) (rotates_once b) && Bool.eqb (guarded_by_flag a) (guarded_by_flag b).

(* canonical source text (as tokens): no parentheses are invented *)
Fixpoint print (e : pexpr) : list tok :=
  match e with
  | PInt z => [TInt z]
  | PVar x => [TVar x]
  | PBin o l r => print l ++ TOp o :: print r
  | PParen e' => TLP :: print e' ++ [TRP]
  end.

(* trees the grammar can produce without parentheses nodes: the right operand
   of an operator is never itself an operator application *)
Fixpoint wf (e : pexpr) : bool :=
  match e with
  | PInt _ | PVar _ => true
  | PBin _ l r => wf l && wf r && (match r with PBin _ _ _ => false | _ => true end)
  | PParen e' => wf e'
  end.

(* an operand: literal, variable or parenthesised expression *)
Definition is_operand (e : pexpr) : bool := match e with PBin _ _ _ => false | _ => true end.

(* x1 op1 x2 op2 ... as tokens, and the left-nested tree *)
Fixpoint flat (rest : list (opk * pexpr)) : list tok :=
  match rest with
  | [] => []
  | (o, a) :: rest' => TOp o :: print a ++ flat rest'
  end.
Definition left_nest (x : pexpr) (rest : list (opk * pexpr)) : pexpr :=
  fold_left (fun acc oa => PBin (fst oa) acc (snd oa)) rest x.

(* what may follow a complete expression *)
Definition stops (ts : list tok) : bool :=
  match ts with
  | [] => true
  | TRP :: _ => true
  | TOther :: _ => true
  | _ => false
  end.

(* evaluation of integer chains, to state "evaluates exactly as the left nest" *)
Definition parse_top (sh : arm_shape) (ts : list tok) : option pexpr :=
  match parse sh (3 * length ts + 3) true ts with
  | Some (e, []) => Some e
  | _ => None
  end.
