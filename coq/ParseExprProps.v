From Coq Require Import ZArith NArith Bool List Lia.
From Garden Require Import ParseExpr.
Import ListNotations.

(* ---- more fuel never changes an answer ---------------------------------- *)
Lemma fuel_mono sh : forall f,
  (forall a ts r, parse sh f a ts = Some r -> parse sh (S f) a ts = Some r) /\
  (forall ts r, atom sh f ts = Some r -> atom sh (S f) ts = Some r) /\
  (forall a e ts r, ploop sh f a e ts = Some r -> ploop sh (S f) a e ts = Some r).
Proof.
  induction f as [|f (IHp & IHa & IHl)].
  - repeat split; intros; discriminate.
  - repeat split.
    + intros a ts r H. simpl in H. change (parse sh (S (S f)) a ts) with
        (match atom sh (S f) ts with Some (e, ts1) => ploop sh (S f) a e ts1 | None => None end).
      destruct (atom sh f ts) as [[e ts1]|] eqn:E; [|discriminate].
      rewrite (IHa _ _ E). now apply IHl.
    + intros ts r H. simpl in H.
      change (atom sh (S (S f)) ts) with
        (match ts with
         | TInt z :: r0 => Some (PInt z, r0)
         | TVar x :: r0 => Some (PVar x, r0)
         | TLP :: r0 => match parse sh (S f) true r0 with Some (e, TRP :: r') => Some (PParen e, r') | _ => None end
         | _ => None end).
      destruct ts as [|[z|x|o| | |] r0]; try discriminate; try assumption.
      destruct (parse sh f true r0) as [[e r1]|] eqn:E; [|discriminate].
      rewrite (IHp _ _ _ E). assumption.
    + intros a e ts r H. simpl in H.
      change (ploop sh (S (S f)) a e ts) with
        (match ts with
         | TOp o :: r0 =>
             if a || negb (guarded_by_flag sh) then
               match parse sh (S f) (negb (rhs_stops_at_operators sh)) r0 with
               | Some (rhs, r') =>
                   if rotates_once sh then
                     match rhs with
                     | PBin o2 l2 r2 => ploop sh (S f) a (PBin o2 (PBin o e l2) r2) r'
                     | _ => ploop sh (S f) a (PBin o e rhs) r'
                     end
                   else ploop sh (S f) a (PBin o e rhs) r'
               | None => None
               end
             else Some (e, ts)
         | _ => Some (e, ts) end).
      destruct ts as [|[z|x|o| | |] r0]; try assumption.
      destruct (a || negb (guarded_by_flag sh)); [|assumption].
      destruct (parse sh f (negb (rhs_stops_at_operators sh)) r0) as [[rhs r1]|] eqn:E; [|discriminate].
      rewrite (IHp _ _ _ E).
      destruct (rotates_once sh); [destruct rhs|]; now apply IHl.
Qed.

Lemma parse_mono sh f f' a ts r : f <= f' -> parse sh f a ts = Some r -> parse sh f' a ts = Some r.
Proof. induction 1; auto. intros H0. apply (fuel_mono sh m). auto. Qed.
Lemma atom_mono sh f f' ts r : f <= f' -> atom sh f ts = Some r -> atom sh f' ts = Some r.
Proof. induction 1; auto. intros H0. apply (fuel_mono sh m). auto. Qed.
Lemma ploop_mono sh f f' a e ts r : f <= f' -> ploop sh f a e ts = Some r -> ploop sh f' a e ts = Some r.
Proof. induction 1; auto. intros H0. apply (fuel_mono sh m). auto. Qed.

(* ---- the loop as written today ------------------------------------------ *)
Notation P := (parse good_shape).
Notation A := (atom good_shape).
Notation L := (ploop good_shape).

Definition boundary (ts : list tok) : bool :=
  match ts with TOp _ :: _ => true | _ => stops ts end.

Lemma loop_false_boundary f e ts : boundary ts = true -> L (S f) false e ts = Some (e, ts).
Proof. destruct ts as [|[z|x|o| | |] r]; cbn; intros; try discriminate; reflexivity. Qed.

Lemma loop_step f acc o r :
  L (S f) true acc (TOp o :: r) =
  match P f false r with Some (rhs, r') => L f true (PBin o acc rhs) r' | None => None end.
Proof. reflexivity. Qed.

Lemma parse_step f a ts :
  P (S f) a ts = match A f ts with Some (e, ts1) => L f a e ts1 | None => None end.
Proof. reflexivity. Qed.

Lemma atom_paren_step f r :
  A (S f) (TLP :: r) = match P f true r with Some (e, TRP :: r') => Some (PParen e, r') | _ => None end.
Proof. reflexivity. Qed.

Definition atom_ok (a : pexpr) : Prop :=
  forall rest, exists f0, forall f, f0 <= f -> A f (print a ++ rest) = Some (a, rest).
Definition parse_ok (e : pexpr) : Prop :=
  forall rest, stops rest = true -> exists f0, forall f, f0 <= f -> P f true (print e ++ rest) = Some (e, rest).

Lemma operand_parse_false a rest : atom_ok a -> boundary rest = true ->
  exists f0, forall f, f0 <= f -> P f false (print a ++ rest) = Some (a, rest).
Proof.
  intros Ha Hb. destruct (Ha rest) as (f0 & H0). exists (S (S f0)). intros f Hf.
  destruct f as [|f]; [lia|]. rewrite parse_step. rewrite H0 by lia.
  destruct f as [|f]; [lia|]. now apply loop_false_boundary.
Qed.

Lemma flat_boundary chain rest : stops rest = true -> boundary (flat chain ++ rest) = true.
Proof. destruct chain as [|[o a] c]; cbn; [|reflexivity]. destruct rest as [|[]]; cbn; auto. Qed.

Lemma loop_chain chain : Forall (fun oa => atom_ok (snd oa)) chain ->
  forall acc rest, stops rest = true ->
  exists f0, forall f, f0 <= f -> L f true acc (flat chain ++ rest) = Some (left_nest acc chain, rest).
Proof.
  induction 1 as [|[o a] c Ha _ IH]; intros acc rest Hs.
  - exists 1. intros f Hf. destruct f as [|f]; [lia|]. cbn [flat app left_nest fold_left].
    destruct rest as [|[z|x|o| | |] r]; cbn in *; try discriminate; reflexivity.
  - cbn [snd] in Ha.
    destruct (operand_parse_false a (flat c ++ rest) Ha (flat_boundary c rest Hs)) as (f1 & H1).
    destruct (IH (PBin o acc a) rest Hs) as (f2 & H2).
    exists (S (Nat.max f1 f2)). intros f Hf. destruct f as [|f]; [lia|].
    cbn [flat]. change ((TOp o :: print a ++ flat c) ++ rest) with (TOp o :: (print a ++ flat c) ++ rest).
    rewrite <- app_assoc. rewrite loop_step. rewrite H1 by lia. cbn [left_nest fold_left fst snd]. apply H2. lia.
Qed.

(* every parenthesis-free-at-the-top tree is a left nest of operands *)
Lemma spine e : wf e = true ->
  exists x chain, e = left_nest x chain /\ is_operand x = true /\ wf x = true /\
    Forall (fun oa => is_operand (snd oa) = true /\ wf (snd oa) = true) chain /\
    print e = print x ++ flat chain.
Proof.
  induction e as [z|x|o l IHl r _|e' _]; intros W.
  - exists (PInt z), []. cbn. rewrite ?app_nil_r. auto 10.
  - exists (PVar x), []. cbn. rewrite ?app_nil_r. auto 10.
  - cbn [wf] in W. apply andb_true_iff in W as [W Wr]. apply andb_true_iff in W as [Wl Wr'].
    destruct (IHl Wl) as (x & c & -> & Ox & Wx & Fc & Pr).
    exists x, (c ++ [(o, r)]). repeat split; auto.
    + unfold left_nest. rewrite fold_left_app. reflexivity.
    + apply Forall_app. split; [assumption|]. constructor; [|constructor]. cbn. split; [|assumption].
      destruct r; try reflexivity; discriminate.
    + cbn [print]. rewrite Pr. rewrite <- app_assoc. f_equal.
      clear. induction c as [|[o' a'] c IH]; cbn; [now rewrite app_nil_r|]. rewrite <- app_assoc. now rewrite IH.
  - exists (PParen e'), []. cbn. rewrite ?app_nil_r. auto 10.
Qed.

Fixpoint size (e : pexpr) : nat :=
  match e with
  | PInt _ | PVar _ => 1
  | PBin _ l r => S (size l + size r)
  | PParen e' => S (size e')
  end.

Lemma fold_size_ge c : forall y, size y <= size (left_nest y c).
Proof.
  induction c as [|[o b] c IH]; intros y; cbn [left_nest fold_left fst snd]; [lia|].
  specialize (IH (PBin o y b)). unfold left_nest in IH. cbn [size] in IH. lia.
Qed.

Lemma left_nest_size x chain a : In a (map snd chain) -> chain <> [] ->
  size a < size (left_nest x chain) /\ size x < size (left_nest x chain).
Proof.
  intros Hin Hne. split.
  - revert x. induction chain as [|[o b] c IH]; intros x; [contradiction|].
    cbn [map snd In] in Hin. cbn [left_nest fold_left fst snd].
    pose proof (fold_size_ge c (PBin o x b)) as G. unfold left_nest in G. cbn [size] in G.
    destruct Hin as [<-|Hin]; [lia|].
    destruct c as [|oc c']; [contradiction|].
    apply (IH Hin ltac:(discriminate) (PBin o x b)).
  - destruct chain as [|[o b] c]; [contradiction|].
    cbn [left_nest fold_left fst snd].
    pose proof (fold_size_ge c (PBin o x b)) as G. unfold left_nest in G. cbn [size] in G. lia.
Qed.

Theorem roundtrip_strong : forall n e, size e <= n -> wf e = true ->
  parse_ok e /\ (is_operand e = true -> atom_ok e).
Proof.
  induction n as [|n IH]; intros e Hs W; [destruct e; cbn in Hs; lia|].
  assert (AT : is_operand e = true -> atom_ok e).
  { intros O. destruct e as [z|x|o l r|e']; try discriminate.
    - intros rest. exists 1. intros f Hf. destruct f; [lia|]. reflexivity.
    - intros rest. exists 1. intros f Hf. destruct f; [lia|]. reflexivity.
    - cbn in Hs, W. destruct (IH e' ltac:(lia) W) as [Pe _].
      intros rest. destruct (Pe (TRP :: rest) eq_refl) as (f0 & H0).
      exists (S f0). intros f Hf. destruct f as [|f]; [lia|].
      cbn [print]. change ((TLP :: print e' ++ [TRP]) ++ rest) with (TLP :: (print e' ++ [TRP]) ++ rest).
      rewrite <- app_assoc. cbn [app]. rewrite atom_paren_step. rewrite H0 by lia. reflexivity. }
  split; [|exact AT].
  destruct (spine e W) as (x & chain & -> & Ox & Wx & Fc & Pr).
  intros rest Hst.
  assert (Hx : atom_ok x).
  { destruct chain as [|oc c].
    - cbn in AT. now apply AT.
    - destruct (left_nest_size x (oc :: c) (snd oc) ltac:(cbn; auto) ltac:(discriminate)) as [_ Hlt].
      apply (IH x); [lia|assumption|assumption]. }
  assert (Hc : Forall (fun oa => atom_ok (snd oa)) chain).
  { apply Forall_forall. intros oa Hin. rewrite Forall_forall in Fc. destruct (Fc oa Hin) as [Oa Wa].
    destruct (left_nest_size x chain (snd oa)) as [Hlt _].
    - apply in_map_iff. eauto.
    - destruct chain; [contradiction|discriminate].
    - apply (IH (snd oa)); [lia|assumption|assumption]. }
  destruct (Hx (flat chain ++ rest)) as (f1 & H1).
  destruct (loop_chain chain Hc x rest Hst) as (f2 & H2).
  exists (S (Nat.max f1 f2)). intros f Hf. destruct f as [|f]; [lia|].
  rewrite parse_step. rewrite Pr, <- app_assoc. rewrite H1 by lia. apply H2. lia.
Qed.

(* C33 (expression fragment): printing a tree and parsing it gives the same tree *)
Theorem parse_print e : wf e = true ->
  exists f0, forall f, f0 <= f -> parse good_shape f true (print e) = Some (e, []).
Proof.
  intros W. destruct (roundtrip_strong (size e) e (le_n _) W) as [Pe _].
  destruct (Pe [] eq_refl) as (f0 & H). exists f0. intros f Hf. rewrite <- (app_nil_r (print e)). now apply H.
Qed.

Lemma left_nest_wf_print rest :
  Forall (fun oa => is_operand (snd oa) = true /\ wf (snd oa) = true) rest ->
  forall y, wf y = true ->
  wf (left_nest y rest) = true /\ print (left_nest y rest) = print y ++ flat rest.
Proof.
  induction 1 as [|[o a] c [Oa Wa] _ IH]; intros y Wy.
  - cbn. now rewrite app_nil_r.
  - cbn [left_nest fold_left fst snd flat] in *.
    assert (W2 : wf (PBin o y a) = true).
    { cbn [wf]. rewrite Wy, Wa. destruct a; try reflexivity; discriminate. }
    destruct (IH _ W2) as [G1 G2]. split; [assumption|]. unfold left_nest in G2. rewrite G2. cbn [print].
    now rewrite <- app_assoc.
Qed.

(* C03: any chain of operands and operators parses to the left nest *)
Theorem chain_left_assoc x (rest : list (opk * pexpr)) :
  is_operand x = true -> wf x = true ->
  Forall (fun oa => is_operand (snd oa) = true /\ wf (snd oa) = true) rest ->
  exists f0, forall f, f0 <= f ->
    parse good_shape f true (print x ++ flat rest) = Some (left_nest x rest, []).
Proof.
  intros Ox Wx Fr.
  destruct (left_nest_wf_print rest Fr x Wx) as [W Pr].
  destruct (parse_print _ W) as (f0 & H). exists f0. intros f Hf. rewrite <- Pr. now apply H.
Qed.

(* explicit parentheses override the grouping *)
Theorem paren_overrides x o1 y o2 z :
  is_operand x = true -> wf x = true -> wf y = true -> wf z = true -> is_operand z = true ->
  exists f0, forall f, f0 <= f ->
    parse good_shape f true (print x ++ TOp o1 :: TLP :: print y ++ TOp o2 :: print z ++ [TRP])
    = Some (PBin o1 x (PParen (PBin o2 y z)), []).
Proof.
  intros Ox Wx Wy Wz Oz.
  assert (W : wf (PBin o1 x (PParen (PBin o2 y z))) = true).
  { cbn [wf]. rewrite Wx, Wy, Wz. destruct z; try reflexivity; discriminate. }
  destruct (parse_print _ W) as (f0 & H). exists f0. intros f Hf.
  specialize (H f Hf). cbn [print] in H.
  replace (print y ++ TOp o2 :: print z ++ [TRP]) with ((print y ++ TOp o2 :: print z) ++ [TRP])
    by (rewrite <- app_assoc; reflexivity).
  exact H.
Qed.

(* the answer does not depend on the fuel once there is one *)
Theorem parse_deterministic sh f f' a ts r r' :
  parse sh f a ts = Some r -> parse sh f' a ts = Some r' -> r = r'.
Proof.
  intros H H'. destruct (Nat.le_ge_cases f f') as [L0|L0].
  - rewrite (parse_mono sh f f' a ts r L0 H) in H'. congruence.
  - rewrite (parse_mono sh f' f a ts r' L0 H') in H. congruence.
Qed.

(* the code as it was before the fix: a 4-operand chain is mis-grouped *)
Lemma old_shape_refuted :
  parse_top old_shape [TInt 10; TOp KSubtract; TInt 1; TOp KSubtract; TInt 1; TOp KSubtract; TInt 1]
  = Some (PBin KSubtract (PBin KSubtract (PInt 10) (PBin KSubtract (PInt 1) (PInt 1))) (PInt 1)).
Proof. vm_compute. reflexivity. Qed.
