(* Ties the generated parser facts (gen/ParserShape.v) to the proved loop shape. *)
From Coq Require Import ZArith NArith Bool List Lia.
From Garden Require Import ParseExpr ParseExprProps gen.ParserShape.
Import ListNotations.

Lemma shape_eqb_eq a b : shape_eqb a b = true -> a = b.
Proof.
  destruct a as [a1 a2 a3], b as [b1 b2 b3]. unfold shape_eqb; cbn.
  intros H. apply andb_true_iff in H as [H H3]. apply andb_true_iff in H as [H1 H2].
  apply Bool.eqb_prop in H1, H2, H3. now subst.
Qed.

Lemma shape_is_good_lemma : arm_recognised = true /\ shape_eqb current_shape good_shape = true.
Proof. split; vm_compute; reflexivity. Qed.

Lemma current_is_good : current_shape = good_shape.
Proof. apply shape_eqb_eq. apply shape_is_good_lemma. Qed.

Definition all_kinds : list opk :=
  [KAdd; KAddFloat; KSubtract; KSubtractFloat; KMultiply; KMultiplyFloat; KDivide; KDivideFloat; KModulo; KExponent;
   KEqual; KNotEqual; KLessThan; KLessThanOrEqual; KGreaterThan; KGreaterThanOrEqual; KAnd; KOr; KBitwiseAnd;
   KBitwiseOr; KStringConcat].

Scheme Equality for opk.

Fixpoint text_eqb (a b : list N) : bool :=
  match a, b with
  | [], [] => true
  | x :: a', y :: b' => N.eqb x y && text_eqb a' b'
  | _, _ => false
  end.

Fixpoint distinct_texts (l : list (list N * opk)) : bool :=
  match l with
  | [] => true
  | (t, _) :: l' => negb (existsb (fun x => text_eqb t (fst x)) l') && distinct_texts l'
  end.

(* every operator kind has exactly one token, and no token text is listed twice *)
Definition table_ok (t : list (list N * opk)) : bool :=
  Nat.eqb (length t) 21 && distinct_texts t &&
  forallb (fun k => Nat.eqb (length (filter (fun x => opk_beq k (snd x)) t)) 1) all_kinds.

Lemma op_table_ok_lemma : table_ok op_table = true.
Proof. vm_compute. reflexivity. Qed.

(* ---- evaluation of an integer chain is the left fold --------------------- *)
Section Eval.
Variable binop : opk -> Z -> Z -> option Z.
Variable env : N -> option Z.

Fixpoint ev (e : pexpr) : option Z :=
  match e with
  | PInt z => Some z
  | PVar x => env x
  | PParen e' => ev e'
  | PBin o l r => match ev l, ev r with Some a, Some b => binop o a b | _, _ => None end
  end.

Lemma ev_left_nest rest : forall x,
  ev (left_nest x rest) =
  fold_left (fun acc oa => match acc, ev (snd oa) with Some a, Some b => binop (fst oa) a b | _, _ => None end) rest (ev x).
Proof.
  induction rest as [|[o a] c IH]; intros x; cbn [left_nest fold_left fst snd]; [reflexivity|].
  unfold left_nest in IH. rewrite IH. reflexivity.
Qed.
End Eval.
