(* Model of src/parser.rs over the WHOLE grammar that the round-trip theorem
   of C33 talks about: expressions (literals, variables, the infix loop,
   parentheses, tuples, lists, calls, method calls, field access, closures,
   assert), statements (let, assignment, update, if/else, while, for, break,
   continue, return, match, blocks) and definitions (fun, method, test, enum,
   struct, import, toplevel expression / block).  MODEL: definitions only.

   Tokens are abstract: a KIND (symbols, string and float literals are
   numbered; integer literals carry their value; the 21 infix operators reuse
   `opk` of ParseExpr.v) and the SPACING to the previous token, which is all
   that the parser reads from token positions on its non-error paths:
     Glued   = starts where the previous token ends
               (`expr.position.end_offset == token.position.start_offset`: call
                parenthesis, name after a dot, brace of a struct literal),
     Spaced  = same line, not touching,
     NewLine = starts on a later line than the previous token ends
               (`parse_return`: the returned expression must start on the
                line of the keyword).
   Every function below mirrors the Rust function named in its comment.  Where
   the Rust code reports a diagnostic (error recovery) the model returns None:
   None = "outside the round-trip domain" (error paths are NOT modelled).
   Also not modelled (None): `Dict[...]` literals, struct literals `Foo{...}`,
   `try/catch`, `::`, doc comments.

   Recursion: all recursive calls go through a record of parsers `rec` of the
   previous fuel level (`P (S n) = F (P n)`), so each function body is a plain
   non-recursive definition and unfolds by reflexivity. *)
From Coq Require Import ZArith NArith Bool List.
From Garden Require Import ParseExpr.
Import ListNotations.

Inductive sp := Glued | Spaced | NewLine.

(* the 22 entries of KEYWORDS, in source order *)
Inductive kw :=
| Wlet | Wfun | Wenum | Wstruct | Wimport | Wif | Welse | Wwhile | Wreturn | Wtest | Wmatch
| Wbreak | Wcontinue | Wfor | Win | Wassert | Was | Wmethod | Wpublic | Wshared | Wtry | Wcatch.

Inductive kind :=
| KInt (z : Z)            (* INTEGER_RE token in i64 range, value *)
| KFloat (x : N)          (* FLOAT_RE token, numbered *)
| KStr (x : N)            (* well-formed string literal, numbered *)
| KSym (x : N)            (* SYMBOL_RE token that is not a keyword, not `Dict`, `Tuple`, `__placeholder`;
                             number 0 is the name `_` *)
| KDictSym                (* the symbol `Dict` *)
| KOp (o : opk)           (* infix operator token; `<` and `>` also bracket type arguments *)
| KLP | KRP | KLB | KRB | KLC | KRC          (* ( ) [ ] { } *)
| KComma | KDot | KColonColon | KEq | KPlusEq | KMinusEq | KArrow | KColon
| KKw (w : kw)
| KOther.                 (* anything else *)

Inductive tok := T (k : kind) (s : sp).

(* ---- trees (src/parser/ast.rs without positions and ids) ------------------ *)
Inductive hint :=
| HName (x : N) (args : list hint)      (* `List<Int>`, `T` *)
| HTuple (items : list hint).           (* `(Int, String)` = TypeHint Tuple *)

Inductive dest := DSym (x : N) | DDestructure (xs : list N).

Definition param := (N * option hint)%type.

Inductive expr :=
| EInt (z : Z) | EFloat (x : N) | EStr (x : N) | EVar (x : N)
| EBin (o : opk) (l r : expr)
| EParen (e : expr)
| ETuple (items : list expr)
| EList (items : list expr)
| ECall (f : expr) (args : list expr)
| EMethod (recv : expr) (m : N) (args : list expr)
| EDot (recv : expr) (x : N)
| EFunLit (params : list param) (ret : option hint) (body : list expr)
| EAssert (e : expr)
| ELet (d : dest) (h : option hint) (e : expr)
| EAssign (x : N) (e : expr)
| EAssignUpdate (plus : bool) (x : N) (e : expr)
| EIf (c : expr) (t : list expr) (el : option (list expr))
| EWhile (c : expr) (b : list expr)
| EFor (d : dest) (e : expr) (b : list expr)
| EBreak | EContinue
| EReturn (e : option expr)
| EMatch (e : expr) (cases : list (N * option dest * list expr)).

Definition block := list expr.
Definition case := (N * option dest * block)%type.

Inductive item :=
| IFun (pub : bool) (name : N) (tparams : list N) (params : list param) (ret : option hint) (body : block)
| IMethod (pub : bool) (name : N) (tparams : list N) (recv : N) (recv_hint : option hint)   (* None: placeholder type *)
          (params : list param) (ret : option hint) (body : block)
| ITest (name : N) (body : block)
| IEnum (pub : bool) (name : N) (tparams : list N) (variants : list (N * option hint))
| IStruct (pub : bool) (name : N) (tparams : list N) (fields : list (N * hint))
| IImport (path : N) (ns : option N)
| IExpr (e : expr)
| IBlock (b : block).

(* ---- the parsers ------------------------------------------------------------ *)
Record parsers := {
  p_expr : bool -> list tok -> option (expr * list tok);          (* parse_expression_with *)
  p_loop : bool -> expr -> list tok -> option (expr * list tok);  (* its `loop` *)
  p_exprs : bool -> list tok -> option (list expr * list tok);    (* loop of parse_comma_separated_exprs; true: `]` *)
  p_tuple : list tok -> option (list expr * list tok);            (* loop of parse_tuple_literal_or_parentheses *)
  p_stmts : list tok -> option (list expr * list tok);            (* `while` of parse_block *)
  p_if : list tok -> option (expr * list tok);                    (* parse_if *)
  p_cases : list tok -> option (list case * list tok);            (* loop of parse_match *)
  p_hint : list tok -> option (hint * list tok);                  (* parse_type_hint *)
  p_hints : bool -> list tok -> option (list hint * list tok);    (* loops of parse_type_arguments (true) / parse_tuple_type_hint *)
  p_params : list tok -> option (list param * list tok);          (* loop of parse_parameters *)
  p_syms : list tok -> option (list N * list tok)                 (* loop of parse_let_destination *)
}.

Definition bottom : parsers :=
  {| p_expr := fun _ _ => None; p_loop := fun _ _ _ => None; p_exprs := fun _ _ => None; p_tuple := fun _ => None;
     p_stmts := fun _ => None; p_if := fun _ => None; p_cases := fun _ => None; p_hint := fun _ => None;
     p_hints := fun _ _ => None; p_params := fun _ => None; p_syms := fun _ => None |}.

(* FxHashMap duplicate check of parse_parameters / parse_let_destination: `_` (number 0) may repeat *)
Fixpoint mem (x : N) (l : list N) : bool :=
  match l with [] => false | y :: l' => N.eqb x y || mem x l' end.
Fixpoint nodup (l : list N) : bool :=
  match l with
  | [] => true
  | x :: l' => (N.eqb x 0 || negb (mem x l')) && nodup l'
  end.

Definition is_glued (s : sp) : bool := match s with Glued => true | _ => false end.

Section WithShape.
Variable sh : arm_shape.   (* the shape of the infix-operator arm (gen/ParserShape.v) *)
Variable mt : bool.        (* the `(` of a method call must touch the method name (gen/ParserShape.v) *)
Variable rec : parsers.

(* `]` or `)` *)
Definition is_term (brk : bool) (k : kind) : bool :=
  match k with KRB => brk | KRP => negb brk | _ => false end.
(* `>` or `)` *)
Definition is_close (angle : bool) (k : kind) : bool :=
  match k with KOp KGreaterThan => angle | KRP => negb angle | _ => false end.

(* parse_type_hint *)
Definition hint_body (ts : list tok) : option (hint * list tok) :=
  match ts with
  | T KLP _ :: r =>                                       (* parse_tuple_type_hint *)
      match p_hints rec false r with
      | Some (l, T KRP _ :: r') => Some (HTuple l, r')
      | _ => None
      end
  | T (KSym x) _ :: T (KOp KLessThan) _ :: r =>           (* parse_type_arguments *)
      match p_hints rec true r with
      | Some (l, T (KOp KGreaterThan) _ :: r') => Some (HName x l, r')
      | _ => None
      end
  | T (KSym x) _ :: r => Some (HName x [], r)
  | _ => None
  end.

Definition hints_body (angle : bool) (ts : list tok) : option (list hint * list tok) :=
  match ts with
  | [] => None
  | T k _ :: _ =>
      if is_close angle k then Some ([], ts)
      else match p_hint rec ts with
           | Some (h, T KComma _ :: r) =>
               match p_hints rec angle r with Some (l, r') => Some (h :: l, r') | None => None end
           | Some (h, T k' s' :: r) => if is_close angle k' then Some ([h], T k' s' :: r) else None
           | _ => None
           end
  end.

(* parse_colon_and_hint_opt: Some (None, _) = no hint; None = diagnostic *)
Definition opt_hint (ts : list tok) : option (option hint * list tok) :=
  match ts with
  | T KColon _ :: r => match p_hint rec r with Some (h, r') => Some (Some h, r') | None => None end
  | T (KSym _) _ :: _ => None                     (* "Expected a `:` before this type hint" *)
  | T KDictSym _ :: _ => None
  | _ => Some (None, ts)
  end.

(* parse_let_destination: after `(` *)
Definition syms_body (ts : list tok) : option (list N * list tok) :=
  match ts with
  | T KRP _ :: r => Some ([], r)
  | T (KSym x) _ :: r =>
      match r with
      | T KRP _ :: _ => match p_syms rec r with Some (l, r') => Some (x :: l, r') | None => None end
      | T KComma _ :: r1 => match p_syms rec r1 with Some (l, r') => Some (x :: l, r') | None => None end
      | _ => None
      end
  | _ => None
  end.

Definition let_dest (ts : list tok) : option (dest * list tok) :=
  match ts with
  | T KLP _ :: r =>
      match p_syms rec r with
      | Some (l, r') => if nodup l then Some (DDestructure l, r') else None
      | None => None
      end
  | T (KSym x) _ :: r => Some (DSym x, r)
  | _ => None
  end.

(* parse_parameters: the loop, up to (not including) `)` *)
Definition params_body (ts : list tok) : option (list param * list tok) :=
  match ts with
  | T KRP _ :: _ => Some ([], ts)
  | T (KSym x) _ :: r =>
      match opt_hint r with
      | Some (h, T KComma _ :: r1) =>
          match p_params rec r1 with Some (l, r') => Some ((x, h) :: l, r') | None => None end
      | Some (h, T KRP s :: r1) => Some ([(x, h)], T KRP s :: r1)
      | _ => None
      end
  | _ => None
  end.

Definition parameters (ts : list tok) : option (list param * list tok) :=
  match ts with
  | T KLP _ :: r =>
      match p_params rec r with
      | Some (l, T KRP _ :: r') => if nodup (map fst l) then Some (l, r') else None
      | _ => None
      end
  | _ => None
  end.

(* parse_block *)
Definition stmts_body (ts : list tok) : option (list expr * list tok) :=
  match ts with
  | [] => None
  | T KRC _ :: _ => Some ([], ts)
  | _ =>
      match p_expr rec true ts with
      | Some (e, r) => match p_stmts rec r with Some (l, r') => Some (e :: l, r') | None => None end
      | None => None
      end
  end.

Definition block_ (ts : list tok) : option (block * list tok) :=
  match ts with
  | T KLC _ :: r =>
      match p_stmts rec r with
      | Some (b, T KRC _ :: r') => Some (b, r')
      | _ => None
      end
  | _ => None
  end.

(* parse_comma_separated_exprs *)
Definition exprs_body (brk : bool) (ts : list tok) : option (list expr * list tok) :=
  match ts with
  | [] => None
  | T k _ :: _ =>
      if is_term brk k then Some ([], ts)
      else match p_expr rec true ts with
           | Some (a, T KComma _ :: r) =>
               match p_exprs rec brk r with Some (l, r') => Some (a :: l, r') | None => None end
           | Some (a, T k' s' :: r) => if is_term brk k' then Some ([a], T k' s' :: r) else None
           | _ => None
           end
  end.

(* parse_call_arguments: at `(` *)
Definition call_args (ts : list tok) : option (list expr * list tok) :=
  match ts with
  | T KLP _ :: r =>
      match p_exprs rec false r with
      | Some (l, T KRP _ :: r') => Some (l, r')
      | _ => None
      end
  | _ => None
  end.

(* parse_tuple_literal_or_parentheses: the loop after the first expression, at `,` *)
Definition tuple_body (ts : list tok) : option (list expr * list tok) :=
  match ts with
  | T KComma _ :: r =>
      match r with
      | T KRP _ :: _ => Some ([], r)
      | _ =>
          match p_expr rec true r with
          | Some (e, r1) => match p_tuple rec r1 with Some (l, r2) => Some (e :: l, r2) | None => None end
          | None => None
          end
      end
  | T KRP _ :: _ => Some ([], ts)
  | _ => None
  end.

Definition tuple_or_paren (ts : list tok) : option (expr * list tok) :=
  match ts with
  | T KLP _ :: T KRP _ :: r => Some (ETuple [], r)
  | T KLP _ :: r =>
      match p_expr rec true r with
      | Some (e, T KComma s :: r1) =>
          match p_tuple rec (T KComma s :: r1) with
          | Some (l, T KRP _ :: r2) => Some (ETuple (e :: l), r2)
          | _ => None
          end
      | Some (e, T KRP _ :: r1) => Some (EParen e, r1)
      | _ => None
      end
  | _ => None
  end.

(* parse_if *)
Definition if_body (ts : list tok) : option (expr * list tok) :=
  match ts with
  | T (KKw Wif) _ :: r =>
      match p_expr rec true r with
      | Some (c, r1) =>
          match block_ r1 with
          | Some (t, T (KKw Welse) _ :: T (KKw Wif) s :: r2) =>
              match p_if rec (T (KKw Wif) s :: r2) with
              | Some (ei, r3) => Some (EIf c t (Some [ei]), r3)
              | None => None
              end
          | Some (t, T (KKw Welse) _ :: r2) =>
              match block_ r2 with
              | Some (el, r3) => Some (EIf c t (Some el), r3)
              | None => None
              end
          | Some (t, r2) => Some (EIf c t None, r2)
          | None => None
          end
      | None => None
      end
  | _ => None
  end.

(* parse_pattern *)
Definition pattern_ (ts : list tok) : option (N * option dest * list tok) :=
  match ts with
  | T (KSym v) _ :: T KLP _ :: r1 =>
      match let_dest r1 with
      | Some (d, T KRP _ :: r2) => Some (v, Some d, r2)
      | _ => None
      end
  | T (KSym v) _ :: r => Some (v, None, r)
  | _ => None
  end.

(* parse_case_block: a block, or one expression treated as a block; then an optional comma *)
Definition case_block (ts : list tok) : option (block * list tok) :=
  match (match ts with
         | T KLC _ :: _ => block_ ts
         | _ => match p_expr rec true ts with Some (e, r4) => Some ([e], r4) | None => None end
         end) with
  | Some (b, T KComma _ :: r') => Some (b, r')
  | Some (b, r5) => Some (b, r5)
  | None => None
  end.

(* parse_match: the loop over cases, up to (not including) `}` *)
Definition cases_body (ts : list tok) : option (list case * list tok) :=
  match ts with
  | [] => None
  | T KRC _ :: _ => Some ([], ts)
  | _ =>
      match pattern_ ts with
      | Some (v, pay, T KArrow _ :: r3) =>
          match case_block r3 with
          | Some (b, r6) =>
              match p_cases rec r6 with Some (l, r7) => Some ((v, pay, b) :: l, r7) | None => None end
          | None => None
          end
      | _ => None
      end
  end.

(* parse_lambda: at `fun` `(` *)
Definition lambda (ts : list tok) : option (expr * list tok) :=
  match ts with
  | T (KKw Wfun) _ :: r =>
      match parameters r with
      | Some (ps, r1) =>
          match opt_hint r1 with
          | Some (ret, r2) =>
              match block_ r2 with Some (b, r3) => Some (EFunLit ps ret b, r3) | None => None end
          | None => None
          end
      | None => None
      end
  | _ => None
  end.

(* parse_simple_expression *)
Definition simple (ts : list tok) : option (expr * list tok) :=
  match ts with
  | T KLP _ :: _ => tuple_or_paren ts
  | T KLB _ :: r =>                                           (* parse_list_literal *)
      match p_exprs rec true r with
      | Some (l, T KRB _ :: r') => Some (EList l, r')
      | _ => None
      end
  | T KDictSym _ :: _ => None                                 (* parse_dict_literal: not modelled *)
  | T (KKw Wfun) _ :: T KLP _ :: _ => lambda ts
  | T (KKw Wassert) _ :: T KLP _ :: r =>                      (* parse_assert *)
      match r with
      | T KRP _ :: _ => None
      | _ => match p_expr rec true r with
             | Some (e, T KRP _ :: r') => Some (EAssert e, r')
             | _ => None
             end
      end
  | T (KSym x) _ :: T KLC Glued :: _ => None                  (* parse_struct_literal: not modelled *)
  | T (KSym x) _ :: r => Some (EVar x, r)                     (* parse_variable *)
  | T (KStr x) _ :: r => Some (EStr x, r)
  | T (KFloat x) _ :: r => Some (EFloat x, r)
  | T (KInt z) _ :: r => Some (EInt z, r)
  | _ => None                                                 (* keywords as variables, EOF, other tokens: diagnostics *)
  end.

Definition not_nl (s : sp) : bool := match s with NewLine => false | _ => true end.

(* the keyword part of parse_expression_no_trailing *)
Definition keyword_expr (ts : list tok) : option (expr * list tok) :=
  match ts with
  | T (KKw Wlet) _ :: r =>                                    (* parse_let *)
      match let_dest r with
      | Some (d, r1) =>
          match opt_hint r1 with
          | Some (h, T KEq _ :: r2) =>
              match p_expr rec true r2 with Some (e, r3) => Some (ELet d h e, r3) | None => None end
          | _ => None
          end
      | None => None
      end
  | T (KKw Wreturn) _ :: r =>                                 (* parse_return *)
      match r with
      | T _ s :: _ =>
          if not_nl s then
            match p_expr rec true r with Some (e, r1) => Some (EReturn (Some e), r1) | None => None end
          else Some (EReturn None, r)
      | [] => Some (EReturn None, r)
      end
  | T (KKw Wwhile) _ :: r =>                                  (* parse_while *)
      match p_expr rec true r with
      | Some (c, r1) => match block_ r1 with Some (b, r2) => Some (EWhile c b, r2) | None => None end
      | None => None
      end
  | T (KKw Wfor) _ :: r =>                                    (* parse_for_in *)
      match let_dest r with
      | Some (d, T (KKw Win) _ :: r1) =>
          match p_expr rec true r1 with
          | Some (e, r2) => match block_ r2 with Some (b, r3) => Some (EFor d e b, r3) | None => None end
          | None => None
          end
      | _ => None
      end
  | T (KKw Wbreak) _ :: r => Some (EBreak, r)
  | T (KKw Wcontinue) _ :: r => Some (EContinue, r)
  | T (KKw Wif) _ :: _ => if_body ts
  | T (KKw Wmatch) _ :: r =>                                  (* parse_match *)
      match p_expr rec true r with
      | Some (e, T KLC _ :: r1) =>
          match p_cases rec r1 with
          | Some (cs, T KRC _ :: r2) => Some (EMatch e cs, r2)
          | _ => None
          end
      | _ => None
      end
  | T (KKw Wtry) _ :: _ => None                               (* parse_try: not modelled *)
  | _ => simple ts
  end.

(* parse_expression_no_trailing: `peek_two` decides on the SECOND token first *)
Definition no_trailing (ts : list tok) : option (expr * list tok) :=
  match ts with
  | t1 :: T KEq _ :: r =>                                     (* parse_assign *)
      match t1 with
      | T (KSym x) _ =>
          match p_expr rec true r with Some (e, r1) => Some (EAssign x e, r1) | None => None end
      | _ => None
      end
  | t1 :: T KPlusEq _ :: r =>                                 (* parse_assign_update *)
      match t1 with
      | T (KSym x) _ =>
          match p_expr rec true r with Some (e, r1) => Some (EAssignUpdate true x e, r1) | None => None end
      | _ => None
      end
  | t1 :: T KMinusEq _ :: r =>
      match t1 with
      | T (KSym x) _ =>
          match p_expr rec true r with Some (e, r1) => Some (EAssignUpdate false x e, r1) | None => None end
      | _ => None
      end
  | _ => keyword_expr ts
  end.

(* parse_expression_with *)
Definition expr_body (allow : bool) (ts : list tok) : option (expr * list tok) :=
  match no_trailing ts with
  | Some (e, r) => p_loop rec allow e r
  | None => None
  end.

(* one turn of the `loop` of parse_expression_with *)
Definition loop_body (allow : bool) (e : expr) (ts : list tok) : option (expr * list tok) :=
  match ts with
  | T KLP Glued :: _ =>                                       (* touching `(`: a call *)
      match call_args ts with
      | Some (args, r) => p_loop rec allow (ECall e args) r
      | None => None
      end
  | T KDot _ :: T (KSym m) Glued :: r =>
      match r with
      | T KLP s' :: _ =>
          if negb mt || is_glued s' then
            match call_args r with
            | Some (args, r') => p_loop rec allow (EMethod e m args) r'
            | None => None
            end
          else p_loop rec allow (EDot e m) r
      | _ => p_loop rec allow (EDot e m) r
      end
  | T KDot _ :: _ => None                                     (* "Expected a method or field name" *)
  | T KColonColon _ :: _ => None                              (* namespace access: not modelled *)
  | T (KOp o) _ :: r =>
      if allow || negb (guarded_by_flag sh) then
        match p_expr rec (negb (rhs_stops_at_operators sh)) r with
        | Some (rhs, r') =>
            if rotates_once sh then
              match rhs with
              | EBin o2 l2 r2 => p_loop rec allow (EBin o2 (EBin o e l2) r2) r'
              | _ => p_loop rec allow (EBin o e rhs) r'
              end
            else p_loop rec allow (EBin o e rhs) r'
        | None => None
        end
      else Some (e, ts)
  | _ => Some (e, ts)
  end.

Definition F : parsers :=
  {| p_expr := expr_body; p_loop := loop_body; p_exprs := exprs_body; p_tuple := tuple_body;
     p_stmts := stmts_body; p_if := if_body; p_cases := cases_body; p_hint := hint_body;
     p_hints := hints_body; p_params := params_body; p_syms := syms_body |}.

End WithShape.

Fixpoint P (sh : arm_shape) (mt : bool) (fuel : nat) : parsers :=
  match fuel with
  | O => bottom
  | S f => F sh mt (P sh mt f)
  end.

(* ---- definitions (parse_toplevel_item_from_tokens, parse_definition) -------- *)
Section Items.
Variable rec : parsers.

(* parse_type_params: the loop, up to `>` *)
Fixpoint tparams_loop (fuel : nat) (ts : list tok) : option (list N * list tok) :=
  match fuel with
  | O => None
  | S f =>
      match ts with
      | T (KOp KGreaterThan) _ :: _ => Some ([], ts)
      | T (KSym x) _ :: T KComma _ :: r =>
          match tparams_loop f r with Some (l, r') => Some (x :: l, r') | None => None end
      | T (KSym x) _ :: T (KOp KGreaterThan) s :: r => Some ([x], T (KOp KGreaterThan) s :: r)
      | _ => None
      end
  end.

Definition type_params (fuel : nat) (ts : list tok) : option (list N * list tok) :=
  match ts with
  | T (KOp KLessThan) _ :: r =>
      match tparams_loop fuel r with
      | Some (l, T (KOp KGreaterThan) _ :: r') => Some (l, r')
      | _ => None
      end
  | _ => Some ([], ts)
  end.

(* parse_variant *)
Definition variant_ (ts : list tok) : option ((N * option hint) * list tok) :=
  match ts with
  | T (KSym x) _ :: T KLP _ :: r1 =>
      match p_hint rec r1 with
      | Some (h, T KRP _ :: r2) => Some ((x, Some h), r2)
      | _ => None
      end
  | T (KSym x) _ :: r => Some ((x, None), r)
  | _ => None
  end.

(* parse_enum_body: up to `}` *)
Fixpoint variants_loop (fuel : nat) (ts : list tok) : option (list (N * option hint) * list tok) :=
  match fuel with
  | O => None
  | S f =>
      match ts with
      | T KRC _ :: _ => Some ([], ts)
      | _ =>
          match variant_ ts with
          | Some (v, T KComma _ :: r3) =>
              match r3 with
              | [] => None
              | _ => match variants_loop f r3 with Some (l, r') => Some (v :: l, r') | None => None end
              end
          | Some (v, T KRC s :: r3) => Some ([v], T KRC s :: r3)
          | _ => None
          end
      end
  end.

(* a field of parse_struct_fields *)
Definition field_ (ts : list tok) : option ((N * hint) * list tok) :=
  match ts with
  | T (KSym x) _ :: T KColon _ :: r =>
      match p_hint rec r with Some (h, r1) => Some ((x, h), r1) | None => None end
  | _ => None
  end.

(* parse_struct_fields: up to `}` *)
Fixpoint fields_loop (fuel : nat) (ts : list tok) : option (list (N * hint) * list tok) :=
  match fuel with
  | O => None
  | S f =>
      match ts with
      | T KRC _ :: _ => Some ([], ts)
      | _ =>
          match field_ ts with
          | Some (v, T KComma _ :: r1) =>
              match fields_loop f r1 with Some (l, r') => Some (v :: l, r') | None => None end
          | Some (v, T KRC s :: r1) => Some ([v], T KRC s :: r1)
          | _ => None
          end
      end
  end.

(* parse_function_ after the keyword(s) *)
Definition function_ (fuel : nat) (pub : bool) (ts : list tok) : option (item * list tok) :=
  match ts with
  | T (KSym name) _ :: r =>
      match type_params fuel r with
      | Some (tps, r1) =>
          match parameters rec r1 with
          | Some (ps, r2) =>
              match opt_hint rec r2 with
              | Some (ret, r3) =>
                  match block_ rec r3 with Some (b, r4) => Some (IFun pub name tps ps ret b, r4) | None => None end
              | None => None
              end
          | None => None
          end
      | None => None
      end
  | _ => None
  end.

(* parse_method after the keyword(s) *)
Definition method_ (fuel : nat) (pub : bool) (ts : list tok) : option (item * list tok) :=
  match ts with
  | T (KSym name) _ :: r =>
      match type_params fuel r with
      | Some (tps, r1) =>
          match parameters rec r1 with
          | Some ((this, h) :: ps, r2) =>
              match opt_hint rec r2 with
              | Some (ret, r3) =>
                  match block_ rec r3 with
                  | Some (b, r4) => Some (IMethod pub name tps this h ps ret b, r4)
                  | None => None
                  end
              | None => None
              end
          | _ => None
          end
      | None => None
      end
  | _ => None
  end.

Definition enum_ (fuel : nat) (pub : bool) (ts : list tok) : option (item * list tok) :=
  match ts with
  | T (KSym name) _ :: r =>
      match type_params fuel r with
      | Some (tps, T KLC _ :: r1) =>
          match variants_loop fuel r1 with
          | Some (vs, T KRC _ :: r2) => Some (IEnum pub name tps vs, r2)
          | _ => None
          end
      | _ => None
      end
  | _ => None
  end.

Definition struct_ (fuel : nat) (pub : bool) (ts : list tok) : option (item * list tok) :=
  match ts with
  | T (KSym name) _ :: r =>
      match type_params fuel r with
      | Some (tps, T KLC _ :: r1) =>
          match fields_loop fuel r1 with
          | Some (fs, T KRC _ :: r2) => Some (IStruct pub name tps fs, r2)
          | _ => None
          end
      | _ => None
      end
  | _ => None
  end.

(* parse_toplevel_item_from_tokens + parse_definition (which needs two tokens: peek_two) *)
Definition item_body (fuel : nat) (ts : list tok) : option (item * list tok) :=
  match ts with
  | T (KKw Wfun) _ :: T KLP _ :: _ => None                     (* "Expected a definition" *)
  | T (KKw Wfun) _ :: (_ :: _) as r => function_ fuel false r
  | T (KKw Wpublic) _ :: T (KKw Wfun) _ :: T KLP _ :: _ => None
  | T (KKw Wpublic) _ :: T (KKw Wfun) _ :: r => function_ fuel true r
  | T (KKw Wmethod) _ :: (_ :: _) as r => method_ fuel false r
  | T (KKw Wpublic) _ :: T (KKw Wmethod) _ :: r => method_ fuel true r
  | T (KKw Wtest) _ :: T (KSym name) _ :: r =>                 (* parse_test *)
      match r with
      | T KLP _ :: _ => None
      | _ => match block_ rec r with Some (b, r') => Some (ITest name b, r') | None => None end
      end
  | T (KKw Wenum) _ :: (_ :: _) as r => enum_ fuel false r
  | T (KKw Wpublic) _ :: T (KKw Wenum) _ :: r => enum_ fuel true r
  | T (KKw Wstruct) _ :: (_ :: _) as r => struct_ fuel false r
  | T (KKw Wpublic) _ :: T (KKw Wstruct) _ :: r => struct_ fuel true r
  | T (KKw Wimport) _ :: T (KStr p) _ :: r =>                  (* parse_import *)
      match r with
      | T (KKw Was) _ :: T (KSym ns) _ :: r' => Some (IImport p (Some ns), r')
      | T (KKw Was) _ :: _ => None
      | _ => Some (IImport p None, r)
      end
  | T (KKw Wfun) _ :: _ | T (KKw Wmethod) _ :: _ | T (KKw Wtest) _ :: _ | T (KKw Wenum) _ :: _
  | T (KKw Wstruct) _ :: _ | T (KKw Wpublic) _ :: _ | T (KKw Wimport) _ :: _ => None
  | T KLC _ :: _ =>                                            (* parse_toplevel_block *)
      match block_ rec ts with Some (b, r) => Some (IBlock b, r) | None => None end
  | _ =>                                                       (* parse_toplevel_expr *)
      match p_expr rec true ts with Some (e, r) => Some (IExpr e, r) | None => None end
  end.

End Items.

Definition parse_item (sh : arm_shape) (mt : bool) (fuel : nat) (ts : list tok) : option (item * list tok) :=
  item_body (P sh mt fuel) fuel ts.

Definition parse_expr (sh : arm_shape) (mt : bool) (fuel : nat) (ts : list tok) : option (expr * list tok) :=
  p_expr (P sh mt fuel) true ts.

(* parse_toplevel_items_from_tokens: items until the stream is empty *)
Fixpoint parse_items (sh : arm_shape) (mt : bool) (fuel n : nat) (ts : list tok) : option (list item) :=
  match ts with
  | [] => Some []
  | _ =>
      match n with
      | O => None
      | S n' =>
          match parse_item sh mt fuel ts with
          | Some (i, r) => match parse_items sh mt fuel n' r with Some l => Some (i :: l) | None => None end
          | None => None
          end
      end
  end.

Definition parse_program (sh : arm_shape) (mt : bool) (ts : list tok) : option (list item) :=
  parse_items sh mt (4 * length ts + 16) (S (length ts)) ts.

(* ---- canonical token text (the printer of tools/vplib/gentree.py) ----------- *)
(* `a, b, c`: the first element with spacing `first`, commas glued, later elements spaced *)
Definition commas_with {A} (pr : sp -> A -> list tok) : sp -> list A -> list tok :=
  fix go (first : sp) (l : list A) : list tok :=
    match l with
    | [] => []
    | [a] => pr first a
    | a :: l' => pr first a ++ T KComma Glued :: go Spaced l'
    end.

(* `{ s1 \n s2 \n}`: the first statement spaced, later ones and the closing brace on new lines *)
Definition stmts_with {A} (pr : sp -> A -> list tok) : sp -> list A -> list tok :=
  fix go (first : sp) (l : list A) : list tok :=
    match l with
    | [] => []
    | a :: l' => pr first a ++ go NewLine l'
    end.

Definition block_with {A} (pr : sp -> A -> list tok) (b : list A) : list tok :=
  T KLC Spaced :: stmts_with pr Spaced b ++ [T KRC (match b with [] => Spaced | _ => NewLine end)].

Fixpoint print_hint (s : sp) (h : hint) : list tok :=
  match h with
  | HName x [] => [T (KSym x) s]
  | HName x args => T (KSym x) s :: T (KOp KLessThan) Glued :: commas_with print_hint Glued args ++ [T (KOp KGreaterThan) Glued]
  | HTuple items => T KLP s :: commas_with print_hint Glued items ++ [T KRP Glued]
  end.

(* `: Hint` or nothing *)
Definition print_opt_hint (h : option hint) : list tok :=
  match h with Some h => T KColon Glued :: print_hint Spaced h | None => [] end.

Definition print_sym (s : sp) (x : N) : list tok := [T (KSym x) s].

Definition print_dest (s : sp) (d : dest) : list tok :=
  match d with
  | DSym x => [T (KSym x) s]
  | DDestructure xs => T KLP s :: commas_with print_sym Glued xs ++ [T KRP Glued]
  end.

Definition print_param (s : sp) (p : param) : list tok := T (KSym (fst p)) s :: print_opt_hint (snd p).

Definition print_params (ps : list param) : list tok :=
  T KLP Glued :: commas_with print_param Glued ps ++ [T KRP Glued].

Fixpoint print (s : sp) (e : expr) : list tok :=
  match e with
  | EInt z => [T (KInt z) s]
  | EFloat x => [T (KFloat x) s]
  | EStr x => [T (KStr x) s]
  | EVar x => [T (KSym x) s]
  | EBin o l r => print s l ++ T (KOp o) Spaced :: print Spaced r
  | EParen e' => T KLP s :: print Glued e' ++ [T KRP Glued]
  | ETuple [a] => T KLP s :: print Glued a ++ [T KComma Glued; T KRP Glued]
  | ETuple items => T KLP s :: commas_with print Glued items ++ [T KRP Glued]
  | EList items => T KLB s :: commas_with print Glued items ++ [T KRB Glued]
  | ECall f args => print s f ++ T KLP Glued :: commas_with print Glued args ++ [T KRP Glued]
  | EMethod recv m args =>
      print s recv ++ T KDot Glued :: T (KSym m) Glued :: T KLP Glued :: commas_with print Glued args ++ [T KRP Glued]
  | EDot recv x => print s recv ++ [T KDot Glued; T (KSym x) Glued]
  | EFunLit ps ret body => T (KKw Wfun) s :: print_params ps ++ print_opt_hint ret ++ block_with print body
  | EAssert e' => T (KKw Wassert) s :: T KLP Glued :: print Glued e' ++ [T KRP Glued]
  | ELet d h e' => T (KKw Wlet) s :: print_dest Spaced d ++ print_opt_hint h ++ T KEq Spaced :: print Spaced e'
  | EAssign x e' => T (KSym x) s :: T KEq Spaced :: print Spaced e'
  | EAssignUpdate plus x e' => T (KSym x) s :: T (if plus then KPlusEq else KMinusEq) Spaced :: print Spaced e'
  | EIf c t el =>
      T (KKw Wif) s :: print Spaced c ++ block_with print t ++
      match el with Some b => T (KKw Welse) Spaced :: block_with print b | None => [] end
  | EWhile c b => T (KKw Wwhile) s :: print Spaced c ++ block_with print b
  | EFor d e' b => T (KKw Wfor) s :: print_dest Spaced d ++ T (KKw Win) Spaced :: print Spaced e' ++ block_with print b
  | EBreak => [T (KKw Wbreak) s]
  | EContinue => [T (KKw Wcontinue) s]
  | EReturn (Some e') => T (KKw Wreturn) s :: print Spaced e'
  | EReturn None => [T (KKw Wreturn) s]
  | EMatch e' cases =>
      T (KKw Wmatch) s :: print Spaced e' ++ T KLC Spaced ::
      flat_map (fun c : case =>
                  match c with
                  | (v, pay, b) =>
                      T (KSym v) Spaced ::
                      match pay with Some d => T KLP Glued :: print_dest Glued d ++ [T KRP Glued] | None => [] end ++
                      T KArrow Spaced :: block_with print b
                  end) cases ++ [T KRC Spaced]
  end.

Definition print_block (b : block) : list tok := block_with print b.

Definition print_case (c : case) : list tok :=
  match c with
  | (v, pay, b) =>
      T (KSym v) Spaced ::
      match pay with Some d => T KLP Glued :: print_dest Glued d ++ [T KRP Glued] | None => [] end ++
      T KArrow Spaced :: print_block b
  end.

Definition print_pub (pub : bool) (k : kw) : list tok :=
  if pub then [T (KKw Wpublic) Spaced; T (KKw k) Spaced] else [T (KKw k) Spaced].

(* `<T, U>` glued to the name, or nothing *)
Definition print_tparams (tps : list N) : list tok :=
  match tps with
  | [] => []
  | _ => T (KOp KLessThan) Glued :: commas_with print_sym Glued tps ++ [T (KOp KGreaterThan) Glued]
  end.

Definition print_variant (s : sp) (v : N * option hint) : list tok :=
  T (KSym (fst v)) s :: match snd v with Some h => T KLP Glued :: print_hint Glued h ++ [T KRP Glued] | None => [] end.

Definition print_field (s : sp) (f : N * hint) : list tok :=
  T (KSym (fst f)) s :: T KColon Glued :: print_hint Spaced (snd f).

Definition print_item (i : item) : list tok :=
  match i with
  | IFun pub name tps ps ret b =>
      print_pub pub Wfun ++ T (KSym name) Spaced :: print_tparams tps ++ print_params ps ++ print_opt_hint ret ++ print_block b
  | IMethod pub name tps this h ps ret b =>
      print_pub pub Wmethod ++ T (KSym name) Spaced :: print_tparams tps ++
      print_params ((this, h) :: ps) ++ print_opt_hint ret ++ print_block b
  | ITest name b => T (KKw Wtest) Spaced :: T (KSym name) Spaced :: print_block b
  | IEnum pub name tps vs =>
      print_pub pub Wenum ++ T (KSym name) Spaced :: print_tparams tps ++
      T KLC Spaced :: commas_with print_variant Spaced vs ++ [T KRC Spaced]
  | IStruct pub name tps fs =>
      print_pub pub Wstruct ++ T (KSym name) Spaced :: print_tparams tps ++
      T KLC Spaced :: commas_with print_field Spaced fs ++ [T KRC Spaced]
  | IImport p None => [T (KKw Wimport) Spaced; T (KStr p) Spaced]
  | IImport p (Some ns) => [T (KKw Wimport) Spaced; T (KStr p) Spaced; T (KKw Was) Spaced; T (KSym ns) Spaced]
  | IExpr e => print Spaced e
  | IBlock b => print_block b
  end.

(* ---- the round-trip domain ---------------------------------------------------- *)
Definition is_bin (e : expr) : bool := match e with EBin _ _ _ => true | _ => false end.
Definition is_dot (e : expr) : bool := match e with EDot _ _ => true | _ => false end.

(* the text of e starts with the keyword `fun` *)
Fixpoint starts_fun (e : expr) : bool :=
  match e with
  | EFunLit _ _ _ => true
  | EBin _ l _ => starts_fun l
  | ECall f _ => starts_fun f
  | EMethod r _ _ | EDot r _ => starts_fun r
  | _ => false
  end.

Definition wf_dest (d : dest) : bool := match d with DSym _ => true | DDestructure xs => nodup xs end.
Definition wf_opt_dest (d : option dest) : bool := match d with Some d => wf_dest d | None => true end.

(* stmt = true: statement position (element of a block, toplevel expression): `let`, assignments and `return`
   are allowed there and only there.  Everywhere: the right operand of an operator, a callee and a receiver
   are not operator applications, and a callee is not a field access (the grammar reads `a + b(c)` as
   `a + (b(c))` and `a.b(c)` as a method call; such trees need an explicit Parentheses node). *)
Fixpoint wf (stmt : bool) (e : expr) : bool :=
  match e with
  | EInt _ | EFloat _ | EStr _ | EVar _ | EBreak | EContinue => true
  | EBin _ l r => wf false l && wf false r && negb (is_bin r)
  | EParen e' | EAssert e' => wf false e'
  | ETuple l | EList l => forallb (wf false) l
  | ECall f args => wf false f && negb (is_bin f) && negb (is_dot f) && forallb (wf false) args
  | EMethod r _ args => wf false r && negb (is_bin r) && forallb (wf false) args
  | EDot r _ => wf false r && negb (is_bin r)
  | EFunLit ps _ body => nodup (map fst ps) && forallb (wf true) body
  | ELet d _ e' => stmt && wf_dest d && wf false e'
  | EAssign _ e' | EAssignUpdate _ _ e' => stmt && wf false e'
  | EReturn (Some e') => stmt && wf false e'
  | EReturn None => stmt
  | EIf c t el =>
      wf false c && forallb (wf true) t &&
      match el with Some b => forallb (wf true) b | None => true end
  | EWhile c b => wf false c && forallb (wf true) b
  | EFor d e' b => wf_dest d && wf false e' && forallb (wf true) b
  | EMatch e' cases =>
      wf false e' &&
      forallb (fun c : case => match c with (_, pay, b) => wf_opt_dest pay && forallb (wf true) b end) cases
  end.

Definition wf_block (b : block) : bool := forallb (wf true) b.

Definition wf_item (i : item) : bool :=
  match i with
  | IFun _ _ _ ps _ b => nodup (map fst ps) && wf_block b
  | IMethod _ _ _ this _ ps _ b => nodup (this :: map fst ps) && wf_block b
  | ITest _ b => wf_block b
  | IEnum _ _ _ _ | IStruct _ _ _ _ | IImport _ _ => true
  | IExpr e => wf true e && negb (starts_fun e)       (* a toplevel `fun (` is read as a definition *)
  | IBlock b => wf_block b
  end.

Fixpoint size (e : expr) : nat :=
  match e with
  | EInt _ | EFloat _ | EStr _ | EVar _ | EBreak | EContinue | EReturn None => 1
  | EBin _ l r => S (size l + size r)
  | EParen e' | EAssert e' | ELet _ _ e' | EAssign _ e' | EAssignUpdate _ _ e' | EReturn (Some e') => S (size e')
  | ETuple l | EList l => S (list_sum (map size l))
  | ECall f args => S (size f + list_sum (map size args))
  | EMethod r _ args => S (size r + list_sum (map size args))
  | EDot r _ => S (size r)
  | EFunLit _ _ body => S (list_sum (map size body))
  | EIf c t el => S (size c + list_sum (map size t) + match el with Some b => list_sum (map size b) | None => 0 end)
  | EWhile c b => S (size c + list_sum (map size b))
  | EFor _ e' b => S (size e' + list_sum (map size b))
  | EMatch e' cases =>
      S (size e' + list_sum (map (fun c : case => match c with (_, _, b) => S (list_sum (map size b)) end) cases))
  end.
