(* Round trip for the model of ParseFull.v: printing a tree of the domain `wf_item` and parsing the tokens with
   the parser as written today (good_shape, method parenthesis must touch) gives the tree back. *)
From Coq Require Import ZArith NArith Bool List Lia.
From Garden Require Import ParseExpr ParseFull.
Import ListNotations.

Notation R := (P good_shape true).

Lemma R_S f : R (S f) = F good_shape true (R f).
Proof. reflexivity. Qed.

Ltac step :=
  rewrite R_S;
  cbn [F p_expr p_loop p_exprs p_tuple p_stmts p_if p_cases p_hint p_hints p_params p_syms].

(* ---- the first token of a printed expression -------------------------------- *)
Definition first_ok (k : kind) : bool :=
  match k with
  | KInt _ | KFloat _ | KStr _ | KSym _ | KLP | KLB => true
  | KKw w => match w with
             | Wlet | Wfun | Wassert | Wif | Wwhile | Wfor | Wbreak | Wcontinue | Wreturn | Wmatch => true
             | _ => false
             end
  | _ => false
  end.

Definition starts_ok (ts : list tok) : bool := match ts with T k _ :: _ => first_ok k | [] => false end.

Lemma print_first e : forall s, exists k tl, print s e = T k s :: tl /\ first_ok k = true.
Proof.
  induction e; intros s; cbn [print];
    try (eexists _, _; split; reflexivity).
  - destruct (IHe1 s) as (k & tl & -> & Hk). eexists _, _. cbn [app]. split; [reflexivity|assumption].
  - destruct items as [|a [|b l]]; eexists _, _; split; reflexivity.
  - destruct (IHe s) as (k & tl & -> & Hk). eexists _, _. cbn [app]. split; [reflexivity|assumption].
  - destruct (IHe s) as (k & tl & -> & Hk). eexists _, _. cbn [app]. split; [reflexivity|assumption].
  - destruct (IHe s) as (k & tl & -> & Hk). eexists _, _. cbn [app]. split; [reflexivity|assumption].
  - destruct e; eexists _, _; split; reflexivity.
Qed.

Lemma print_starts e s r : starts_ok (print s e ++ r) = true.
Proof. destruct (print_first e s) as (k & tl & -> & Hk). exact Hk. Qed.

(* ---- what may follow a complete expression ----------------------------------- *)
Definition stops (ts : list tok) : bool :=
  match ts with
  | [] => true
  | T k s :: _ =>
      match k with
      | KLP | KLC => negb (is_glued s)
      | KDot | KColonColon | KOp _ | KEq | KPlusEq | KMinusEq | KKw Welse => false
      | _ => true
      end
  end.

Definition boundary (ts : list tok) : bool := match ts with T (KOp _) _ :: _ => true | _ => stops ts end.

Definition follow (allow : bool) (ts : list tok) : bool := if allow then stops ts else boundary ts.

(* ... a statement that may be a bare `return`: the next token is on a later line *)
Definition stops_nl (ts : list tok) : bool :=
  stops ts && match ts with [] => true | T _ s :: _ => negb (not_nl s) end.

(* ... a head (an expression before the trailing loop looks at it) *)
Definition hfollow (ts : list tok) : bool :=
  match ts with
  | T KEq _ :: _ | T KPlusEq _ :: _ | T KMinusEq _ :: _ | T KLC Glued :: _ | T (KKw Welse) _ :: _ => false
  | _ => true
  end.

Definition not_assign (ts : list tok) : bool :=
  match ts with T KEq _ :: _ | T KPlusEq _ :: _ | T KMinusEq _ :: _ => false | _ => true end.

Lemma stops_boundary ts : stops ts = true -> boundary ts = true.
Proof. destruct ts as [|[k s] r]; [reflexivity|]. destruct k; cbn; auto. Qed.
Lemma follow_boundary a ts : follow a ts = true -> boundary ts = true.
Proof. destruct a; [apply stops_boundary|auto]. Qed.
Lemma boundary_hfollow ts : boundary ts = true -> hfollow ts = true.
Proof. destruct ts as [|[k s] r]; [reflexivity|]. destruct k; try destruct s; try destruct w; cbn; auto; discriminate. Qed.
Lemma hfollow_not_assign ts : hfollow ts = true -> not_assign ts = true.
Proof. destruct ts as [|[k s] r]; [reflexivity|]. destruct k; try destruct s; try destruct w; cbn; auto. Qed.
Lemma starts_not_assign ts : starts_ok ts = true -> not_assign ts = true.
Proof. destruct ts as [|[k s] r]; [discriminate|]. destruct k; cbn; auto; discriminate. Qed.
Lemma stops_nl_stops ts : stops_nl ts = true -> stops ts = true.
Proof. unfold stops_nl. intros H. apply andb_true_iff in H. tauto. Qed.
Lemma starts_stops k s r : first_ok k = true -> is_glued s = false -> stops (T k s :: r) = true.
Proof. intros Hk Hs. destruct k; try discriminate; cbn; rewrite ?Hs; try reflexivity. destruct w; try discriminate; reflexivity. Qed.

(* ---- dispatch lemmas ----------------------------------------------------------- *)
Lemma no_trailing_skip rec t ts : not_assign ts = true -> no_trailing rec (t :: ts) = keyword_expr rec (t :: ts).
Proof. destruct ts as [|[k s] r]; [reflexivity|]. destruct k; try discriminate; reflexivity. Qed.

Lemma expr_of_head f allow ts x r :
  no_trailing (R f) ts = Some (x, r) -> p_expr (R (S f)) allow ts = p_loop (R f) allow x r.
Proof. intros H. step. unfold expr_body. now rewrite H. Qed.

Lemma loop_stop f allow e ts : follow allow ts = true -> p_loop (R (S f)) allow e ts = Some (e, ts).
Proof.
  intros H. step. destruct ts as [|[k s] r]; [reflexivity|].
  destruct allow; destruct k; try destruct s; try discriminate; try reflexivity.
Qed.

(* ---- result predicates ---------------------------------------------------------- *)
Definition ok_expr (allow : bool) (e : expr) : Prop :=
  forall s rest, follow allow rest = true ->
  exists f0, forall f, f0 <= f -> p_expr (R f) allow (print s e ++ rest) = Some (e, rest).
Definition stmt_ok (e : expr) : Prop :=
  forall s rest, stops_nl rest = true ->
  exists f0, forall f, f0 <= f -> p_expr (R f) true (print s e ++ rest) = Some (e, rest).

Lemma expr_stmt_ok e : ok_expr true e -> stmt_ok e.
Proof. intros H s rest Hr. apply H. now apply stops_nl_stops. Qed.

(* ---- printer equations ------------------------------------------------------------ *)
Lemma commas_one {A} (pr : sp -> A -> list tok) s a : commas_with pr s [a] = pr s a.
Proof. reflexivity. Qed.
Lemma commas_cons2 {A} (pr : sp -> A -> list tok) s a b l :
  commas_with pr s (a :: b :: l) = pr s a ++ T KComma Glued :: commas_with pr Spaced (b :: l).
Proof. reflexivity. Qed.
Lemma stmts_cons {A} (pr : sp -> A -> list tok) s a l : stmts_with pr s (a :: l) = pr s a ++ stmts_with pr NewLine l.
Proof. reflexivity. Qed.

Definition term (brk : bool) : kind := if brk then KRB else KRP.

(* ---- parse_comma_separated_exprs ------------------------------------------------- *)
Lemma exprs_body_next rec brk ts : starts_ok ts = true ->
  exprs_body rec brk ts =
  match p_expr rec true ts with
  | Some (a, T KComma _ :: r) => match p_exprs rec brk r with Some (l, r') => Some (a :: l, r') | None => None end
  | Some (a, T k' s' :: r) => if is_term brk k' then Some ([a], T k' s' :: r) else None
  | _ => None
  end.
Proof.
  destruct ts as [|[k s] r]; [discriminate|]. intros H. unfold exprs_body.
  assert (E : is_term brk k = false) by (destruct k; try discriminate; reflexivity). now rewrite E.
Qed.

Lemma exprs_ok brk l : Forall (ok_expr true) l -> forall s rest, exists f0, forall f, f0 <= f ->
  p_exprs (R f) brk (commas_with print s l ++ T (term brk) Glued :: rest) = Some (l, T (term brk) Glued :: rest).
Proof.
  induction 1 as [|a l Ha Hl IH]; intros s rest.
  - exists 1. intros [|f] Hf; [lia|]. step. destruct brk; reflexivity.
  - destruct l as [|b l'].
    + rewrite commas_one. destruct (Ha s (T (term brk) Glued :: rest)) as (f1 & H1); [destruct brk; reflexivity|].
      exists (S f1). intros [|f] Hf; [lia|]. step. rewrite exprs_body_next by apply print_starts.
      rewrite H1 by lia. destruct brk; reflexivity.
    + rewrite commas_cons2, <- app_assoc. cbn [app].
      destruct (Ha s (T KComma Glued :: commas_with print Spaced (b :: l') ++ T (term brk) Glued :: rest)) as (f1 & H1);
        [reflexivity|].
      destruct (IH Spaced rest) as (f2 & H2).
      exists (S (Nat.max f1 f2)). intros [|f] Hf; [lia|]. step. rewrite exprs_body_next by apply print_starts.
      rewrite H1 by lia. rewrite H2 by lia. reflexivity.
Qed.

(* ---- the tuple loop ---------------------------------------------------------------- *)
Lemma tuple_body_next rec s r : starts_ok r = true ->
  tuple_body rec (T KComma s :: r) =
  match p_expr rec true r with
  | Some (e, r1) => match p_tuple rec r1 with Some (l, r2) => Some (e :: l, r2) | None => None end
  | None => None
  end.
Proof. destruct r as [|[k s0] r]; [discriminate|]. destruct k; try discriminate; reflexivity. Qed.

Lemma tuple_ok l : Forall (ok_expr true) l -> l <> [] -> forall rest, exists f0, forall f, f0 <= f ->
  p_tuple (R f) (T KComma Glued :: commas_with print Spaced l ++ T KRP Glued :: rest) = Some (l, T KRP Glued :: rest).
Proof.
  induction 1 as [|a l Ha Hl IH]; intros Hne rest; [congruence|].
  destruct l as [|b l'].
  - rewrite commas_one. destruct (Ha Spaced (T KRP Glued :: rest)) as (f1 & H1); [reflexivity|].
    exists (S (S f1)). intros [|f] Hf; [lia|]. step. rewrite tuple_body_next by apply print_starts.
    rewrite H1 by lia. destruct f as [|f]; [lia|]. step. reflexivity.
  - rewrite commas_cons2, <- app_assoc. cbn [app].
    destruct (Ha Spaced (T KComma Glued :: commas_with print Spaced (b :: l') ++ T KRP Glued :: rest)) as (f1 & H1);
      [reflexivity|].
    destruct (IH ltac:(discriminate) rest) as (f2 & H2).
    exists (S (Nat.max f1 f2)). intros [|f] Hf; [lia|]. step. rewrite tuple_body_next by apply print_starts.
    rewrite H1 by lia. rewrite H2 by lia. reflexivity.
Qed.

(* ---- blocks -------------------------------------------------------------------------- *)
Lemma stmts_body_next rec ts : starts_ok ts = true ->
  stmts_body rec ts =
  match p_expr rec true ts with
  | Some (e, r) => match p_stmts rec r with Some (l, r') => Some (e :: l, r') | None => None end
  | None => None
  end.
Proof. destruct ts as [|[k s] r]; [discriminate|]. destruct k; try discriminate; reflexivity. Qed.

Lemma stops_nl_print e r : stops_nl (print NewLine e ++ r) = true.
Proof.
  destruct (print_first e NewLine) as (k & tl & -> & Hk). cbn [app]. unfold stops_nl.
  rewrite starts_stops by auto. reflexivity.
Qed.

Lemma stops_print e s r : is_glued s = false -> stops (print s e ++ r) = true.
Proof. intros Hs. destruct (print_first e s) as (k & tl & -> & Hk). cbn [app]. now apply starts_stops. Qed.

Lemma stmts_ok b : Forall stmt_ok b -> forall s s' rest, (b <> [] -> s' = NewLine) -> exists f0, forall f, f0 <= f ->
  p_stmts (R f) (stmts_with print s b ++ T KRC s' :: rest) = Some (b, T KRC s' :: rest).
Proof.
  induction 1 as [|a l Ha Hl IH]; intros s s' rest Hs'.
  - exists 1. intros [|f] Hf; [lia|]. step. reflexivity.
  - rewrite (Hs' ltac:(discriminate)). rewrite stmts_cons, <- app_assoc.
    destruct (Ha s (stmts_with print NewLine l ++ T KRC NewLine :: rest)) as (f1 & H1).
    { destruct l as [|b l']; [reflexivity|]. rewrite stmts_cons, <- app_assoc. apply stops_nl_print. }
    destruct (IH NewLine NewLine rest ltac:(auto)) as (f2 & H2).
    exists (S (Nat.max f1 f2)). intros [|f] Hf; [lia|]. step. rewrite stmts_body_next by apply print_starts.
    rewrite H1 by lia. rewrite H2 by lia. reflexivity.
Qed.

Lemma block_ok b : Forall stmt_ok b -> forall rest, exists f0, forall f, f0 <= f ->
  block_ (R f) (block_with print b ++ rest) = Some (b, rest).
Proof.
  intros Hb rest. unfold block_with.
  destruct (stmts_ok b Hb Spaced (match b with [] => Spaced | _ => NewLine end) rest) as (f1 & H1).
  { destruct b; [congruence|reflexivity]. }
  exists f1. intros f Hf. cbn [app block_]. rewrite <- app_assoc. cbn [app]. rewrite H1 by lia. reflexivity.
Qed.

(* ---- type hints ------------------------------------------------------------------- *)
Lemma hint_ind' (Pr : hint -> Prop) :
  (forall x args, Forall Pr args -> Pr (HName x args)) ->
  (forall items, Forall Pr items -> Pr (HTuple items)) ->
  forall h, Pr h.
Proof.
  intros H1 H2. fix IH 1. intros [x args|items]; [apply H1|apply H2].
  - induction args; constructor; auto.
  - induction items; constructor; auto.
Qed.

Definition hint_follow (ts : list tok) : bool := match ts with T (KOp KLessThan) _ :: _ => false | _ => true end.
Definition close (angle : bool) : kind := if angle then KOp KGreaterThan else KRP.

Definition hint_ok (h : hint) : Prop :=
  forall s rest, hint_follow rest = true ->
  exists f0, forall f, f0 <= f -> p_hint (R f) (print_hint s h ++ rest) = Some (h, rest).

Definition hstart (ts : list tok) : bool := match ts with T (KSym _) _ :: _ | T KLP _ :: _ => true | _ => false end.

Lemma print_hint_start h s r : hstart (print_hint s h ++ r) = true.
Proof. destruct h as [x [|a l]|items]; reflexivity. Qed.

Lemma hints_body_next rec angle ts : hstart ts = true ->
  hints_body rec angle ts =
  match p_hint rec ts with
  | Some (h, T KComma _ :: r) => match p_hints rec angle r with Some (l, r') => Some (h :: l, r') | None => None end
  | Some (h, T k' s' :: r) => if is_close angle k' then Some ([h], T k' s' :: r) else None
  | _ => None
  end.
Proof.
  destruct ts as [|[k s] r]; [discriminate|]. intros H. unfold hints_body.
  assert (E : is_close angle k = false) by (destruct k; try discriminate; reflexivity). now rewrite E.
Qed.

Lemma hints_ok angle l : Forall hint_ok l -> forall s rest, exists f0, forall f, f0 <= f ->
  p_hints (R f) angle (commas_with print_hint s l ++ T (close angle) Glued :: rest) = Some (l, T (close angle) Glued :: rest).
Proof.
  induction 1 as [|a l Ha Hl IH]; intros s rest.
  - exists 1. intros [|f] Hf; [lia|]. step. destruct angle; reflexivity.
  - destruct l as [|b l'].
    + rewrite commas_one. destruct (Ha s (T (close angle) Glued :: rest)) as (f1 & H1); [destruct angle; reflexivity|].
      exists (S f1). intros [|f] Hf; [lia|]. step. rewrite hints_body_next by apply print_hint_start.
      rewrite H1 by lia. destruct angle; reflexivity.
    + rewrite commas_cons2, <- app_assoc. cbn [app].
      destruct (Ha s (T KComma Glued :: commas_with print_hint Spaced (b :: l') ++ T (close angle) Glued :: rest)) as (f1 & H1);
        [reflexivity|].
      destruct (IH Spaced rest) as (f2 & H2).
      exists (S (Nat.max f1 f2)). intros [|f] Hf; [lia|]. step. rewrite hints_body_next by apply print_hint_start.
      rewrite H1 by lia. rewrite H2 by lia. reflexivity.
Qed.

Lemma print_hint_name x a l s :
  print_hint s (HName x (a :: l)) =
  T (KSym x) s :: T (KOp KLessThan) Glued :: commas_with print_hint Glued (a :: l) ++ [T (KOp KGreaterThan) Glued].
Proof. reflexivity. Qed.
Lemma print_hint_tuple items s : print_hint s (HTuple items) = T KLP s :: commas_with print_hint Glued items ++ [T KRP Glued].
Proof. reflexivity. Qed.

Lemma all_hints_ok h : hint_ok h.
Proof.
  induction h as [x args IH|items IH] using hint_ind'; intros s rest Hr.
  - destruct args as [|a l].
    + exists 1. intros [|f] Hf; [lia|]. step. cbn [print_hint app].
      destruct rest as [|[k s0] r]; [reflexivity|]. destruct k; try reflexivity. destruct o; try reflexivity. discriminate.
    + rewrite print_hint_name. destruct (hints_ok true (a :: l) IH Glued rest) as (f1 & H1).
      exists (S f1). intros [|f] Hf; [lia|]. step. cbn [app hint_body]. rewrite <- app_assoc. cbn [app].
      cbn [close] in H1. rewrite H1 by lia. reflexivity.
  - rewrite print_hint_tuple. destruct (hints_ok false items IH Glued rest) as (f1 & H1).
    exists (S f1). intros [|f] Hf; [lia|]. step. cbn [app hint_body]. rewrite <- app_assoc. cbn [app].
    cbn [close] in H1. rewrite H1 by lia. reflexivity.
Qed.

(* `: Hint` or nothing; what follows "nothing" must not look like a hint *)
Definition nohint_follow (ts : list tok) : bool :=
  match ts with T KColon _ :: _ | T (KSym _) _ :: _ | T KDictSym _ :: _ => false | _ => true end.

Lemma opt_hint_ok h rest : hint_follow rest = true -> nohint_follow rest = true ->
  exists f0, forall f, f0 <= f -> opt_hint (R f) (print_opt_hint h ++ rest) = Some (h, rest).
Proof.
  intros H1 H2. destruct h as [h|].
  - destruct (all_hints_ok h Spaced rest H1) as (f1 & Hh). exists f1. intros f Hf.
    cbn [print_opt_hint app opt_hint]. rewrite Hh by lia. reflexivity.
  - exists 0. intros f _. cbn [print_opt_hint app].
    destruct rest as [|[k s] r]; [reflexivity|]. destruct k; try discriminate; reflexivity.
Qed.

(* ---- destructuring destinations ------------------------------------------------------ *)
Lemma syms_ok l : forall s rest, exists f0, forall f, f0 <= f ->
  p_syms (R f) (commas_with print_sym s l ++ T KRP Glued :: rest) = Some (l, rest).
Proof.
  induction l as [|x l IH]; intros s rest.
  - exists 1. intros [|f] Hf; [lia|]. step. reflexivity.
  - destruct l as [|y l'].
    + exists 2. intros [|f] Hf; [lia|]. step. cbn [commas_with print_sym app syms_body].
      destruct f as [|f]; [lia|]. step. reflexivity.
    + rewrite commas_cons2. destruct (IH Spaced rest) as (f1 & H1).
      exists (S f1). intros [|f] Hf; [lia|]. step. cbn [print_sym app syms_body]. rewrite H1 by lia. reflexivity.
Qed.

Lemma dest_ok d : wf_dest d = true -> forall s rest, exists f0, forall f, f0 <= f ->
  let_dest (R f) (print_dest s d ++ rest) = Some (d, rest).
Proof.
  intros W s rest. destruct d as [x|xs].
  - exists 0. intros f _. reflexivity.
  - destruct (syms_ok xs Glued rest) as (f1 & H1). exists f1. intros f Hf.
    cbn [print_dest app let_dest]. rewrite <- app_assoc. cbn [app]. rewrite H1 by lia.
    cbn [wf_dest] in W. now rewrite W.
Qed.

(* ---- parameters ------------------------------------------------------------------------ *)
Lemma params_ok l : forall s rest, exists f0, forall f, f0 <= f ->
  p_params (R f) (commas_with print_param s l ++ T KRP Glued :: rest) = Some (l, T KRP Glued :: rest).
Proof.
  induction l as [|[x h] l IH]; intros s rest.
  - exists 1. intros [|f] Hf; [lia|]. step. reflexivity.
  - destruct l as [|q l'].
    + rewrite commas_one. unfold print_param. cbn [fst snd].
      destruct (opt_hint_ok h (T KRP Glued :: rest) eq_refl eq_refl) as (f1 & H1).
      exists (S f1). intros [|f] Hf; [lia|]. step. cbn [app params_body]. rewrite <- ?app_assoc. rewrite H1 by lia. reflexivity.
    + rewrite commas_cons2. unfold print_param at 1. cbn [fst snd].
      destruct (opt_hint_ok h (T KComma Glued :: commas_with print_param Spaced (q :: l') ++ T KRP Glued :: rest) eq_refl eq_refl)
        as (f1 & H1).
      destruct (IH Spaced rest) as (f2 & H2).
      exists (S (Nat.max f1 f2)). intros [|f] Hf; [lia|]. step. cbn [app params_body]. rewrite <- ?app_assoc. cbn [app].
      rewrite H1 by lia. rewrite H2 by lia. reflexivity.
Qed.

Lemma parameters_ok l : nodup (map fst l) = true -> forall rest, exists f0, forall f, f0 <= f ->
  parameters (R f) (print_params l ++ rest) = Some (l, rest).
Proof.
  intros W rest. destruct (params_ok l Glued rest) as (f1 & H1). exists f1. intros f Hf.
  unfold print_params. cbn [app parameters]. rewrite <- app_assoc. cbn [app]. rewrite H1 by lia. now rewrite W.
Qed.

(* ---- the induction hypothesis on smaller trees ------------------------------------------ *)
Definition IHP (N : nat) : Prop :=
  forall e, size e < N ->
    (wf false e = true -> ok_expr true e /\ (is_bin e = false -> ok_expr false e)) /\
    (wf true e = true -> stmt_ok e).

Lemma size_in a l : In a l -> size a <= list_sum (map size l).
Proof.
  induction l as [|b l IH]; [contradiction|]. intros H. change (list_sum (map size (b :: l))) with (size b + list_sum (map size l)).
  destruct H as [->|H]; [lia|]. specialize (IH H). lia.
Qed.

Lemma IH_exprs N (IH : IHP N) l : list_sum (map size l) < N -> forallb (wf false) l = true -> Forall (ok_expr true) l.
Proof.
  intros Hs W. apply Forall_forall. intros a Ha. rewrite forallb_forall in W.
  apply (IH a); [pose proof (size_in a l Ha); lia|auto].
Qed.
Lemma IH_stmts N (IH : IHP N) l : list_sum (map size l) < N -> forallb (wf true) l = true -> Forall stmt_ok l.
Proof.
  intros Hs W. apply Forall_forall. intros a Ha. rewrite forallb_forall in W.
  apply (IH a); [pose proof (size_in a l Ha); lia|auto].
Qed.

(* ---- suffix chains ------------------------------------------------------------------------ *)
Inductive suffix := SCall (args : list expr) | SMeth (m : N) (args : list expr) | SDot (x : N) | SBin (o : opk) (rhs : expr).

Definition apply_sfx (acc : expr) (sf : suffix) : expr :=
  match sf with
  | SCall a => ECall acc a
  | SMeth m a => EMethod acc m a
  | SDot x => EDot acc x
  | SBin o r => EBin o acc r
  end.
Definition nest (x : expr) (chain : list suffix) : expr := fold_left apply_sfx chain x.

Definition flat1 (sf : suffix) : list tok :=
  match sf with
  | SCall a => T KLP Glued :: commas_with print Glued a ++ [T KRP Glued]
  | SMeth m a => T KDot Glued :: T (KSym m) Glued :: T KLP Glued :: commas_with print Glued a ++ [T KRP Glued]
  | SDot x => [T KDot Glued; T (KSym x) Glued]
  | SBin o r => T (KOp o) Spaced :: print Spaced r
  end.
Definition flat (chain : list suffix) : list tok := flat_map flat1 chain.

Definition is_head (e : expr) : bool :=
  match e with EBin _ _ _ | ECall _ _ | EMethod _ _ _ | EDot _ _ => false | _ => true end.

Lemma print_apply s acc sf : print s (apply_sfx acc sf) = print s acc ++ flat1 sf.
Proof. destruct sf; reflexivity. Qed.

Lemma print_nest chain : forall s acc, print s (nest acc chain) = print s acc ++ flat chain.
Proof.
  induction chain as [|sf c IH]; intros s acc; cbn [nest fold_left flat flat_map]; [now rewrite app_nil_r|].
  unfold nest in IH. rewrite IH, print_apply, <- app_assoc. reflexivity.
Qed.

Lemma spine e : exists x chain, e = nest x chain /\ is_head x = true.
Proof.
  induction e; try (eexists _, []; split; reflexivity).
  - destruct IHe1 as (x & c & -> & Hx). exists x, (c ++ [SBin o e2]). split; [|assumption].
    unfold nest. now rewrite fold_left_app.
  - destruct IHe as (x & c & -> & Hx). exists x, (c ++ [SCall args]). split; [|assumption].
    unfold nest. now rewrite fold_left_app.
  - destruct IHe as (x & c & -> & Hx). exists x, (c ++ [SMeth m args]). split; [|assumption].
    unfold nest. now rewrite fold_left_app.
  - destruct IHe as (y & c & -> & Hx). exists y, (c ++ [SDot x]). split; [|assumption].
    unfold nest. now rewrite fold_left_app.
Qed.

Lemma wf_apply_inv acc sf : wf false (apply_sfx acc sf) = true -> wf false acc = true.
Proof. destruct sf; cbn [apply_sfx wf]; intros H; repeat (apply andb_true_iff in H; destruct H as [H ?]); assumption. Qed.

Lemma wf_nest_inv chain : forall acc, wf false (nest acc chain) = true -> wf false acc = true.
Proof.
  induction chain as [|sf c IH]; intros acc H; [exact H|]. apply (wf_apply_inv acc sf). apply IH. exact H.
Qed.

Lemma size_apply acc sf : size acc < size (apply_sfx acc sf).
Proof. destruct sf; cbn [apply_sfx size]; lia. Qed.
Lemma size_nest chain : forall acc, size acc <= size (nest acc chain).
Proof.
  induction chain as [|sf c IH]; intros acc; [apply le_n|]. cbn [nest fold_left].
  pose proof (size_apply acc sf). specialize (IH (apply_sfx acc sf)). unfold nest in IH. lia.
Qed.

Lemma bin_nest chain : forall acc, wf false (nest acc chain) = true -> is_bin acc = true -> is_bin (nest acc chain) = true.
Proof.
  induction chain as [|sf c IH]; intros acc W B; [exact B|]. cbn [nest fold_left] in *.
  pose proof (wf_nest_inv c _ W) as W1.
  destruct sf; cbn [apply_sfx wf] in W1; try (rewrite B in W1; cbn in W1; rewrite ?andb_false_r in W1; discriminate).
  apply IH; [exact W|reflexivity].
Qed.

(* the first token of a suffix chain *)
Definition chain_head (ts : list tok) : bool :=
  match ts with T KLP Glued :: _ | T KDot _ :: _ | T (KOp _) _ :: _ => true | _ => false end.
Lemma chain_head_hfollow ts : chain_head ts = true -> hfollow ts = true.
Proof. destruct ts as [|[k s] r]; [discriminate|]. destruct k; try destruct s; try discriminate; reflexivity. Qed.
Lemma flat_head sf c rest : chain_head (flat (sf :: c) ++ rest) = true.
Proof. destruct sf; reflexivity. Qed.

Definition not_glued_lp (ts : list tok) : bool := match ts with T KLP Glued :: _ => false | _ => true end.
Lemma follow_not_glued_lp a ts : follow a ts = true -> not_glued_lp ts = true.
Proof. destruct ts as [|[k s] r]; [reflexivity|]. destruct a, k; try destruct s; try discriminate; reflexivity. Qed.

Lemma loop_dot f allow e s1 x ts : not_glued_lp ts = true ->
  p_loop (R (S f)) allow e (T KDot s1 :: T (KSym x) Glued :: ts) = p_loop (R f) allow (EDot e x) ts.
Proof.
  intros H. step. cbn [loop_body]. destruct ts as [|[k s] r]; [reflexivity|].
  destruct k; try reflexivity. destruct s; try discriminate; reflexivity.
Qed.

Lemma loop_chain N (IH : IHP N) chain : forall acc allow rest,
  wf false (nest acc chain) = true -> size (nest acc chain) <= N ->
  (allow = false -> is_bin (nest acc chain) = false) -> follow allow rest = true ->
  exists f0, forall f, f0 <= f -> p_loop (R f) allow acc (flat chain ++ rest) = Some (nest acc chain, rest).
Proof.
  induction chain as [|sf c IHc]; intros acc allow rest W Hs Hb Hr.
  - exists 1. intros [|f] Hf; [lia|]. now apply loop_stop.
  - cbn [nest fold_left] in W, Hs, Hb. fold (nest (apply_sfx acc sf) c) in W, Hs, Hb.
    pose proof (wf_nest_inv c _ W) as W1. pose proof (size_nest c (apply_sfx acc sf)) as S1.
    destruct (IHc (apply_sfx acc sf) allow rest W Hs Hb Hr) as (f2 & H2).
    cbn [flat flat_map]. fold (flat c). rewrite <- app_assoc.
    destruct sf as [args|m args|x|o rhs]; cbn [apply_sfx flat1] in *.
    + (* call *)
      cbn [wf] in W1. apply andb_true_iff in W1 as [W1 Wa].
      cbn [size] in S1.
      destruct (exprs_ok false args (IH_exprs N IH args ltac:(lia) Wa) Glued (flat c ++ rest)) as (f1 & H1).
      exists (S (Nat.max f1 f2)). intros [|f] Hf; [lia|]. step. cbn [app loop_body call_args].
      rewrite <- app_assoc. cbn [app]. cbn [term] in H1. rewrite H1 by lia. apply H2. lia.
    + (* method call *)
      cbn [wf] in W1. apply andb_true_iff in W1 as [W1 Wa].
      cbn [size] in S1.
      destruct (exprs_ok false args (IH_exprs N IH args ltac:(lia) Wa) Glued (flat c ++ rest)) as (f1 & H1).
      exists (S (Nat.max f1 f2)). intros [|f] Hf; [lia|]. step. cbn [app loop_body call_args negb orb is_glued].
      rewrite <- app_assoc. cbn [app]. cbn [term] in H1. rewrite H1 by lia. apply H2. lia.
    + (* field access *)
      exists (S f2). intros [|f] Hf; [lia|]. cbn [app]. rewrite loop_dot; [apply H2; lia|].
      destruct c as [|sf' c']; [cbn [flat flat_map app]; now apply (follow_not_glued_lp allow)|].
      destruct sf'; try reflexivity.
      (* a call of a field access is not in the domain *)
      cbn [nest fold_left] in W. pose proof (wf_nest_inv c' _ W) as W2. cbn [apply_sfx wf is_dot] in W2.
      rewrite andb_false_r in W2. discriminate.
    + (* operator *)
      destruct allow.
      2:{ specialize (Hb eq_refl). rewrite (bin_nest c _ W eq_refl) in Hb. discriminate. }
      cbn [wf] in W1. apply andb_true_iff in W1 as [W1 Wnb]. apply andb_true_iff in W1 as [_ Wr].
      apply negb_true_iff in Wnb. cbn [size] in S1.
      destruct (IH rhs ltac:(lia)) as [Hrhs _]. destruct (Hrhs Wr) as [_ Hrhs']. specialize (Hrhs' Wnb).
      destruct (Hrhs' Spaced (flat c ++ rest)) as (f1 & H1).
      { destruct c as [|sf' c']; [cbn [flat flat_map app]; now apply stops_boundary|].
        destruct sf'; try reflexivity;
          cbn [nest fold_left] in W; pose proof (wf_nest_inv c' _ W) as W2; cbn [apply_sfx wf is_bin] in W2;
          rewrite ?andb_false_r in W2; cbn in W2; rewrite ?andb_false_r in W2; discriminate. }
      exists (S (Nat.max f1 f2)). intros [|f] Hf; [lia|]. step. cbn [app loop_body orb negb good_shape
        rhs_stops_at_operators guarded_by_flag rotates_once].
      rewrite H1 by lia. apply H2. lia.
Qed.

Ltac assoc := repeat (rewrite <- ?app_assoc; progress cbn [app]); rewrite <- ?app_assoc.

(* ---- match cases ---------------------------------------------------------------------------- *)
Definition case_good (c : case) : Prop :=
  match c with (_, pay, b) => wf_opt_dest pay = true /\ Forall stmt_ok b end.

Definition print_payload (pay : option dest) : list tok :=
  match pay with Some d => T KLP Glued :: print_dest Glued d ++ [T KRP Glued] | None => [] end.

Lemma pattern_ok v pay s rest : wf_opt_dest pay = true -> exists f0, forall f, f0 <= f ->
  pattern_ (R f) (T (KSym v) s :: print_payload pay ++ T KArrow Spaced :: rest) = Some (v, pay, T KArrow Spaced :: rest).
Proof.
  intros W. destruct pay as [d|].
  - destruct (dest_ok d W Glued (T KRP Glued :: T KArrow Spaced :: rest)) as (f1 & H1). exists f1. intros f Hf.
    cbn [print_payload app pattern_]. rewrite <- app_assoc. cbn [app]. rewrite H1 by lia. reflexivity.
  - exists 0. intros f _. reflexivity.
Qed.

Definition not_comma (ts : list tok) : bool := match ts with T KComma _ :: _ => false | _ => true end.

Lemma case_block_ok b rest : Forall stmt_ok b -> not_comma rest = true -> exists f0, forall f, f0 <= f ->
  case_block (R f) (block_with print b ++ rest) = Some (b, rest).
Proof.
  intros Hb Hr. destruct (block_ok b Hb rest) as (f1 & H1). exists f1. intros f Hf.
  unfold case_block. change (block_with print b ++ rest) with (T KLC Spaced :: (stmts_with print Spaced b ++
    [T KRC (match b with [] => Spaced | _ => NewLine end)]) ++ rest) at 1.
  cbv iota beta. rewrite H1 by lia.
  destruct rest as [|[k s] r]; [reflexivity|]. destruct k; try reflexivity. discriminate.
Qed.

Lemma print_case_eq v pay b : print_case (v, pay, b) = T (KSym v) Spaced :: print_payload pay ++ T KArrow Spaced :: block_with print b.
Proof. destruct pay; reflexivity. Qed.

Lemma cases_ok cases : Forall case_good cases -> forall rest, exists f0, forall f, f0 <= f ->
  p_cases (R f) (flat_map print_case cases ++ T KRC Spaced :: rest) = Some (cases, T KRC Spaced :: rest).
Proof.
  induction 1 as [|[[v pay] b] l [Wp Hb] Hl IH]; intros rest.
  - exists 1. intros [|f] Hf; [lia|]. step. reflexivity.
  - destruct (IH rest) as (f2 & H2).
    destruct (case_block_ok b (flat_map print_case l ++ T KRC Spaced :: rest) Hb) as (f1 & H1).
    { destruct l as [|[[v' p'] b'] l']; reflexivity. }
    destruct (pattern_ok v pay Spaced (block_with print b ++ flat_map print_case l ++ T KRC Spaced :: rest) Wp) as (f3 & H3).
    exists (S (Nat.max f3 (Nat.max f1 f2))). intros [|f] Hf; [lia|]. step.
    cbn [flat_map]. rewrite print_case_eq. assoc. cbn [cases_body].
    rewrite H3 by lia. rewrite H1 by lia. rewrite H2 by lia. reflexivity.
Qed.

(* ---- printer equations ------------------------------------------------------------------------- *)
Lemma print_tuple2 s a b l : print s (ETuple (a :: b :: l)) = T KLP s :: commas_with print Glued (a :: b :: l) ++ [T KRP Glued].
Proof. reflexivity. Qed.
Lemma print_match s e cases :
  print s (EMatch e cases) = T (KKw Wmatch) s :: print Spaced e ++ T KLC Spaced :: flat_map print_case cases ++ [T KRC Spaced].
Proof. reflexivity. Qed.

(* ---- dispatch lemmas for heads -------------------------------------------------------------------- *)
Lemma var_simple rec x s rest : hfollow rest = true -> keyword_expr rec (T (KSym x) s :: rest) = Some (EVar x, rest).
Proof.
  destruct rest as [|[k s0] r]; [reflexivity|]. destruct k; try reflexivity. destruct s0; try reflexivity. discriminate.
Qed.

Lemma paren_next rec s r : starts_ok r = true ->
  keyword_expr rec (T KLP s :: r) =
  match p_expr rec true r with
  | Some (e, T KComma s0 :: r1) =>
      match p_tuple rec (T KComma s0 :: r1) with
      | Some (l, T KRP _ :: r2) => Some (ETuple (e :: l), r2)
      | _ => None
      end
  | Some (e, T KRP _ :: r1) => Some (EParen e, r1)
  | _ => None
  end.
Proof. destruct r as [|[k s0] r]; [discriminate|]. destruct k; try discriminate; reflexivity. Qed.

Lemma assert_next rec s s1 r : starts_ok r = true ->
  keyword_expr rec (T (KKw Wassert) s :: T KLP s1 :: r) =
  match p_expr rec true r with
  | Some (e, T KRP _ :: r') => Some (EAssert e, r')
  | _ => None
  end.
Proof. destruct r as [|[k s0] r]; [discriminate|]. destruct k; try discriminate; reflexivity. Qed.

Lemma return_next rec s k tl :
  keyword_expr rec (T (KKw Wreturn) s :: T k Spaced :: tl) =
  match p_expr rec true (T k Spaced :: tl) with Some (e, r1) => Some (EReturn (Some e), r1) | None => None end.
Proof. reflexivity. Qed.

Lemma not_else_match {A} (ts : list tok) (f1 : sp -> sp -> list tok -> A) (f2 : sp -> list tok -> A) (d : A) :
  hfollow ts = true ->
  match ts with
  | T (KKw Welse) s1 :: T (KKw Wif) s2 :: r2 => f1 s1 s2 r2
  | T (KKw Welse) s1 :: r2 => f2 s1 r2
  | _ => d
  end = d.
Proof.
  destruct ts as [|[k s] r]; [reflexivity|]. destruct k; try reflexivity. destruct w; try reflexivity. discriminate.
Qed.

Lemma not_assign_commas {A} (pr : sp -> A -> list tok) l k r :
  (forall a s r', starts_ok (pr s a ++ r') = true) -> not_assign (T k Glued :: r) = true ->
  not_assign (commas_with pr Glued l ++ T k Glued :: r) = true.
Proof.
  intros Hp Hk. destruct l as [|a [|b l']]; [exact Hk| |].
  - rewrite commas_one. apply starts_not_assign, Hp.
  - rewrite commas_cons2, <- app_assoc. apply starts_not_assign, Hp.
Qed.

Lemma dest_starts d s r : starts_ok (print_dest s d ++ r) = true.
Proof. destruct d; reflexivity. Qed.

Ltac split_wf W := repeat (apply andb_true_iff in W; let W' := fresh "W" in destruct W as [W W']).

Lemma block_follow b rest : stops (block_with print b ++ rest) = true /\ hint_follow (block_with print b ++ rest) = true
  /\ nohint_follow (block_with print b ++ rest) = true.
Proof. repeat split; reflexivity. Qed.

Lemma list_sum_cons a l : list_sum (a :: l) = a + list_sum l.
Proof. reflexivity. Qed.

Lemma IH_cases N (IH : IHP N) (cases : list case) :
  list_sum (map (fun c : case => match c with (_, _, b) => S (list_sum (map size b)) end) cases) < N ->
  forallb (fun c : case => match c with (_, pay, b) => wf_opt_dest pay && forallb (wf true) b end) cases = true ->
  Forall case_good cases.
Proof.
  induction cases as [|[[v pay] b] l IHl]; intros Hs W; constructor;
    cbn [forallb] in W; split_wf W; cbn [map] in Hs; rewrite list_sum_cons in Hs.
  - split; [assumption|]. apply (IH_stmts N IH); [lia|assumption].
  - apply IHl; [lia|assumption].
Qed.

Lemma parameters_ok' l : nodup (map fst l) = true -> forall rest, exists f0, forall f, f0 <= f ->
  parameters (R f) (T KLP Glued :: commas_with print_param Glued l ++ T KRP Glued :: rest) = Some (l, rest).
Proof.
  intros W rest. destruct (parameters_ok l W rest) as (f1 & H1). exists f1. intros f Hf. specialize (H1 f Hf).
  unfold print_params in H1. cbn [app] in H1. rewrite <- app_assoc in H1. exact H1.
Qed.

(* ---- heads: what parse_expression_no_trailing reads ------------------------------------------------ *)
Lemma head_closed N (IH : IHP N) x : size x <= N -> wf false x = true -> is_head x = true ->
  forall s rest, hfollow rest = true ->
  exists f0, forall f, f0 <= f -> no_trailing (R f) (print s x ++ rest) = Some (x, rest).
Proof.
  intros Hs W Hx s rest Hr. pose proof (hfollow_not_assign rest Hr) as Hna.
  destruct x; try discriminate; cbn [wf] in W; cbn [size] in Hs.
  - (* int *) exists 0. intros f _. cbn [print app]. rewrite no_trailing_skip by assumption. reflexivity.
  - exists 0. intros f _. cbn [print app]. rewrite no_trailing_skip by assumption. reflexivity.
  - exists 0. intros f _. cbn [print app]. rewrite no_trailing_skip by assumption. reflexivity.
  - (* var *) exists 0. intros f _. cbn [print app]. rewrite no_trailing_skip by assumption. now apply var_simple.
  - (* paren *)
    destruct (IH x ltac:(lia)) as [Hx' _]. destruct (Hx' W) as [Hx'' _].
    destruct (Hx'' Glued (T KRP Glued :: rest) eq_refl) as (f1 & H1).
    exists f1. intros f Hf. cbn [print app]. assoc.
    rewrite no_trailing_skip by apply starts_not_assign, print_starts.
    rewrite paren_next by apply print_starts. rewrite H1 by lia. reflexivity.
  - (* tuple *)
    pose proof (IH_exprs N IH items ltac:(lia) W) as Hit.
    destruct items as [|a [|b l]].
    + exists 0. intros f _. cbn [print app commas_with]. rewrite no_trailing_skip by reflexivity. reflexivity.
    + inversion Hit as [|? ? Ha _]; subst.
      destruct (Ha Glued (T KComma Glued :: T KRP Glued :: rest) eq_refl) as (f1 & H1).
      exists (S f1). intros [|f] Hf; [lia|]. cbn [print app]. assoc.
      rewrite no_trailing_skip by apply starts_not_assign, print_starts.
      rewrite paren_next by apply print_starts. rewrite H1 by lia. step. reflexivity.
    + inversion Hit as [|? ? Ha Hl]; subst.
      destruct (Ha Glued (T KComma Glued :: commas_with print Spaced (b :: l) ++ T KRP Glued :: rest) eq_refl) as (f1 & H1).
      destruct (tuple_ok (b :: l) Hl ltac:(discriminate) rest) as (f2 & H2).
      exists (Nat.max f1 f2). intros f Hf. rewrite print_tuple2, commas_cons2. cbn [app]. assoc.
      rewrite no_trailing_skip by apply starts_not_assign, print_starts.
      rewrite paren_next by apply print_starts. rewrite H1 by lia. rewrite H2 by lia. reflexivity.
  - (* list *)
    pose proof (IH_exprs N IH items ltac:(lia) W) as Hit.
    destruct (exprs_ok true items Hit Glued rest) as (f1 & H1). exists f1. intros f Hf.
    cbn [print app]. assoc.
    rewrite no_trailing_skip by (apply not_assign_commas; [intros; apply print_starts|reflexivity]).
    cbn [keyword_expr simple]. cbn [term] in H1. rewrite H1 by lia. reflexivity.
  - (* closure *)
    split_wf W.
    destruct (parameters_ok' params W (print_opt_hint ret ++ block_with print body ++ rest)) as (f1 & H1).
    destruct (opt_hint_ok ret (block_with print body ++ rest) eq_refl eq_refl) as (f2 & H2).
    destruct (block_ok body (IH_stmts N IH body ltac:(lia) W0) rest) as (f3 & H3).
    exists (Nat.max f1 (Nat.max f2 f3)). intros f Hf. cbn [print app]. unfold print_params at 1. cbn [app].
    rewrite no_trailing_skip by reflexivity. cbn [keyword_expr simple lambda]. assoc.
    rewrite H1 by lia. rewrite H2 by lia. rewrite H3 by lia. reflexivity.
  - (* assert *)
    destruct (IH x ltac:(lia)) as [Hx' _]. destruct (Hx' W) as [Hx'' _].
    destruct (Hx'' Glued (T KRP Glued :: rest) eq_refl) as (f1 & H1).
    exists f1. intros f Hf. cbn [print app]. assoc.
    rewrite no_trailing_skip by reflexivity. rewrite assert_next by apply print_starts. rewrite H1 by lia. reflexivity.
  - (* if *)
    split_wf W.
    destruct (IH x ltac:(lia)) as [Hc _]. destruct (Hc W) as [Hc' _].
    destruct el as [b|].
    + destruct (Hc' Spaced (block_with print t ++ T (KKw Welse) Spaced :: block_with print b ++ rest) eq_refl) as (f1 & H1).
      destruct (block_ok t (IH_stmts N IH t ltac:(lia) W1) (T (KKw Welse) Spaced :: block_with print b ++ rest)) as (f2 & H2).
      destruct (block_ok b (IH_stmts N IH b ltac:(lia) W0) rest) as (f3 & H3).
      exists (Nat.max f1 (Nat.max f2 f3)). intros f Hf. cbn [print app]. assoc.
      rewrite no_trailing_skip by apply starts_not_assign, print_starts.
      cbn [keyword_expr if_body]. rewrite H1 by lia. rewrite H2 by lia.
      change (block_with print b ++ rest) with (T KLC Spaced :: (stmts_with print Spaced b ++
        [T KRC (match b with [] => Spaced | _ => NewLine end)]) ++ rest) at 1.
      cbv iota beta.
      change (T KLC Spaced :: (stmts_with print Spaced b ++ [T KRC (match b with [] => Spaced | _ => NewLine end)]) ++ rest)
        with (block_with print b ++ rest).
      rewrite H3 by lia. reflexivity.
    + destruct (Hc' Spaced (block_with print t ++ rest) eq_refl) as (f1 & H1).
      destruct (block_ok t (IH_stmts N IH t ltac:(lia) W1) rest) as (f2 & H2).
      exists (Nat.max f1 f2). intros f Hf. cbn [print app]. rewrite app_nil_r. assoc.
      rewrite no_trailing_skip by apply starts_not_assign, print_starts.
      cbn [keyword_expr if_body]. rewrite H1 by lia. rewrite H2 by lia.
      now rewrite not_else_match.
  - (* while *)
    split_wf W.
    destruct (IH x ltac:(lia)) as [Hc _]. destruct (Hc W) as [Hc' _].
    destruct (Hc' Spaced (block_with print b ++ rest) eq_refl) as (f1 & H1).
    destruct (block_ok b (IH_stmts N IH b ltac:(lia) W0) rest) as (f2 & H2).
    exists (Nat.max f1 f2). intros f Hf. cbn [print app]. assoc.
    rewrite no_trailing_skip by apply starts_not_assign, print_starts.
    cbn [keyword_expr]. rewrite H1 by lia. rewrite H2 by lia. reflexivity.
  - (* for *)
    split_wf W.
    destruct (dest_ok d W Spaced (T (KKw Win) Spaced :: print Spaced x ++ block_with print b ++ rest)) as (f0 & H0).
    destruct (IH x ltac:(lia)) as [Hc _]. destruct (Hc W1) as [Hc' _].
    destruct (Hc' Spaced (block_with print b ++ rest) eq_refl) as (f1 & H1).
    destruct (block_ok b (IH_stmts N IH b ltac:(lia) W0) rest) as (f2 & H2).
    exists (Nat.max f0 (Nat.max f1 f2)). intros f Hf. cbn [print app]. assoc.
    rewrite no_trailing_skip by apply starts_not_assign, dest_starts.
    cbn [keyword_expr]. rewrite H0 by lia. rewrite H1 by lia. rewrite H2 by lia. reflexivity.
  - (* break *) exists 0. intros f _. cbn [print app]. rewrite no_trailing_skip by assumption. reflexivity.
  - (* continue *) exists 0. intros f _. cbn [print app]. rewrite no_trailing_skip by assumption. reflexivity.
  - (* return: not an expression *) destruct e; discriminate.
  - (* match *)
    split_wf W.
    destruct (IH x ltac:(lia)) as [Hc _]. destruct (Hc W) as [Hc' _].
    destruct (Hc' Spaced (T KLC Spaced :: flat_map print_case cases ++ T KRC Spaced :: rest) eq_refl) as (f1 & H1).
    destruct (cases_ok cases (IH_cases N IH cases ltac:(lia) W0) rest) as (f2 & H2).
    exists (Nat.max f1 f2). intros f Hf. rewrite print_match. cbn [app]. assoc.
    rewrite no_trailing_skip by apply starts_not_assign, print_starts.
    cbn [keyword_expr]. rewrite H1 by lia. rewrite H2 by lia. reflexivity.
Qed.

Definition open_form (e : expr) : bool :=
  match e with ELet _ _ _ | EAssign _ _ | EAssignUpdate _ _ _ | EReturn _ => true | _ => false end.

Lemma closed_wf e : open_form e = false -> wf true e = wf false e.
Proof. destruct e; try discriminate; reflexivity. Qed.

Lemma open_is_head e : open_form e = true -> is_head e = true.
Proof. destruct e; try discriminate; reflexivity. Qed.

(* `let`, assignments, `return`: statement position only *)
Lemma head_open N (IH : IHP N) x : size x <= N -> wf true x = true -> open_form x = true ->
  forall s rest, stops_nl rest = true ->
  exists f0, forall f, f0 <= f -> no_trailing (R f) (print s x ++ rest) = Some (x, rest).
Proof.
  intros Hs W Hx s rest Hr. pose proof (stops_nl_stops rest Hr) as Hst.
  destruct x; try discriminate; cbn [wf andb] in W; cbn [size] in Hs.
  - (* let *)
    split_wf W.
    destruct (dest_ok d W Spaced (print_opt_hint h ++ T KEq Spaced :: print Spaced x ++ rest)) as (f0 & H0).
    destruct (opt_hint_ok h (T KEq Spaced :: print Spaced x ++ rest) eq_refl eq_refl) as (f1 & H1).
    destruct (IH x ltac:(lia)) as [Hc _]. destruct (Hc W0) as [Hc' _].
    destruct (Hc' Spaced rest Hst) as (f2 & H2).
    exists (Nat.max f0 (Nat.max f1 f2)). intros f Hf. cbn [print app]. assoc.
    rewrite no_trailing_skip by apply starts_not_assign, dest_starts.
    cbn [keyword_expr]. rewrite H0 by lia. rewrite H1 by lia. rewrite H2 by lia. reflexivity.
  - (* assign *)
    destruct (IH x0 ltac:(lia)) as [Hc _]. destruct (Hc W) as [Hc' _].
    destruct (Hc' Spaced rest Hst) as (f2 & H2).
    exists f2. intros f Hf. cbn [print app no_trailing]. rewrite H2 by lia. reflexivity.
  - (* update *)
    destruct (IH x0 ltac:(lia)) as [Hc _]. destruct (Hc W) as [Hc' _].
    destruct (Hc' Spaced rest Hst) as (f2 & H2).
    exists f2. intros f Hf. destruct plus; cbn [print app no_trailing]; rewrite H2 by lia; reflexivity.
  - (* return *)
    destruct e as [e|].
    + destruct (IH e ltac:(lia)) as [Hc _]. destruct (Hc W) as [Hc' _].
      destruct (Hc' Spaced rest Hst) as (f2 & H2).
      exists f2. intros f Hf. cbn [print app].
      rewrite no_trailing_skip by apply starts_not_assign, print_starts.
      specialize (H2 f Hf). destruct (print_first e Spaced) as (k & tl & E & Hk). rewrite E in *. cbn [app] in *.
      rewrite return_next. rewrite H2. reflexivity.
    + exists 0. intros f _. cbn [print app].
      rewrite no_trailing_skip by (apply hfollow_not_assign, boundary_hfollow, stops_boundary, Hst).
      destruct rest as [|[k s0] r]; [reflexivity|]. unfold stops_nl in Hr. apply andb_true_iff in Hr as [_ Hnl].
      destruct s0; try discriminate. reflexivity.
Qed.

Lemma size_pos e : 1 <= size e.
Proof. destruct e; cbn [size]; try lia. destruct e; lia. Qed.

Theorem roundtrip_all N : IHP N.
Proof.
  induction N as [|N IHN]; intros e He; [pose proof (size_pos e); lia|].
  assert (He' : size e <= N) by lia.
  assert (HA : wf false e = true -> forall allow, (allow = false -> is_bin e = false) -> ok_expr allow e).
  { intros W allow Hb s rest Hr. destruct (spine e) as (x & chain & -> & Hx).
    pose proof (wf_nest_inv chain x W) as Wx. pose proof (size_nest chain x) as Sx.
    rewrite print_nest, <- app_assoc.
    destruct (head_closed N IHN x ltac:(lia) Wx Hx s (flat chain ++ rest)) as (f1 & H1).
    { destruct chain as [|sf c]; [apply boundary_hfollow, (follow_boundary allow), Hr|apply chain_head_hfollow, flat_head]. }
    destruct (loop_chain N IHN chain x allow rest W He' Hb Hr) as (f2 & H2).
    exists (S (Nat.max f1 f2)). intros [|f] Hf; [lia|].
    rewrite (expr_of_head f allow _ x _ (H1 f ltac:(lia))). apply H2. lia. }
  split.
  - intros W. split; [apply HA; [assumption|discriminate]|intros B; apply HA; auto].
  - intros W. destruct (open_form e) eqn:O.
    + intros s rest Hr.
      destruct (head_open N IHN e He' W O s rest Hr) as (f1 & H1).
      exists (S (S f1)). intros [|f] Hf; [lia|].
      rewrite (expr_of_head f true _ e _ (H1 f ltac:(lia))). destruct f as [|f]; [lia|].
      apply loop_stop. now apply stops_nl_stops.
    + rewrite (closed_wf e O) in W. apply expr_stmt_ok. apply HA; [assumption|discriminate].
Qed.

Corollary stmt_roundtrip e : wf true e = true -> stmt_ok e.
Proof. intros W. apply (roundtrip_all (S (size e)) e (le_n _)). exact W. Qed.
Corollary expr_roundtrip e : wf false e = true -> ok_expr true e.
Proof. intros W. apply (roundtrip_all (S (size e)) e (le_n _)). exact W. Qed.

Lemma block_roundtrip b : forallb (wf true) b = true -> forall rest, exists f0, forall f, f0 <= f ->
  block_ (R f) (block_with print b ++ rest) = Some (b, rest).
Proof.
  intros W. apply block_ok. apply Forall_forall. intros a Ha. rewrite forallb_forall in W. apply stmt_roundtrip. auto.
Qed.

(* ---- definitions ------------------------------------------------------------------------------ *)
Lemma tparams_loop_ok l : forall s rest, exists f0, forall f, f0 <= f ->
  tparams_loop f (commas_with print_sym s l ++ T (KOp KGreaterThan) Glued :: rest) = Some (l, T (KOp KGreaterThan) Glued :: rest).
Proof.
  induction l as [|x l IH]; intros s rest.
  - exists 1. intros [|f] Hf; [lia|]. reflexivity.
  - destruct l as [|y l'].
    + exists 1. intros [|f] Hf; [lia|]. reflexivity.
    + rewrite commas_cons2. destruct (IH Spaced rest) as (f1 & H1).
      exists (S f1). intros [|f] Hf; [lia|]. cbn [print_sym app tparams_loop]. rewrite H1 by lia. reflexivity.
Qed.

Definition not_lt (ts : list tok) : bool := match ts with T (KOp KLessThan) _ :: _ => false | _ => true end.

Lemma type_params_ok tps rest : not_lt rest = true -> exists f0, forall f, f0 <= f ->
  type_params f (print_tparams tps ++ rest) = Some (tps, rest).
Proof.
  intros Hr. destruct tps as [|x l].
  - exists 0. intros f _. cbn [print_tparams app]. destruct rest as [|[k s] r]; [reflexivity|].
    destruct k; try reflexivity. destruct o; try reflexivity. discriminate.
  - destruct (tparams_loop_ok (x :: l) Glued rest) as (f1 & H1). exists f1. intros f Hf.
    cbn [print_tparams app type_params]. rewrite <- app_assoc. cbn [app]. rewrite H1 by lia. reflexivity.
Qed.

Definition not_lp (ts : list tok) : bool := match ts with T KLP _ :: _ => false | _ => true end.

Lemma variant_ok v s rest : not_lp rest = true -> exists f0, forall f, f0 <= f ->
  variant_ (R f) (print_variant s v ++ rest) = Some (v, rest).
Proof.
  intros Hr. destruct v as [x [h|]]; unfold print_variant; cbn [fst snd].
  - destruct (all_hints_ok h Glued (T KRP Glued :: rest) eq_refl) as (f1 & H1). exists f1. intros f Hf.
    cbn [app variant_]. rewrite <- app_assoc. cbn [app]. rewrite H1 by lia. reflexivity.
  - exists 0. intros f _. cbn [app]. destruct rest as [|[k s0] r]; [reflexivity|]. destruct k; try reflexivity. discriminate.
Qed.

Lemma variants_next rec f v s tl : variants_loop rec (S f) (print_variant s v ++ tl) =
  match variant_ rec (print_variant s v ++ tl) with
  | Some (v, T KComma _ :: r3) =>
      match r3 with
      | [] => None
      | _ => match variants_loop rec f r3 with Some (l, r') => Some (v :: l, r') | None => None end
      end
  | Some (v, T KRC s :: r3) => Some ([v], T KRC s :: r3)
  | _ => None
  end.
Proof. reflexivity. Qed.

Lemma variants_ok l : forall s rest, exists f0, forall f, f0 <= f -> forall fuel, length l < fuel ->
  variants_loop (R f) fuel (commas_with print_variant s l ++ T KRC Spaced :: rest) = Some (l, T KRC Spaced :: rest).
Proof.
  induction l as [|v l IH]; intros s rest.
  - exists 0. intros f _ [|fuel] Hfuel; [cbn in Hfuel; lia|]. reflexivity.
  - destruct l as [|q l'].
    + rewrite commas_one. destruct (variant_ok v s (T KRC Spaced :: rest) eq_refl) as (f1 & H1).
      exists f1. intros f Hf [|fuel] Hfuel; [cbn in Hfuel; lia|]. rewrite variants_next. rewrite H1 by lia. reflexivity.
    + rewrite commas_cons2, <- app_assoc. cbn [app].
      destruct (variant_ok v s (T KComma Glued :: commas_with print_variant Spaced (q :: l') ++ T KRC Spaced :: rest) eq_refl)
        as (f1 & H1).
      destruct (IH Spaced rest) as (f2 & H2).
      exists (Nat.max f1 f2). intros f Hf [|fuel] Hfuel; [cbn in Hfuel; lia|]. rewrite variants_next. rewrite H1 by lia.
      rewrite H2 by (cbn [length] in *; lia).
      destruct l' as [|q' l'']; [rewrite commas_one|rewrite commas_cons2]; unfold print_variant at 1; reflexivity.
Qed.

Lemma field_ok v s rest : hint_follow rest = true -> exists f0, forall f, f0 <= f ->
  field_ (R f) (print_field s v ++ rest) = Some (v, rest).
Proof.
  intros Hr. destruct v as [x h]; unfold print_field; cbn [fst snd].
  destruct (all_hints_ok h Spaced rest Hr) as (f1 & H1). exists f1. intros f Hf.
  cbn [app field_]. rewrite H1 by lia. reflexivity.
Qed.

Lemma fields_next rec f v s tl : fields_loop rec (S f) (print_field s v ++ tl) =
  match field_ rec (print_field s v ++ tl) with
  | Some (v, T KComma _ :: r1) =>
      match fields_loop rec f r1 with Some (l, r') => Some (v :: l, r') | None => None end
  | Some (v, T KRC s :: r1) => Some ([v], T KRC s :: r1)
  | _ => None
  end.
Proof. reflexivity. Qed.

Lemma fields_ok l : forall s rest, exists f0, forall f, f0 <= f -> forall fuel, length l < fuel ->
  fields_loop (R f) fuel (commas_with print_field s l ++ T KRC Spaced :: rest) = Some (l, T KRC Spaced :: rest).
Proof.
  induction l as [|v l IH]; intros s rest.
  - exists 0. intros f _ [|fuel] Hfuel; [cbn in Hfuel; lia|]. reflexivity.
  - destruct l as [|q l'].
    + rewrite commas_one. destruct (field_ok v s (T KRC Spaced :: rest) eq_refl) as (f1 & H1).
      exists f1. intros f Hf [|fuel] Hfuel; [cbn in Hfuel; lia|]. rewrite fields_next. rewrite H1 by lia. reflexivity.
    + rewrite commas_cons2, <- app_assoc. cbn [app].
      destruct (field_ok v s (T KComma Glued :: commas_with print_field Spaced (q :: l') ++ T KRC Spaced :: rest) eq_refl)
        as (f1 & H1).
      destruct (IH Spaced rest) as (f2 & H2).
      exists (Nat.max f1 f2). intros f Hf [|fuel] Hfuel; [cbn in Hfuel; lia|]. rewrite fields_next. rewrite H1 by lia.
      rewrite H2 by (cbn [length] in *; lia). reflexivity.
Qed.

(* the first token of a toplevel expression is not `fun` *)
Lemma print_first_fun e : forall s, exists k tl, print s e = T k s :: tl /\ first_ok k = true /\ (k = KKw Wfun -> starts_fun e = true).
Proof.
  induction e; intros s; cbn [print starts_fun];
    try (eexists _, _; split; [reflexivity|split; [reflexivity|try discriminate; auto]]).
  - destruct (IHe1 s) as (k & tl & -> & Hk & Hf). eexists _, _. cbn [app]. split; [reflexivity|auto].
  - destruct items as [|a [|b l]]; eexists _, _; (split; [reflexivity|split; [reflexivity|discriminate]]).
  - destruct (IHe s) as (k & tl & -> & Hk & Hf). eexists _, _. cbn [app]. split; [reflexivity|auto].
  - destruct (IHe s) as (k & tl & -> & Hk & Hf). eexists _, _. cbn [app]. split; [reflexivity|auto].
  - destruct (IHe s) as (k & tl & -> & Hk & Hf). eexists _, _. cbn [app]. split; [reflexivity|auto].
  - destruct e; eexists _, _; (split; [reflexivity|split; [reflexivity|discriminate]]).
Qed.

Lemma item_expr rec fuel k s tl : first_ok k = true -> k <> KKw Wfun ->
  item_body rec fuel (T k s :: tl) = match p_expr rec true (T k s :: tl) with Some (e, r) => Some (IExpr e, r) | None => None end.
Proof.
  intros Hk Hf. destruct k; try discriminate; try reflexivity. destruct w; try discriminate; try reflexivity. congruence.
Qed.

Lemma block_hd b rest : exists tl, block_with print b ++ rest = T KLC Spaced :: tl.
Proof. eexists. reflexivity. Qed.

Lemma function_ok pub name tps ps ret b : nodup (map fst ps) = true -> forallb (wf true) b = true ->
  exists f0, forall f, f0 <= f ->
  function_ (R f) f pub (T (KSym name) Spaced :: print_tparams tps ++ print_params ps ++ print_opt_hint ret ++ print_block b)
  = Some (IFun pub name tps ps ret b, []).
Proof.
  intros Wp Wb.
  destruct (type_params_ok tps (print_params ps ++ print_opt_hint ret ++ print_block b) eq_refl) as (f0 & H0).
  destruct (parameters_ok ps Wp (print_opt_hint ret ++ print_block b)) as (f1 & H1).
  destruct (opt_hint_ok ret (print_block b) eq_refl eq_refl) as (f2 & H2).
  destruct (block_roundtrip b Wb []) as (f3 & H3). rewrite app_nil_r in H3.
  exists (Nat.max f0 (Nat.max f1 (Nat.max f2 f3))). intros f Hf. cbn [function_].
  rewrite H0 by lia. rewrite H1 by lia. rewrite H2 by lia. unfold print_block. rewrite H3 by lia. reflexivity.
Qed.

Lemma method_ok pub name tps this h ps ret b : nodup (this :: map fst ps) = true -> forallb (wf true) b = true ->
  exists f0, forall f, f0 <= f ->
  method_ (R f) f pub (T (KSym name) Spaced :: print_tparams tps ++ print_params ((this, h) :: ps) ++ print_opt_hint ret ++ print_block b)
  = Some (IMethod pub name tps this h ps ret b, []).
Proof.
  intros Wp Wb.
  destruct (type_params_ok tps (print_params ((this, h) :: ps) ++ print_opt_hint ret ++ print_block b) eq_refl) as (f0 & H0).
  destruct (parameters_ok ((this, h) :: ps) Wp (print_opt_hint ret ++ print_block b)) as (f1 & H1).
  destruct (opt_hint_ok ret (print_block b) eq_refl eq_refl) as (f2 & H2).
  destruct (block_roundtrip b Wb []) as (f3 & H3). rewrite app_nil_r in H3.
  exists (Nat.max f0 (Nat.max f1 (Nat.max f2 f3))). intros f Hf. cbn [method_].
  rewrite H0 by lia. rewrite H1 by lia. rewrite H2 by lia. unfold print_block. rewrite H3 by lia. reflexivity.
Qed.

Lemma enum_ok pub name tps vs : exists f0, forall f, f0 <= f ->
  enum_ (R f) f pub (T (KSym name) Spaced :: print_tparams tps ++ T KLC Spaced :: commas_with print_variant Spaced vs ++ [T KRC Spaced])
  = Some (IEnum pub name tps vs, []).
Proof.
  destruct (type_params_ok tps (T KLC Spaced :: commas_with print_variant Spaced vs ++ [T KRC Spaced]) eq_refl) as (f0 & H0).
  destruct (variants_ok vs Spaced []) as (f1 & H1).
  exists (Nat.max f0 (Nat.max f1 (S (length vs)))). intros f Hf. cbn [enum_].
  rewrite H0 by lia. rewrite H1 by lia. reflexivity.
Qed.

Lemma struct_ok pub name tps fs : exists f0, forall f, f0 <= f ->
  struct_ (R f) f pub (T (KSym name) Spaced :: print_tparams tps ++ T KLC Spaced :: commas_with print_field Spaced fs ++ [T KRC Spaced])
  = Some (IStruct pub name tps fs, []).
Proof.
  destruct (type_params_ok tps (T KLC Spaced :: commas_with print_field Spaced fs ++ [T KRC Spaced]) eq_refl) as (f0 & H0).
  destruct (fields_ok fs Spaced []) as (f1 & H1).
  exists (Nat.max f0 (Nat.max f1 (S (length fs)))). intros f Hf. cbn [struct_].
  rewrite H0 by lia. rewrite H1 by lia. reflexivity.
Qed.

(* C33: printing a definition / toplevel expression / toplevel block and parsing it gives the same tree *)
Theorem parse_print_full t : wf_item t = true ->
  exists f0, forall f, f0 <= f -> parse_item good_shape true f (print_item t) = Some (t, []).
Proof.
  intros W. unfold parse_item. destruct t; cbn [wf_item] in W; cbn [print_item].
  - apply andb_true_iff in W as [Wp Wb]. unfold wf_block in Wb.
    destruct (function_ok pub name tparams params ret body Wp Wb) as (f0 & H0). exists f0. intros f Hf.
    destruct pub; cbn [print_pub app item_body]; now apply H0.
  - apply andb_true_iff in W as [Wp Wb]. unfold wf_block in Wb.
    destruct (method_ok pub name tparams recv recv_hint params ret body Wp Wb) as (f0 & H0). exists f0. intros f Hf.
    destruct pub; cbn [print_pub app item_body]; now apply H0.
  - unfold wf_block in W. destruct (block_roundtrip body W []) as (f0 & H0). rewrite app_nil_r in H0.
    exists f0. intros f Hf. unfold print_block. destruct (block_hd body []) as (tl & E). rewrite app_nil_r in E.
    cbn [item_body]. rewrite E. cbv iota beta. rewrite <- E. rewrite H0 by lia. reflexivity.
  - destruct (enum_ok pub name tparams variants) as (f0 & H0). exists f0. intros f Hf.
    destruct pub; cbn [print_pub app item_body]; now apply H0.
  - destruct (struct_ok pub name tparams fields) as (f0 & H0). exists f0. intros f Hf.
    destruct pub; cbn [print_pub app item_body]; now apply H0.
  - exists 0. intros f _. destruct ns; reflexivity.
  - apply andb_true_iff in W as [We Wf]. apply negb_true_iff in Wf.
    destruct (stmt_roundtrip e We Spaced [] eq_refl) as (f0 & H0). rewrite app_nil_r in H0.
    exists f0. intros f Hf. specialize (H0 f Hf).
    destruct (print_first_fun e Spaced) as (k & tl & E & Hk & Hfun). rewrite E in *.
    rewrite item_expr; [now rewrite H0|assumption|]. intros ->. rewrite (Hfun eq_refl) in Wf. discriminate.
  - unfold wf_block in W. destruct (block_roundtrip b W []) as (f0 & H0). rewrite app_nil_r in H0.
    exists f0. intros f Hf. unfold print_block. destruct (block_hd b []) as (tl & E). rewrite app_nil_r in E.
    rewrite E. cbn [item_body]. rewrite <- E. rewrite H0 by lia. reflexivity.
Qed.
