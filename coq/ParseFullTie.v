(* Ties the generated parser facts (gen/ParserShape.v) to the model of ParseFull.v whose round trip is proved. *)
From Coq Require Import ZArith NArith Bool List.
From Garden Require Import ParseExpr ParseExprProps ParseExprTie ParseFull ParseFullProps gen.ParserShape.
Import ListNotations.

(* what the translator found in parse_expression_with, parse_return, parse_expression_no_trailing and KEYWORDS *)
Lemma full_facts_lemma :
  method_arm_recognised = true /\ method_paren_touches = true /\ call_paren_touches = true /\
  return_needs_same_line = true /\ assignment_decided_by_second_token = true /\ keyword_count = 22.
Proof. vm_compute. repeat split; reflexivity. Qed.

Lemma method_touch : method_paren_touches = true.
Proof. apply full_facts_lemma. Qed.

Lemma parse_print_full_current t : wf_item t = true ->
  exists f0, forall f, f0 <= f -> parse_item current_shape method_paren_touches f (print_item t) = Some (t, []).
Proof. rewrite current_is_good, method_touch. apply parse_print_full. Qed.

(* the code before the fix (any `(` after `x.name` starts the argument list, even on the next line):
   the block  { v1.v2 NEWLINE (v3) }  comes back as the single statement v1.v2(v3) *)
Lemma method_space_refuted_lemma :
  let t := IBlock [EDot (EVar 1) 2; EParen (EVar 3)] in
  wf_item t = true /\
  parse_item good_shape false 40 (print_item t) = Some (IBlock [EMethod (EVar 1) 2 [EVar 3]], []) /\
  parse_item good_shape true 40 (print_item t) = Some (t, []).
Proof. vm_compute. repeat split; reflexivity. Qed.

(* the old fragment of ParseExpr.v inside the new model *)
Fixpoint emb (e : pexpr) : expr :=
  match e with
  | PInt z => EInt z
  | PVar x => EVar x
  | PBin o l r => EBin o (emb l) (emb r)
  | PParen e' => EParen (emb e')
  end.

Lemma emb_wf e : ParseExpr.wf e = true -> ParseFull.wf false (emb e) = true.
Proof.
  induction e as [z|x|o l IHl r IHr|e IH]; cbn [ParseExpr.wf emb ParseFull.wf]; auto.
  intros H. apply andb_true_iff in H as [H Hr]. apply andb_true_iff in H as [Hl Hr'].
  rewrite (IHl Hl), (IHr Hr'). destruct r; try reflexivity; discriminate.
Qed.
