(* MODEL (definitions only): Gallina transliteration of the string and list
   functions of /repo/src/__prelude.gdn and of the Rust built-in methods they
   call (src/eval.rs, eval_built_in_method_call).

   Conventions
   - A Garden String is the list of its characters (Unicode scalar values, N).
     Every index the Garden code can observe is a CHARACTER offset
     (String::len = chars().count(), String::substring = chars().skip().take(),
     String::index_of converts the byte offset of str::find to a character
     count).  str::find / starts_with / ends_with compare bytes; on valid UTF-8
     a needle can only match at a character boundary, so they are modelled on
     the character lists (this is the std semantics we trust; the dynamic check
     exercises characters that share lead / continuation bytes).
   - Garden Int `+` `-` `+=` `-=` wrap (eval_int_binop / eval_assign_update:
     wrapping_add / wrapping_sub, see gen/Tables.v): iadd / isub.
   - Every Garden `while` loop is a Fixpoint on explicit fuel; running out of
     fuel is the distinguished result OutOfFuel which the theorems exclude.
     `for x in list` loops are structural folds over the list.
   - Exn = a Garden exception (String::substring argument checks).
   The Garden source of each function is quoted above its transliteration; the
   hashes of those sources are pinned in Properties/C32.v against
   gen/PreludeSrc.v, which tools/gen_prelude.py regenerates from the tree. *)
From Coq Require Import ZArith NArith List Bool.
From Garden Require Import Base.Int64.
Import ListNotations.
Open Scope Z_scope.

Definition str := list N.

Inductive res (A : Type) : Type :=
| Ok (a : A)
| Exn
| OutOfFuel.
Arguments Ok {A} a.
Arguments Exn {A}.
Arguments OutOfFuel {A}.

Definition bind {A B : Type} (r : res A) (f : A -> res B) : res B :=
  match r with
  | Ok a => f a
  | Exn => Exn
  | OutOfFuel => OutOfFuel
  end.
Notation "'let*' x ':=' r 'in' k" := (bind r (fun x => k)) (at level 200, x pattern, r at level 100, k at level 200).

(* ---- Garden Int arithmetic used by the prelude ------------------------- *)
Definition iadd (a b : Z) : Z := wrap64 (a + b).
Definition isub (a b : Z) : Z := wrap64 (a - b).

(* `x.len() as i64` / `chars().count() as i64` *)
Definition zlen {A : Type} (l : list A) : Z := Z.of_nat (length l).

(* ---- Value equality on strings (Garden `==` / `!=`) --------------------- *)
Fixpoint str_eqb (a b : str) : bool :=
  match a, b with
  | [], [] => true
  | x :: a', y :: b' => N.eqb x y && str_eqb a' b'
  | _, _ => false
  end.

(* ======================================================================== *)
(* Rust built-in methods (eval.rs, eval_built_in_method_call)               *)

(* BuiltInMethodKind::StringLen:  s.chars().count() as i64 *)
Definition string_len (s : str) : Z := zlen s.

(* BuiltInMethodKind::StringSubstring:
     if *from_arg < 0 { Exception }
     if from_arg > to_arg { Exception }
     s_arg.chars().skip( *from_arg as usize).take((to_arg - from_arg) as usize).collect() *)
(* Iterator::skip(n) / take(n) for a count given as an integer (structural on
   the list, so that a huge count costs nothing): skip_z n l = skipn (Z.to_nat n) l,
   take_z n l = firstn (Z.to_nat n) l  (PreludeProps.skip_z_skipn / take_z_firstn). *)
Fixpoint skip_z {A : Type} (n : Z) (l : list A) : list A :=
  match l with
  | [] => []
  | _ :: t => if n <=? 0 then l else skip_z (n - 1) t
  end.
Fixpoint take_z {A : Type} (n : Z) (l : list A) : list A :=
  match l with
  | [] => []
  | x :: t => if n <=? 0 then [] else x :: take_z (n - 1) t
  end.
Definition string_substring (s : str) (from to : Z) : res str :=
  if from <? 0 then Exn
  else if from >? to then Exn
  else Ok (take_z (to - from) (skip_z from s)).

(* str::starts_with(&str) *)
Fixpoint prefixb (p s : str) : bool :=
  match p, s with
  | [], _ => true
  | _ :: _, [] => false
  | a :: p', b :: s' => N.eqb a b && prefixb p' s'
  end.

(* BuiltInMethodKind::StringStartsWith:  receiver_s.starts_with(arg_s) *)
Definition string_starts_with (s p : str) : bool := prefixb p s.

(* BuiltInMethodKind::StringEndsWith:  receiver_s.ends_with(arg_s) *)
Definition string_ends_with (s p : str) : bool := prefixb (rev p) (rev s).

(* str::find(&str): offset of the first match (here: in characters) *)
Fixpoint str_find (s needle : str) : option nat :=
  if prefixb needle s then Some O
  else match s with
       | [] => None
       | _ :: t => option_map S (str_find t needle)
       end.

(* BuiltInMethodKind::StringIndexOf (after fix-2):
     match receiver_s.find(arg_s) {
       Some(needle_byte_offset) => Some(receiver_s[..needle_byte_offset].chars().count() as i64),
       None => None } *)
Definition string_index_of (s needle : str) : option Z :=
  option_map Z.of_nat (str_find s needle).

(* The arm as it was before fix-2: the character index was searched with
     for (i, (byte_offset, _)) in receiver_s.char_indices().enumerate() { if byte_offset == needle_byte_offset {..} }
   which never yields the offset len(s) (empty needle in the empty string). *)
Definition string_index_of_old (s needle : str) : option Z :=
  match str_find s needle with
  | Some i => if Nat.ltb i (length s) then Some (Z.of_nat i) else None
  | None => None
  end.

(* BuiltInMethodKind::StringJoin:
     for (i, item) in items.iter().enumerate() { if i != 0 { joined.push_str(receiver_s) } joined.push_str(item_s) } *)
Fixpoint join_loop (sep : str) (first : bool) (items : list str) (joined : str) : str :=
  match items with
  | [] => joined
  | item :: rest => join_loop sep false rest ((joined ++ (if first then [] else sep)) ++ item)
  end.
Definition string_join (sep : str) (items : list str) : str := join_loop sep true items [].

(* BuiltInMethodKind::StringChars:  for (_, c) in s.char_indices() { items.push_back(format!("{c}")) } *)
Definition string_chars (s : str) : list str := map (fun c => [c]) s.

(* BuiltInMethodKind::StringLines: str::lines() =
     self.split_inclusive('\n').map(|line| { let Some(line) = line.strip_suffix('\n') else { return line };
                                             let Some(line) = line.strip_suffix('\r') else { return line }; line })
   `cur` is the current line, reversed. *)
Definition strip_cr_rev (cur : str) : str :=
  match cur with
  | 13%N :: r => rev r
  | _ => rev cur
  end.
Fixpoint lines_go (cur : str) (s : str) : list str :=
  match s with
  | [] => match cur with [] => [] | _ => [rev cur] end
  | c :: t => if N.eqb c 10 then strip_cr_rev cur :: lines_go [] t else lines_go (c :: cur) t
  end.
Definition string_lines (s : str) : list str := lines_go [] s.

(* BuiltInMethodKind::ListAppend:  items.push_back(arg) *)
Definition list_append {A : Type} (l : list A) (x : A) : list A := l ++ [x].

(* BuiltInMethodKind::ListLen:  items.len() as i64 *)
Definition list_len {A : Type} (l : list A) : Z := zlen l.

(* BuiltInMethodKind::ListGet:
     if *i >= items.len() as i64 || *i < 0 { None } else { Some(items.get( *i as usize).unwrap()) } *)
Definition list_get {A : Type} (l : list A) (i : Z) : option A :=
  if (i >=? zlen l) || (i <? 0) then None else nth_error l (Z.to_nat i).

(* BuiltInMethodKind::ListContains:  for item in items { if item == needle { present = true; break } } *)
Fixpoint list_contains {A : Type} (eqb : A -> A -> bool) (l : list A) (needle : A) : bool :=
  match l with
  | [] => false
  | item :: t => if eqb item needle then true else list_contains eqb t needle
  end.

(* BuiltInMethodKind::ListSlice:
     let len = items.len() as i64;
     let j_adjusted = if j_arg < 0 { len + j_arg } else { j_arg };     (0 <= len, j_arg < 0: no overflow)
     let start = i_arg.max(0).min(len) as usize;
     let end = j_adjusted.max(0).min(len) as usize;
     let end = end.max(start);
     items.iter().skip(start).take(end - start) *)
Definition list_slice {A : Type} (l : list A) (i j : Z) : list A :=
  let len := zlen l in
  let j_adjusted := if j <? 0 then len + j else j in
  let start := Z.to_nat (Z.min (Z.max i 0) len) in
  let end_ := Z.to_nat (Z.min (Z.max j_adjusted 0) len) in
  let end_ := Nat.max end_ start in
  firstn (end_ - start) (skipn start l).

(* ======================================================================== *)
(* Garden-level functions of __prelude.gdn                                  *)

(* public method starts_with(this: String, s: String): Bool { __BUILT_IN_IMPLEMENTATION } *)
Definition starts_with (this s : str) : bool := string_starts_with this s.
(* public method ends_with(this: String, s: String): Bool { __BUILT_IN_IMPLEMENTATION } *)
Definition ends_with (this s : str) : bool := string_ends_with this s.

(* public method replace(this: String, before: String, after: String): String {
     let parts: List<String> = []
     if before == "" { return this } // Nothing to replace.            (fix-1)
     let s = this
     while True {
       match s.index_of(before) {
         Some(i) => {
           parts = parts.append(s.substring(0, i))
           parts = parts.append(after)
           s = s.substring(i + before.len(), s.len())
         }
         None => { parts = parts.append(s)  break }
       }
     }
     "".join(parts)
   } *)
Fixpoint replace_loop (index_of : str -> str -> option Z) (fuel : nat) (before after : str) (parts : list str) (s : str)
  : res (list str) :=
  match fuel with
  | O => OutOfFuel
  | S fuel' =>
    match index_of s before with
    | Some i =>
      let* p := string_substring s 0 i in
      let parts := list_append parts p in
      let parts := list_append parts after in
      let* s' := string_substring s (iadd i (string_len before)) (string_len s) in
      replace_loop index_of fuel' before after parts s'
    | None => Ok (list_append parts s)
    end
  end.
Definition replace (fuel : nat) (this before after : str) : res str :=
  let parts : list str := [] in
  if str_eqb before [] then Ok this
  else
    let* parts := replace_loop string_index_of fuel before after parts this in
    Ok (string_join [] parts).
(* the body before fix-1 (no early return), over the index_of of that tree *)
Definition replace_old (fuel : nat) (this before after : str) : res str :=
  let* parts := replace_loop string_index_of_old fuel before after [] this in
  Ok (string_join [] parts).

(* public method split_once(this: String, needle: String): Option<(String, String)> {
     match this.index_of(needle) {
       None => None
       Some(i) => { Some(( this.substring(0, i), this.substring(i + needle.len(), this.len()), )) }
     }
   } *)
Definition split_once (this needle : str) : res (option (str * str)) :=
  match string_index_of this needle with
  | None => Ok None
  | Some i =>
    let* a := string_substring this 0 i in
    let* b := string_substring this (iadd i (string_len needle)) (string_len this) in
    Ok (Some (a, b))
  end.

(* public method join(this: String, items: List<String>): String { __BUILT_IN_IMPLEMENTATION } *)
Definition join (this : str) (items : list str) : str := string_join this items.

(* public method contains(this: String, substring: String): Bool {
     if substring.len() > this.len() { return False }
     let i = 0
     while i <= (this.len() - substring.len()) {
       let section = this.substring(i, i + substring.len())
       if section == substring { return True }
       i += 1
     }
     False
   } *)
Fixpoint contains_loop (fuel : nat) (this substring : str) (i : Z) : res bool :=
  match fuel with
  | O => OutOfFuel
  | S fuel' =>
    if i <=? isub (string_len this) (string_len substring) then
      let* section := string_substring this i (iadd i (string_len substring)) in
      if str_eqb section substring then Ok true
      else contains_loop fuel' this substring (iadd i 1)
    else Ok false
  end.
Definition contains (fuel : nat) (this substring : str) : res bool :=
  if string_len substring >? string_len this then Ok false
  else contains_loop fuel this substring 0.

(* public method trim_left(this: String): String {
     let i = 0
     while i < this.len() {
       let char = this.substring(i, i + 1)
       if char != " " { break }
       i += 1
     }
     this.substring(i, this.len())
   } *)
Fixpoint trim_left_loop (fuel : nat) (this : str) (i : Z) : res Z :=
  match fuel with
  | O => OutOfFuel
  | S fuel' =>
    if i <? string_len this then
      let* char := string_substring this i (iadd i 1) in
      if negb (str_eqb char [32%N]) then Ok i
      else trim_left_loop fuel' this (iadd i 1)
    else Ok i
  end.
Definition trim_left (fuel : nat) (this : str) : res str :=
  let* i := trim_left_loop fuel this 0 in
  string_substring this i (string_len this).

(* public method trim_right(this: String): String {
     let i = this.len() - 1
     while i >= 0 {
       let char = this.substring(i, i + 1)
       if char != " " { break }
       i -= 1
     }
     this.substring(0, i + 1)
   } *)
Fixpoint trim_right_loop (fuel : nat) (this : str) (i : Z) : res Z :=
  match fuel with
  | O => OutOfFuel
  | S fuel' =>
    if i >=? 0 then
      let* char := string_substring this i (iadd i 1) in
      if negb (str_eqb char [32%N]) then Ok i
      else trim_right_loop fuel' this (isub i 1)
    else Ok i
  end.
Definition trim_right (fuel : nat) (this : str) : res str :=
  let* i := trim_right_loop fuel this (isub (string_len this) 1) in
  string_substring this 0 (iadd i 1).

(* public method trim(this: String): String { this.trim_left().trim_right() } *)
Definition trim (fuel : nat) (this : str) : res str :=
  let* l := trim_left fuel this in
  trim_right fuel l.

(* public method strip_suffix(this: String, suffix: String): String {
     if this.ends_with(suffix) { return this.substring(0, this.len() - suffix.len()) }
     this
   } *)
Definition strip_suffix (this suffix : str) : res str :=
  if string_ends_with this suffix then string_substring this 0 (isub (string_len this) (string_len suffix))
  else Ok this.

(* public method strip_prefix(this: String, prefix: String): String {
     if this.starts_with(prefix) { return this.substring(prefix.len(), this.len()) }
     this
   } *)
Definition strip_prefix (this prefix : str) : res str :=
  if string_starts_with this prefix then string_substring this (string_len prefix) (string_len this)
  else Ok this.

(* public method split(this: String, needle: String): List<String> {
     if this == "" { return [] }
     if needle == "" { return this.chars() } // Split between every character.    (fix-1)
     let s = this
     let parts: List<String> = []
     while True {
       match s.index_of(needle) {
         Some(i) => {
           parts = parts.append(s.substring(0, i))
           s = s.substring(i + needle.len(), s.len())
         }
         None => { parts = parts.append(s)  break }
       }
     }
     parts
   } *)
Fixpoint split_loop (index_of : str -> str -> option Z) (fuel : nat) (needle : str) (parts : list str) (s : str)
  : res (list str) :=
  match fuel with
  | O => OutOfFuel
  | S fuel' =>
    match index_of s needle with
    | Some i =>
      let* p := string_substring s 0 i in
      let parts := list_append parts p in
      let* s' := string_substring s (iadd i (string_len needle)) (string_len s) in
      split_loop index_of fuel' needle parts s'
    | None => Ok (list_append parts s)
    end
  end.
Definition split (fuel : nat) (this needle : str) : res (list str) :=
  if str_eqb this [] then Ok []
  else if str_eqb needle [] then Ok (string_chars this)
  else split_loop string_index_of fuel needle [] this.
(* the body before fix-1 *)
Definition split_old (fuel : nat) (this needle : str) : res (list str) :=
  if str_eqb this [] then Ok []
  else split_loop string_index_of_old fuel needle [] this.

(* public method chars(this: String): List<String> { __BUILT_IN_IMPLEMENTATION } *)
Definition chars (this : str) : list str := string_chars this.
(* public method len(this: String): Int { __BUILT_IN_IMPLEMENTATION } *)
Definition len (this : str) : Z := string_len this.
(* public method lines(this: String): List<String> { __BUILT_IN_IMPLEMENTATION } *)
Definition lines (this : str) : list str := string_lines this.
(* public method substring(this: String, from_index: Int, to_index: Int): String { __BUILT_IN_IMPLEMENTATION } *)
Definition substring (this : str) (from_index to_index : Z) : res str := string_substring this from_index to_index.
(* public method index_of(this: String, needle: String): Option<Int> { __BUILT_IN_IMPLEMENTATION } *)
Definition index_of (this needle : str) : option Z := string_index_of this needle.

(* ---- lists --------------------------------------------------------------- *)

(* public fun range(i: Int, j: Int): List<Int> {
     let items: List<Int> = []
     while i < j { items = items.append(i)  i += 1 }
     items
   } *)
Fixpoint range_loop (fuel : nat) (i j : Z) (items : list Z) : res (list Z) :=
  match fuel with
  | O => OutOfFuel
  | S fuel' =>
    if i <? j then range_loop fuel' (iadd i 1) j (list_append items i)
    else Ok items
  end.
Definition range (fuel : nat) (i j : Z) : res (list Z) := range_loop fuel i j [].

(* public method concat<T>(this: List<T>, other: List<T>): List<T> {
     let result: List<T> = this
     for item in other { result = result.append(item) }
     result
   } *)
Definition concat {A : Type} (this other : list A) : list A :=
  fold_left (fun result item => list_append result item) other this.

(* public method contains<T>(this: List<T>, item: T): Bool { __BUILT_IN_IMPLEMENTATION } *)
Definition lcontains {A : Type} (eqb : A -> A -> bool) (this : list A) (item : A) : bool := list_contains eqb this item.
(* public method get<T>(this: List<T>, index: Int): Option<T> { __BUILT_IN_IMPLEMENTATION } *)
Definition get {A : Type} (this : list A) (index : Z) : option A := list_get this index.
(* public method len<T>(this: List<T>): Int { __BUILT_IN_IMPLEMENTATION } *)
Definition llen {A : Type} (this : list A) : Z := list_len this.

(* public method first<T>(this: List<T>): Option<T> { this.get(0) } *)
Definition first {A : Type} (this : list A) : option A := list_get this 0.

(* public method last<T>(this: List<T>): Option<T> { this.get(this.len() - 1) } *)
Definition last {A : Type} (this : list A) : option A := list_get this (isub (list_len this) 1).

(* public method filter<T>(this: List<T>, f: Fun<(T), Bool>): List<T> {
     let result: List<T> = []
     for item in this { if f(item) { result = result.append(item) } }
     result
   }      (f: a pure, total closure) *)
Definition filter {A : Type} (this : list A) (f : A -> bool) : list A :=
  fold_left (fun result item => if f item then list_append result item else result) this [].

(* public method map<T, U>(this: List<T>, f: Fun<(T), U>): List<U> {
     let items: List<U> = []
     for item in this { items = items.append(f(item)) }
     items
   } *)
Definition map_ {A B : Type} (this : list A) (f : A -> B) : list B :=
  fold_left (fun items item => list_append items (f item)) this [].

(* public method enumerate<T>(this: List<T>): List<(Int, T)> {
     let items: List<(Int, T)> = []
     let i = 0
     for item in this { let t = (i, item)  items = items.append(t)  i += 1 }
     items
   } *)
Definition enumerate {A : Type} (this : list A) : list (Z * A) :=
  fst (fold_left (fun '(items, i) item => (list_append items (i, item), iadd i 1)) this ([], 0)).

(* public method index_of<T>(this: List<T>, value: T): Option<Int> {
     for (i, v) in this.enumerate() { if v == value { return Some(i) } }
     None
   } *)
Fixpoint lindex_of_loop {A : Type} (eqb : A -> A -> bool) (l : list (Z * A)) (value : A) : option Z :=
  match l with
  | [] => None
  | (i, v) :: t => if eqb v value then Some i else lindex_of_loop eqb t value
  end.
Definition lindex_of {A : Type} (eqb : A -> A -> bool) (this : list A) (value : A) : option Z :=
  lindex_of_loop eqb (enumerate this) value.

(* public method slice<T>(this: List<T>, i: Int, j: Int): List<T> { __BUILT_IN_IMPLEMENTATION } *)
Definition slice {A : Type} (this : list A) (i j : Z) : list A := list_slice this i j.

(* public fun sort_nums(items: List<Int>): List<Int> {
     match items.first() {
       None => [],
       Some(pivot) => {
         let rest = items.slice(1, items.len())
         let smaller = rest.filter(fun(x: Int) { x < pivot })
         let larger = rest.filter(fun(x: Int) { x >= pivot })
         sort_nums(smaller).concat([pivot]).concat(sort_nums(larger))
       },
     }
   }      (fuel bounds the recursion depth) *)
Fixpoint sort_nums (fuel : nat) (items : list Z) : res (list Z) :=
  match fuel with
  | O => OutOfFuel
  | S fuel' =>
    match first items with
    | None => Ok []
    | Some pivot =>
      let rest := slice items 1 (llen items) in
      let smaller := filter rest (fun x => x <? pivot) in
      let larger := filter rest (fun x => x >=? pivot) in
      let* a := sort_nums fuel' smaller in
      let* b := sort_nums fuel' larger in
      Ok (concat (concat a [pivot]) b)
    end
  end.

(* public fun max(x: Int, y: Int): Int { if x >= y { x } else { y } } *)
Definition max (x y : Z) : Z := if x >=? y then x else y.
(* public fun min(x: Int, y: Int): Int { if x <= y { x } else { y } } *)
Definition min (x y : Z) : Z := if x <=? y then x else y.

(* ---- fuel that the theorems show sufficient ------------------------------ *)
Definition fuel_of_string (s : str) : nat := S (S (length s)).
Definition fuel_of_list {A : Type} (l : list A) : nat := S (length l).
Definition fuel_of_range (i j : Z) : nat := S (Z.to_nat (j - i)).
