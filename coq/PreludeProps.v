(* Proofs about the prelude model (Prelude.v) against PreludeSpec.v. *)
From Coq Require Import ZArith NArith List Bool Lia Sorting.Sorted Sorting.Permutation.
From Garden Require Import Base.Int64 ArithProps Prelude PreludeSpec.
Import ListNotations.
Open Scope Z_scope.

(* ---- integers: the wrapping arithmetic is exact on lengths ---------------- *)
(* a string / list that fits in memory *)
Definition small {A : Type} (l : list A) : Prop := zlen l < 2 ^ 62.

Lemma in64_range z : - 2 ^ 63 <= z <= 2 ^ 63 - 1 -> in64 z = true.
Proof. intro H. unfold in64, min64, max64. apply andb_true_iff; split; apply Z.leb_le; lia. Qed.

Lemma iadd_exact a b : -9223372036854775808 <= a + b <= 9223372036854775807 -> iadd a b = a + b.
Proof. intro H. unfold iadd. apply wrap64_id, in64_range. change (2 ^ 63) with 9223372036854775808. lia. Qed.
Lemma isub_exact a b : -9223372036854775808 <= a - b <= 9223372036854775807 -> isub a b = a - b.
Proof. intro H. unfold isub. apply wrap64_id, in64_range. change (2 ^ 63) with 9223372036854775808. lia. Qed.

Lemma zlen_nonneg {A} (l : list A) : 0 <= zlen l.
Proof. unfold zlen. lia. Qed.
Lemma zlen_cons {A} (x : A) l : zlen (x :: l) = zlen l + 1.
Proof. unfold zlen. cbn [length]. lia. Qed.
Lemma zlen_nil {A} : zlen (@nil A) = 0.
Proof. reflexivity. Qed.

(* ---- skip / take ----------------------------------------------------------- *)
Lemma skip_z_skipn {A} (l : list A) : forall n, skip_z n l = skipn (Z.to_nat n) l.
Proof.
  induction l as [|x t IH]; intro n; cbn [skip_z].
  - now rewrite skipn_nil.
  - destruct (n <=? 0) eqn:E.
    + apply Z.leb_le in E. replace (Z.to_nat n) with O by lia. reflexivity.
    + apply Z.leb_gt in E. rewrite IH. replace (Z.to_nat n) with (S (Z.to_nat (n - 1))) by lia. reflexivity.
Qed.
Lemma take_z_firstn {A} (l : list A) : forall n, take_z n l = firstn (Z.to_nat n) l.
Proof.
  induction l as [|x t IH]; intro n; cbn [take_z].
  - now rewrite firstn_nil.
  - destruct (n <=? 0) eqn:E.
    + apply Z.leb_le in E. replace (Z.to_nat n) with O by lia. reflexivity.
    + apply Z.leb_gt in E. rewrite IH. replace (Z.to_nat n) with (S (Z.to_nat (n - 1))) by lia. reflexivity.
Qed.

Lemma substring_ok s from to : 0 <= from <= to ->
  string_substring s from to = Ok (firstn (Z.to_nat (to - from)) (skipn (Z.to_nat from) s)).
Proof.
  intros [H1 H2]. unfold string_substring.
  destruct (from <? 0) eqn:E1; [apply Z.ltb_lt in E1; lia|].
  destruct (from >? to) eqn:E2; [apply Z.gtb_lt in E2; lia|].
  now rewrite take_z_firstn, skip_z_skipn.
Qed.

(* ---- string equality, prefixes --------------------------------------------- *)
Lemma str_eqb_eq a : forall b, str_eqb a b = true <-> a = b.
Proof.
  induction a as [|x a IH]; destruct b as [|y b]; cbn [str_eqb]; try (split; [discriminate|discriminate]); [tauto|].
  rewrite andb_true_iff, N.eqb_eq, IH. split; [intros [-> ->]; reflexivity | intros [= -> ->]; auto].
Qed.
Lemma str_eqb_refl a : str_eqb a a = true.
Proof. now apply str_eqb_eq. Qed.
Lemma str_eqb_neq a b : a <> b -> str_eqb a b = false.
Proof. intro H. destruct (str_eqb a b) eqn:E; [apply str_eqb_eq in E; contradiction | reflexivity]. Qed.
Lemma seqb_eq a b : seqb a b = true <-> a = b.
Proof. unfold seqb. destruct (list_eq_dec N.eq_dec a b); split; auto; discriminate. Qed.
Lemma str_eqb_seqb a b : str_eqb a b = seqb a b.
Proof.
  destruct (seqb a b) eqn:E.
  - apply seqb_eq in E. subst. apply str_eqb_refl.
  - apply str_eqb_neq. intro H. apply seqb_eq in H. congruence.
Qed.

Lemma prefixb_iff p : forall s, prefixb p s = true <-> is_prefix p s.
Proof.
  unfold is_prefix. induction p as [|a p IH]; intro s; cbn [prefixb].
  - split; [intros _; now exists s | reflexivity].
  - destruct s as [|b s].
    + split; [discriminate | intros [t H]; discriminate].
    + rewrite andb_true_iff, N.eqb_eq, IH. split.
      * intros [-> [t ->]]. now exists t.
      * intros [t H]. cbn in H. injection H as -> ->. split; [reflexivity | now exists t].
Qed.
Lemma prefixb_app p t : prefixb p (p ++ t) = true.
Proof. apply prefixb_iff. now exists t. Qed.

Lemma is_prefix_firstn p s : is_prefix p s <-> firstn (length p) s = p.
Proof.
  split.
  - intros [t ->]. rewrite firstn_app, Nat.sub_diag, firstn_all. cbn. now rewrite app_nil_r.
  - intro H. exists (skipn (length p) s). rewrite <- H at 1. symmetry. apply firstn_skipn.
Qed.

Theorem starts_with_spec this s : starts_with this s = spec_starts_with this s.
Proof.
  unfold starts_with, string_starts_with, spec_starts_with.
  destruct (seqb (firstn (length s) this) s) eqn:E.
  - apply seqb_eq in E. apply prefixb_iff, is_prefix_firstn, E.
  - destruct (prefixb s this) eqn:P; [|reflexivity].
    apply prefixb_iff, is_prefix_firstn in P. apply seqb_eq in P. congruence.
Qed.
Theorem starts_with_meaning this s : starts_with this s = true <-> is_prefix s this.
Proof. apply prefixb_iff. Qed.

Lemma is_suffix_rev p s : is_suffix p s <-> is_prefix (rev p) (rev s).
Proof.
  unfold is_suffix, is_prefix. split.
  - intros [t ->]. exists (rev t). apply rev_app_distr.
  - intros [t H]. exists (rev t). rewrite <- (rev_involutive s), H, rev_app_distr, rev_involutive. reflexivity.
Qed.
Theorem ends_with_meaning this s : ends_with this s = true <-> is_suffix s this.
Proof. unfold ends_with, string_ends_with. rewrite prefixb_iff. symmetry. apply is_suffix_rev. Qed.

Lemma is_suffix_skipn p s : is_suffix p s <-> (length p <= length s)%nat /\ skipn (length s - length p) s = p.
Proof.
  split.
  - intros [t ->]. rewrite app_length. split; [lia|].
    replace (length t + length p - length p)%nat with (length t) by lia.
    rewrite skipn_app, skipn_all, Nat.sub_diag. reflexivity.
  - intros [L H]. exists (firstn (length s - length p) s). rewrite <- H at 2. symmetry. apply firstn_skipn.
Qed.
Theorem ends_with_spec this s : ends_with this s = spec_ends_with this s.
Proof.
  unfold spec_ends_with.
  destruct (ends_with this s) eqn:E.
  - apply ends_with_meaning, is_suffix_skipn in E. destruct E as [L H].
    symmetry. apply andb_true_iff; split; [now apply Nat.leb_le | now apply seqb_eq].
  - symmetry. apply not_true_is_false. intro H. apply andb_true_iff in H. destruct H as [L H].
    apply Nat.leb_le in L. apply seqb_eq in H.
    assert (X : ends_with this s = true) by (apply ends_with_meaning, is_suffix_skipn; auto). congruence.
Qed.

(* ---- first occurrence -------------------------------------------------------- *)
Lemma prefixb_seqb p s : prefixb p s = seqb (firstn (length p) s) p.
Proof. exact (starts_with_spec s p). Qed.
Lemma matches_at_prefixb n s i : matches_at n s i = prefixb n (skipn i s).
Proof. unfold matches_at. symmetry. apply prefixb_seqb. Qed.

Lemma occurs_at_iff n s i : occurs_at n s i <-> (i <= length s)%nat /\ prefixb n (skipn i s) = true.
Proof.
  unfold occurs_at. split.
  - intros (a & b & -> & <-). split; [rewrite app_length; lia|].
    rewrite skipn_app, skipn_all, Nat.sub_diag. cbn [skipn app]. apply prefixb_app.
  - intros [L P]. apply prefixb_iff in P. destruct P as [t P].
    exists (firstn i s), t. split; [rewrite <- P; symmetry; apply firstn_skipn | apply firstn_length_le, L].
Qed.

Lemma str_find_some s n : forall i, str_find s n = Some i ->
  prefixb n (skipn i s) = true /\ (i <= length s)%nat /\ forall j, (j < i)%nat -> prefixb n (skipn j s) = false.
Proof.
  induction s as [|c t IH]; intros i H; cbn [str_find] in H.
  - destruct (prefixb n []) eqn:P; [|discriminate]. injection H as <-. cbn. repeat split; auto; lia.
  - destruct (prefixb n (c :: t)) eqn:P.
    + injection H as <-. cbn [skipn]. repeat split; auto; [cbn; lia | lia].
    + destruct (str_find t n) as [k|] eqn:F; [|discriminate]. injection H as <-.
      destruct (IH k eq_refl) as (A & B & C). cbn [skipn length]. repeat split; auto; [lia|].
      intros [|j] Hj; [exact P | cbn [skipn]; apply C; lia].
Qed.
Lemma str_find_none s n : str_find s n = None -> forall j, prefixb n (skipn j s) = false.
Proof.
  induction s as [|c t IH]; intros H j; cbn [str_find] in H.
  - destruct (prefixb n []) eqn:P; [discriminate|]. now rewrite skipn_nil.
  - destruct (prefixb n (c :: t)) eqn:P; [discriminate|].
    destruct (str_find t n) eqn:F; [discriminate|].
    destruct j as [|j]; [exact P | cbn [skipn]; now apply IH].
Qed.

Theorem str_find_first_occurrence s n i : str_find s n = Some i <-> first_occurrence n s i.
Proof.
  unfold first_occurrence. split.
  - intro H. destruct (str_find_some _ _ _ H) as (A & B & C). split.
    + apply occurs_at_iff; auto.
    + intros j Hj. apply occurs_at_iff in Hj. destruct Hj as [_ Hj].
      destruct (Nat.le_gt_cases i j) as [L|L]; [exact L|]. rewrite (C j L) in Hj. discriminate.
  - intros [O L]. apply occurs_at_iff in O. destruct O as [Li P].
    destruct (str_find s n) as [k|] eqn:F.
    + destruct (str_find_some _ _ _ F) as (A & B & C). f_equal.
      assert (k <= i)%nat. { destruct (Nat.le_gt_cases k i) as [X|X]; [exact X|]. rewrite (C i X) in P. discriminate. }
      assert (i <= k)%nat by (apply L, occurs_at_iff; auto). lia.
    + rewrite (str_find_none _ _ F i) in P. discriminate.
Qed.
Theorem str_find_none_iff s n : str_find s n = None <-> ~ occurs n s.
Proof.
  split.
  - intros F [i O]. apply occurs_at_iff in O. destruct O as [_ P]. rewrite (str_find_none _ _ F i) in P. discriminate.
  - intro H. destruct (str_find s n) as [k|] eqn:F; [|reflexivity].
    exfalso. apply H. exists k. apply str_find_first_occurrence in F. apply F.
Qed.

(* find over an interval returns the least index satisfying p *)
Lemma find_seq_some p : forall k a i, find p (seq a k) = Some i ->
  p i = true /\ (a <= i < a + k)%nat /\ forall j, (a <= j < i)%nat -> p j = false.
Proof.
  induction k as [|k IH]; intros a i H; cbn [seq find] in H; [discriminate|].
  destruct (p a) eqn:E.
  - injection H as <-. repeat split; auto; lia.
  - destruct (IH _ _ H) as (A & B & C). repeat split; auto; [lia|lia|].
    intros j Hj. destruct (Nat.eq_dec j a) as [->|N]; [exact E | apply C; lia].
Qed.
Lemma find_seq_none p : forall k a, find p (seq a k) = None -> forall j, (a <= j < a + k)%nat -> p j = false.
Proof.
  induction k as [|k IH]; intros a H j Hj; cbn [seq find] in H; [lia|].
  destruct (p a) eqn:E; [discriminate|].
  destruct (Nat.eq_dec j a) as [->|N]; [exact E | apply (IH _ H); lia].
Qed.

Theorem spec_find_first_occurrence n s i : spec_find n s = Some i <-> first_occurrence n s i.
Proof.
  unfold spec_find, first_occurrence. split.
  - intro H. destruct (find_seq_some _ _ _ _ H) as (A & B & C). rewrite matches_at_prefixb in A. split.
    + apply occurs_at_iff. split; [lia | exact A].
    + intros j Hj. apply occurs_at_iff in Hj. destruct Hj as [_ Hj].
      destruct (Nat.le_gt_cases i j) as [L|L]; [exact L|].
      rewrite <- matches_at_prefixb, (C j) in Hj; [discriminate | lia].
  - intros [O L]. apply occurs_at_iff in O. destruct O as [Li P].
    destruct (find (matches_at n s) (seq 0 (S (length s)))) as [k|] eqn:F.
    + destruct (find_seq_some _ _ _ _ F) as (A & B & C). f_equal.
      assert (k <= i)%nat.
      { destruct (Nat.le_gt_cases k i) as [X|X]; [exact X|].
        rewrite <- matches_at_prefixb, (C i) in P; [discriminate | lia]. }
      assert (i <= k)%nat.
      { apply L, occurs_at_iff. rewrite matches_at_prefixb in A. split; [lia | exact A]. }
      lia.
    + rewrite <- matches_at_prefixb, (find_seq_none _ _ _ F i) in P; [discriminate | lia].
Qed.

Lemma str_find_spec_find s n : str_find s n = spec_find n s.
Proof.
  destruct (str_find s n) as [i|] eqn:F.
  - symmetry. apply spec_find_first_occurrence, str_find_first_occurrence, F.
  - destruct (spec_find n s) as [k|] eqn:G; [|reflexivity].
    apply spec_find_first_occurrence, str_find_first_occurrence in G. congruence.
Qed.

Theorem index_of_spec this needle : index_of this needle = spec_index_of this needle.
Proof. unfold index_of, string_index_of, spec_index_of. now rewrite str_find_spec_find. Qed.
Theorem index_of_meaning this needle i :
  index_of this needle = Some (Z.of_nat i) <-> first_occurrence needle this i.
Proof.
  unfold index_of, string_index_of. rewrite <- str_find_first_occurrence.
  destruct (str_find this needle) as [k|]; cbn [option_map]; split; try discriminate.
  - intros [= H]. f_equal. lia.
  - intros [= ->]. reflexivity.
Qed.
Theorem index_of_none_meaning this needle : index_of this needle = None <-> ~ occurs needle this.
Proof.
  unfold index_of, string_index_of. rewrite <- str_find_none_iff.
  destruct (str_find this needle); cbn [option_map]; split; auto; discriminate.
Qed.

(* ---- index windows: substring, slice ---------------------------------------- *)
Lemma window_from_firstn_skipn {A} (l : list A) lo hi : forall k,
  window_from k l lo hi =
  firstn (Z.to_nat (Z.min hi (k + zlen l) - Z.max lo k)) (skipn (Z.to_nat (lo - k)) l).
Proof.
  induction l as [|x t IH]; intro k; cbn [window_from].
  - now rewrite skipn_nil, firstn_nil.
  - rewrite zlen_cons. rewrite IH. pose proof (zlen_nonneg t) as Ht.
    destruct (lo <=? k) eqn:E1; destruct (k <? hi) eqn:E2; cbn [andb];
      try apply Z.leb_le in E1; try apply Z.leb_gt in E1; try apply Z.ltb_lt in E2; try apply Z.ltb_ge in E2.
    + replace (Z.to_nat (lo - k)) with O by lia. replace (Z.to_nat (lo - (k + 1))) with O by lia.
      cbn [skipn].
      replace (Z.to_nat (Z.min hi (k + (zlen t + 1)) - Z.max lo k))
        with (S (Z.to_nat (Z.min hi (k + 1 + zlen t) - Z.max lo (k + 1)))) by lia.
      reflexivity.
    + replace (Z.to_nat (Z.min hi (k + 1 + zlen t) - Z.max lo (k + 1))) with O by lia.
      replace (Z.to_nat (Z.min hi (k + (zlen t + 1)) - Z.max lo k)) with O by lia.
      reflexivity.
    + replace (Z.to_nat (lo - k)) with (S (Z.to_nat (lo - (k + 1)))) by lia. cbn [skipn].
      f_equal. lia.
    + replace (Z.to_nat (lo - k)) with (S (Z.to_nat (lo - (k + 1)))) by lia. cbn [skipn].
      f_equal. lia.
Qed.

Lemma firstn_more {A} (l : list A) n m : (length l <= n)%nat -> (length l <= m)%nat -> firstn n l = firstn m l.
Proof. intros. now rewrite !firstn_all2. Qed.

Lemma window_firstn_skipn {A} (l : list A) lo hi : 0 <= lo <= hi ->
  window l lo hi = firstn (Z.to_nat (hi - lo)) (skipn (Z.to_nat lo) l).
Proof.
  intros [H1 H2]. unfold window. rewrite window_from_firstn_skipn. rewrite Z.sub_0_r, Z.add_0_l.
  rewrite Z.max_l by lia.
  destruct (Z.le_gt_cases hi (zlen l)) as [L|L].
  - now rewrite Z.min_l by lia.
  - rewrite Z.min_r by lia. apply firstn_more; rewrite skipn_length; unfold zlen in *; lia.
Qed.

(* substring: raises unless 0 <= from <= to; otherwise the characters at offsets from <= k < to *)
Theorem substring_spec this from to :
  substring this from to = match spec_substring this from to with Some r => Ok r | None => Exn end.
Proof.
  unfold substring, spec_substring.
  destruct (0 <=? from) eqn:E1; [apply Z.leb_le in E1 | apply Z.leb_gt in E1]; cbn [andb].
  - destruct (from <=? to) eqn:E2; [apply Z.leb_le in E2 | apply Z.leb_gt in E2].
    + rewrite substring_ok by lia. now rewrite window_firstn_skipn by lia.
    + unfold string_substring. destruct (from <? 0); [reflexivity|].
      destruct (from >? to) eqn:E3; [reflexivity | ]. rewrite Z.gtb_ltb in E3. apply Z.ltb_ge in E3. lia.
  - unfold string_substring. destruct (from <? 0) eqn:E3; [reflexivity | apply Z.ltb_ge in E3; lia].
Qed.

Theorem slice_spec {A} (this : list A) i j : slice this i j = spec_slice this i j.
Proof.
  unfold slice, list_slice, spec_slice, window. cbv zeta. rewrite window_from_firstn_skipn.
  fold (zlen this). pose proof (zlen_nonneg this) as Hl.
  set (jj := if j <? 0 then zlen this + j else j).
  rewrite Z.sub_0_r, Z.add_0_l.
  destruct (Z.le_gt_cases (zlen this) i) as [Hi|Hi].
  - (* start at or beyond the end: both empty *)
    rewrite !skipn_all2 by (unfold zlen in *; lia).
    now rewrite !firstn_nil.
  - replace (Z.to_nat (Z.min (Z.max i 0) (zlen this))) with (Z.to_nat i) by lia.
    f_equal. lia.
Qed.

(* ---- split_once, strip_prefix, strip_suffix ----------------------------------- *)
Lemma substring_prefix s i : string_substring s 0 (Z.of_nat i) = Ok (firstn i s).
Proof. rewrite substring_ok by lia. cbn [Z.to_nat skipn]. now rewrite Z.sub_0_r, Nat2Z.id. Qed.
Lemma substring_suffix s k : 0 <= k <= zlen s -> string_substring s k (zlen s) = Ok (skipn (Z.to_nat k) s).
Proof.
  intro H. rewrite substring_ok by lia. f_equal. apply firstn_all2. rewrite skipn_length. unfold zlen in *. lia.
Qed.
Lemma first_occurrence_bound n s i : first_occurrence n s i -> (i + length n <= length s)%nat.
Proof. intros [(a & b & -> & <-) _]. rewrite !app_length. lia. Qed.
Lemma small_bound {A} (l : list A) : small l -> 0 <= zlen l < 4611686018427387904.
Proof. unfold small. change (2 ^ 62) with 4611686018427387904. pose proof (zlen_nonneg l). lia. Qed.

Theorem split_once_spec this needle : small this ->
  split_once this needle = Ok (spec_split_once this needle).
Proof.
  intro Hs. apply small_bound in Hs.
  unfold split_once, spec_split_once, string_index_of. rewrite str_find_spec_find.
  destruct (spec_find needle this) as [i|] eqn:F; cbn [option_map]; [|reflexivity].
  apply spec_find_first_occurrence, first_occurrence_bound in F.
  assert (B : Z.of_nat i + zlen needle <= zlen this) by (unfold zlen; lia).
  pose proof (zlen_nonneg needle).
  rewrite substring_prefix. cbn [bind]. unfold string_len.
  rewrite iadd_exact by lia. rewrite substring_suffix by lia. cbn [bind].
  replace (Z.to_nat (Z.of_nat i + zlen needle)) with (i + length needle)%nat by (unfold zlen; lia). reflexivity.
Qed.

Theorem strip_prefix_spec this prefix : small this ->
  strip_prefix this prefix = Ok (spec_strip_prefix this prefix).
Proof.
  intro Hs. apply small_bound in Hs. unfold strip_prefix, spec_strip_prefix.
  rewrite <- starts_with_spec. unfold starts_with.
  destruct (string_starts_with this prefix) eqn:E; [|reflexivity].
  apply prefixb_iff in E. destruct E as [t ->]. unfold string_len.
  rewrite substring_suffix.
  - unfold zlen. now rewrite Nat2Z.id.
  - unfold zlen. rewrite app_length. lia.
Qed.

Theorem strip_suffix_spec this suffix : small this ->
  strip_suffix this suffix = Ok (spec_strip_suffix this suffix).
Proof.
  intro Hs. apply small_bound in Hs. unfold strip_suffix, spec_strip_suffix.
  rewrite <- ends_with_spec. unfold ends_with.
  destruct (string_ends_with this suffix) eqn:E; [|reflexivity].
  apply (ends_with_meaning this suffix) in E. destruct E as [t ->]. unfold string_len.
  assert (L : zlen (t ++ suffix) = zlen t + zlen suffix) by (unfold zlen; rewrite app_length; lia).
  pose proof (zlen_nonneg t). pose proof (zlen_nonneg suffix).
  rewrite isub_exact by lia. rewrite L. replace (zlen t + zlen suffix - zlen suffix) with (Z.of_nat (length t)) by (unfold zlen; lia).
  rewrite substring_prefix. do 2 f_equal. rewrite app_length. lia.
Qed.

(* ---- split ----------------------------------------------------------------------- *)
Lemma spec_find_none_iff n s : spec_find n s = None <-> ~ occurs n s.
Proof. rewrite <- str_find_spec_find. apply str_find_none_iff. Qed.

Lemma spec_find_nil n : n <> [] -> spec_find n [] = None.
Proof.
  intro H. apply spec_find_none_iff. intros [i (a & b & E & _)].
  destruct a; [|discriminate]. destruct n; [congruence | discriminate].
Qed.

Lemma split_std_fuel n : n <> [] -> forall f1 f2 s, (length s <= f1)%nat -> (length s <= f2)%nat ->
  split_std f1 n s = split_std f2 n s.
Proof.
  intro Hn. assert (Z0 : forall f s, (length s <= 0)%nat -> split_std f n s = [s]).
  { intros f s L. destruct s; [|cbn in L; lia]. destruct f; cbn [split_std]; [reflexivity|]. now rewrite spec_find_nil. }
  induction f1 as [|f1 IH]; intros f2 s L1 L2.
  - rewrite (Z0 f2 s L1). reflexivity.
  - destruct f2 as [|f2]; [now rewrite (Z0 (S f1) s L2)|].
    cbn [split_std]. destruct (spec_find n s) as [i|] eqn:F; [|reflexivity].
    apply spec_find_first_occurrence, first_occurrence_bound in F.
    assert (0 < length n)%nat by (destruct n; [congruence | cbn; lia]).
    f_equal. apply IH; rewrite skipn_length; lia.
Qed.

Lemma small_skipn {A} (l : list A) k : small l -> small (skipn k l).
Proof. unfold small, zlen. rewrite skipn_length. lia. Qed.

Lemma split_loop_spec needle : needle <> [] -> forall fuel parts s, small s -> (length s < fuel)%nat ->
  split_loop string_index_of fuel needle parts s = Ok (parts ++ split_std (length s) needle s).
Proof.
  intro Hn. assert (Ln : (0 < length needle)%nat) by (destruct needle; [congruence | cbn; lia]).
  induction fuel as [|fuel IH]; intros parts s Hs L; [lia|].
  cbn [split_loop]. unfold string_index_of. rewrite str_find_spec_find.
  destruct (spec_find needle s) as [i|] eqn:F; cbn [option_map].
  - pose proof F as F'. apply spec_find_first_occurrence, first_occurrence_bound in F'.
    pose proof (small_bound _ Hs) as Hb. pose proof (zlen_nonneg needle).
    assert (B : Z.of_nat i + zlen needle <= zlen s) by (unfold zlen; lia).
    rewrite substring_prefix. cbn [bind]. unfold string_len.
    rewrite iadd_exact by lia. rewrite substring_suffix by lia. cbn [bind].
    replace (Z.to_nat (Z.of_nat i + zlen needle)) with (i + length needle)%nat by (unfold zlen; lia).
    rewrite IH; [| now apply small_skipn | rewrite skipn_length; lia].
    f_equal. unfold list_append. rewrite <- app_assoc. cbn [app]. f_equal.
    destruct (length s) as [|k] eqn:E; [lia|]. cbn [split_std]. rewrite F. f_equal.
    apply split_std_fuel; auto; rewrite skipn_length; lia.
  - f_equal. unfold list_append. f_equal.
    destruct (length s); cbn [split_std]; [reflexivity | now rewrite F].
Qed.

(* split terminates and returns the specified parts; fuel: length of the string + 2 *)
Theorem split_spec this needle : small this ->
  split (fuel_of_string this) this needle = Ok (spec_split this needle).
Proof.
  intro Hs. unfold split, spec_split, fuel_of_string.
  destruct this as [|c t]; [reflexivity|]. cbn [str_eqb].
  destruct needle as [|d u]; [reflexivity|]. cbn [str_eqb].
  rewrite split_loop_spec; [reflexivity | discriminate | exact Hs | lia].
Qed.

(* the executable specification is the leftmost decomposition at the needle ... *)
Theorem split_std_Split n : n <> [] -> forall f s, (length s <= f)%nat -> Split n s (split_std f n s).
Proof.
  intro Hn. assert (Ln : (0 < length n)%nat) by (destruct n; [congruence | cbn; lia]).
  induction f as [|f IH]; intros s L.
  - destruct s; [|cbn in L; lia]. cbn [split_std]. apply Split_last. apply spec_find_none_iff, spec_find_nil, Hn.
  - cbn [split_std]. destruct (spec_find n s) as [i|] eqn:F.
    + pose proof F as F'. apply spec_find_first_occurrence in F'.
      apply Split_cons; [exact F'|]. apply IH. apply first_occurrence_bound in F'. rewrite skipn_length. lia.
    + apply Split_last. now apply spec_find_none_iff.
Qed.

Lemma flat_map_join n parts : parts <> [] -> flat_map (fun y => n ++ y) parts = n ++ spec_join n parts.
Proof. destruct parts as [|x r]; [congruence|]. intros _. cbn [flat_map spec_join]. now rewrite app_assoc. Qed.

Lemma Split_nonempty n s parts : Split n s parts -> parts <> [].
Proof. intros []; discriminate. Qed.

(* ... and joining the parts with the needle gives the string back *)
Theorem Split_join n s parts : Split n s parts -> spec_join n parts = s.
Proof.
  induction 1 as [s H | s i rest F H IH].
  - cbn. apply app_nil_r.
  - cbn [spec_join]. rewrite flat_map_join by (eapply Split_nonempty; eauto). rewrite IH.
    destruct F as [(a & b & E & La) _]. subst s i.
    rewrite firstn_app, Nat.sub_diag, firstn_all. cbn [firstn]. rewrite app_nil_r.
    f_equal. rewrite app_assoc, skipn_app, skipn_all2 by (rewrite app_length; lia).
    rewrite app_length, Nat.sub_diag. reflexivity.
Qed.

(* the decomposition is unique *)
Theorem Split_functional n s p1 : Split n s p1 -> forall p2, Split n s p2 -> p1 = p2.
Proof.
  induction 1 as [s H | s i rest F H IH]; intros p2 H2; inversion H2 as [s' H' | s' i' rest' F' H'']; subst.
  - reflexivity.
  - exfalso. apply H. exists i'. apply F'.
  - exfalso. apply H'. exists i. apply F.
  - assert (i = i') by (destruct F as [O L], F' as [O' L']; apply Nat.le_antisymm; auto). subst i'.
    f_equal. now apply IH.
Qed.

(* no part but the last contains ... in fact no part contains the needle *)
Theorem Split_parts_free n s parts : n <> [] -> Split n s parts -> Forall (fun p => ~ occurs n p) parts.
Proof.
  intro Hn. assert (Ln : (0 < length n)%nat) by (destruct n; [congruence | cbn; lia]).
  induction 1 as [s H | s i rest F H IH].
  - constructor; auto.
  - constructor; [|exact IH]. intros [j O]. destruct F as [(a & b & E & La) Least]. subst s i.
    rewrite firstn_app, Nat.sub_diag, firstn_all in O. cbn [firstn] in O. rewrite app_nil_r in O.
    destruct O as (a' & b' & E' & La').
    assert (L : (length a' + length n + length b' = length a)%nat) by (rewrite E', !app_length; lia).
    assert (X : (length a <= j)%nat).
    { apply Least. exists a', (b' ++ n ++ b). split; [|exact La']. rewrite E'. now rewrite <- !app_assoc. }
    lia.
Qed.

Theorem split_meaning this needle parts : small this -> this <> [] -> needle <> [] ->
  split (fuel_of_string this) this needle = Ok parts ->
  Split needle this parts /\ spec_join needle parts = this /\ Forall (fun p => ~ occurs needle p) parts.
Proof.
  intros Hs Ht Hn H. rewrite split_spec in H by exact Hs. injection H as <-.
  assert (S : Split needle this (spec_split this needle)).
  { unfold spec_split. destruct this; [congruence|]. destruct needle; [congruence|]. apply split_std_Split; [discriminate | lia]. }
  split; [exact S|]. split; [eapply Split_join; eauto | eapply Split_parts_free; eauto].
Qed.

(* ---- join, replace ----------------------------------------------------------------- *)
Lemma join_loop_false sep items : forall joined,
  join_loop sep false items joined = joined ++ flat_map (fun y => sep ++ y) items.
Proof.
  induction items as [|x r IH]; intro joined; cbn [join_loop flat_map].
  - now rewrite app_nil_r.
  - rewrite IH. now rewrite <- !app_assoc.
Qed.
Theorem join_spec this items : join this items = spec_join this items.
Proof.
  unfold join, string_join, spec_join. destruct items as [|x r]; [reflexivity|].
  cbn [join_loop]. rewrite join_loop_false. reflexivity.
Qed.

Fixpoint weave (a : str) (l : list str) : list str :=
  match l with
  | [] => []
  | x :: r => match r with [] => [x] | _ => x :: a :: weave a r end
  end.
Lemma weave_nonempty a l : l <> [] -> weave a l <> [].
Proof. destruct l as [|x [|y r]]; [congruence | discriminate | discriminate]. Qed.
Lemma spec_join_cons sep x r : r <> [] -> spec_join sep (x :: r) = x ++ sep ++ spec_join sep r.
Proof. intro H. cbn [spec_join]. now rewrite flat_map_join. Qed.
Lemma join_weave a l : spec_join [] (weave a l) = spec_join a l.
Proof.
  induction l as [|x r IH]; [reflexivity|].
  destruct r as [|y r']; [reflexivity|].
  change (weave a (x :: y :: r')) with (x :: a :: weave a (y :: r')).
  rewrite (spec_join_cons [] x) by discriminate.
  rewrite (spec_join_cons [] a) by (apply weave_nonempty; discriminate).
  rewrite IH. rewrite (spec_join_cons a x) by discriminate. reflexivity.
Qed.
Lemma split_std_nonempty f n s : split_std f n s <> [].
Proof. destruct f; cbn [split_std]; [discriminate|]. destruct (spec_find n s); discriminate. Qed.

Lemma replace_loop_spec before after : before <> [] -> forall fuel parts s, small s -> (length s < fuel)%nat ->
  replace_loop string_index_of fuel before after parts s = Ok (parts ++ weave after (split_std (length s) before s)).
Proof.
  intro Hn. assert (Ln : (0 < length before)%nat) by (destruct before; [congruence | cbn; lia]).
  induction fuel as [|fuel IH]; intros parts s Hs L; [lia|].
  cbn [replace_loop]. unfold string_index_of. rewrite str_find_spec_find.
  destruct (spec_find before s) as [i|] eqn:F; cbn [option_map].
  - pose proof F as F'. apply spec_find_first_occurrence, first_occurrence_bound in F'.
    pose proof (small_bound _ Hs) as Hb. pose proof (zlen_nonneg before).
    assert (B : Z.of_nat i + zlen before <= zlen s) by (unfold zlen; lia).
    rewrite substring_prefix. cbn [bind]. unfold string_len.
    rewrite iadd_exact by lia. rewrite substring_suffix by lia. cbn [bind].
    replace (Z.to_nat (Z.of_nat i + zlen before)) with (i + length before)%nat by (unfold zlen; lia).
    rewrite IH; [| now apply small_skipn | rewrite skipn_length; lia].
    f_equal. unfold list_append. rewrite <- !app_assoc. cbn [app]. f_equal.
    destruct (length s) as [|k] eqn:E; [lia|]. cbn [split_std]. rewrite F.
    rewrite (split_std_fuel before Hn k (length (skipn (i + length before) s))) by (rewrite ?skipn_length; lia).
    set (tl := split_std _ before (skipn (i + length before) s)).
    assert (T : tl <> []) by apply split_std_nonempty.
    destruct tl as [|y r]; [congruence|]. reflexivity.
  - f_equal. unfold list_append. f_equal.
    destruct (length s); cbn [split_std]; [reflexivity | now rewrite F].
Qed.

(* replace terminates and returns the specified string; fuel: length of the string + 2 *)
Theorem replace_spec this before after : small this ->
  replace (fuel_of_string this) this before after = Ok (spec_replace this before after).
Proof.
  intro Hs. unfold replace, spec_replace, fuel_of_string.
  destruct before as [|d u]; [reflexivity|]. cbn [str_eqb].
  rewrite replace_loop_spec; [| discriminate | exact Hs | lia]. cbn [bind app].
  f_equal. change (string_join [] ?p) with (join [] p). rewrite join_spec. apply join_weave.
Qed.
(* ... i.e. the parts of the leftmost decomposition at `before`, joined with `after` *)
Theorem replace_meaning this before after : before <> [] ->
  exists parts, Split before this parts /\ spec_replace this before after = spec_join after parts.
Proof.
  intro Hn. exists (split_std (length this) before this). split.
  - apply split_std_Split; auto.
  - unfold spec_replace. destruct before; [congruence | reflexivity].
Qed.

(* ---- contains ------------------------------------------------------------------------ *)
Lemma matches_at_bound n s j : matches_at n s j = true -> (j <= length s)%nat -> (j + length n <= length s)%nat.
Proof.
  unfold matches_at. intros H L. apply seqb_eq in H.
  assert (X : length (firstn (length n) (skipn j s)) = length n) by now rewrite H.
  rewrite firstn_length, skipn_length in X. lia.
Qed.
Lemma existsb_false {A} (p : A -> bool) l : (forall x, In x l -> p x = false) -> existsb p l = false.
Proof.
  induction l as [|x r IH]; intro H; [reflexivity|]. cbn [existsb].
  rewrite (H x) by now left. apply IH. intros y Hy. apply H. now right.
Qed.

Theorem spec_contains_meaning s n : spec_contains s n = true <-> occurs n s.
Proof.
  unfold spec_contains, occurs. rewrite existsb_exists. split.
  - intros (i & Hi & M). exists i. apply in_seq in Hi. apply occurs_at_iff. rewrite <- matches_at_prefixb. split; [lia | exact M].
  - intros [i O]. apply occurs_at_iff in O. destruct O as [L P]. exists i. split; [apply in_seq; lia | now rewrite matches_at_prefixb].
Qed.

Lemma contains_loop_spec s n d : small s -> (d + length n = length s)%nat ->
  forall k i fuel, (i + k = S d)%nat -> (k < fuel)%nat ->
  contains_loop fuel s n (Z.of_nat i) = Ok (existsb (matches_at n s) (seq i k)).
Proof.
  intros Hs Hd. pose proof (small_bound _ Hs) as Hb.
  assert (Hz : zlen s - zlen n = Z.of_nat d) by (unfold zlen; lia).
  pose proof (zlen_nonneg n) as Hn.
  induction k as [|k IH]; intros i fuel Hi Hf; (destruct fuel as [|fuel]; [lia|]); cbn [contains_loop]; unfold string_len.
  - rewrite isub_exact by lia. rewrite Hz.
    destruct (Z.of_nat i <=? Z.of_nat d) eqn:E; [apply Z.leb_le in E; lia | reflexivity].
  - rewrite isub_exact by lia. rewrite Hz.
    destruct (Z.of_nat i <=? Z.of_nat d) eqn:E; [| apply Z.leb_gt in E; lia].
    rewrite iadd_exact by (unfold zlen in *; lia).
    rewrite substring_ok by lia. cbn [bind].
    replace (Z.to_nat (Z.of_nat i + zlen n - Z.of_nat i)) with (length n) by (unfold zlen; lia).
    rewrite Nat2Z.id. rewrite str_eqb_seqb. fold (matches_at n s i).
    cbn [seq existsb]. destruct (matches_at n s i); [reflexivity|]. cbn [orb].
    rewrite iadd_exact by (unfold zlen in *; lia).
    replace (Z.of_nat i + 1) with (Z.of_nat (S i)) by lia.
    apply IH; lia.
Qed.

(* contains terminates and decides whether the substring occurs; fuel: length of the string + 2 *)
Theorem contains_spec this substring : small this ->
  contains (fuel_of_string this) this substring = Ok (spec_contains this substring).
Proof.
  intro Hs. unfold contains, spec_contains, fuel_of_string, string_len.
  destruct (zlen substring >? zlen this) eqn:E.
  - apply Z.gtb_lt in E. f_equal. symmetry. apply existsb_false. intros j Hj. apply in_seq in Hj.
    destruct (matches_at substring this j) eqn:M; [|reflexivity].
    apply matches_at_bound in M; [|lia]. unfold zlen in E. lia.
  - rewrite Z.gtb_ltb in E. apply Z.ltb_ge in E. unfold zlen in E.
    set (d := (length this - length substring)%nat).
    rewrite (contains_loop_spec this substring d Hs ltac:(lia) (S d) 0%nat) by lia.
    f_equal. replace (S (length this)) with (S d + (length this - d))%nat by lia.
    rewrite seq_app, existsb_app. rewrite (existsb_false _ (seq _ (length this - d))); [now rewrite orb_false_r|].
    intros j Hj. apply in_seq in Hj.
    destruct (matches_at substring this j) eqn:M; [|reflexivity].
    apply matches_at_bound in M; lia.
Qed.

(* ---- lists ----------------------------------------------------------------------------- *)
Theorem concat_spec {A} (this other : list A) : concat this other = spec_concat this other.
Proof.
  unfold concat, spec_concat. revert this. induction other as [|x r IH]; intro this; cbn [fold_left].
  - now rewrite app_nil_r.
  - rewrite IH. unfold list_append. now rewrite <- app_assoc.
Qed.

Theorem filter_spec {A} (this : list A) f : filter this f = spec_filter this f.
Proof.
  unfold filter, spec_filter.
  assert (G : forall l acc, fold_left (fun result item => if f item then list_append result item else result) l acc
                            = acc ++ List.filter f l).
  { induction l as [|x r IH]; intro acc; cbn [fold_left List.filter]; [now rewrite app_nil_r|].
    rewrite IH. destruct (f x); [unfold list_append; now rewrite <- app_assoc | reflexivity]. }
  apply G.
Qed.

Theorem map_spec {A B} (this : list A) (f : A -> B) : map_ this f = spec_map this f.
Proof.
  unfold map_, spec_map.
  assert (G : forall l acc, fold_left (fun items item => list_append items (f item)) l acc = acc ++ List.map f l).
  { induction l as [|x r IH]; intro acc; cbn [fold_left List.map]; [now rewrite app_nil_r|].
    rewrite IH. unfold list_append. now rewrite <- app_assoc. }
  apply G.
Qed.

Lemma enumerate_fold {A} (l : list A) : forall acc k, Z.of_nat (k + length l) < 4611686018427387904 ->
  fold_left (fun '(items, i) item => (list_append items (i, item), iadd i 1)) l (acc, Z.of_nat k)
  = (acc ++ combine (map Z.of_nat (seq k (length l))) l, Z.of_nat (k + length l)).
Proof.
  induction l as [|x r IH]; intros acc k H; cbn [fold_left length seq map combine].
  - now rewrite app_nil_r, Nat.add_0_r.
  - cbn [length] in H. rewrite iadd_exact by lia. replace (Z.of_nat k + 1) with (Z.of_nat (S k)) by lia.
    rewrite IH by lia. unfold list_append. rewrite <- app_assoc. cbn [app]. f_equal. f_equal. lia.
Qed.
Theorem enumerate_spec {A} (this : list A) : small this -> enumerate this = spec_enumerate this.
Proof.
  intro Hs. apply small_bound in Hs. unfold enumerate, spec_enumerate.
  change 0 with (Z.of_nat 0). rewrite enumerate_fold by (unfold zlen in Hs; lia). reflexivity.
Qed.

Lemma lindex_of_loop_spec {A} (eqb : A -> A -> bool) v (l : list A) : forall k,
  lindex_of_loop eqb (combine (map Z.of_nat (seq k (length l))) l) v
  = option_map (fun j => Z.of_nat (k + j)) (first_index (fun y => eqb y v) l).
Proof.
  induction l as [|x r IH]; intro k; cbn [length seq map combine lindex_of_loop first_index]; [reflexivity|].
  destruct (eqb x v); cbn [option_map]; [now rewrite Nat.add_0_r|].
  rewrite IH. destruct (first_index (fun y => eqb y v) r); cbn [option_map]; [|reflexivity]. do 2 f_equal. lia.
Qed.
Theorem lindex_of_spec {A} (eqb : A -> A -> bool) (this : list A) value : small this ->
  lindex_of eqb this value = spec_lindex_of eqb this value.
Proof.
  intro Hs. unfold lindex_of, spec_lindex_of. rewrite enumerate_spec by exact Hs. unfold spec_enumerate.
  rewrite lindex_of_loop_spec. destruct (first_index _ this); reflexivity.
Qed.
(* meaning of first_index: the least position whose item satisfies p *)
Theorem first_index_meaning {A} (p : A -> bool) (l : list A) i :
  first_index p l = Some i <->
  (exists x, nth_error l i = Some x /\ p x = true) /\ forall j y, (j < i)%nat -> nth_error l j = Some y -> p y = false.
Proof.
  revert i. induction l as [|x r IH]; intro i; cbn [first_index].
  - split; [discriminate | intros [(y & H & _) _]; destruct i; discriminate].
  - destruct (p x) eqn:E.
    + split.
      * intros [= <-]. split; [exists x; auto | intros; lia].
      * intros [(y & H & Py) L]. destruct i as [|i]; [reflexivity|].
        specialize (L 0%nat x ltac:(lia) eq_refl). congruence.
    + split.
      * destruct (first_index p r) as [k|] eqn:F; [|discriminate]. intros [= <-].
        destruct (proj1 (IH k) eq_refl) as [(y & H & Py) L]. split; [exists y; auto|].
        intros [|j] z Hj Hz; [cbn in Hz; congruence | cbn in Hz; eapply L; eauto; lia].
      * intros [(y & H & Py) L]. destruct i as [|i]; [cbn in H; congruence|]. cbn in H.
        assert (X : first_index p r = Some i).
        { apply IH. split; [exists y; auto|]. intros j z Hj Hz. apply (L (S j) z); [lia | exact Hz]. }
        now rewrite X.
Qed.

Theorem lcontains_spec {A} (eqb : A -> A -> bool) (this : list A) item :
  lcontains eqb this item = spec_lcontains eqb this item.
Proof.
  unfold lcontains, spec_lcontains. induction this as [|x r IH]; cbn [list_contains existsb]; [reflexivity|].
  rewrite IH. now destruct (eqb x item).
Qed.

Theorem get_spec {A} (this : list A) index : get this index = spec_get this index.
Proof.
  unfold get, list_get, spec_get, zlen.
  destruct (index >=? Z.of_nat (length this)) eqn:E1; destruct (index <? 0) eqn:E2;
    destruct (0 <=? index) eqn:E3; destruct (index <? Z.of_nat (length this)) eqn:E4; cbn [orb andb]; try reflexivity;
    rewrite ?Z.geb_leb in *; rewrite ?Z.leb_le, ?Z.leb_gt, ?Z.ltb_lt, ?Z.ltb_ge in *; lia.
Qed.
Theorem llen_spec {A} (this : list A) : llen this = spec_llen this.
Proof. reflexivity. Qed.
Theorem first_spec {A} (this : list A) : first this = spec_first this.
Proof. unfold first, list_get, spec_first. destruct this; reflexivity. Qed.
Lemma nth_error_last {A} (l : list A) : l <> [] -> nth_error l (length l - 1) = hd_error (rev l).
Proof.
  intro H. destruct (rev l) as [|x r] eqn:E.
  - exfalso. apply H. rewrite <- (rev_involutive l), E. reflexivity.
  - assert (T : l = rev r ++ [x]) by (rewrite <- (rev_involutive l), E; reflexivity).
    rewrite T, app_length. cbn [length hd_error]. rewrite nth_error_app2 by lia.
    replace (length (rev r) + 1 - 1 - length (rev r))%nat with O by lia. reflexivity.
Qed.
Theorem last_spec {A} (this : list A) : small this -> last this = spec_last this.
Proof.
  intro Hs. apply small_bound in Hs. unfold last, spec_last, list_len. rewrite isub_exact by lia.
  destruct this as [|x t]; [reflexivity|].
  rewrite <- nth_error_last by discriminate. unfold list_get. rewrite zlen_cons in *.
  pose proof (zlen_nonneg t).
  destruct (_ >=? _) eqn:E1; [rewrite Z.geb_leb in E1; apply Z.leb_le in E1; lia|].
  destruct (_ <? 0) eqn:E2; [apply Z.ltb_lt in E2; lia|]. cbn [orb].
  f_equal. unfold zlen. cbn [length]. lia.
Qed.

Lemma range_loop_spec j : in64 j = true -> forall n i items fuel, in64 i = true -> n = Z.to_nat (j - i) -> (n < fuel)%nat ->
  range_loop fuel i j items = Ok (items ++ map (fun k => i + Z.of_nat k) (seq 0 n)).
Proof.
  intro Hj. unfold in64, min64, max64 in Hj. change (2 ^ 63) with 9223372036854775808 in Hj.
  apply andb_true_iff in Hj. destruct Hj as [Hj1 Hj2]. apply Z.leb_le in Hj1, Hj2.
  induction n as [|n IH]; intros i items fuel Hi Hn Hf; (destruct fuel as [|fuel]; [lia|]); cbn [range_loop].
  - destruct (i <? j) eqn:E; [apply Z.ltb_lt in E; lia|]. cbn. now rewrite app_nil_r.
  - destruct (i <? j) eqn:E; [apply Z.ltb_lt in E | apply Z.ltb_ge in E; lia].
    unfold in64, min64, max64 in Hi. change (2 ^ 63) with 9223372036854775808 in Hi.
    apply andb_true_iff in Hi. destruct Hi as [Hi1 Hi2]. apply Z.leb_le in Hi1, Hi2.
    rewrite iadd_exact by lia.
    rewrite IH; [| apply in64_range; change (2 ^ 63) with 9223372036854775808; lia | lia | lia].
    f_equal. unfold list_append. rewrite <- app_assoc. f_equal. cbn [seq map app]. f_equal; [f_equal; lia|].
    rewrite <- seq_shift, map_map. apply map_ext. intro k. lia.
Qed.
(* range terminates for all i64 arguments; fuel: j - i + 1 *)
Theorem range_spec i j : in64 i = true -> in64 j = true -> range (fuel_of_range i j) i j = Ok (spec_range i j).
Proof. intros Hi Hj. unfold range, fuel_of_range, spec_range. rewrite (range_loop_spec j Hj (Z.to_nat (j - i))); auto. Qed.

Theorem max_spec x y : max x y = spec_max x y.
Proof. unfold max, spec_max. destruct (x >=? y) eqn:E; rewrite Z.geb_leb in E; [apply Z.leb_le in E | apply Z.leb_gt in E]; lia. Qed.
Theorem min_spec x y : min x y = spec_min x y.
Proof. unfold min, spec_min. destruct (x <=? y) eqn:E; [apply Z.leb_le in E | apply Z.leb_gt in E]; lia. Qed.

(* ---- sort_nums ----------------------------------------------------------------------------- *)
Lemma slice_tail (x : Z) t : small (x :: t) -> slice (x :: t) 1 (llen (x :: t)) = t.
Proof.
  intro Hs. apply small_bound in Hs. unfold slice, list_slice, llen, list_len. cbv zeta.
  rewrite zlen_cons in *. pose proof (zlen_nonneg t).
  destruct (zlen t + 1 <? 0) eqn:E; [apply Z.ltb_lt in E; lia|].
  replace (Z.to_nat (Z.min (Z.max 1 0) (zlen t + 1))) with 1%nat by lia.
  replace (Z.to_nat (Z.min (Z.max (zlen t + 1) 0) (zlen t + 1))) with (S (length t)) by (unfold zlen; lia).
  rewrite Nat.max_l by lia. cbn [skipn]. replace (S (length t) - 1)%nat with (length t) by lia. apply firstn_all.
Qed.

Lemma filter_partition_perm {A} (f : A -> bool) l :
  Permutation l (List.filter f l ++ List.filter (fun x => negb (f x)) l).
Proof.
  induction l as [|x r IH]; [constructor|]. cbn [List.filter]. destruct (f x); cbn [negb app].
  - now constructor.
  - now apply Permutation_cons_app.
Qed.

Lemma SS_app a b : StronglySorted Z.le a -> StronglySorted Z.le b -> (forall x y, In x a -> In y b -> x <= y) ->
  StronglySorted Z.le (a ++ b).
Proof.
  induction 1 as [|x a Ha IH Fx]; intros Hb H; [exact Hb|]. cbn [app]. constructor.
  - apply IH; auto. intros; apply H; auto. now right.
  - apply Forall_app. split; [exact Fx|]. apply Forall_forall. intros y Hy. apply H; auto. now left.
Qed.

Lemma filter_len {A} (f : A -> bool) l : (length (List.filter f l) <= length l)%nat.
Proof. induction l as [|x r IH]; cbn [List.filter length]; [lia|]. destruct (f x); cbn [length]; lia. Qed.

Lemma sort_nums_sorted : forall fuel items, small items -> (length items < fuel)%nat ->
  exists r, sort_nums fuel items = Ok r /\ StronglySorted Z.le r /\ Permutation items r.
Proof.
  induction fuel as [|fuel IH]; intros items Hs L; [lia|]. cbn [sort_nums].
  destruct items as [|p t].
  - exists []. repeat split; constructor.
  - rewrite first_spec. cbn [spec_first hd_error]. rewrite slice_tail by exact Hs. rewrite !filter_spec. unfold spec_filter.
    set (sm := List.filter (fun x => x <? p) t). set (lg := List.filter (fun x => x >=? p) t).
    assert (Lsm : (length sm <= length t)%nat) by apply filter_len.
    assert (Llg : (length lg <= length t)%nat) by apply filter_len.
    cbn [length] in L.
    assert (St : forall l : list Z, (length l <= length t)%nat -> small l).
    { intros l Hl. unfold small, zlen in *. cbn [length] in Hs. lia. }
    destruct (IH sm (St _ Lsm) ltac:(lia)) as (a & Ea & Sa & Pa).
    destruct (IH lg (St _ Llg) ltac:(lia)) as (b & Eb & Sb & Pb).
    rewrite Ea, Eb. cbn [bind]. rewrite !concat_spec. unfold spec_concat.
    exists ((a ++ [p]) ++ b). split; [reflexivity|]. split.
    + apply SS_app; [apply SS_app; [exact Sa | repeat constructor |] | exact Sb |].
      * intros x y Hx [<-|[]]. apply (Permutation_in _ (Permutation_sym Pa)) in Hx.
        apply filter_In in Hx. destruct Hx as [_ Hx]. apply Z.ltb_lt in Hx. lia.
      * intros x y Hx Hy. apply (Permutation_in _ (Permutation_sym Pb)) in Hy.
        apply filter_In in Hy. destruct Hy as [_ Hy]. rewrite Z.geb_leb in Hy. apply Z.leb_le in Hy.
        apply in_app_or in Hx. destruct Hx as [Hx|[<-|[]]]; [|exact Hy].
        apply (Permutation_in _ (Permutation_sym Pa)) in Hx.
        apply filter_In in Hx. destruct Hx as [_ Hx]. apply Z.ltb_lt in Hx. lia.
    + rewrite <- app_assoc. cbn [app]. apply Permutation_cons_app.
      transitivity (sm ++ lg).
      * unfold sm, lg.
        rewrite (filter_ext (fun x => x >=? p) (fun x => negb (x <? p))).
        -- apply filter_partition_perm.
        -- intro x. now rewrite Z.geb_leb, Z.leb_antisym.
      * now apply Permutation_app.
Qed.

(* sort_nums terminates (recursion depth at most the length of the list) and returns the sorted permutation *)
Theorem sort_nums_spec items : small items ->
  exists r, sort_nums (fuel_of_list items) items = Ok r /\ is_sort_of items r.
Proof.
  intro Hs. destruct (sort_nums_sorted (fuel_of_list items) items Hs) as (r & E & S & P); [unfold fuel_of_list; lia|].
  exists r. split; [exact E|]. split; [now apply StronglySorted_Sorted | exact P].
Qed.

(* a sorted permutation is unique, so is_sort_of determines the result; the executable spec_sort is one *)
Lemma insert_sorted_perm x l : Permutation (x :: l) (insert_sorted x l).
Proof.
  induction l as [|y t IH]; cbn [insert_sorted]; [reflexivity|].
  destruct (x <=? y); [reflexivity|]. rewrite perm_swap. now constructor.
Qed.
Lemma insert_sorted_SS x l : StronglySorted Z.le l -> StronglySorted Z.le (insert_sorted x l).
Proof.
  induction 1 as [|y t Ht IH Fy]; cbn [insert_sorted]; [repeat constructor|].
  destruct (x <=? y) eqn:E; [apply Z.leb_le in E | apply Z.leb_gt in E].
  - constructor; [now constructor|]. constructor; [exact E|]. eapply Forall_impl; [|exact Fy]. intros; cbn in *; lia.
  - constructor; [exact IH|]. apply Forall_forall. intros z Hz.
    apply (Permutation_in _ (Permutation_sym (insert_sorted_perm x t))) in Hz. destruct Hz as [<-|Hz]; [lia|].
    rewrite Forall_forall in Fy. now apply Fy.
Qed.
Theorem spec_sort_is_sort l : is_sort_of l (spec_sort l).
Proof.
  unfold is_sort_of, spec_sort. induction l as [|x t [S P]]; cbn [fold_right]; [split; constructor|].
  split.
  - apply StronglySorted_Sorted, insert_sorted_SS. apply Sorted_StronglySorted; [|exact S]. intros a b c; lia.
  - rewrite <- insert_sorted_perm. now constructor.
Qed.
Lemma SS_perm_unique a : StronglySorted Z.le a -> forall b, StronglySorted Z.le b -> Permutation a b -> a = b.
Proof.
  induction 1 as [|x a Ha IH Fx]; intros b Hb P.
  - apply Permutation_nil in P. now subst.
  - destruct b as [|y b]; [apply Permutation_sym, Permutation_nil in P; discriminate|].
    inversion Hb as [|? ? Hb' Fy]; subst.
    assert (x = y).
    { assert (I1 : In x (y :: b)) by (apply (Permutation_in _ P); now left).
      assert (I2 : In y (x :: a)) by (apply (Permutation_in _ (Permutation_sym P)); now left).
      rewrite Forall_forall in Fx, Fy.
      destruct I1 as [->|I1]; [reflexivity|]. destruct I2 as [->|I2]; [reflexivity|].
      specialize (Fx _ I2). specialize (Fy _ I1). lia. }
    subst y. f_equal. apply IH; [exact Hb'|]. eapply Permutation_cons_inv; eauto.
Qed.
Theorem sort_nums_spec_exec items : small items ->
  sort_nums (fuel_of_list items) items = Ok (spec_sort items).
Proof.
  intro Hs. destruct (sort_nums_sorted (fuel_of_list items) items Hs) as (r & E & S & P); [unfold fuel_of_list; lia|].
  rewrite E. f_equal. destruct (spec_sort_is_sort items) as [S' P'].
  apply SS_perm_unique; [exact S | apply Sorted_StronglySorted; [intros a b c; lia | exact S'] |].
  now rewrite <- P.
Qed.

(* ---- chars, len ------------------------------------------------------------------------------ *)
Theorem chars_spec this : chars this = spec_chars this.
Proof. reflexivity. Qed.
Theorem len_spec this : len this = spec_len this.
Proof. reflexivity. Qed.
Theorem chars_join this : spec_join [] (chars this) = this.
Proof.
  unfold chars, string_chars. induction this as [|c t IH]; [reflexivity|].
  cbn [map]. destruct t as [|d u]; [reflexivity|].
  rewrite spec_join_cons by discriminate. rewrite IH. reflexivity.
Qed.

(* ---- the code before the fixes: the empty needle never terminates ------------------------------ *)
Lemma split_loop_old_diverges : forall fuel parts, split_loop string_index_of_old fuel [] parts [97%N] = OutOfFuel.
Proof. induction fuel as [|fuel IH]; intro parts; [reflexivity|]. cbn. apply IH. Qed.
Theorem split_old_refuted : forall fuel, split_old fuel [97%N] [] = OutOfFuel.
Proof. intro fuel. unfold split_old. cbn [str_eqb]. apply split_loop_old_diverges. Qed.
Lemma replace_loop_old_diverges after : forall fuel parts,
  replace_loop string_index_of_old fuel [] after parts [97%N] = OutOfFuel.
Proof. induction fuel as [|fuel IH]; intro parts; [reflexivity|]. cbn. apply IH. Qed.
Theorem replace_old_refuted : forall fuel after, replace_old fuel [97%N] [] after = OutOfFuel.
Proof. intros fuel after. unfold replace_old. now rewrite replace_loop_old_diverges. Qed.
Theorem index_of_old_refuted : string_index_of_old [] [] = None /\ spec_index_of [] [] = Some 0.
Proof. split; reflexivity. Qed.


(* ---- trim_left, trim_right, trim ------------------------------------------------------------ *)
Lemma drop_spaces_cons c t : drop_spaces (c :: t) = if N.eqb c 32 then drop_spaces t else c :: t.
Proof.
  destruct c as [|p]; [reflexivity|].
  do 6 (destruct p as [p|p|]; try reflexivity).
Qed.
Lemma drop_spaces_len s : (length (drop_spaces s) <= length s)%nat.
Proof. induction s as [|c t IH]; [cbn; lia|]. rewrite drop_spaces_cons. destruct (N.eqb c 32); cbn [length]; lia. Qed.
Lemma drop_spaces_skipn s : skipn (length s - length (drop_spaces s)) s = drop_spaces s.
Proof.
  induction s as [|c t IH]; [reflexivity|]. rewrite drop_spaces_cons. destruct (N.eqb c 32).
  - pose proof (drop_spaces_len t). cbn [length].
    replace (S (length t) - length (drop_spaces t))%nat with (S (length t - length (drop_spaces t))) by lia.
    cbn [skipn]. exact IH.
  - now rewrite Nat.sub_diag.
Qed.
Lemma skipn_S_cons {A} (l : list A) : forall i c t, skipn i l = c :: t -> skipn (S i) l = t.
Proof.
  induction l as [|x r IH]; intros i c t H.
  - rewrite skipn_nil in H. discriminate.
  - destruct i as [|i]; cbn [skipn] in *; [now injection H as _ -> | eapply IH; eauto].
Qed.
Lemma char_eqb c : str_eqb [c] [32%N] = N.eqb c 32.
Proof. cbn [str_eqb]. now rewrite andb_true_r. Qed.

Lemma trim_left_loop_spec this : small this -> forall rest i fuel,
  skipn i this = rest -> (i + length rest = length this)%nat -> (length rest < fuel)%nat ->
  trim_left_loop fuel this (Z.of_nat i) = Ok (Z.of_nat (i + (length rest - length (drop_spaces rest)))).
Proof.
  intro Hs. pose proof (small_bound _ Hs) as Hb.
  induction rest as [|c t IH]; intros i fuel Hk Hl Hf; (destruct fuel as [|fuel]; [lia|]); cbn [trim_left_loop]; unfold string_len.
  - cbn [length] in *. destruct (Z.of_nat i <? zlen this) eqn:E; [apply Z.ltb_lt in E; unfold zlen in E; lia|].
    f_equal. f_equal. cbn. lia.
  - cbn [length] in *. destruct (Z.of_nat i <? zlen this) eqn:E; [|apply Z.ltb_ge in E; unfold zlen in E; lia].
    rewrite iadd_exact by (unfold zlen in *; lia). rewrite substring_ok by lia. cbn [bind].
    replace (Z.to_nat (Z.of_nat i + 1 - Z.of_nat i)) with 1%nat by lia. rewrite Nat2Z.id, Hk. cbn [firstn].
    rewrite char_eqb, drop_spaces_cons. destruct (N.eqb c 32); cbn [negb].
    + replace (Z.of_nat i + 1) with (Z.of_nat (S i)) by lia.
      rewrite (IH (S i) fuel); [| eapply skipn_S_cons; eauto | lia | lia].
      pose proof (drop_spaces_len t). f_equal. lia.
    + f_equal. cbn [length]. lia.
Qed.

Theorem trim_left_spec this : small this -> trim_left (fuel_of_string this) this = Ok (spec_trim_left this).
Proof.
  intro Hs. pose proof (small_bound _ Hs) as Hb. unfold trim_left, spec_trim_left, fuel_of_string.
  change 0 with (Z.of_nat 0). rewrite (trim_left_loop_spec this Hs this 0%nat) by (cbn [skipn]; auto; lia).
  cbn [bind]. pose proof (drop_spaces_len this). unfold string_len. rewrite substring_suffix by (unfold zlen; lia).
  f_equal. rewrite Nat2Z.id. apply drop_spaces_skipn.
Qed.

Lemma firstn_snoc_nth {A} (l : list A) k p c : firstn (S k) l = p ++ [c] -> length p = k ->
  firstn 1 (skipn k l) = [c] /\ firstn k l = p.
Proof.
  intros H Lp. assert (E : l = (p ++ [c]) ++ skipn (S k) l) by (rewrite <- H; symmetry; apply firstn_skipn).
  split.
  - rewrite E at 1. rewrite <- app_assoc. rewrite skipn_app, skipn_all2, Lp, Nat.sub_diag by lia. reflexivity.
  - rewrite E at 1. rewrite <- app_assoc. rewrite firstn_app, Lp, Nat.sub_diag, firstn_all2 by lia. cbn. apply app_nil_r.
Qed.

Lemma trim_right_loop_spec this : small this -> forall r fuel,
  firstn (length r) this = rev r -> (length r <= length this)%nat -> (length r < fuel)%nat ->
  trim_right_loop fuel this (Z.of_nat (length r) - 1) = Ok (Z.of_nat (length (drop_spaces r)) - 1).
Proof.
  intro Hs. pose proof (small_bound _ Hs) as Hb.
  induction r as [|c t IH]; intros fuel Hk Hl Hf; (destruct fuel as [|fuel]; [lia|]); cbn [trim_right_loop].
  - reflexivity.
  - cbn [length rev] in *. replace (Z.of_nat (S (length t)) - 1) with (Z.of_nat (length t)) by lia.
    destruct (Z.of_nat (length t) >=? 0) eqn:E; [|rewrite Z.geb_leb in E; apply Z.leb_gt in E; lia].
    rewrite iadd_exact by (unfold zlen in *; lia). rewrite substring_ok by lia. cbn [bind].
    replace (Z.to_nat (Z.of_nat (length t) + 1 - Z.of_nat (length t))) with 1%nat by lia. rewrite Nat2Z.id.
    destruct (firstn_snoc_nth this (length t) (rev t) c Hk ltac:(now rewrite rev_length)) as [H1 H2].
    rewrite H1, char_eqb, drop_spaces_cons. destruct (N.eqb c 32); cbn [negb].
    + rewrite isub_exact by (unfold zlen in *; lia). apply IH; [exact H2 | lia | lia].
    + f_equal. cbn [length]. lia.
Qed.

Theorem trim_right_spec this : small this -> trim_right (fuel_of_string this) this = Ok (spec_trim_right this).
Proof.
  intro Hs. pose proof (small_bound _ Hs) as Hb. unfold trim_right, spec_trim_right, fuel_of_string, string_len.
  rewrite isub_exact by lia.
  assert (L : zlen this = Z.of_nat (length (rev this))) by (unfold zlen; now rewrite rev_length).
  rewrite L. rewrite (trim_right_loop_spec this Hs (rev this)); rewrite ?rev_length, ?rev_involutive, ?firstn_all; try lia; auto.
  cbn [bind]. pose proof (drop_spaces_len (rev this)) as D. rewrite rev_length in D.
  rewrite iadd_exact by (unfold zlen in *; lia).
  replace (Z.of_nat (length (drop_spaces (rev this))) - 1 + 1) with (Z.of_nat (length (drop_spaces (rev this)))) by lia.
  rewrite substring_prefix. f_equal.
  rewrite <- (drop_spaces_skipn (rev this)) at 2. rewrite skipn_rev, rev_involutive, rev_length. f_equal. lia.
Qed.

Lemma small_le {A B} (a : list A) (b : list B) : (length a <= length b)%nat -> small b -> small a.
Proof. unfold small, zlen. lia. Qed.

Theorem trim_spec this : small this -> trim (fuel_of_string this) this = Ok (spec_trim this).
Proof.
  intro Hs. unfold trim, spec_trim. rewrite trim_left_spec by exact Hs. cbn [bind].
  pose proof (drop_spaces_len this) as D.
  assert (Hs' : small (spec_trim_left this)) by (eapply small_le; [exact D | exact Hs]).
  (* more fuel than needed: the loop result does not depend on spare fuel *)
  unfold trim_right, spec_trim_right, string_len.
  pose proof (small_bound _ Hs') as Hb. rewrite isub_exact by lia.
  set (u := spec_trim_left this) in *.
  assert (L : zlen u = Z.of_nat (length (rev u))) by (unfold zlen; now rewrite rev_length).
  rewrite L. rewrite (trim_right_loop_spec u Hs' (rev u)); rewrite ?rev_length, ?rev_involutive, ?firstn_all; try (unfold fuel_of_string, u, spec_trim_left; lia); auto.
  cbn [bind]. pose proof (drop_spaces_len (rev u)) as D2. rewrite rev_length in D2.
  rewrite iadd_exact by (unfold zlen in *; lia).
  replace (Z.of_nat (length (drop_spaces (rev u))) - 1 + 1) with (Z.of_nat (length (drop_spaces (rev u)))) by lia.
  rewrite substring_prefix. f_equal.
  rewrite <- (drop_spaces_skipn (rev u)) at 2. rewrite skipn_rev, rev_involutive, rev_length. f_equal. lia.
Qed.

(* meaning of the executable spec: the longest run of spaces is removed *)
Theorem drop_spaces_meaning s : exists k, s = repeat 32%N k ++ drop_spaces s /\ (forall c t, drop_spaces s = c :: t -> c <> 32%N).
Proof.
  induction s as [|c t (k & E & H)].
  - exists 0%nat. split; [reflexivity | discriminate].
  - rewrite drop_spaces_cons. destruct (N.eqb_spec c 32) as [->|N].
    + exists (S k). split; [cbn [repeat app]; now f_equal | exact H].
    + exists 0%nat. split; [reflexivity|]. intros c' t' [= <- _]. exact N.
Qed.


(* ---- lines ------------------------------------------------------------------------------------ *)
Definition lines_of_parts (parts : list sstr) : list sstr :=
  map strip_cr (removelast parts) ++ (match List.last parts [] with [] => [] | _ => [List.last parts []] end).
Lemma spec_lines_unfold s : spec_lines s = lines_of_parts (split_char 10 s).
Proof. reflexivity. Qed.
Lemma split_char_nonempty c s : split_char c s <> [].
Proof. destruct s as [|x t]; cbn [split_char]; [discriminate|]. destruct (N.eqb x c); [discriminate|]. destruct (split_char c t); discriminate. Qed.
Lemma strip_cr_rev_eq cur : strip_cr (rev cur) = strip_cr_rev cur.
Proof. unfold strip_cr, strip_cr_rev. now rewrite rev_involutive. Qed.
Lemma lines_of_parts_cons x P : P <> [] -> lines_of_parts (x :: P) = strip_cr x :: lines_of_parts P.
Proof. intro H. unfold lines_of_parts. destruct P as [|y Q]; [congruence|]. reflexivity. Qed.

Lemma lines_go_spec s : forall cur,
  lines_go cur s = match split_char 10 s with h :: r => lines_of_parts ((rev cur ++ h) :: r) | [] => [] end.
Proof.
  induction s as [|c t IH]; intro cur; cbn [lines_go split_char].
  - rewrite app_nil_r. unfold lines_of_parts. cbn [removelast map List.last app].
    destruct cur as [|x r]; [reflexivity|]. cbn [rev]. destruct (rev r ++ [x]) eqn:E; [destruct (rev r); discriminate | reflexivity].
  - destruct (N.eqb c 10).
    + rewrite app_nil_r. rewrite lines_of_parts_cons by apply split_char_nonempty.
      rewrite strip_cr_rev_eq. f_equal. rewrite IH. cbn [rev app].
      destruct (split_char 10 t) eqn:E; [exfalso; eapply split_char_nonempty; eauto | reflexivity].
    + rewrite IH. destruct (split_char 10 t) as [|h r] eqn:E; [exfalso; eapply split_char_nonempty; eauto|].
      cbn [rev]. now rewrite <- app_assoc.
Qed.

Theorem lines_spec this : lines this = spec_lines this.
Proof.
  unfold lines, string_lines. rewrite lines_go_spec, spec_lines_unfold. cbn [rev app].
  destruct (split_char 10 this) eqn:E; [exfalso; eapply split_char_nonempty; eauto | reflexivity].
Qed.

(* meaning of the pieces: joining them with the newline character gives the string back *)
Theorem split_char_join c s : spec_join [c] (split_char c s) = s.
Proof.
  induction s as [|x t IH]; [reflexivity|]. cbn [split_char]. destruct (N.eqb_spec x c) as [->|N].
  - rewrite spec_join_cons by apply split_char_nonempty. now rewrite IH.
  - destruct (split_char c t) as [|h r] eqn:E; [exfalso; eapply split_char_nonempty; eauto|].
    cbn [spec_join] in *. rewrite <- IH. reflexivity.
Qed.
Theorem split_char_free c s : Forall (fun p => ~ In c p) (split_char c s).
Proof.
  induction s as [|x t IH]; cbn [split_char]; [repeat constructor; auto|]. destruct (N.eqb_spec x c) as [->|N].
  - constructor; auto.
  - destruct (split_char c t) as [|h r]; [repeat constructor; intros [H|[]]; congruence|].
    inversion IH; subst. constructor; [|assumption]. intros [H|H]; [congruence | contradiction].
Qed.
