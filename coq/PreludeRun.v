(* MODEL glue (definitions only): one dynamically typed entry point over the
   prelude model (Prelude.v) and one over the specification (PreludeSpec.v), so
   that the extracted driver needs two roots and no name of the model can
   clash with another extracted module.  Fuel is the bound the theorems of
   PreludeProps.v prove sufficient. *)
From Coq Require Import ZArith NArith List Bool.
From Garden Require Import Base.Int64 Prelude PreludeSpec.
Import ListNotations.
Open Scope Z_scope.

Inductive pval : Type :=
| PInt (z : Z)
| PStr (s : list N)
| PBool (b : bool)
| PList (l : list pval)
| PTup (a b : pval)
| PSome (v : pval)
| PNone.

Inductive pout : Type :=
| POk (v : pval)
| PExn
| POutOfFuel
| PBadArgs.

Inductive pfn : Type :=
| PF_starts_with | PF_ends_with | PF_replace | PF_split_once | PF_join | PF_contains
| PF_trim_left | PF_trim_right | PF_trim | PF_strip_suffix | PF_strip_prefix | PF_split
| PF_chars | PF_len | PF_lines | PF_substring | PF_index_of
| PF_range | PF_concat | PF_list_contains | PF_get | PF_list_len | PF_first | PF_last
| PF_filter | PF_map | PF_list_index_of | PF_slice | PF_enumerate | PF_sort_nums | PF_max | PF_min.

Definition of_res {A : Type} (f : A -> pval) (r : res A) : pout :=
  match r with
  | Ok a => POk (f a)
  | Exn => PExn
  | OutOfFuel => POutOfFuel
  end.
Definition p_strs (l : list (list N)) : pval := PList (map PStr l).
Definition p_ints (l : list Z) : pval := PList (map PInt l).
Definition p_opt {A : Type} (f : A -> pval) (o : option A) : pval :=
  match o with
  | Some a => PSome (f a)
  | None => PNone
  end.
Definition p_pair (p : list N * list N) : pval := PTup (PStr (fst p)) (PStr (snd p)).
Definition p_enum (l : list (Z * Z)) : pval := PList (map (fun p => PTup (PInt (fst p)) (PInt (snd p))) l).

Definition ints_of (l : list pval) : option (list Z) :=
  fold_right (fun v acc => match v, acc with PInt z, Some r => Some (z :: r) | _, _ => None end) (Some []) l.
Definition strs_of (l : list pval) : option (list (list N)) :=
  fold_right (fun v acc => match v, acc with PStr s, Some r => Some (s :: r) | _, _ => None end) (Some []) l.

(* the closures the dynamic check passes to map / filter *)
Definition mapf (c : Z) : Z -> Z :=
  if c =? 0 then (fun x => iadd x 1)          (* fun(x: Int) { x + 1 } *)
  else (fun x => isub 0 x).                   (* fun(x: Int) { 0 - x } *)
Definition filtf (c : Z) : Z -> bool :=
  if c =? 0 then (fun x => x >? 0)            (* fun(x: Int) { x > 0 } *)
  else if c =? 1 then Z.even                  (* fun(x: Int) { x % 2 == 0 } *)
  else if c =? 2 then (fun _ => true)         (* fun(_) { True } *)
  else (fun _ => false).                      (* fun(_) { False } *)

Definition with_ints (l : list pval) (k : list Z -> pout) : pout :=
  match ints_of l with Some z => k z | None => PBadArgs end.

(* ---- the model of the code ------------------------------------------------ *)
Definition code1 (fn : pfn) (x : pval) : pout :=
  match x with
  | PStr a =>
    match fn with
    | PF_trim_left => of_res PStr (trim_left (fuel_of_string a) a)
    | PF_trim_right => of_res PStr (trim_right (fuel_of_string a) a)
    | PF_trim => of_res PStr (trim (fuel_of_string a) a)
    | PF_chars => POk (p_strs (chars a))
    | PF_len => POk (PInt (len a))
    | PF_lines => POk (p_strs (lines a))
    | _ => PBadArgs
    end
  | PList l => with_ints l (fun l =>
    match fn with
    | PF_list_len => POk (PInt (llen l))
    | PF_first => POk (p_opt PInt (first l))
    | PF_last => POk (p_opt PInt (last l))
    | PF_enumerate => POk (p_enum (enumerate l))
    | PF_sort_nums => of_res p_ints (sort_nums (fuel_of_list l) l)
    | _ => PBadArgs
    end)
  | _ => PBadArgs
  end.

Definition code2 (fn : pfn) (x y : pval) : pout :=
  match x, y with
  | PStr a, PStr b =>
    match fn with
    | PF_starts_with => POk (PBool (starts_with a b))
    | PF_ends_with => POk (PBool (ends_with a b))
    | PF_split_once => of_res (p_opt p_pair) (split_once a b)
    | PF_contains => of_res PBool (contains (fuel_of_string a) a b)
    | PF_strip_suffix => of_res PStr (strip_suffix a b)
    | PF_strip_prefix => of_res PStr (strip_prefix a b)
    | PF_split => of_res p_strs (split (fuel_of_string a) a b)
    | PF_index_of => POk (p_opt PInt (index_of a b))
    | _ => PBadArgs
    end
  | PStr a, PList l =>
    match fn, strs_of l with
    | PF_join, Some l => POk (PStr (join a l))
    | _, _ => PBadArgs
    end
  | PList l, PInt i => with_ints l (fun l =>
    match fn with
    | PF_list_contains => POk (PBool (lcontains Z.eqb l i))
    | PF_get => POk (p_opt PInt (get l i))
    | PF_list_index_of => POk (p_opt PInt (lindex_of Z.eqb l i))
    | PF_filter => POk (p_ints (filter l (filtf i)))
    | PF_map => POk (p_ints (map_ l (mapf i)))
    | _ => PBadArgs
    end)
  | PList l, PList m => with_ints l (fun l => with_ints m (fun m =>
    match fn with
    | PF_concat => POk (p_ints (concat l m))
    | _ => PBadArgs
    end))
  | PInt i, PInt j =>
    match fn with
    | PF_range => of_res p_ints (range (fuel_of_range i j) i j)
    | PF_max => POk (PInt (max i j))
    | PF_min => POk (PInt (min i j))
    | _ => PBadArgs
    end
  | _, _ => PBadArgs
  end.

Definition code3 (fn : pfn) (x y z : pval) : pout :=
  match x, y, z with
  | PStr a, PStr b, PStr c =>
    match fn with
    | PF_replace => of_res PStr (replace (fuel_of_string a) a b c)
    | _ => PBadArgs
    end
  | PStr a, PInt i, PInt j =>
    match fn with
    | PF_substring => of_res PStr (substring a i j)
    | _ => PBadArgs
    end
  | PList l, PInt i, PInt j => with_ints l (fun l =>
    match fn with
    | PF_slice => POk (p_ints (slice l i j))
    | _ => PBadArgs
    end)
  | _, _, _ => PBadArgs
  end.

Definition prelude_code (fn : pfn) (args : list pval) : pout :=
  match args with
  | [x] => code1 fn x
  | [x; y] => code2 fn x y
  | [x; y; z] => code3 fn x y z
  | _ => PBadArgs
  end.

(* ---- the specification ---------------------------------------------------- *)
Definition spec1 (fn : pfn) (x : pval) : pout :=
  match x with
  | PStr a =>
    match fn with
    | PF_trim_left => POk (PStr (spec_trim_left a))
    | PF_trim_right => POk (PStr (spec_trim_right a))
    | PF_trim => POk (PStr (spec_trim a))
    | PF_chars => POk (p_strs (spec_chars a))
    | PF_len => POk (PInt (spec_len a))
    | PF_lines => POk (p_strs (spec_lines a))
    | _ => PBadArgs
    end
  | PList l => with_ints l (fun l =>
    match fn with
    | PF_list_len => POk (PInt (spec_llen l))
    | PF_first => POk (p_opt PInt (spec_first l))
    | PF_last => POk (p_opt PInt (spec_last l))
    | PF_enumerate => POk (p_enum (spec_enumerate l))
    | PF_sort_nums => POk (p_ints (spec_sort l))
    | _ => PBadArgs
    end)
  | _ => PBadArgs
  end.

Definition spec2 (fn : pfn) (x y : pval) : pout :=
  match x, y with
  | PStr a, PStr b =>
    match fn with
    | PF_starts_with => POk (PBool (spec_starts_with a b))
    | PF_ends_with => POk (PBool (spec_ends_with a b))
    | PF_split_once => POk (p_opt p_pair (spec_split_once a b))
    | PF_contains => POk (PBool (spec_contains a b))
    | PF_strip_suffix => POk (PStr (spec_strip_suffix a b))
    | PF_strip_prefix => POk (PStr (spec_strip_prefix a b))
    | PF_split => POk (p_strs (spec_split a b))
    | PF_index_of => POk (p_opt PInt (spec_index_of a b))
    | _ => PBadArgs
    end
  | PStr a, PList l =>
    match fn, strs_of l with
    | PF_join, Some l => POk (PStr (spec_join a l))
    | _, _ => PBadArgs
    end
  | PList l, PInt i => with_ints l (fun l =>
    match fn with
    | PF_list_contains => POk (PBool (spec_lcontains Z.eqb l i))
    | PF_get => POk (p_opt PInt (spec_get l i))
    | PF_list_index_of => POk (p_opt PInt (spec_lindex_of Z.eqb l i))
    | PF_filter => POk (p_ints (spec_filter l (filtf i)))
    | PF_map => POk (p_ints (spec_map l (mapf i)))
    | _ => PBadArgs
    end)
  | PList l, PList m => with_ints l (fun l => with_ints m (fun m =>
    match fn with
    | PF_concat => POk (p_ints (spec_concat l m))
    | _ => PBadArgs
    end))
  | PInt i, PInt j =>
    match fn with
    | PF_range => POk (p_ints (spec_range i j))
    | PF_max => POk (PInt (spec_max i j))
    | PF_min => POk (PInt (spec_min i j))
    | _ => PBadArgs
    end
  | _, _ => PBadArgs
  end.

Definition spec3 (fn : pfn) (x y z : pval) : pout :=
  match x, y, z with
  | PStr a, PStr b, PStr c =>
    match fn with
    | PF_replace => POk (PStr (spec_replace a b c))
    | _ => PBadArgs
    end
  | PStr a, PInt i, PInt j =>
    match fn with
    | PF_substring => match spec_substring a i j with Some r => POk (PStr r) | None => PExn end
    | _ => PBadArgs
    end
  | PList l, PInt i, PInt j => with_ints l (fun l =>
    match fn with
    | PF_slice => POk (p_ints (spec_slice l i j))
    | _ => PBadArgs
    end)
  | _, _, _ => PBadArgs
  end.

Definition prelude_spec (fn : pfn) (args : list pval) : pout :=
  match args with
  | [x] => spec1 fn x
  | [x; y] => spec2 fn x y
  | [x; y; z] => spec3 fn x y z
  | _ => PBadArgs
  end.
