(* Reference specifications of the prelude string and list functions, written
   against the Coq standard library on `list N` (strings as lists of Unicode
   scalar values) and `list Z`, independently of the code's loops.

   Each function has (a) a declarative meaning as a Prop where that is the
   natural reading (prefix, first occurrence, sorted permutation, ...) and
   (b) an executable specification `spec_f` in stdlib style (firstn / skipn /
   find / seq / filter / map / app ...), so that the theorems can say
   `f fuel args = Ok (spec_f args)` and the dynamic check can run it.
   PreludeProps.v proves that the executable specifications have the
   declarative meaning.

   Decisions where the documentation is silent (recorded for review):
   - split on the empty needle: the characters of the string
     (join "" (split s "") = s still holds); "".split(x) = [] as documented.
   - replace of the empty needle: the string unchanged.
   - trim / trim_left / trim_right remove U+0020 only, as every example and test
     in the prelude does (the doc comment says "whitespace").
   - substring(from, to) raises unless 0 <= from <= to; `to` beyond the end is
     clamped, as documented ("abc".substring(1, 99) = "bc").
   - lines: Rust's str::lines (split at "\n", one "\r" before the "\n" is
     removed, no final empty line). *)
From Coq Require Import ZArith NArith List Bool Sorting.Sorted Sorting.Permutation.
Import ListNotations.
Open Scope Z_scope.

Definition sstr := list N.

(* ---- declarative vocabulary --------------------------------------------- *)
Definition is_prefix (p s : sstr) : Prop := exists t, s = p ++ t.
Definition is_suffix (p s : sstr) : Prop := exists t, s = t ++ p.
(* `n` occurs in `s` at character offset i *)
Definition occurs_at (n s : sstr) (i : nat) : Prop := exists a b, s = a ++ n ++ b /\ length a = i.
Definition occurs (n s : sstr) : Prop := exists i, occurs_at n s i.
Definition first_occurrence (n s : sstr) (i : nat) : Prop :=
  occurs_at n s i /\ forall j, occurs_at n s j -> (i <= j)%nat.

(* ---- executable specifications: strings ---------------------------------- *)
Definition seqb (a b : sstr) : bool := if list_eq_dec N.eq_dec a b then true else false.

Definition spec_starts_with (s p : sstr) : bool := seqb (firstn (length p) s) p.
Definition spec_ends_with (s p : sstr) : bool :=
  Nat.leb (length p) (length s) && seqb (skipn (length s - length p) s) p.

(* the characters of s from offset i on start with n *)
Definition matches_at (n s : sstr) (i : nat) : bool := seqb (firstn (length n) (skipn i s)) n.
(* least offset at which n occurs *)
Definition spec_find (n s : sstr) : option nat := find (matches_at n s) (seq 0 (S (length s))).

Definition spec_index_of (s n : sstr) : option Z := option_map Z.of_nat (spec_find n s).
Definition spec_contains (s n : sstr) : bool := existsb (matches_at n s) (seq 0 (S (length s))).
Definition spec_split_once (s n : sstr) : option (sstr * sstr) :=
  match spec_find n s with
  | None => None
  | Some i => Some (firstn i s, skipn (i + length n) s)
  end.

(* join: items separated by sep *)
Definition spec_join (sep : sstr) (items : list sstr) : sstr :=
  match items with
  | [] => []
  | x :: r => x ++ flat_map (fun y => sep ++ y) r
  end.

(* Leftmost, non-overlapping decomposition of s at the occurrences of a
   non-empty needle: the relation the documentation of `split` describes. *)
Inductive Split (n : sstr) : sstr -> list sstr -> Prop :=
| Split_last : forall s, ~ occurs n s -> Split n s [s]
| Split_cons : forall s i rest, first_occurrence n s i -> Split n (skipn (i + length n) s) rest ->
    Split n s (firstn i s :: rest).

Fixpoint split_std (fuel : nat) (n s : sstr) : list sstr :=
  match fuel with
  | O => [s]
  | S f => match spec_find n s with
           | None => [s]
           | Some i => firstn i s :: split_std f n (skipn (i + length n) s)
           end
  end.
Definition spec_chars (s : sstr) : list sstr := map (fun c => [c]) s.
Definition spec_split (s n : sstr) : list sstr :=
  match s, n with
  | [], _ => []
  | _, [] => spec_chars s
  | _, _ => split_std (length s) n s
  end.
Definition spec_replace (s before after : sstr) : sstr :=
  match before with
  | [] => s
  | _ => spec_join after (split_std (length s) before s)
  end.

Fixpoint drop_spaces (s : sstr) : sstr :=
  match s with
  | 32%N :: t => drop_spaces t
  | _ => s
  end.
Definition spec_trim_left (s : sstr) : sstr := drop_spaces s.
Definition spec_trim_right (s : sstr) : sstr := rev (drop_spaces (rev s)).
Definition spec_trim (s : sstr) : sstr := spec_trim_right (spec_trim_left s).

Definition spec_strip_prefix (s p : sstr) : sstr := if spec_starts_with s p then skipn (length p) s else s.
Definition spec_strip_suffix (s p : sstr) : sstr :=
  if spec_ends_with s p then firstn (length s - length p) s else s.

Definition spec_len (s : sstr) : Z := Z.of_nat (length s).

(* the items of l whose index k satisfies lo <= k < hi *)
Fixpoint window_from {A : Type} (k : Z) (l : list A) (lo hi : Z) : list A :=
  match l with
  | [] => []
  | x :: t => if (lo <=? k) && (k <? hi) then x :: window_from (k + 1) t lo hi else window_from (k + 1) t lo hi
  end.
Definition window {A : Type} (l : list A) (lo hi : Z) : list A := window_from 0 l lo hi.

(* None = raises *)
Definition spec_substring (s : sstr) (from to : Z) : option sstr :=
  if (0 <=? from) && (from <=? to) then Some (window s from to) else None.

(* pieces between occurrences of the character c (never empty) *)
Fixpoint split_char (c : N) (s : sstr) : list sstr :=
  match s with
  | [] => [[]]
  | x :: t => if N.eqb x c then [] :: split_char c t
              else match split_char c t with
                   | h :: r => (x :: h) :: r
                   | [] => [[x]]
                   end
  end.
Definition strip_cr (l : sstr) : sstr :=
  match rev l with
  | 13%N :: r => rev r
  | _ => l
  end.
Definition spec_lines (s : sstr) : list sstr :=
  let parts := split_char 10 s in
  let final := last parts [] in
  map strip_cr (removelast parts) ++ (match final with [] => [] | _ => [final] end).

(* ---- executable specifications: lists ------------------------------------ *)
Definition spec_range (i j : Z) : list Z := map (fun k => i + Z.of_nat k) (seq 0 (Z.to_nat (j - i))).
Definition spec_concat {A : Type} (a b : list A) : list A := a ++ b.
Definition spec_lcontains {A : Type} (eqb : A -> A -> bool) (l : list A) (x : A) : bool := existsb (fun y => eqb y x) l.
Definition spec_get {A : Type} (l : list A) (i : Z) : option A :=
  if (0 <=? i) && (i <? Z.of_nat (length l)) then nth_error l (Z.to_nat i) else None.
Definition spec_llen {A : Type} (l : list A) : Z := Z.of_nat (length l).
Definition spec_first {A : Type} (l : list A) : option A := hd_error l.
Definition spec_last {A : Type} (l : list A) : option A := hd_error (rev l).
Definition spec_filter {A : Type} (l : list A) (f : A -> bool) : list A := List.filter f l.
Definition spec_map {A B : Type} (l : list A) (f : A -> B) : list B := List.map f l.
Definition spec_enumerate {A : Type} (l : list A) : list (Z * A) :=
  combine (map Z.of_nat (seq 0 (length l))) l.
Fixpoint first_index {A : Type} (p : A -> bool) (l : list A) : option nat :=
  match l with
  | [] => None
  | x :: t => if p x then Some O else option_map S (first_index p t)
  end.
Definition spec_lindex_of {A : Type} (eqb : A -> A -> bool) (l : list A) (x : A) : option Z :=
  option_map Z.of_nat (first_index (fun y => eqb y x) l).
Definition spec_slice {A : Type} (l : list A) (i j : Z) : list A :=
  window l i (if j <? 0 then Z.of_nat (length l) + j else j).

(* sort_nums: any result that is a sorted permutation (it is unique) *)
Definition is_sort_of (items result : list Z) : Prop := Sorted Z.le result /\ Permutation items result.
(* executable: insertion sort *)
Fixpoint insert_sorted (x : Z) (l : list Z) : list Z :=
  match l with
  | [] => [x]
  | y :: t => if x <=? y then x :: l else y :: insert_sorted x t
  end.
Definition spec_sort (l : list Z) : list Z := fold_right insert_sorted [] l.

Definition spec_max (x y : Z) : Z := Z.max x y.
Definition spec_min (x y : Z) : Z := Z.min x y.
