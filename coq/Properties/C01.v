(* C01 -- Front end never crashes on any source text: THE LEXER PART.
   Only statements here; proofs are in LexProps.v, the model is Lex.v
   (src/parser/lex.rs `lex_between`, every `&s[a..b]` checked against char
   boundaries, `from_offset` checked against the length).

   The parser / checker / formatter part of C01 is NOT proved here: it is
   covered by search only (tools/props/C01.py). *)
From Coq Require Import NArith Bool List.
From Garden Require Import Base.Utf Lex LexProps.
Import ListNotations.
Open Scope N_scope.

(* For ALL sources (any list of scalar values, any length) the lexer returns
   tokens, trailing comments and errors: no slice off a char boundary, no
   out-of-range line lookup, and the loop finishes within its fuel. *)
Theorem lex_total : forall src : list N, exists ts tr es, lex src = LexOk ts tr es.
Proof. exact lex_total_lemma. Qed.
Print Assumptions lex_total.

Theorem lex_never_panics : forall src : list N, lex src <> LexPanic /\ lex src <> LexOutOfFuel.
Proof. exact lex_no_panic_lemma. Qed.
Print Assumptions lex_never_panics.

(* Progress: one iteration of the lexer loop at a char boundary `blen p` of
   `p ++ s` with text left (`s <> []`) never panics and consumes a non-empty
   prefix of s (LexProps.step_ok); positions it builds are well-formed. *)
Theorem lex_step_progress : forall p s : list N, s <> [] ->
  step_ok (p ++ s) p s (lex_step cfg_fixed (p ++ s) (blen p)).
Proof. exact lex_step_ok. Qed.
Print Assumptions lex_step_progress.

(* Every token's text is non-empty and is exactly the source text between its
   start and end offsets (which therefore are char boundaries). *)
Theorem lex_tokens_nonempty : forall src ts tr es, lex src = LexOk ts tr es ->
  forall t, In t ts ->
    ttext t <> [] /\ slice src (start_offset (tpos t)) (end_offset (tpos t)) = Some (ttext t).
Proof. exact lex_token_text_lemma. Qed.
Print Assumptions lex_tokens_nonempty.

(* Non-vacuity: `let x = 1 é<U+00A0>"a<LF>€"` -- an unrecognised 2-byte char,
   2-byte whitespace and a multi-line string with a 3-byte char. *)
Example lex_total_example :
  exists ts es, lex sample_src = LexOk ts [] es /\
    tok_texts ts = [[108; 101; 116]; [120]; [61]; [49]; [34; 97; 10; 8364; 34]] /\
    map (fun t => pos_fields (tpos t)) ts =
      [[0; 3; 0; 0; 0; 3]; [4; 5; 0; 0; 4; 5]; [6; 7; 0; 0; 6; 7]; [8; 9; 0; 0; 8; 9]; [14; 21; 0; 1; 14; 4]] /\
    map (fun e => pos_fields (epos e)) es = [[10; 12; 0; 0; 10; 12]].
Proof. exact sample_lex. Qed.
Print Assumptions lex_total_example.

(* The code BEFORE fix-1 (cfg_orig: `offset += 1`, `&s[0..1]`) is refuted:
   `let x = 1 é` and `1<U+00A0>2` panic. *)
Theorem unfixed_lexer_panics :
  lex_with cfg_orig [108; 101; 116; 32; 120; 32; 61; 32; 49; 32; 233] = LexPanic /\
  lex_with cfg_orig [49; 160; 50] = LexPanic.
Proof. exact (conj orig_nonascii_panics orig_nbsp_panics). Qed.
Print Assumptions unfixed_lexer_panics.
