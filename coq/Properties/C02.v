(* C02 -- Evaluation ends in a value or a Garden error, never a crash.
   THIS FILE IS THE BUILT-IN ARGUMENT-TABLE PART ONLY: wrong-arity / wrong-typed calls
   to built-in functions and methods never index `arg_values` / `arg_positions` out of
   bounds.  The arithmetic part is Properties/C04.v (`int_binop_no_panic`,
   `assign_update_no_panic`); the machine-level part (value-stack discipline) and deep
   values are covered by search only in tools/props/C02.py.
   Only pinned statements; proofs are in SandboxProps.v.  `builtin_table` and
   `arity_fn` are GENERATED from src/eval.rs on every run (tools/gen_builtins.py). *)
From Coq Require Import NArith List String Bool.
From Garden Require Import Sandbox SandboxProps gen.Builtins.
From Garden Require Machine Session SessionProps Discipline Ref Refine RefineProps.
Import ListNotations.
Open Scope string_scope.

(* For every built-in arm of eval_built_in_call / eval_built_in_method_call: the arm
   calls `check_arity(.., N, arg_positions, arg_values)?;` as a top-level statement and
   every `arg_values[i]` / `arg_positions[i]` in the arm has a literal i < N and comes
   after that call (textual order = control-flow order for top-level statements). *)
Theorem builtin_index_guard : forall r, In r builtin_table -> index_guarded r = true.
Proof. exact builtin_index_guard_lemma. Qed.
Print Assumptions builtin_index_guard.

(* The same, unfolded. *)
Theorem builtin_index_guard_meaning :
  forall r u, In r builtin_table -> In u (r_uses r) ->
  exists a n i, r_arity r = Some a /\ a_expected a = Some n /\ a_toplevel a = true /\ a_propagated a = true /\
                u_index u = Some i /\ (i < n)%N /\ (a_off a < u_off u)%N.
Proof. exact builtin_index_guard_meaning_lemma. Qed.
Print Assumptions builtin_index_guard_meaning.

(* check_arity itself (model of its body; the translator checks the body still has that
   shape: `builtin_arity_fn_shape`) never indexes out of bounds when positions and values
   have the same length, which both call sites guarantee (one push to each per argument). *)
Theorem builtin_check_arity_no_panic :
  forall (P V : Type) expected (ps : list P) (vs : list V),
  List.length ps = List.length vs -> check_arity_model expected ps vs <> ArityPanic.
Proof. exact check_arity_no_panic. Qed.
Print Assumptions builtin_check_arity_no_panic.

Theorem builtin_arity_fn_shape : arity_fn_ok arity_fn = true.
Proof. exact arity_fn_shape_lemma. Qed.
Print Assumptions builtin_arity_fn_shape.

(* Table + check_arity: once the arity check of an arm has passed, every literal index
   used in that arm is in bounds in both vectors. *)
Theorem builtin_literal_index_in_bounds :
  forall r u, In r builtin_table -> In u (r_uses r) ->
  exists n i, u_index u = Some i /\
    forall (P V : Type) (ps : list P) (vs : list V),
      List.length ps = List.length vs -> check_arity_model (N.to_nat n) ps vs = ArityOk ->
      nth_error vs (N.to_nat i) <> None /\ nth_error ps (N.to_nat i) <> None.
Proof. exact builtin_literal_index_in_bounds_lemma. Qed.
Print Assumptions builtin_literal_index_in_bounds.

(* The arity each arm checks is the number of parameters of the Garden-side declaration
   (so the checker's view and the runtime's view of each built-in agree). *)
Theorem builtin_arity_matches_declaration :
  forall r, In r builtin_table -> arity_matches_declaration r = true.
Proof. exact arity_matches_declaration_lemma. Qed.
Print Assumptions builtin_arity_matches_declaration.

(* Non-vacuity: String::substring is in the table, checks arity 2 and indexes 0 and 1;
   the condition is falsifiable (the arm as it was before the fix: index 2 under arity 2). *)
Example builtin_index_guard_nonvacuous :
  (exists r, In r builtin_table /\ r_variant r = "StringSubstring" /\
             (exists a, r_arity r = Some a /\ a_expected a = Some 2%N) /\
             existsb (fun u => match u_index u with Some 1%N => true | _ => false end) (r_uses r) = true) /\
  index_guarded {| r_kind := KMethod; r_variant := "StringSubstring"; r_ns := "String"; r_name := "substring";
                   r_decl_params := Some 2%N;
                   r_arity := Some {| a_expected := Some 2%N; a_off := 14%N; a_toplevel := true;
                                      a_propagated := true; a_unique := true |};
                   r_uses := [ {| u_what := UPosition; u_index := Some 2%N; u_off := 1500%N |} ];
                   r_guard := None; r_effect := None; r_helper_effect := None; r_std_paths := [];
                   r_block_arm := true; r_shared_arm := false |} = false.
Proof. exact index_guard_nonvacuous_lemma. Qed.
Print Assumptions builtin_index_guard_nonvacuous.

(* ---- machine-level part: the evaluation loop itself never crashes ---------
   (proved in Discipline.v on the evaluator model Machine.v, for well-formed
   programs of the fragment Session.wf: everything of the modelled core
   language EXCEPT for / break / continue / closure literals -- `match` and
   `return` (anywhere, also in operand position) are included since the
   widening of Session.wf; the arithmetic part is ArithTables.no_panic_lemma, pinned in
   Properties/C04.v as int_binop_no_panic) *)
Theorem machine_step_never_crashes_partial : forall p,
  Session.wf_prog p = true -> Session.globals_ok p = true -> Session.globals_noint p = true ->
  forall s, SessionProps.stack_run (Machine.stack s) -> Machine.step p s <> Machine.Crashed.
Proof. intros p W G N. apply Discipline.machine_no_crash_lemma. repeat split; assumption. Qed.
Print Assumptions machine_step_never_crashes_partial.

Theorem machine_run_never_crashes_partial : forall p exprs,
  Session.wf_prog p = true -> Session.globals_ok p = true -> Session.globals_noint p = true ->
  Session.wf_all_used exprs = true ->
  forall n, Machine.run p n (Machine.init_state exprs None None) <> Machine.RCrashed.
Proof. intros p exprs W G N WE. apply Discipline.run_no_crash_lemma; [repeat split; assumption|exact WE]. Qed.
Print Assumptions machine_run_never_crashes_partial.

(* the widened fragment: `match` and `return` are well formed (Session.wf) *)
Example discipline_fragment_has_match_and_return :
  let mt u := {| Machine.used := u; Machine.pstart := 0%N; Machine.pend := 0%N |} in
  Session.wf_all_used
    [ Machine.EMatch (mt true) (Machine.EVar (mt true) 5%N)
        [ (6%N, (0, 0)%N, Some 7%N, [Machine.EInt (mt false) BinNums.Z0; Machine.EVar (mt true) 7%N]);
          (0%N, (0, 0)%N, None, [Machine.EReturn (mt true) (Some (Machine.EInt (mt true) BinNums.Z0))]) ];
      Machine.EBin (mt true) (Machine.BInt Arith.OAdd) (Machine.EInt (mt true) BinNums.Z0)
        (Machine.EReturn (mt true) None) ] = true /\
  Session.wf (Machine.EFor (mt true) 5%N (Machine.EVar (mt true) 6%N) []) = false /\
  Session.wf (Machine.EBreak (mt false)) = false.
Proof. repeat split; reflexivity. Qed.
Print Assumptions discipline_fragment_has_match_and_return.

(* For the constructs Session.wf still excludes (for, break / continue in
   statement position, closure literals and closure calls) crash-freedom is
   available on the runs the reference semantics covers: for every program of
   the refinement fragment (Refine.in_fragment, Properties/C05.v) on which
   Ref.v terminates with a value or a runtime error, the machine run never
   crashes and never leaves the model, WHATEVER the fuel.  (Missing for a full
   statement on that fragment: diverging runs, and states other than the
   initial one.) *)
Theorem machine_run_never_crashes_when_ref_terminates_partial : forall p fuel exprs r s',
  Refine.prog_good p = true ->
  forallb Refine.in_fragment exprs = true -> Refine.well_annotated_toplevel exprs = true ->
  Ref.ref_run p fuel exprs = (r, s') ->
  (exists v, r = Ref.Ok v) \/ (exists k, r = Ref.Ctl (Ref.CErr k)) ->
  forall n, Machine.run p n (Machine.init_state exprs None None) <> Machine.RCrashed /\
            Machine.run p n (Machine.init_state exprs None None) <> Machine.RUnsupported.
Proof. exact RefineProps.run_never_crashes_when_ref_terminates. Qed.
Print Assumptions machine_run_never_crashes_when_ref_terminates_partial.
