(* C03 -- Operator chains are left-associative with uniform precedence.
   `current_shape` and `op_table` are REGENERATED from src/parser.rs on every run. *)
From Coq Require Import ZArith NArith Bool List.
From Garden Require Import ParseExpr ParseExprProps gen.ParserShape ParseExprTie.
Import ListNotations.

(* the infix-operator arm of the expression loop has the proved shape *)
Theorem shape_is_good : arm_recognised = true /\ shape_eqb current_shape good_shape = true.
Proof. exact shape_is_good_lemma. Qed.
Print Assumptions shape_is_good.

(* 21 operators, one token each, no token twice: every operator goes through the same arm (uniform precedence) *)
Theorem op_table_ok : table_ok op_table = true.
Proof. exact op_table_ok_lemma. Qed.
Print Assumptions op_table_ok.

(* For chains of ANY length and ANY mix of operators, over any operands
   (literals, variables, parenthesised expressions):
     x1 op1 x2 op2 x3 ... opn xn   parses to   ((x1 op1 x2) op2 x3) ... opn xn *)
Theorem chain_left_assoc : forall x (rest : list (opk * pexpr)),
  is_operand x = true -> wf x = true ->
  Forall (fun oa => is_operand (snd oa) = true /\ wf (snd oa) = true) rest ->
  exists f0, forall f, f0 <= f ->
    parse current_shape f true (print x ++ flat rest) = Some (left_nest x rest, []).
Proof. rewrite current_is_good. exact chain_left_assoc. Qed.
Print Assumptions chain_left_assoc.

Theorem paren_overrides : forall x o1 y o2 z,
  is_operand x = true -> wf x = true -> wf y = true -> wf z = true -> is_operand z = true ->
  exists f0, forall f, f0 <= f ->
    parse current_shape f true (print x ++ TOp o1 :: TLP :: print y ++ TOp o2 :: print z ++ [TRP])
    = Some (PBin o1 x (PParen (PBin o2 y z)), []).
Proof. rewrite current_is_good. exact paren_overrides. Qed.
Print Assumptions paren_overrides.

(* so a chain EVALUATES as the left fold of its operators, whatever the operators mean *)
Theorem chain_eval : forall binop env rest x,
  ev binop env (left_nest x rest) =
  fold_left (fun acc oa => match acc, ev binop env (snd oa) with Some a, Some b => binop (fst oa) a b | _, _ => None end)
            rest (ev binop env x).
Proof. exact ev_left_nest. Qed.
Print Assumptions chain_eval.

(* the parser's answer is independent of the fuel that the executable model is run with *)
Theorem parse_deterministic : forall sh f f' a ts r r',
  parse sh f a ts = Some r -> parse sh f' a ts = Some r' -> r = r'.
Proof. exact parse_deterministic. Qed.
Print Assumptions parse_deterministic.

(* the code before the fix (recursive right operand + one rotation) mis-groups 10 - 1 - 1 - 1 *)
Theorem old_code_refuted :
  parse_top old_shape [TInt 10; TOp KSubtract; TInt 1; TOp KSubtract; TInt 1; TOp KSubtract; TInt 1]
  = Some (PBin KSubtract (PBin KSubtract (PInt 10) (PBin KSubtract (PInt 1) (PInt 1))) (PInt 1)).
Proof. exact old_shape_refuted. Qed.
Print Assumptions old_code_refuted.

Example chain_example :
  parse_top current_shape [TInt 10; TOp KSubtract; TInt 1; TOp KMultiply; TLP; TVar 3; TOp KAdd; TInt 2; TRP; TOp KLessThan; TInt 1]
  = Some (PBin KLessThan (PBin KMultiply (PBin KSubtract (PInt 10) (PInt 1)) (PParen (PBin KAdd (PVar 3) (PInt 2)))) (PInt 1)).
Proof. vm_compute. reflexivity. Qed.
Print Assumptions chain_example.
