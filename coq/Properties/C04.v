(* C04 -- Integer operators follow the documented arithmetic.
   Only statements here; proofs are in ArithProps.v / ArithTables.v.
   `int_arm` / `upd_arm` are GENERATED from eval.rs on every run. *)
From Coq Require Import ZArith Bool List.
From Garden Require Import Base.Int64 Arith ArithSpec ArithProps ArithTables gen.Tables.
Open Scope Z_scope.

(* For all i64 pairs and both overflow-check modes of the Rust build, every
   integer operator arm of eval.rs computes exactly the specification
   (ArithSpec.spec): + - * wrap; / truncates and raises on 0 and MIN/-1; % is
   the Euclidean remainder and raises on 0; ** is exact and raises on a
   negative exponent or an unrepresentable result; comparisons are the
   integer order. *)
Theorem int_binop_spec : forall oc o a b, in64 a = true -> in64 b = true ->
  arm_sem oc (int_arm o) a b = spec o a b.
Proof. exact int_binop_spec_lemma. Qed.
Print Assumptions int_binop_spec.

(* `x += e` / `x -= e` compute what `x = x + e` / `x = x - e` compute. *)
Theorem assign_update_matches_assign : forall oc u a b, in64 a = true -> in64 b = true ->
  arm_sem oc (upd_arm u) a b = arm_sem oc (int_arm (upd_as_binop u)) a b.
Proof. exact upd_spec_lemma. Qed.
Print Assumptions assign_update_matches_assign.

Theorem int_binop_no_panic : forall oc o a b, in64 a = true -> in64 b = true ->
  arm_sem oc (int_arm o) a b <> Panic.
Proof. exact no_panic_lemma. Qed.
Print Assumptions int_binop_no_panic.

Theorem assign_update_no_panic : forall oc u a b, in64 a = true -> in64 b = true ->
  arm_sem oc (upd_arm u) a b <> Panic.
Proof. exact upd_no_panic_lemma. Qed.
Print Assumptions assign_update_no_panic.

(* Every integer result is again a 64-bit integer. *)
Theorem results_in_range : forall oc o a b z, in64 a = true -> in64 b = true ->
  arm_sem oc (int_arm o) a b = Val z -> in64 z = true.
Proof. exact results_in_range_lemma. Qed.
Print Assumptions results_in_range.

(* The operands really are the two popped Int payloads (translator fact). *)
Theorem operands_ok : int_operands_ok = true.
Proof. exact operands_ok_lemma. Qed.
Print Assumptions operands_ok.

(* What the pieces of the specification mean, so that `spec` reads as the
   property text: *)
Theorem wrap64_is_twos_complement : forall z, in64 (wrap64 z) = true /\ exists k, wrap64 z = z + k * 2 ^ 64.
Proof. intro z; split; [apply wrap64_in | apply wrap64_congr]. Qed.
Print Assumptions wrap64_is_twos_complement.

Theorem rem_euclid_is_euclidean : forall a b, b <> 0 ->
  0 <= rem_euclid a b < Z.abs b /\ exists q, a = b * q + rem_euclid a b.
Proof. intros a b H; split; [now apply rem_euclid_bound | now apply rem_euclid_eq]. Qed.
Print Assumptions rem_euclid_is_euclidean.

Theorem division_overflows_only_at_min_neg1 : forall a b, in64 a = true -> in64 b = true -> b <> 0 ->
  (in64 (Z.quot a b) = false <-> (a = min64 /\ b = -1)).
Proof.
  intros a b Ha Hb H0; split.
  - intros Hf. destruct (Z.eq_dec a min64) as [->|Ha']; destruct (Z.eq_dec b (-1)) as [->|Hb']; auto;
      rewrite quot_in64 in Hf by (auto; tauto); discriminate.
  - intros [-> ->]. reflexivity.
Qed.
Print Assumptions division_overflows_only_at_min_neg1.

(* The executable form of the specification used by the differential check. *)
Theorem spec_exec_is_spec : forall o a b, spec_exec o a b = spec o a b.
Proof. exact spec_exec_eq. Qed.
Print Assumptions spec_exec_is_spec.

(* Non-vacuity / documented examples (website/operator:*.md). *)
Example doc_examples :
  spec ODiv 7 2 = Val 3 /\ spec ODiv (-7) 2 = Val (-3) /\ spec OMod (-7) 2 = Val 1 /\
  spec OMod 7 (-2) = Val 1 /\ spec OPow 2 10 = Val 1024 /\ spec OPow 2 63 = Exn /\
  spec OAdd max64 1 = Val min64 /\ spec ODiv min64 (-1) = Exn /\ spec OMod min64 (-1) = Val 0 /\
  spec_exec OPow (-1) 5000000001 = Val (-1).
Proof. vm_compute. repeat split. Qed.
Print Assumptions doc_examples.
